import props


def runs(tier, seed, replay):
    if replay:
        return props.replay_run(replay)
    n = 900 if tier == "thorough" else 400
    r = []
    # iterator correspondence (hook H7) in both build profiles: with overflow checks / debug assertions
    # (dev) and with wrapping usize arithmetic (release)
    r.append({"args": ["c09iter", "--seed", str(seed), "--tier", tier]})
    r.append({"args": ["c09iter", "--seed", str(seed), "--tier", tier], "profile": "release"})
    # every sampler run is a different exploration (hash-set order, thread RNG): the request stream is
    # executed in the dev profile (debug assertions of the sampler enabled) and again, with another
    # seed for the generated inputs, in the release profile
    r.append({"args": ["c09", "--seed", str(seed), "--tier", tier, "--count", str(n)], "timeout": 6000})
    r.append({"args": ["c09", "--seed", str(seed + 1000), "--tier", tier, "--count", str(n)],
              "profile": "release", "timeout": 6000})
    return r


CONFIG = {
    "runs": runs,
    "status": "PARTIAL by design. "
              "FULL (Coq, Props/C09.v): (1) the iterator every stage relies on - C09_titer: for 1 <= t <= m the model of "
              "TIndicesIter::new(m,t) (carry/repair loop, checked Vec accesses, usize subtraction with and without overflow checks) "
              "yields exactly dec_tuples m t 0 then None, no panic; C09_titer_spec + C09_titer_nodup: that list is every strictly "
              "decreasing t-tuple of indices below m, each exactly once; C09_titer_t0 (t = 0: one empty tuple); "
              "C09_titer_t_above_m_checked (t > m with overflow checks: the out-of-range tuple [t-1..0], then a panic; release: "
              "t >= m+2 does not stop - bounded Example, confirmed on the code; every caller clamps with min(t,len)); C09_tinter / "
              "C09_tinter_covers: TInteractionIter over a literal slice outputs every set of t distinct literals of the slice; "
              "(2) the result checker - C09_twise_ok_sound_complete: twise_ok C n t S = true <-> every configuration of S is a member "
              "of Models C n (complete, in feature order, a model) and every valid interaction (min(t,n) literals over distinct features "
              "of 1..n contained in some model, any order) is contained in some configuration of S. "
              "PARTIAL: the sampling pipeline (~2000 lines: two merger families, hash-set iteration, thread RNG, trimming) is NOT modelled "
              "step by step. Proved over abstract literal lists with the C03 SAT model as exact oracle: C09_cover_step (+ _root, _subroot: "
              "a cover_with_caching step keeps every configuration extendable to a model of the (sub-)root, covers an extendable interaction, "
              "never loses coverage), C09_cached_call_is_fresh (the cached-state SAT call of cover() equals a fresh call on the union), "
              "C09_complete_root (feature-by-feature completion with SAT checks yields a model containing the partial configuration). "
              "NOT proved (documented statements only, Proofs/C09Pipeline.v): or-merge, and-zip, trim, their composition, and the whole "
              "fitness-guided variant. The tie to the code for the pipeline is its POST-CONDITION only: every recorded real run "
              "(plain via Ddnnf::sample_t_wise, plain and fitness via the stream command) is judged by the extracted twise_ok on the dumped "
              "circuit and independently by a brute force on the source truth table. Finding K11: the fitness variant does not cover the "
              "min(t,n)-interactions when t exceeds the number of features",
    "assumptions": [
        "the pipeline theorems are about abstract steps (Model/TwiseSteps.v), not about the Rust control flow; no theorem states that sample_t_wise returns a covering sample - each run is checked instead",
        "each run of the sampler depends on hash-set iteration order and the thread RNG: repeated runs are distinct explorations, not reproductions; a violation is kept as a replay case block (the recorded sample), not as a seed",
        "valid interactions are clamped to min(t,n) literals as the plain sampler does; under the literal reading (exactly t literals) coverage is vacuous for t > n",
        "input space: C01 input space (exhaustive functions over 1..3 features (+ a 1/16 subsample over 4 features, thorough) with 0..2 unmentioned features, random CNFs; d4 and c2d) restricted to n <= 14; t in 1..3 quick / 1..5 thorough, clamped to 3 for n > 8 and to 2 for n > 12; fitness vectors integer-valued with ties and negative values",
        "iterator correspondence needs hook H7 (repo_patches/H7-titer.patch: verif_t_indices / verif_t_interactions); without the hook in the ddnnife sources the harness is built against, the c09iter run records 'hook absent' (STAT c09_titer_hook_absent) and only the theorems and the indirect evidence of the sampler runs remain",
        "WFQ of the loaded vector (hypothesis of the root/sub-root instantiations) is discharged per input by check_wf in C01/C03, not here",
    ],
}
