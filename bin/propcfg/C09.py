import props


def runs(tier, seed, replay):
    if replay:
        return props.replay_run(replay)
    n = 900 if tier == "thorough" else 400
    r = []
    # iterator correspondence (hook H7) in both build profiles: with overflow checks / debug assertions
    # (dev) and with wrapping usize arithmetic (release)
    r.append({"args": ["c09iter", "--seed", str(seed), "--tier", tier]})
    r.append({"args": ["c09iter", "--seed", str(seed), "--tier", tier], "profile": "release"})
    # every sampler run is a different exploration (hash-set order, thread RNG): the request stream is
    # executed in the dev profile (debug assertions of the sampler enabled) and again, with another
    # seed for the generated inputs, in the release profile
    r.append({"args": ["c09", "--seed", str(seed), "--tier", tier, "--count", str(n)], "timeout": 6000})
    r.append({"args": ["c09", "--seed", str(seed + 1000), "--tier", tier, "--count", str(n)],
              "profile": "release", "timeout": 6000})
    return r


CONFIG = {
    "runs": runs,
    "status": "FULL for the plain sampler (Ddnnf::sample_t_wise, every t) and for the fitness-guided sampler (ExtendedDdnnf::sample_t_wise) "
              "for t <= n (the whole property: for t > n there is no set of t literals over distinct features, coverage is vacuous; what the fitness variant does with min(t,n) there is an OBSERVATION, former K11, withdrawn as a finding because the oracle demanded more than the property states). K36 (panic on a repeated child) is repaired by F13 "
              "(children.iter().unique() in remove_unneeded): the theorems carry no hypothesis on the child lists any more. "
              "FULL (Coq, Props/C09.v): (0) C09_sample_t_wise_covers - for every WFQ circuit C over n >= 1 features with root_count > 0, every t, EVERY order oracle that returns permutations (ord_int: "
              "iteration order of the HashSet of cross interactions per ZippingMerger::merge call; ord_sort: order of equally long samples "
              "after sort_unstable in merge_all; ord_shuf: the shuffle of literals_to_resample) and EVERY trim choice (trim_pick: which "
              "configurations trim_and_resample removes - the f64 ranks of calc_stats are abstracted by this oracle, coverage is proved for "
              "any subset), the executable model of the whole pipeline (Model/TwiseCfg.v, TwiseMerge.v, TwisePipeline.v: Config/Sample as "
              "data with the cached SAT mark vectors and the complete flag, Sample::from_literal, Empty/Void/ResultWithSample, "
              "TWiseSampler::sample / partial_sample / sample_node / remove_unneeded, ZippingMerger (zip_samples, generate_(self_)interactions, "
              "merge, merge_all), SimilarityMerger (candidates, max_by_key with last-maximum ties, is_t_wise_covered_by), cover / "
              "cover_with_caching / cover_with_caching_twise, trim_and_resample, complete_partial_configs, every SAT call = Query.sat_propagate "
              "on the configuration's cached state) does not panic and returns ResultWithSample S with twise_ok C n t S = true; "
              "C09_sample_t_wise_sound_complete: equivalently every configuration is a member of Models C n and every valid interaction of "
              "min(t,n) literals is contained in some configuration. Invariant per REACHABLE node i (Proofs/TwiseNode.v NodeInv, Proofs/TwiseReach.v; Reach = the root and the children of reachable nodes with a non-zero count; the cached SAT calls go through the core shortcut of sat_propagate, which is relative to the root and since F22 ignores dead branches - it is exact for live literals, i.e. at reachable nodes; for EVERY node, reachable or not, the result is Void exactly when the count is 0, so nothing computed inside a dead branch reaches the root): the partial sample "
              "consists of well-shaped configurations over vars(i) that are valid at i (count of i under the configuration positive), whose "
              "cached mark vector is the exact C03 propagation state of a subset (all, if flagged complete) of their literals, and covers "
              "every valid interaction of min(t,|vars(i)|) literals over vars(i); And: zip keeps every child configuration, the cross "
              "interactions are exactly the missing ones, each is valid by decomposability (no SAT test needed before a new configuration "
              "is created); Or: smoothness gives equal variable sets, a candidate is dropped only if all its min(t,len)-subsets are covered. "
              "C09_shuffle_irrelevant: the thread-RNG shuffle in is_t_wise_covered_by cannot change its answer (not an oracle). "
              "C09_tints_is_iterator: the interaction lists of the pipeline model are the outputs of the TInteractionIter model. "
              "K36 / F13: C09_sample_t_wise_repeated_child_refuted is now a statement about the pipeline BEFORE the repair (sample_t_wise_v0 = "
              "remove_unneeded_v0, one removal per occurrence of a child): on the WFQ circuit [T; L 1; L 2; And [2;1;0;0]] it panics for every "
              "oracle and every t (confirmed on the code before F13 with the c2d file 'nnf 4 4 2 / A 0 / L 1 / L 2 / A 4 0 0 1 2'); with the "
              "de-duplicating remove_unneeded the same circuit yields the one model (Example C09_sample_t_wise_repeated_child_repaired). Dropping "
              "nodup_children needed (a) the de-duplication (Proofs/TwisePass.v remove_ok) and (b) in and_node / and_node_fit the disjointness of "
              "the children's variable sets taken from decomposability by POSITION instead of by value (a repeated child of a decomposable and-node "
              "has no variables, hence no sample; a repeated non-constant child is not decomposable / not deterministic, i.e. outside WFQ). "
              "(1) the iterator every stage relies on - C09_titer: for 1 <= t <= m the model of "
              "TIndicesIter::new(m,t) (carry/repair loop, checked Vec accesses, usize subtraction with and without overflow checks) "
              "yields exactly dec_tuples m t 0 then None, no panic; C09_titer_spec + C09_titer_nodup: that list is every strictly "
              "decreasing t-tuple of indices below m, each exactly once; C09_titer_t0 (t = 0: one empty tuple); "
              "C09_titer_t_above_m_checked (t > m with overflow checks: the out-of-range tuple [t-1..0], then a panic; release: "
              "t >= m+2 does not stop - bounded Example, confirmed on the code; every caller clamps with min(t,len)); C09_tinter / "
              "C09_tinter_covers: TInteractionIter over a literal slice outputs every set of t distinct literals of the slice; "
              "(2) the result checker - C09_twise_ok_sound_complete: twise_ok C n t S = true <-> every configuration of S is a member "
              "of Models C n (complete, in feature order, a model) and every valid interaction (min(t,n) literals over distinct features "
              "of 1..n contained in some model, any order) is contained in some configuration of S. "
              "(3) the abstract steps of the first iteration (C09_cover_step*, C09_cached_call_is_fresh, C09_complete_root) remain. "
              "FITNESS VARIANT (Model/TwiseFitness.v: AttributeZippingMerger - zip over merge_sorted_configs lists, candidate interactions drawn "
              "from the LITERAL lists with sizes min(len,k) / min(len,t-k), stable sort by objective value, reversed - AttributeSimilarityMerger, "
              "cover_with_caching_sorted with its two shifting loops, insert_config_sorted, trim_and_resample, complete_partial_configs_optimal "
              "= calc_best_config of C20; objective values in Z, averages compared by cross-multiplication): "
              "C09_sample_t_wise_fitness_covers - WFQ, n >= 1, root_count > 0, EVERY objective vector, every t <= n, every trim "
              "choice and shuffle => ResultWithSample S with twise_ok C n t S = true (node invariant: coverage of the t-interactions only when "
              "the node has at least t variables, plus: the sample's literal list contains exactly the leaves over its variables incl. every "
              "literal valid on its own - the cross interactions come from these lists). "
              "C09_sample_t_wise_fitness_refuted_t_exceeds_n: for t = 3 > n = 2 on (x1|-x1)&(x2|-x2) the model answers [1 2; -1 -2], "
              "{1,-2} uncovered at the clamped strength min(t,n) (observation, former K11; counted in driver_stats c09_observed_t_exceeds_n_uncovered_fitness, not a violation of C09 as stated). "
              "Observation (no effect on the property): ExtendedDdnnf::insert_config_sorted compares the pushed configuration with itself "
              "(sorted_configs[curr_idx] after the push), its loop never runs - it is a plain push; the model says so and replays exactly. "
              "CORRESPONDENCE: hook H9 (repo_patches/H9-twise-choice-log.patch) records the order decisions of every plain library run and of "
              "every fitness run through the stream command (there only the trim decision and the shuffle are not determined by the input) "
              "(interaction order per merge call, order after sort_unstable, trim decision, shuffled literals); chk_c09 replays them as the "
              "oracles of the extracted model, which must return exactly the implementation's sample - the same configurations in the same "
              "order (DIFF twise-replay otherwise; a recorded list that is not a permutation of what the model orders, a missing or left-over "
              "record: DIFF twise-replay-oracle). The VIOL decision stays with twise_ok + brute force on the source truth table",
    "assumptions": [
        "C09_sample_t_wise_covers is about the hand-written model Model/Twise*.v; its tie to the Rust is the exact replay of every recorded plain run (hook H9): same sample, same order; without the hook in the ddnnife sources the harness is built against the runs carry 'olog absent' (STAT c09_replay_no_log) and only the post-condition check remains",
        "oracles of the model: ord_int / ord_sort / ord_shuf must return permutations (hypotheses of the theorem; the replay checks it for every recorded decision); trim_pick is unconstrained - the f64 ranks (unique_coverage / n_decided^t, average) are not modelled, the hook records the decision rank < average",
        "Config.sat_state / sat_state_complete are modelled by one option (marks, flag): (None, true) is unreachable in the Rust (only set_sat_state sets the flag, and it stores Some); Vec index operations on the literal vector are unchecked nth/upd in the model, the invariant CfgOK keeps all literals in 1..n; debug_assert!s are not modelled (all implied by the invariant; the dev-profile runs execute them)",
        "a node may list the same child twice (the loaders do not produce this from d4 output, a hand-written c2d file can): lookup and the merges see the child's result once per occurrence (Empty results are filtered, a Void child makes an and-node Void, an or-merge of a sample with itself drops the second copy), remove_unneeded de-duplicates (F13); the hand-made cases c09-repeated-child / c09-repeated-child-free exercise this for both variants",
        "fitness variant: objective values are Z in the model (Model/Optimal.v convention); the correspondence feeds integer-valued f64 of small magnitude, for which sums are exact and the comparison of two averages (an f64 division each) agrees with cross-multiplication; a configuration without decided literal (0/0 = NaN in the Rust) is excluded by the invariant; calc_best_config is the C20 model (Iterator::max = last maximum)",
        "plain runs through the stream command ('t-wise l t' without f) carry no decision log and are judged by the post-condition only; a violation is kept as a replay case block (the recorded sample and decisions), not as a seed",
        "valid interactions are clamped to min(t,n) literals as the plain sampler does; under the literal reading (exactly t literals) coverage is vacuous for t > n",
        "input space: C01 input space (exhaustive functions over 1..3 features (+ a 1/16 subsample over 4 features, thorough) with 0..2 unmentioned features, random CNFs; d4 and c2d) restricted to n <= 14; t in 1..3 quick / 1..5 thorough, clamped to 3 for n > 8 and to 2 for n > 12; fitness vectors integer-valued with ties and negative values",
        "iterator correspondence needs hook H7 (repo_patches/H7-titer.patch: verif_t_indices / verif_t_interactions); without the hook in the ddnnife sources the harness is built against, the c09iter run records 'hook absent' (STAT c09_titer_hook_absent) and only the theorems and the indirect evidence of the sampler runs remain",
        "WFQ of the loaded vector (hypothesis of the root/sub-root instantiations) is discharged per input by check_wf in C01/C03, not here",
    ],
}
