import props

CONFIG = {
    "runs": props.simple("c02", 150, 2500),
    "status": "partial (in progress): C02_countsA_is_MCA proved (spec-level count with zeroed complementary leaves = "
              "number of models containing A, all WF circuits / all in-range lists); the theorem that execute_query "
              "(marker strategy with the divide-the-cached-product shortcut, default strategy, core shortcuts) computes "
              "countsA from every Clean state is being proved; until then the algorithms are tied by the correspondence "
              "(model = implementation on every request) and the truth-table oracle",
    "assumptions": [
        "assumption literals within 1..n",
        "all 3^n consistent partial assignments for n <= 4 (quick) / 6 (thorough), random lists with duplicates and contradictions of lengths 0,1,2,3,19,20,21,22,40",
    ],
}
