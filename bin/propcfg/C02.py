import props



def runs(tier, seed, replay):
    if replay:
        return props.replay_run(replay)
    n = 2500 if tier == "thorough" else 150
    return [
        {"args": ["c02", "--seed", str(seed), "--tier", tier, "--count", str(n)]},
        # repository corpus (VP9, X264, sandwich, small_ex; thorough: axTLS, auto1 d4/c2d, busybox, aim711):
        # model = implementation where the vector is small enough, metamorphic laws
        # count(A) = count(A,x) + count(A,-x), permutation/duplication/padding past 20 literals, sat = (count > 0)
        {"args": ["corpus", "--seed", str(seed), "--tier", tier, "--count", "0"]},
        # CLI glue: the real binary's subcommands (count, count-features, core, urs, atomic-sets,
        # count-queries / sat -j, stream-queries, to-cnf) against the library on the same file
        {"args": ["cli", "--seed", str(seed), "--tier", tier, "--count", "1500" if tier == "thorough" else "150"]},
    ]


CONFIG = {
    "runs": runs,
    "status": "proved (full): C02_execute_query_correct -- for every WFQ circuit (WF + unique leaves + all nodes reachable "
              "+ nonzero literals, all established by check_wf), every in-range literal list A (any length/order/repetition, "
              "contradictory, core and dead literals) and every Clean scratch state (markers false, md empty, temps/pds arbitrary), "
              "the model of Ddnnf::execute_query (0 -> cached count; 1 -> core shortcuts / single marker run; 2..20 -> marker "
              "strategy incl. the divide-the-cached-product shortcut; >20 -> default recomputation; reduce_query / query_is_not_sat) "
              "returns MCA C n A (truth-table count) and re-establishes Clean. Corollaries: C02_strategy_independent (marker and "
              "default strategy both = MCA on every list), C16_count_history_independent (answer from any Clean state = answer from "
              "the fresh state), C02_split (MCA A = MCA (x::A) + MCA (-x::A)), C02_countsA_is_MCA. No axioms. The model is tied to "
              "the Rust by the correspondence run (model = implementation on every request) and the truth-table oracle. "
              "C02_contradictory_is_zero / C02_MCA_contradictory: a list containing both x and -x (any position, any length, "
              "hence any strategy) is contained in no model and execute_query answers 0",
    "assumptions": [
        "assumption literals within 1..n",
        "all 3^n consistent partial assignments for n <= 4 (quick) / 6 (thorough), random lists with duplicates and contradictions of lengths 0,1,2,3,19,20,21,22,40",
    ],
}
