import props



def runs(tier, seed, replay):
    if replay:
        return props.replay_run(replay)
    n1 = 600 if tier == "thorough" else 60
    n2 = 400 if tier == "thorough" else 40
    return [
        # request sequences threaded through the extracted model (same history) + truth-table oracle
        {"args": ["c16ops", "--seed", str(seed), "--tier", tier, "--count", str(n1)]},
        # model-free: every request also sent to a freshly loaded instance and to a clone;
        # two models paged alternately in one process (cursor ownership; was finding K2, repaired by F21):
        # kind C16X, each model must page through its own cycle, judged by its truth table
        {"args": ["c16h", "--seed", str(seed), "--tier", tier, "--count", str(n2)]},
    ]


CONFIG = {
    "runs": runs,
    "status": "FULL: scratch-state part and, since the repair F21 (repo_patches/F21-cursor-per-model.patch, was finding K2), the cursor part. "
              "Props/C16.v, all closed under the global context. "
              "Model of one long-lived instance: req = RCount A | RSat A | RCore A | RTable | RSample A k chs | REnum A k | RMarked A, "
              "run_req d (scratch, cursor) q = ((scratch', cursor'), answer) built from the model functions execute_query (all four "
              "strategies), sat, core_dead_with_assumptions, card_of_each_feature, uniform_random_sampling (recorded choice stream = the "
              "seed), enumerate, get_marked_nodes_clone. "
              "C16_history: for every WFQ circuit (WF + unique leaves + all nodes reachable + non-zero literals, all established by "
              "check_wf), every Clean starting state (markers false, md empty; temps and partial derivatives arbitrary), every cursor "
              "map and EVERY sequence of earlier requests of all seven kinds (count/core lists within 1..n; sampling/enumeration lists "
              "with non-zero literals, out-of-range ones included), the state afterwards is Clean and the answer to every count / SAT / "
              "core-dead / per-feature table / seeded sampling (same recorded choices) / marked-nodes request equals the answer of a "
              "fresh instance; C16_request_keeps_clean (each of the seven request kinds re-establishes Clean: preprocess keeps markers "
              "and md, enumerate and uniform_random_sampling end in execute_query on a Clean state, get_marked_nodes_clone resets all "
              "markers); C16_clone (equal circuits, any two histories, any two Clean starting states, any two cursor maps => equal "
              "answers; corollary of C16_history); C16_enum_only_cursor + C16_non_enum_keeps_cursor (an enumeration page and the new "
              "cursor depend on the history only through the cursor the earlier enumeration requests left; no other request kind "
              "touches the cursor); C16_marked_reads_marks_only. Ingredients: C02 execute_query_correct, C04 table, C05 core, "
              "C07 scratch independence, and the new Proofs/ExecTemps.v (what execute_query leaves in the temps after preprocess). "
              "CURSOR: C16_cursor_per_model - a process with two loaded models d1, d2 (any two) is two instance states (scratch, cursor) side by "
              "side, proc_run sends every request of an interleaved history to the model it names; for EVERY history and every starting state the "
              "final state of either model (scratch and cursor) and all its answers, enumeration pages included, are those of running its own "
              "requests alone (run_reqs_ans) - true by construction of the model, which always described one cursor per model; F21 made /repo the "
              "code it describes (the cursor is a field of Ddnnf, empty for every loaded model, shared by clone(), emptied by rebuild()/swap()). "
              "C16_cursor_shared_refuted_v0 - the code BEFORE the repair: proc_run_v0 threads ONE cursor map through the requests of both models "
              "(the process-global static keyed by the assumption set only); with C1 = x1<->x2 and C2 = x1,x2 free (both check_wf, n = 2, A = [], "
              "page size 1) one page of C1 and then the first page of C2: C2 does not answer what it answers alone, with the cursor per model it "
              "does (= slice 0 1 of its enumeration); ex_c16_two_models: six alternating requests evaluated in both processes. "
              "Not in the model: atomic sets, save, t-wise (no model function). "
              "Correspondence (c16ops): random interleavings of count (lengths 0,1,2,3,5,21,25; consistent and contradictory), sat, "
              "incremental sat, core, per-feature table and marked-nodes requests on ONE long-lived implementation instance; the extracted "
              "model is threaded through the same history, every answer is compared, counts/tables/core are judged by the truth-table "
              "oracle, and the Clean flag (hook H6: all markers false, md empty) is checked after every request on both sides",
    "assumptions": [
        "assumption literals of count/core requests within 1..n; sampling is compared on the recorded choice stream (C07), not on the Pcg32 seed",
        "the cursor part: theorem about the two-model process of the model; tie to /repo = kind C16X of run c16h (every 5th generated model is paged "
        "alternately with its predecessor, same assumptions - none or one literal -, 10 requests of 1..3 configurations: the pages of EITHER model "
        "must satisfy the C06 cycle rule against ITS truth table; n > 10: against the same requests on a further fresh instance) and C17's modes "
        "clones / independent; signature enumerate:cursor-shared-across-models is a detector without a finding line; against a /repo without "
        "repo_patches/F21-cursor-per-model.patch this check reports VIOLATION (that signature; also history:* because fresh instances no longer "
        "get a cursor reset)",
        "atomic sets, save/serialisation and t-wise sampling are outside the request model",
    ],
}
