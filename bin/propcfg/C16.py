import props



def runs(tier, seed, replay):
    if replay:
        return props.replay_run(replay)
    n1 = 600 if tier == "thorough" else 60
    n2 = 400 if tier == "thorough" else 40
    return [
        # request sequences threaded through the extracted model (same history) + truth-table oracle
        {"args": ["c16ops", "--seed", str(seed), "--tier", tier, "--count", str(n1)]},
        # model-free: every request also sent to a freshly loaded instance and to a clone;
        # two models paged alternately in one process (cursor ownership, finding K2)
        {"args": ["c16h", "--seed", str(seed), "--tier", tier, "--count", str(n2)]},
    ]


CONFIG = {
    "runs": runs,
    "status": "scratch-state part proved FULL, cursor part REFUTED (K2). Props/C16.v, all closed under the global context. "
              "Model of one long-lived instance: req = RCount A | RSat A | RCore A | RTable | RSample A k chs | REnum A k | RMarked A, "
              "run_req d (scratch, cursor) q = ((scratch', cursor'), answer) built from the model functions execute_query (all four "
              "strategies), sat, core_dead_with_assumptions, card_of_each_feature, uniform_random_sampling (recorded choice stream = the "
              "seed), enumerate, get_marked_nodes_clone. "
              "C16_history: for every WFQ circuit (WF + unique leaves + all nodes reachable + non-zero literals, all established by "
              "check_wf), every Clean starting state (markers false, md empty; temps and partial derivatives arbitrary), every cursor "
              "map and EVERY sequence of earlier requests of all seven kinds (count/core lists within 1..n; sampling/enumeration lists "
              "with non-zero literals, out-of-range ones included), the state afterwards is Clean and the answer to every count / SAT / "
              "core-dead / per-feature table / seeded sampling (same recorded choices) / marked-nodes request equals the answer of a "
              "fresh instance; C16_request_keeps_clean (each of the seven request kinds re-establishes Clean: preprocess keeps markers "
              "and md, enumerate and uniform_random_sampling end in execute_query on a Clean state, get_marked_nodes_clone resets all "
              "markers); C16_clone (equal circuits, any two histories, any two Clean starting states, any two cursor maps => equal "
              "answers; corollary of C16_history); C16_enum_only_cursor + C16_non_enum_keeps_cursor (an enumeration page and the new "
              "cursor depend on the history only through the cursor the earlier enumeration requests left; no other request kind "
              "touches the cursor); C16_marked_reads_marks_only. Ingredients: C02 execute_query_correct, C04 table, C05 core, "
              "C07 scratch independence, and the new Proofs/ExecTemps.v (what execute_query leaves in the temps after preprocess). "
              "REFUTED: C16_cursor_shared_refuted - the cursor map is keyed by the (sorted) assumption list only and is process-global: "
              "with C1 = x1<->x2 and C2 = x1,x2 free (both check_wf, n = 2, A = [], page size 1) one page of C1 moves the shared cursor "
              "to 1 and C2's first page is then slice 1 2 of its enumeration, not slice 0 1 as in a process that only loaded C2 "
              "(vm_compute witness with the model's enumerate). Not in the model: atomic sets, save, t-wise (no model function). "
              "Correspondence (c16ops): random interleavings of count (lengths 0,1,2,3,5,21,25; consistent and contradictory), sat, "
              "incremental sat, core, per-feature table and marked-nodes requests on ONE long-lived implementation instance; the extracted "
              "model is threaded through the same history, every answer is compared, counts/tables/core are judged by the truth-table "
              "oracle, and the Clean flag (hook H6: all markers false, md empty) is checked after every request on both sides",
    "assumptions": [
        "assumption literals of count/core requests within 1..n; sampling is compared on the recorded choice stream (C07), not on the Pcg32 seed",
        "the cursor part is stated and refuted at model level only (two models in one process are not exercised by c16ops)",
        "atomic sets, save/serialisation and t-wise sampling are outside the request model",
    ],
}
