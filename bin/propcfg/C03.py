import props

CONFIG = {
    "runs": props.simple("c03", 150, 2500),
    "status": "full (Coq, Props/C03.v, for every WFQ circuit with positive root count and every in-range literal list, "
              "duplicates/contradictions/core literals included): C03_sat_correct: sat = (0 < MCA); "
              "C03_sat_contradictory_false: a list with both x and -x is unsatisfiable; "
              "C03_sat_incremental: on a shared mark vector the k-th answer = (0 < MCA of all literals asserted so far) while "
              "all earlier answers were true; C03_sat_incremental_strong: same while no earlier call was cut short by the core "
              "test; C03_sat_incremental_proviso_needed: witness that the proviso cannot be dropped (a call refuted by the core "
              "test leaves the vector untouched); C03_sat_subroot / C03_sat_subroot_incremental: root_index Some r with cached "
              "count > 0 answers (no literal refuted by the core) && (0 < countsA at r); C03_sat_subroot_proviso_needed, "
              "C03_sat_subroot_core_guard_needed: witnesses; C03_countsA_is_MCA. "
              "Correspondence + truth-table oracle on every request ties the model to the Rust",
    "assumptions": ["assumption literals within 1..n", "the loaded formula is satisfiable"],
}
