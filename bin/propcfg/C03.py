import props

CONFIG = {
    "runs": props.simple("c03", 150, 2500),
    "status": "partial (in progress): C03_countsA_is_MCA proved; sat_propagate = (0 < MCA) and the incremental-mark-vector "
              "theorem are being proved; correspondence + truth-table oracle on every request meanwhile",
    "assumptions": ["assumption literals within 1..n", "the loaded formula is satisfiable"],
}
