import props

CONFIG = {
    "runs": props.simple("c06", 120, 1500),
    "status": "proved FULL (the former hypothesis exec_spec is now a theorem: C06_exec_spec_holds; final forms C06_enumerate_page_final, "
              "C06_enumerate_page_cursor_final, C06_enumerate_none_iff_final, C06_enumerate_none_keeps_cursor_final, C06_pages_cyclic_final, "
              "C06_pages_within_cycle_final, C06_pages_within_cycle_from_final, C06_pages_cycle_final carry no execute_query hypothesis; they need WFQ = WF + "
              "unique leaves + all nodes reachable + non-zero literals, all established by check_wf). The conditional forms are kept: "
              "C06_enum_is_model_set, C06_compatible_count; "
              "C06_mixed_radix_prefix (plain lists: truncating the factors as the And loop does keeps the first hi elements of the "
              "cartesian product); "
              "C06_enumerate_node_slice (FULL, no exec hypothesis: for idx_ok circuits without Or->True edges and temps = counts "
              "under A on all non-true nodes, enumerate_node (lo,hi) i = slice lo hi of the node's full enumeration under A, as "
              "lists, 0 <= lo < hi <= count; C06_or_true_child_refuted shows the Or->True side condition is necessary); "
              "C06_enumerate_page / _page_cursor / _zero / _none_iff / _none_keeps_cursor / _out_of_range (one call of "
              "Ddnnf::enumerate: page = map sort_abs (slice p (min c (p+amount)) EO), cursor[sort_abs A] := min c (p+amount) mod c, "
              "other keys untouched, None iff MCA = 0 or a literal out of range, amount 0 -> Some [] and no change); "
              "C06_pages_cyclic / _within_cycle / _within_cycle_from / _cycle (histories of requests with the literals in any order: "
              "page sizes min k (c - pos), returned elements are EO[(p+j) mod c], cursor stays in [0,c), no duplicate within a "
              "cycle, a full cycle is a permutation of ModelsA and returns the cursor to 0); C06_EOr_models, "
              "C06_sorted_is_canonical, C06_sort_abs_canon (returned configurations are the truth-table rows), "
              "C06_sort_abs_perm_eq (cursor key independent of literal order). "
              "exec_spec C n A (hypothesis of the conditional forms, PROVED for every WFQ circuit and in-range A of any length/order/repetition, contradictory, core and dead literals included, "
              "in Proofs/ExecTemps.v + Proofs/C06Final.v: marker strategy = marked nodes recomputed + unmarked nodes have no zeroed leaf below and keep the cached count; default strategy = every "
              "position recomputed; core shortcuts returning the cached count = nothing was zeroed) = execute_query on the preprocessed scratch returns "
              "r = MCA C n A, if r > 0 leaves temps = countsA (sort_abs A) on every non-true node (the core shortcut that answers 0 "
              "does not recompute temps) and keeps the scratch Clean (also evaluated by "
              "vm_compute on all partial assignments of three example circuits, marker and default strategy). Side conditions: 0 < n "
              "(C06_true_root_refuted: the one-node circuit TrueN with 0 features returns an empty page and has rt = 0) and "
              "or_no_true_child. Correspondence: pages are compared EXACTLY (order included) with the extracted model of "
              "enumerate_node/enumerate and judged by the truth-table oracle (page size, no duplicate within a cycle, models "
              "containing A)",
    "assumptions": ["cursor reset (hook) at the start of every history; amounts < 2^64",
                    "assumption literals within 1..n for the page theorems (non-zero for the None-iff theorem); WFQ circuits (check_wf); "
                    "0 < n and or_no_true_child (both necessary, refutation examples in Props/C06.v)"],
}
