import props

CONFIG = {
    "runs": props.simple("c06", 120, 1500),
    "status": "partial (in progress): C06_enum_is_model_set (the full enumeration order is a duplicate-free listing of exactly "
              "the models) and C06_compatible_count proved; the paging theorem (each page = the next slice of that order, cursor "
              "arithmetic, cycle restart) is being proved; meanwhile pages are compared EXACTLY (order included) with the extracted "
              "model of enumerate_node/enumerate and judged by the truth-table oracle (page size, no duplicate within a cycle, models containing A)",
    "assumptions": ["cursor reset (hook) at the start of every history; amounts < 2^64"],
}
