import props

CONFIG = {
    "runs": props.simple("c10", 1500, 6000),
    "status": "full (model level): C10_lex_print (character-level lexer/printer round trip for every node with "
              "machine-range numbers, incl. that `A k..`/`O 0 k..` with k>=1 never hit the `A 0`/`O 0 0` prefix "
              "alternatives), C10_file_is_circuit (the written lines lex to the token list of the vector, header n), "
              "C10_file_wf, C10_reload_sem (the loader's DFS re-flattening preserves the function and n), "
              "C10_reload_wf (WF is preserved), C10_reload_count, C10_reload_models (equal truth tables, MCA), "
              "C10_reload_defined (the loader model never panics on a written file: DFS fuel suffices, post-order), "
              "C10_save_reload (all of it for every WF model); see coq/Props/C10.v for the exact statements",
    "assumptions": [
        "numbers are in machine range (indices and child counts < 2^64, literals in i32, n < 2^32) as they are for every value of the Rust types",
        "a zero-child And/Or node is written as `A 0 ` / `O 0 0 ` and therefore read back as the true/false node (same function); the loaders never produce such nodes",
        "the theorems are about the Gallina model of writer, lexer and loader; that the model writer/loader produce "
        "exactly the bytes / node vector of the implementation is checked on every case by the correspondence (write, reload-vector)",
        "input space: the C01 input space (exhaustive functions over 1..3 / 1..4 features plus random CNFs, d4 and c2d, free features, true nodes) "
        "plus hand-written c2d files and random minterm circuits with n-ary Or nodes",
        "answers compared between the original and the reloaded model: rc, core, count/sat under sampled assumption lists "
        "(0, 1, 2..4 and 22 literals), core/dead under assumptions, enumeration sets for counts <= 64, atomic sets",
    ],
}
