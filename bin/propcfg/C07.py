import props


def runs(tier, seed, replay):
    if replay:
        return props.replay_run(replay)
    n = 1200 if tier == "thorough" else 100
    r = [{"args": ["c07", "--seed", str(seed), "--tier", tier, "--count", str(n)]}]
    # uniformity statistic (a test, labelled as such): thorough tier, small sample in quick
    r.append({"args": ["c07u", "--seed", str(seed), "--tier", tier, "--count", str(400 if tier == "thorough" else 20)],
              "profile": "release"})
    return r


CONFIG = {
    "runs": runs,
    "status": "partial (in progress): validity/amount/unsat theorem over ALL choice streams being proved on the choice-stream model of "
              "sample_node; uniformity is partial by nature (idealised distributions; Pcg32, f64 weights and rand_distr are only exercised: "
              "chi-square with false-alarm probability < 1e-12, a statistical test, not a proof); every real run's recorded choices are "
              "replayed by the extracted model and must give the identical sample list",
    "assumptions": ["hook H2 records the split vectors and shuffle permutations of the real run (the shuffle permutation is computed on a clone of the generator)",
                    "rand/rand_distr/rand_pcg are trusted to implement their contracts"],
}
