import props


def runs(tier, seed, replay):
    if replay:
        return props.replay_run(replay)
    n = 1200 if tier == "thorough" else 100
    r = [{"args": ["c07", "--seed", str(seed), "--tier", tier, "--count", str(n)], "timeout": 7200 if tier == "thorough" else 3000}]
    # uniformity statistic (a test, labelled as such): thorough tier, small sample in quick
    r.append({"args": ["c07u", "--seed", str(seed), "--tier", tier, "--count", str(400 if tier == "thorough" else 20)],
              "profile": "release"})
    return r


CONFIG = {
    "runs": runs,
    "status": "validity/amount/unsat/function-of-choices FULL; uniformity FULL at the level of IDEAL random primitives (every amount k >= 1, every output position j < k: marginal law uniform on ModelsA), the real generator/f64/rand_distr stay outside the model. "
              "Proved in Coq (Props/C07.v, all closed under the global context) on the choice-stream model of sample_node: "
              "C07_sample_node_valid - for EVERY choice stream satisfying choices_ok (each consumed Split has one non-negative entry per child, "
              "sums to the requested amount, is 0 on zero-temp children; each consumed Perm is a permutation; the stream has the shape the traversal asks for) "
              "sample_node returns exactly `amount` samples, each (up to literal order) a member of filter (okA A) (enum i); "
              "C07_valid - WF, in_range A, root not a true node (implied by n > 0; necessary: C07_true_root_refuted, the circuit [TrueN] over 0 features returns Some [] for amount 3), "
              "MCA > 0, choices_ok => Some L, length L = amount, every element in ModelsA (complete, feature order, model, contains A); "
              "C07_unsat - None iff MCA = 0 or a literal with |l| > n; both under the explicit hypothesis exec_ok (preprocess + execute_query return MCA and leave countsA in the temps of the REACHABLE non-true nodes - the root and the children of reachable nodes with a non-zero count; since the core ignores dead branches (F22) a temp inside a dead branch may be stale, the sampler never enters one; the node-level theorems carry the hypothesis Reach), "
              "which is now DISCHARGED: C07_exec_ok_holds (every WFQ circuit = check_wf, in-range A, Clean scratch, 0 < MCA; Proofs/ExecTemps.v), and the FINAL forms C07_valid_final (WFQ, 0 < n, in_range, Clean, "
              "0 < MCA, choices_ok => Some L of `amount` members of ModelsA) and C07_unsat_final (WFQ, Clean, non-zero literals: None iff MCA = 0 or a literal out of range) carry no execute_query hypothesis; "
              "C07_keeps_clean (the call re-establishes Clean). Found while discharging: exec_ok as stated (temps also when MCA = 0) is FALSE when the unsatisfiable-core shortcut answers 0 without recomputing "
              "(C07_exec_ok_unsat_refuted; harmless, the temps are not read then), and a literal 0 is accepted by preprocess and ignored by the count (C07_zero_literal_refuted: [0] yields Some although no model contains 0), hence the side condition; "
              "C07_function_of_choices / C07_scratch_independent - samples and ok flag do not depend on incoming temps/pds (equal marks/md, e.g. Clean); "
              "C07_uniform_ideal_single (+ _node, C07_ideal_streams_run) - for amount = 1 with ideal primitives (Or: unit split e_k with probability temp_k/temp_node, shuffles of <= 1 element) "
              "the law of the sorted sample lists every element of ModelsA exactly once with probability 1/MCA (mass of every other configuration 0), under or_no_true (no Or node has a true child), "
              "and every stream of that law runs on the model's sample_node, respects choices_ok and yields the listed outcome. "
              "C07_uniform_ideal_marginal (final form; + _node, _root, _multinomial, C07_ideal_streams_run_general, C07_ideal_law_runs_root, C07_multinomial_is_ideal, C07_uniform_shuffle; Proofs/C07General*.v) - "
              "GENERAL amount: dist X = list (X * Q) is an executable finite probability monad; jointk is the law of sample_node for amount a when (definitions, not axioms) the split vector of an Or node i asked for a samples follows ANY law SL i a with "
              "split_ideal (weights >= 0 of total 1, every vector satisfies split_ok, E[entry of live child c] = a * temp_c / temp_i - only the expectation is used, so Binomial on two live children and a independent WeightedAliasIndex draws are covered; "
              "the law of a independent categorical draws is PROVED to be an instance on every circuit), every shuffle of m elements draws uniformly from all m! permutations, and all draws are independent. "
              "Hypotheses of the final form: WFQ, 0 < n, in_range, Clean, or_no_true, 0 < MCA, splits_ideal (none for the multinomial form). Conclusion for every k >= 1: the stream law has total mass 1 and weights >= 0, EVERY stream of it satisfies urs_choices_okb, "
              "is consumed entirely by uniform_random_sampling (ok flag true) which returns k configurations, and for EVERY position j < k the push-forward to the j-th returned configuration gives mass exactly 1/MCA to every member of ModelsA and 0 to every other configuration. "
              "Nothing refuted: zero-temp children, the padding with empty lists (unused under the contract) and true children of And nodes do not disturb the law. Not claimed and not part of C07: independence between positions. "
              "Non-vacuity by vm_compute on (1&2)|(-1&(2|-2)), A = [], MCA = 3, amounts 2 and 3 (80 / 11304 weighted streams, multinomial and explicit Binomial split laws): every position has mass 1/3 on each model. "
              "Outside the model, only exercised: Pcg32, the f64 weights, rand_distr Binomial/WeightedAliasIndex (chi-square with false-alarm probability < 1e-12, a statistical test, not a proof). "
              "Found while proving (not covered by the theorems, no contract-respecting stream exists): an Or node whose non-zero-temp children are all hidden true nodes "
              "(check_wf-accepted c2d input 'nnf 4 3 1 / L 1 / A 0 / O 0 1 1 / A 2 0 2', MCA = 1) makes the Rust panic in WeightedAliasIndex::new(empty).unwrap(); the model has no Panic outcome there and the generators do not produce it. "
              "Correspondence: every real run's recorded choices are replayed by the extracted model and must give the identical sample list, and the extracted choices_ok (urs_choices_okb) is evaluated on every recorded stream",
    "assumptions": ["hook H2 records the split vectors and shuffle permutations of the real run (the shuffle permutation is computed on a clone of the generator)",
                    "rand/rand_distr/rand_pcg are trusted to implement their contracts"],
}
