import props


def runs(tier, seed, replay):
    if replay:
        return props.replay_run(replay)
    n = 1500 if tier == "thorough" else 150
    return [
        {"args": ["c18", "--seed", str(seed), "--tier", tier, "--count", str(n)]},
        # the d4 loader model (a function of the file, no hash-order parameter) = the implementation's vector
        {"args": ["ld4", "--seed", str(seed), "--tier", tier, "--count", str(n)]},
    ]


CONFIG = {
    "runs": runs,
    "status": "full at model level: the whole d4 loader is a Gallina function (Model/LoadD4.v load_d4_gen: lexer, build_d4_ddnnf on a "
              "StableGraph model with petgraph's adjacency order / edge and node removal / index recycling, the three traversals, rebuild; follows the loader repairs F11 and F12) "
              "with the iteration order of the hash set in balance_or_children as an explicit permutation oracle. "
              "C18_loader_function: for the loader in /repo now (sort after the hash order) the node vector and number_of_variables are the "
              "same for every two oracles; C18_loader_is_load_d4: and equal the parameter-free load_d4; C18_refuted_loader_v0: the loader "
              "before fix 3061960 gives two different vectors for two oracles on `o 1 0 / t 2 0 / 1 2 1 2 3 0 / 1 2 -1 0` (vm_compute witness); "
              "C18_attach_order_hash_independent / C18_refuted_hash_order: the same at the level of one attach list. "
              "Tie to the code: run ld4 compares load_lines (extracted) with the dumped Ddnnf.nodes exactly (node types, children in order, "
              "panics) on every d4 file of the C01 input space, boundary files, random d4 DAGs and corpus files; run c18 loads every file "
              "repeatedly in one process (fresh hash keys per load) and in separate processes: node vectors and seeded sample lists must be "
              "identical; with C07 (samples are a function of circuit, A, k and the recorded choice stream) this gives reproducibility",
    "assumptions": ["address layout / thread timing: exercised by separate processes only",
                    "oracle = equality across loads (needs no model); the exact loader comparison is restricted to vectors of <= 400 (quick) / 1500 (thorough) nodes",
                    "the oracle is a function of the missing-feature set (one call per balancing And); an order that differs between two calls with the same set is covered by the repaired theorem (sorting) but not by the refutation witness, which needs only one set"],
    "rule": "one case = one generated file loaded 6 (quick) / 20 (thorough) times in-process plus 3 child processes for a sample of files; "
            "non-trivial = flattened circuit has And and Or nodes; distinct = different case body",
}
