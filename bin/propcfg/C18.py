import props

CONFIG = {
    "runs": props.simple("c18", 150, 1500),
    "status": "partial: C18_attach_order_hash_independent (the repaired loader attaches the missing features in sorted order, which is "
              "the same for every iteration order of the hash set) and C18_refuted_hash_order (the unrepaired loader: two iteration "
              "orders give two child orders; reproduced on /repo before the fix 3061960); the whole d4 loader as a Gallina function "
              "(no hash-order parameter left) is future work, so 'the loaded vector is a function of the file' is decided by the "
              "correspondence: every file is loaded repeatedly in one process (fresh hash keys per load) and in separate processes, "
              "node vectors and seeded sample lists must be identical; with C07 (samples are a function of circuit, A, k and the "
              "recorded choice stream) this gives reproducibility",
    "assumptions": ["address layout / thread timing: exercised by separate processes only",
                    "oracle = equality across loads (needs no model)"],
    "rule": "one case = one generated file loaded 6 (quick) / 20 (thorough) times in-process plus 3 child processes for a sample of files; "
            "non-trivial = flattened circuit has And and Or nodes; distinct = different case body",
}
