import props

CONFIG = {
    "runs": props.simple("c05", 150, 2500),
    "status": "partial: PROVED (Props/C05.v, closed under the global context): "
              "(A) calculate_core is sound for every WF circuit (C05_core_sound[_WF]; needs no no_dead/reachability) "
              "and exact under WFQ + no_dead (C05_core_syntactic; completeness uses WF + all_reachable + no_dead), "
              "hence the empty-assumption answer of core_dead_with_assumptions is the semantic core (C05_core_dead_nil_correct); "
              "(B) REFUTED without no_dead: C05_core_refuted_without_no_dead (finding K7: c2d circuit with a false node, "
              "core reports [2], every model contains -1 and 2); "
              "(C) the with-assumptions loop over the truth-table count MCA returns, in order 1..n, exactly the literals "
              "contained in every model that contains A, both polarities when there is none "
              "(C05_core_dead_spec_correct[_gen], _In, _unsat; no hypothesis on C or A needed); "
              "(D) per-candidate criteria C05_candidate_criterion / C05_candidate_dead_criterion / C05_MCA_split; "
              "glue C05_core_dead_glue / C05_core_dead_with_assumptions_correct: IF execute_query returns MCA and keeps "
              "the state Clean (explicit hypothesis = statement of execute_query_correct, proved separately, NOT discharged "
              "here) THEN core_dead_with_assumptions (A non-empty, in range) returns exactly that list and a Clean state; "
              "C05_countsA_is_MCA. MISSING for 'full': discharging the execute_query hypothesis inside this file's cone. "
              "Correspondence + truth-table oracle on every request.",
    "assumptions": ["assumption literals within 1..n"],
}
