import props



def runs(tier, seed, replay):
    if replay:
        return props.replay_run(replay)
    base = props.simple("c05", 150, 2500)(tier, seed, None)
    # CLI glue (the binary's subcommands against the library; see bin/propcfg/C02.py)
    return base + [{"args": ["cli", "--seed", str(seed), "--tier", tier, "--count", "1500" if tier == "thorough" else "150"]}]


CONFIG = {
    "runs": runs,
    "status": "full under no_dead, refuted without it (known finding K7): "
              "C05_core_sound[_WF] (the syntactic core is sound for every WF circuit), C05_core_syntactic (exact under WFQ + no_dead: "
              "In l (calculate_core C n) <-> every model contains l), C05_core_dead_nil_correct; "
              "C05_core_refuted_without_no_dead (c2d circuit with a false node: core [2], semantic core [-1, 2]); "
              "C05_core_dead_with_assumptions (with the C02 theorem discharged: for every non-empty in-range A and every Clean state the "
              "report is exactly the literals, in loop order, contained in every model containing A; both polarities when none does); "
              "C05_candidate_criterion / C05_candidate_dead_criterion / C05_MCA_split for the per-candidate form. "
              "Correspondence: every request compared with the extracted model and judged by the truth table; c2d inputs that keep a "
              "false node are a separate generator class (they reproduce K7 on every run)",
    "assumptions": ["assumption literals within 1..n",
                    "no_dead (all cached counts positive) is established by the d4 loader's false-elimination; it is evaluated per loaded input, not proved for all files"],
}
