import props



def runs(tier, seed, replay):
    if replay:
        return props.replay_run(replay)
    base = props.simple("c05", 150, 2500)(tier, seed, None)
    # CLI glue (the binary's subcommands against the library; see bin/propcfg/C02.py)
    return base + [{"args": ["cli", "--seed", str(seed), "--tier", tier, "--count", "1500" if tier == "thorough" else "150"]}]


CONFIG = {
    "runs": runs,
    "status": "full (after the repair F22 of finding K7; no hypothesis on dead nodes is left): "
              "C05_core_exact / C05_core_exact_WF (for every WF(Q) circuit with 0 < root_count, dead (zero-count) branches or not: "
              "In l (calculate_core C n) <-> every model contains l), C05_core_exact_list (as a list: calculate_core C n = "
              "filter in_all_models (-n..n ascending), in_all_models = the truth-table test), C05_core_sound[_WF] (soundness for every WF "
              "circuit, also without a model), C05_core_complete, C05_core_dead_nil_correct; C05_core_unsat_is_v0 (root count 0: the "
              "repaired code answers like the old code, the syntactic core over all literal nodes). calculate_core = the repaired "
              "algorithm (one downward sweep that marks the nodes reachable from the root through non-zero counts and collects the "
              "literals of marked literal nodes; core = live and complement not live); calculate_core_v0 = the code before F22, kept for "
              "C05_core_v0_sound_WF, C05_core_v0_syntactic (exact under no_dead), C05_core_no_dead_is_v0 and the K7 witness "
              "C05_core_refuted_without_no_dead (c2d circuit with a false node: calculate_core_v0 = [2], semantic core [-1, 2]; a "
              "statement about _v0 only, the repaired calculate_core gives [-1, 2]: ex_k7). "
              "C05_core_dead_with_assumptions (with the C02 theorem discharged: for every non-empty in-range A and every Clean state the "
              "report is exactly the literals, in loop order, contained in every model containing A; both polarities when none does); "
              "C05_candidate_criterion / C05_candidate_dead_criterion / C05_MCA_split for the per-candidate form. "
              "The repaired core feeds reduce_query / the unsat shortcut of every query: C02 (root count), C03 (sat), C06 / C07 (temps on "
              "the reachable part of the vector), C09 (sub-root SAT calls at reachable nodes) are re-proved for it. "
              "Correspondence: every request compared with the extracted model and judged by the truth table; c2d inputs that keep a "
              "false node are a separate generator class - an ordinary compared class since F22 (signature core:c2d-false-node stays as "
              "a detector without a finding line; against /repo without F22 it fires on every run)",
    "assumptions": ["assumption literals within 1..n",
                    "0 < root_count (the model has at least one configuration) for exactness; with root count 0 the report is the syntactic core of the code before F22 (C05_core_unsat_is_v0)"],
}
