import props

CONFIG = {
    "runs": props.simple("c05", 150, 2500),
    "status": "partial (in progress): C05_countsA_is_MCA proved; syntactic-core exactness under no_dead and the with-assumptions "
              "corollaries are being proved; correspondence + truth-table oracle on every request meanwhile",
    "assumptions": ["assumption literals within 1..n"],
}
