import props

CONFIG = {
    "runs": props.simple("c01", 400, 4000),
    "status": "full: C01_count_flat, C01_same_function_same_count, C01_models_enum (all WF circuits, unbounded Z); "
              "partial: that the loaders establish WF and preserve the file's function is discharged per input "
              "(verified checker check_wf + truth table against the source formula), not yet a theorem over all files",
    "assumptions": [
        "the d4/c2d loaders are modelled only through their output: every loaded vector is checked by the verified check_wf and compared with the source truth table",
        "input space: exhaustive functions over 1..3 (quick) / 1..4 (thorough) features plus random CNFs, compiled by the harness' reference compiler",
    ],
}
