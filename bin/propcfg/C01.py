import props


def runs(tier, seed, replay):
    if replay:
        return props.replay_run(replay)
    n = 4000 if tier == "thorough" else 400
    return [
        {"args": ["c01", "--seed", str(seed), "--tier", tier, "--count", str(n)]},
        # exact correspondence of the d4 LOADER model: load_lines (extracted lexer + build_d4_ddnnf + rebuild)
        # = the dumped Ddnnf.nodes on every d4 file of the same input space, hand-written boundary files,
        # structurally random d4 DAGs, the small corpus files and a sample of (malformed) lines for the lexer
        {"args": ["ld4", "--seed", str(seed), "--tier", tier, "--count", str(n)]},
    ]


CONFIG = {
    "runs": runs,
    "status": "full: C01_count_flat, C01_same_function_same_count, C01_models_enum (all WF circuits, unbounded Z). d4 loader: the whole loader is an exact Gallina model (Model/LexerD4.v lex_line_d4 with the nom prefix/greedy semantics; Model/LoadD4.v load_d4 = build_d4_ddnnf + Ddnnf::new/rebuild on a StableGraph model: global newest-first edge list = petgraph's outgoing AND incoming neighbour order, edge/node removal, free-list index recycling, DfsPostOrder as a stack machine over the mutating graph, the three traversals, explicit None for every panic) and FULL: C01_d4_loader_sem - for every token list with no literal 0 whose part below node 1 is a DAG (d4_ok) that loads (load_d4 toks n = Some (C, n')): n' = max n (largest mentioned feature) and eval_root s C = eval_d4 toks s for every total assignment s, eval_d4 = value of node 1 of the raw d4 DAG (Spec/D4Sem.v); proved pass by pass: the line loop builds a graph that represents the file (rep: edge-literal expansion over shared literal leaves), the fresh And root over the free features has the value of node 0, true/false elimination incl. delete_parent_and_chain keeps the value of every survivor and its label, except that an or node with a true child becomes a true node (repair F12; C01_d4_pass2_preserves), smoothing keeps label and value of every node (C01_d4_pass3_preserves; And(c, f or not f) = c with shared or-triangles), rebuild renumbers; C01_d4_loader_sem_any_order: the same with or without index recycling and for ANY permutation oracle as hash order (the unrepaired C18 loader never changed the function, only the child order). partial: C01_d4_loader_wf_partial - that every conforming d4 file loads to a WF vector (smoothness after balancing with node sharing, the determinism certificate surviving the rewrites, reachability) is NOT a theorem; proved is: d4_ok, load_d4 = Some (C, n') and check_wf C n' = true imply WF C n' and root_count C = number of satisfying assignments of THE FILE over 1..n'; check_wf is evaluated by the extracted verified checker on every generated and corpus input. REFUTED without that check: C01_d4_loader_wf_refuted - a feature mentioned only below a dead branch is neither free nor kept: o 1 0 / a 2 0 / f 3 0 / t 4 0 / 2 3 0 / 1 2 1 2 0 / 1 4 -1 0 with 2 features denotes not-x1 (2 models), the loaded vector [L -1; A 0; O 1] has count 1 (confirmed against the code by run ld4); the generator keeps every mentioned feature on a live branch, as d4 itself does. C01_d4_or_true_child_v0 (finding F12, repaired): the loader before the repair leaves the true node of d4's tautology idiom o 1 0 / t 2 0 / 1 2 0 below the or node (no_true_false fails; enumerate, sampling, atomic sets and to-cnf panicked on it), the loader now returns a vector without true/false nodes that passes check_wf and has the file's count; the input space contains d4's root idiom (or node 1 with one unlabelled edge) as a class. The c2d loader theorem lives in C10 (exact model, save/reload). Correspondence: run c01 (counts, check_wf, truth table of the source formula) and run ld4 (load_lines = dumped Ddnnf.nodes exactly, number_of_variables, panics, lexer outcome Ok/Err/panic per line, eval_d4 of the file = truth table of the source formula)",
    "assumptions": [
        "the d4 loader is modelled exactly (Model/LoadD4.v = build_d4_ddnnf + rebuild on a StableGraph model: adjacency order, edge and node "
        "removal, index recycling, the three traversals); the exact comparison is restricted to vectors of <= 400 (quick) / 1500 (thorough) "
        "nodes (the list-based model is quadratic: 35 s for the 1434 nodes of axTLS); the wide-id cases (~210 000 nodes) are judged by the "
        "closed-form count only; debug_assert!(!is_cyclic_directed) on parts of the graph that the root does not reach is not modelled",
        "the c2d loader is modelled exactly by Model/LoadC2d.v (correspondence in C10); every loaded vector is also checked by the verified check_wf and compared with the source truth table",
        "input space: exhaustive functions over 1..3 (quick) / 1..4 (thorough) features plus random CNFs, compiled by the harness' reference compiler",
    ],
}
