import props


def runs(tier, seed, replay):
    if replay:
        return props.replay_run(replay)
    n = 4000 if tier == "thorough" else 400
    return [
        {"args": ["c01", "--seed", str(seed), "--tier", tier, "--count", str(n)]},
        # exact correspondence of the d4 LOADER model: load_lines (extracted lexer + build_d4_ddnnf + rebuild)
        # = the dumped Ddnnf.nodes on every d4 file of the same input space, hand-written boundary files,
        # structurally random d4 DAGs, the small corpus files and a sample of (malformed) lines for the lexer
        {"args": ["ld4", "--seed", str(seed), "--tier", tier, "--count", str(n)]},
    ]


CONFIG = {
    "runs": runs,
    "status": "full: C01_count_flat, C01_same_function_same_count, C01_models_enum (all WF circuits, unbounded Z); the d4 loader is an exact Gallina model (Model/LoadD4.v) tied to the code by run ld4; (theorem list to be completed)",
    "assumptions": [
        "the d4 loader is modelled exactly (Model/LoadD4.v = build_d4_ddnnf + rebuild on a StableGraph model: adjacency order, edge and node "
        "removal, index recycling, the three traversals); the exact comparison is restricted to vectors of <= 400 (quick) / 1500 (thorough) "
        "nodes (the list-based model is quadratic: 35 s for the 1434 nodes of axTLS); the wide-id cases (~210 000 nodes) are judged by the "
        "closed-form count only; debug_assert!(!is_cyclic_directed) on parts of the graph that the root does not reach is not modelled",
        "the c2d loader is modelled exactly by Model/LoadC2d.v (correspondence in C10); every loaded vector is also checked by the verified check_wf and compared with the source truth table",
        "input space: exhaustive functions over 1..3 (quick) / 1..4 (thorough) features plus random CNFs, compiled by the harness' reference compiler",
    ],
}
