import props

CONFIG = {
    "runs": props.simple("c08", 60, 600),
    "status": "in progress",
    "assumptions": [],
}
