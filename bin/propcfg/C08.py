import props

CONFIG = {
    "runs": props.simple("c08", 60, 300),
    "status": "full for n <= 32767, refuted above (known finding K1). "
              "C08_atomic (plain) and C08_atomic_cross: for every WFQ circuit, every in-range assumption list with at least one model, "
              "n <= 32767, every duplicate-free candidate list within 1..n in any order (None = all features), EVERY choice stream of the "
              "internal 512-sample call whose samples are valid (samples_valid = the conclusion of the C07 validity theorem; a stream that "
              "does not fit is covered as long as what the model then returns is valid) and every Clean scratch state, the model of "
              "get_atomic_sets does not panic, returns exactly classes_spec / cross_spec and leaves the state Clean; "
              "C08_plain_spec_meaning / C08_cross_spec_meaning say what the two specification functions list (complete classes of >= 2 "
              "members under 'same value in every model containing A', ascending, each once, ascending order of smallest member; cross: "
              "signed literals, one class of every mirrored pair - the one whose smallest feature is negated); "
              "key lemmas as theorems: C08_equal_counts_necessary, C08_confirmation_query, C08_prefilter_sound, C08_uf_equiv, C08_uf_union, "
              "C08_final_partition; C08_ids_are_i16 (every reported id went through the i16 cast, for every circuit/request/stream/state) and "
              "C08_refuted_i16 (n = 40000, candidates and assumptions [39999, 40000]: the specification is [[39999, 40000]] and no answer "
              "of the model equals it, for every circuit; the existence of a well-formed 40000-feature circuit is witnessed by the K1 case of "
              "the correspondence run, not inside Coq); partial: nothing. "
              "Correspondence: the extracted model replays the recorded choices of the implementation's internal sampling call and must "
              "return the identical list of lists (plain, cross, stream commands atomic / atomic-cross); oracle: brute-force partition of "
              "the truth table",
    "assumptions": [
        "theorems are about the Gallina model Model/Atomic.v of anomalies/atomic_sets.rs; the union-find is modelled as the partition it "
        "stands for (argument in the header of Model/Atomic.v: keys of `rank` = nodes that took part in a union; HashMap order is washed "
        "out by the sorts); tied to the code by exact equality of the result on every generated request",
        "samples_valid is a hypothesis of the C08 theorems (C07 validity is proved separately); on every recorded run the oracle-independent "
        "replay checks that the model with the recorded choices reproduces the implementation's result",
        "WFQ of each loaded vector is discharged per input by the verified check_wf (C01), not proved for the loaders",
        "oracle independent of the model: truth table of the source formula (src_models) or of the loaded vector (n <= 12), rows filtered "
        "by the assumptions, candidates grouped by their value vectors; cross mode compared up to negating a whole class; unsatisfiable "
        "assumption lists (outside the property) are only compared model = implementation",
        "input space: C01 input space (exhaustive functions over 1..3 features (+ a sample of 4-feature functions in the thorough tier) with "
        "0..2 unmentioned features, random CNFs, d4 and c2d) x assumption lists of length 0..3 x candidate subsets (all subsets for n <= 4, "
        "random beyond, shuffled orders, None) x {plain, cross}; exhaustive over requests for n <= 3 in the thorough tier, sampled in the "
        "quick tier; plus 10 (60) 'near-equivalence' models (x <-> y) or (z1 & .. & zk), k = 9..11, in which two inequivalent features have "
        "equal counts and differ on 2 of > 1000 models, so that the 512 samples often do not separate them (needed to expose a dropped "
        "confirmation query); plus one 40000-feature d4 model for K1 (not replayed by the model: judged against the source clauses)",
        "u32 -> i32 cast of candidates >= 2^31, i16::abs overflow at -32768 and HashMap internals are not modelled; CLI/FFI wrappers call the "
        "same get_atomic_sets",
    ],
}
