import re

import props


def _nontrivial(block):
    """scheduling matters: at least two workers and at least two accepted lines"""
    m = re.search(r"^jobs (\d+)$", block, re.M)
    return bool(m and int(m.group(1)) >= 2 and re.search(r"^input 1 ", block, re.M))


CONFIG = {
    # --count = number of batches; every batch is run 4 (quick) / 6 (thorough) times under different
    # schedules plus once as the lock-step single-worker reference.  The harness (re)builds the real
    # binary from the repo's current tree: cargo build -p ddnnife_bin --features verif
    # --manifest-path $VERIF_REPO/Cargo.toml (default /repo) --target-dir .cache/target-bin.
    "runs": props.simple("c14", 120, 500),
    "status": "full (every interleaving of the transition system StreamTS of init_stream, any worker count, any input, "
              "any answer function): C14_inv, C14_counts, C14_order (both versions of the main thread), "
              "C14_all_answered + C14_accepted + C14_same_as_single_worker (main thread with the flush of fix F3), "
              "C14_no_lost_wakeup (safety half of progress), C14_stepf_is_step, C14_valid_trace_reachable; "
              "refuted for the main thread without the flush: C14_refuted_lost_answer (concrete run); "
              "partial: real scheduling is only exercised, not proved - the OS scheduler/fairness, std mpsc, workctl "
              "and thread::park are trusted to behave like the model's objects; the tie to the code is the H4 event log "
              "of real runs replayed through the extracted valid_trace (traces_validated_against_impl) plus the "
              "single-worker oracle on stdout",
    "rule": "a case = one run of the real ddnnife binary in stream mode on a generated batch under one schedule "
            "(worker count, seeded delays at the H4 points, CPU contention, stdin pacing, exit or end of input); "
            "non-trivial = at least 2 workers and at least 2 accepted lines; distinct = different case body "
            "(input, schedule, event log; sha1)",
    "nontrivial": _nontrivial,
    "assumptions": [
        "answers are a function of the request line (worker clones; count/sat/core/seeded random/atomic only; no paging, no editing request) - that is C16; the reference run is checked to be a function of the line",
        "std::sync::mpsc is FIFO per sender, workctl::WorkQueue is a FIFO, thread::park/unpark have token semantics, the OS scheduler is fair (not modelled; C14_no_lost_wakeup gives only the safety half of progress)",
        "hook H4 changes timing only; the work-queue operations are logged under one extra lock while a log is active",
        "u32 id / i32 remaining_answers wrap-around (2^31 lines in flight), panicking workers and invalid UTF-8 on stdin are not modelled",
        "schedules explored: worker counts 1..8 (quick) / 1..32 (thorough), batches of 1..300 / 1..2000 lines costing ~0.1..40 ms each, seeded delays 0..3000 us at queue pull/push, send, receive, print and stdin receive, up to 2x cores busy threads, 4-6 concurrent runs",
    ],
}
