import props



def runs(tier, seed, replay):
    if replay:
        return props.replay_run(replay)
    base = props.simple("c19", 1500, 4000)(tier, seed, None)
    # CLI glue (the binary's subcommands against the library; see bin/propcfg/C02.py)
    return base + [{"args": ["cli", "--seed", str(seed), "--tier", tier, "--count", "1500" if tier == "thorough" else "150"]}]


CONFIG = {
    "runs": runs,
    "status": "full (for WF C n, all_reachable C, 2 <= n, to_cnf C n = Ok F; arbitrary size, sharing, single-child and n-ary nodes): "
              "C19_sound (every satisfying assignment of the CNF restricted to 1..n is a model of the d-DNNF), "
              "C19_extension_exists_unique (every model extends to a satisfying assignment, unique on all declared variables), "
              "C19_projection (truth table of the CNF over its declared variables projects onto Models C n, each model exactly once), "
              "C19_equicount (number of CNF models = root_count), "
              "C19_header (declared variables = distinct variables = largest variable = n + number of Tseitin variables, "
              "declared clauses = length of the clause list), C19_ok_excludes_true_false; "
              "refuted: C19_refuted_true_node (K5: Cnf::from panics on a circuit with a true node), "
              "C19_refuted_empty_operation (K10: panics on the childless or node the d4 loader leaves for an or node with only false children); "
              "C19_reachability_needed shows the hypothesis all_reachable (part of check_wf) cannot be dropped; partial: nothing",
    "assumptions": [
        "theorems are about the Gallina model Model/ToCnf.v of cnf/into.rs + ddnnife_cnf; tied to the code by exact equality of the clause list (clause and literal order) and of num_variables on every generated input",
        "WF and all_reachable of each loaded vector are discharged per input by the verified check_wf (C01), not proved for the loaders",
        "oracle independent of the model: DPLL model counter over the declared variables of the implementation's CNF (cross-checked by brute force up to 12 variables) against the source formula's truth table; projection onto 1..n compared with the source model set for n <= 10; header checked against the printed text",
        "input space: C01 input space restricted to n >= 2 (exhaustive functions over 1..3 features (+4 thorough) with 0..2 unmentioned features, random CNFs up to 12 (18 thorough) features; d4 and c2d; c2d with kept true nodes)",
        "usize/isize overflow of variable numbers is not modelled (Z); CLI/FFI wrappers call the same Cnf::from and Display",
    ],
}
