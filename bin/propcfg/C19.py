import props

CONFIG = {
    "runs": props.simple("c19", 400, 4000),
    "status": "TODO",
    "assumptions": [],
}
