import props



def runs(tier, seed, replay):
    if replay:
        return props.replay_run(replay)
    base = props.simple("c19", 1500, 4000)(tier, seed, None)
    # CLI glue (the binary's subcommands against the library; see bin/propcfg/C02.py)
    return base + [{"args": ["cli", "--seed", str(seed), "--tier", tier, "--count", "1500" if tier == "thorough" else "150"]}]


CONFIG = {
    "runs": runs,
    "status": "full, true/false nodes and childless and/or nodes INCLUDED (model = Cnf::from after the repair F20: a constant is the empty and / empty or "
              "and gets a Tseitin variable like every operation with <> 1 operands). Hypotheses: C <> [], idx_ok C, complete C n (three fields of WF C n), "
              "all_reachable C, 2 <= n, to_cnf C n = Ok F; arbitrary size, sharing, single-child and n-ary nodes, constants anywhere: "
              "C19_total (idx_ok C -> the repaired Cnf::from returns a CNF: no panic site left), "
              "C19_sound (every satisfying assignment of the CNF restricted to 1..n is a model of the d-DNNF), "
              "C19_extension_exists_unique (every model extends to a satisfying assignment, unique on all declared variables), "
              "C19_projection (truth table of the CNF over its declared variables projects onto Models C n, each model exactly once), "
              "C19_equicount_models (number of CNF models = MC C n), C19_equicount (= root_count; this one under the whole bundle WF C n), "
              "C19_header (declared variables = distinct variables = largest variable = n + number of Tseitin variables, "
              "declared clauses = length of the clause list); "
              "about the code before the repair (to_cnf_v0): C19_refuted_true_node (K5: Cnf::from panicked on a circuit with a true node), "
              "C19_refuted_empty_operation (K10: panicked on the childless or node the d4 loader leaves for an or node with only false children), "
              "C19_ok_excludes_true_false (it returned a CNF only without true/false nodes), C19_repair_conservative (where it returned a CNF the repaired code returns the same one); "
              "C19_reachability_needed / C19_two_features_needed show that all_reachable (part of check_wf) and 2 <= n cannot be dropped; partial: nothing",
    "assumptions": [
        "theorems are about the Gallina model Model/ToCnf.v of cnf/into.rs + ddnnife_cnf AFTER repo_patches/F20-to-cnf-constants.patch; tied to the code by exact equality of the clause list (clause and literal order) and of num_variables on every generated input; against a tree without F20 the check reports the old signatures to_cnf:true-node / to_cnf:false-node / to_cnf:empty-operation as violations",
        "the hypotheses of the theorems (all implied by check_wf C n) are discharged per loaded vector by the verified check_wf (C01), not proved for the loaders",
        "oracle independent of the model: DPLL model counter over the declared variables of the implementation's CNF (cross-checked by brute force up to 12 variables) against the source formula's truth table; projection onto 1..n compared with the source model set for n <= 10; header checked against the printed text",
        "input space: C01 input space restricted to n >= 2 (exhaustive satisfiable functions over 1..3 features (+4 thorough) with 0..2 unmentioned features, random CNFs up to 12 (18 thorough) features; d4 and c2d); classes with constants, counted in the STAT lines class_*: c2d with kept true nodes (A 0), c2d with kept false nodes (O 0 0; one case in six), d4 trivial components (and nodes over t only -> childless and), d4 dead and-chains above f, d4 dead or nodes (all edges into f -> childless or; one d4 case in ten) and seven hand-written files (the four reproductions of K5 / K10, two true nodes sharing one variable, true below a single-child and, true and false below one or)",
        "outside the input space (not well-formed / not satisfiable, observed only): a model whose root mentions fewer than n features (e.g. the c2d files 'nnf 1 0 2 / O 0 0' and 'nnf 1 0 2 / A 0') gets a header that counts the DISTINCT variables of the clauses ('p cnf 1 2 / -3 0 / 3 0': one declared variable, largest variable 3)",
        "usize/isize overflow of variable numbers is not modelled (Z); CLI/FFI wrappers call the same Cnf::from and Display",
    ],
}
