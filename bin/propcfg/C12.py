import os
import props


def runs(tier, seed, replay):
    if replay:
        return props.replay_run(replay)
    n = 400 if tier == "thorough" else 60
    env = {}
    # the clause-update path writes a temporary CNF per accepted update (tempfile crate -> TMPDIR)
    if os.path.isdir("/dev/shm"):
        env["TMPDIR"] = "/dev/shm"
    return [{"args": ["c12", "--seed", str(seed), "--tier", tier, "--count", str(n)], "env": env,
             "timeout": 14000 if tier == "thorough" else 1500}]


def nontrivial(block):
    """a history tree with an accepted update, a rejected update and an undo"""
    import re
    return (re.search(r"^s \d+ clause-update.*\na ok$", block, re.M) is not None
            and re.search(r"^a err ", block, re.M) is not None
            and re.search(r"^s \d+ undo-update$", block, re.M) is not None)


CONFIG = {
    "runs": runs,
    "nontrivial": nontrivial,
    "status": "full for the repaired code (HEAD, after F8 and F9), refuted for the code before them; one finding on HEAD (K9). "
              "C12_refines: for EVERY command list (clause-update with any t/add/rmv lists, undo-update, save-cnf) run from a CNF-loaded state "
              "(good_input = clause lines without literal 0, satisfiable; the stored clause set MAY BE EMPTY - no clause line, tautologies only - "
              "since repair F9: C12_load_has_cache, every loaded CNF has a clause cache initialised with the stored set), "
              "the model of ClauseCache (setup_for_edit with rollback, setup_for_undo, apply_edits_and_replace, update_cached_state+swap, "
              "undo_on_cached_state, the stream-level t/conflict/boundary checks) and the abstract clause-set machine (state = current set, n, "
              "previous (set, n); update = (set \\ rmv) ++ add, undo = swap) stay coupled, by induction over the history with the coupling invariant R "
              "(C12_coupling: stored set = machine's set in BTreeSet order, total = machine's n, live model compiled from a CNF with the models of the "
              "machine's current set over its n, old_state from the previous one, save-cnf prints exactly the machine's set and n; edit_add/edit_rmv "
              "= the duplicate-free difference leading back to the previous set); C12_update_cases: a rejected update (rmv clause absent or "
              "repeated, t <= 0 or below a variable used by the current set, literal above the requested feature count) answers an error and the "
              "whole state is unchanged, an accepted one is the abstract update, a panic happens only when the accepted update's CNF is not loadable; "
              "C12_no_panic_when_loadable; C12_undo_twice: undo o undo = identity on the whole model state from every coupled state; "
              "C12_initial_save + C12_simplify_equiv: save-cnf after loading writes simplify_clauses(input), which has exactly the models of every "
              "satisfiable input (C12_simplify_unsat_refuted: not of every unsatisfiable one); C12_answers / C12_count_answers / C12_sat_answers / "
              "C12_core_answers: under the compiler contract (Section hypothesis, checked per compilation by the run) the live model after any history "
              "has the models of the machine's CNF and count / sat / core (via the C02, C03, C05 theorems) answer for that CNF. "
              "Refuted (vm_compute witnesses): C12_refuted_add_existing, C12_refuted_duplicate_add (code before F8; C12_fixed_on_refuting_histories for HEAD), "
              "C12_refuted_unsat_panic (K9); about the loader before F9 (load_cnf_v0, Ddnnf::new created the cache only for a non-empty stored set): "
              "C12_refuted_empty_cnf_v0 (K14: save-cnf / clause-update answered E5; the repaired loader answers the same history as the abstract "
              "machine: `p cnf 2 0`, add from the empty set, t, undo), C12_load_cnf_v0_nonempty (F9 changes nothing for a non-empty stored set). "
              "Against a tree WITHOUT F9 the check reports VIOLATION save-cnf:no-clause-cache (detector, no finding line) on every start with an "
              "empty stored set. No axioms",
    "assumptions": [
        "theorems are about the Gallina model Model/ClauseCache.v; tied to /repo by the correspondence: answer class and error text, feature count and the save-cnf text line by line after EVERY step of every explored history (model = implementation, also for the state a panic leaves behind); when /repo carries hook H7 (repo_patches/H7-clause-cache-view.patch, detected by harness/build.rs) also the private bookkeeping total_features / old_total_features / old_state's feature count / edit_add / edit_rmv (driver_stats.cache_bookkeeping_compared) - these fields have no effect on any public answer, so a change that only corrupts them is reported as 'no-failing-input-found' with H7 and is invisible without it",
        "compiler contract (trusted base): for every CNF the compiler + loader yield a vector accepted by check_wf whose truth table is the CNF's; the run checks it for every observed live circuit (check_wf, no_dead, Models = truth table of the oracle's CNF) and validates every stand-in compiler output against the CNF's truth table in the harness",
        "oracle independent of the cache model: the abstract machine written directly in OCaml (sets of sorted int lists) + brute-force truth table; count, count a l for every literal, sat, core, the boundary (count a n+1 is an E3 error) and the save-cnf text are compared after every step; cross-checked against the extracted Spec.CnfMachine",
        "histories: exhaustive trees (every command sequence up to length 3 quick / 5 thorough over a per-CNF alphabet of 17-22 commands: adds of new / present / duplicated / permuted-literal / tautological clauses, removes of present / absent / repeated / present+absent clauses, add+rmv and rmv+re-add in one command, t growing / shrinking / below a used variable / t together with the removal of the blocking clauses, literals above n, undo, the empty update, an update that makes the formula unsatisfiable) on hand-picked CNFs (units, subsumed clauses, duplicates, tautologies, free features, empty stored set = ordinary starts since F9); every satisfiable Boolean function over <= 3 variables (the constant-true function = the CNF without clauses included) as start CNF with shorter trees (length 2-3 quick, 3-4 thorough); random histories of length 6-14 (6-30 thorough) on random CNFs with up to 8 (10) variables (one start in sixteen without effective clauses)",
        "reading of 'below a variable still in use': a variable of the CURRENT stored set, as the implementation checks before applying rmv ('clause-update t 4 rmv 4 5' on {4 5} is rejected); rejections change nothing, so this conservative reading cannot hide a wrong state",
        "unsatisfiable START CNFs are not C12 cases (no model is loaded: the load panics, K9); i32/u32 overflow of literals and feature counts is not modelled (Z / nat); malformed command lines (empty clause, non-numeric tokens, several t values) belong to C13",
    ],
    "rule": "a case = one start CNF + the tree of all histories below one first command (DFS pre-order, states cloned); "
            "evaluations = cases; driver_stats.steps = executed commands, each followed by the full observation; a case is non-trivial when its tree "
            "contains an accepted update, a rejected update and an undo; distinct = different case body (sha1)",
    "trusted": ["stand-in CNF compiler harness/src/cnfc.rs + gen.rs registered through hook H1 (every output validated against the CNF's truth table: driver_stats.standin_outputs_validated_by_truth_table)"],
}
