import re

import props


def _nontrivial(block):
    return (re.search(r"^circ .*\bA \d", block, re.M) is not None
            and re.search(r"^circ .*\bO \d", block, re.M) is not None)


CONFIG = {
    "runs": props.simple("c11", 400, 1200),
    "nontrivial": _nontrivial,
    "status": "PARTIAL by design. "
              "FULL (Coq, closed): the unit-clause edit on the flattened vector (unit_edit = add_unit_clause + rebuild as delete "
              "the complementary leaf + every and-ancestor chain, drop the edges from or-parents, re-flatten by a DFS post-order): "
              "C11_unit_sem (WF C n, 1 <= |l| <= n, 0 < MCA C n [l]: Models (unit_edit C l) n = filter (contains l) (Models C n), "
              "equality of lists), C11_unit_eval (pointwise for every assignment), C11_unit_sem_assumptions "
              "(ModelsA (unit_edit C l) n A = ModelsA C n (l :: A): all later partial counts / SAT / enumeration / sampling are about "
              "the conjunction), C11_unit_count (the cached root count = MCA C n [l], proved without well-formedness of the edited "
              "vector), C11_unit_is_edit_spec (= edit_spec for a unit clause), C11_unit_idx_ok + C11_reflatten (the edited vector is a "
              "non-empty post-order; the DFS re-flattening preserves function and count); C11_unit_WF / C11_unit_WFQ (when the edited "
              "vector has no dead node it is WF and WFQ again: decomposable, smooth, complete, deterministic, unique leaves, reachable, "
              "non-zero literals) and therefore, composed with the C02 / C03 theorems about the query ALGORITHMS, "
              "C11_unit_then_count (execute_query on the edited vector, every strategy, every Clean state: MCA C n (l :: A)), "
              "C11_unit_then_sat; enumeration and sampling follow the same way from C06 / C07 (which take WFQ of the vector as "
              "hypothesis); C11_unit_then_core / C11_unit_then_core_models (the cached core that rebuild recomputes, with the repaired "
              "calculate_core of F22: In x (calculate_core (unit_edit C l) n) <-> every model of C containing l contains x - for EVERY "
              "unit edit, no hypothesis on the edited vector, dead nodes included) via C11_unit_enum_root (enum_root (unit_edit C l) = "
              "filter (okA [l]) (enum_root C), list equality); "
              "reduce_clause (C11_reduce_clause, _skipped, _kept, C11_prepare_no_panic); the specification "
              "(C11_edit_spec_add: adding is conjunction, tautologies and duplicates absorbed; C11_edit_spec_rmv; "
              "C11_edit_spec_features). "
              "The model follows /repo AFTER the repairs F14-F17 (K23, K25, K26, K34) and F23-F28 (K38, K27, K22+K33, K30-K32, K3+K20+K29, "
              "K21+K35; repo_patches/F23..F28-*.patch); `_v0` / `_v1` definitions = the code before them, kept only for the witnesses. FULL for the "
              "repaired code paths: the dispatch conditions decidable without the graph (C11_dispatch_nothing / _cache_hit; C11_dispatch_unit + "
              "C11_dispatch_unit_iff: the unit path is taken exactly for one added unit clause - over an existing or a NEW variable - with NOTHING "
              "to remove and no cache hit; C11_dispatch_removal_not_unit; C11_dispatch_error_iff: every other edit is refused with Error exactly "
              "when the d-DNNF was not compiled from a CNF; C11_dispatch_empty_from_cnf: an empty clause list of a CNF-compiled d-DNNF is "
              "recompiled with the edit; C11_dispatch_tautology_iff; C11_dispatch_v1_same / _v0_same_without_removal: where the repairs changed "
              "nothing); the undo cache predicate and keys (C11_cache_matches_inverse, C11_cache_matches_iff_inverse, C11_cache_find_inverse, "
              "C11_cache_matches_v0_weaker, C11_unit_edit_clears_cache + C11_no_undo_after_unit); the stored clause list (C11_retain_removes_exactly, "
              "C11_retain_is_filter, C11_retain_is_edit_spec, C11_adjust_removal_is_edit_spec, C11_retain_v0_single, C11_recompile_stored_once: an "
              "edit answered Recompile applies the edit once). FULL as well: the unit edit over a NEW variable (unit_edit_new, F27; for every WF C over n features and every l with "
              "n < |l|, any gap, n' = |l|): C11_unit_new_sem (Models (unit_edit_new C n l) n' = filter (contains l) (Models C n'), list "
              "equality; C11_models_lift: Models C n' is the truth table of C lifted to n' features with the new ones free), "
              "C11_unit_new_eval (pointwise), C11_unit_new_sem_assumptions, C11_unit_new_count (root count = 2^(|l|-1-n) * root_count C), "
              "C11_unit_new_WF / C11_unit_new_WFQ (the edited vector is WF / WFQ over n' UNCONDITIONALLY, for an And root that takes the new "
              "children and for every other root under a fresh And root; via C11_reflatten_WF / C11_reflatten_WFQ: the re-flattening of any "
              "WF vector is WF), C11_unit_new_then_count / _then_sat / _then_core (execute_query, sat, calculate_core on the edited vector "
              "answer for C /\\ l over n' features, by the C02 / C03 / C05 theorems), C11_unit_new_is_edit_spec (= edit_spec for a unit "
              "clause over a new variable, feature count |l|); no shape refutes them (ex_c11_unit_new: gap 0 and 2, And / Or / literal / "
              "TrueN root, n = 0); the dumped vector is compared with unit_edit_new on every such edit. "
              "REFUTED on the faithful model (vm_compute witnesses): C11_removal_after_simplify_refuted (K8). About the code BEFORE the repairs: "
              "C11_multi_removal_refuted_v0 (K23), C11_cache_matches_partial_refuted_v0 (K25), C11_dispatch_unit_drops_removal_v0 (K26), "
              "C11_undo_stale_after_unit_refuted_v0 (K34), C11_recompile_adjusts_twice_refuted_v0 (K38), C11_dispatch_empty_store_v1 (K3, K20, K27). "
              "C11_unit_core_refuted (K4) is about the syntactic core before F22. "
              "SPEC + CORRESPONDENCE ONLY (not modelled): closest_unsplitable_bridge, find_bridges, divide_bridge, "
              "transform_to_cnf_from_starting_cnf, switch_sub_dag, recompile_everything, the cached graphs - every answer after "
              "every edit is judged against the truth table of edit_spec on the source formula. "
              "On /repo + F23-F28 the property FAILS in 6 recorded input classes: K8 / K37 (removal on the unit-propagated clause list; repair = keep "
              "the original clause list next to the simplified one: not small), K21 (the inverse of a unit edit on an nnf-loaded model is refused: "
              "needs an undo entry per unit edit), K24 and K28 (sub-DAG replacement: decisions taken from the old graph / a free feature inside the "
              "replaced sub-DAG: the bridge machinery itself), K30 (sub-DAG replacement on a graph changed by a unit edit; F26 repaired the stale "
              "maps, the selection still assumes a compiler-shaped graph). K3 K20 K22 K23 K25 K26 K27 K29 K31-K35 K38 are `fixed:`; their signatures "
              "stay as DETECTORS without a finding line. Against a tree WITHOUT F23-F28 the check reports VIOLATIONs under those signatures and "
              "dispatch DIFFs",
    "assumptions": [
        "theorems are about the Gallina model Model/Edit.v; tied to /repo by: unit_edit = the dumped node vector after every UnitClause "
        "step (exact vector equality), reflatten = identity on every dumped vector (validates the DfsPostOrder model), reduce_clause on "
        "every edit clause and on random (clause, decisions) pairs (as sets: the Rust returns HashSet order), prepare + dispatch = the "
        "returned IncrementalStrategy whenever the facts (cache content via cache_find / cache_after_unit, stored clause list via the "
        "model of simplify_clauses / adjust_intern_cnf / recompile_stored, IntermediateGraph.number_of_variables, root == node 0) are known",
        "unit_edit removes every leaf of the complementary literal; the Rust removes the one in literals_nx - equal under unique_leaves, which check_wf establishes per loaded input",
        "oracle independent of the model: plain truth tables (bit masks) of edit_spec on the source formula - nnf mode: the source's "
        "model list conjoined with the unit clause over n' = max n |l| features, the inverse edit must restore the previous answers; "
        "cnf mode: the source clause SET with removed clauses deleted and added clauses conjoined, n' = max n (largest added variable). "
        "Where the property's two readings differ (inverse of an edit that added a duplicate clause or a new variable; a removal that "
        "frees the largest variables) either reading is accepted",
        "judged per step: number_of_variables, total count, count of every literal, counts of literal pairs (all for n <= 6), sat of every "
        "literal, cached core (get_core), one full enumeration cycle from a fresh cursor (H3 reset), 2 x 4 seeded samples; after the first "
        "failing step of a history the later steps are not judged (the state is unknown)",
        "input space: (i) nnf-loaded C01 inputs (exhaustive functions over 1..3 features (+ sampled 4 thorough) with 0..2 unmentioned "
        "features, random CNFs up to 10 (12 thorough) features; d4 and c2d) x every satisfiable-keeping literal (4 sampled for n > 5 quick) "
        "+ the new-variable literals n+1, -(n+1), n+2, each followed by the inverse edit; (ii) CNF-loaded through the stand-in compiler "
        "(H1): one CNF per satisfiable function over 1..3 (4 thorough, sampled) features, every clause set of <= 2 (3 thorough, sampled) "
        "clauses over <= 3 variables, random CNFs up to 8 (11 thorough) variables x random histories of up to 3 (4 thorough) edits: "
        "clauses of width 1..4, new variables (also with a gap), duplicate literals, tautological clauses, clauses already present, "
        "removal of present / absent clauses, two clauses per edit, mixed add+remove, exact inverse of the previous edit; only histories "
        "that stay satisfiable; (iii) reduce_clause directly",
        "the stand-in compiler (harness/src/cnfc.rs, gen.rs) replaces d4 for every compilation ddnnife performs (load and recompile); its contract (output denotes the CNF) is checked by the oracle at the load step of every history",
        "signatures name the input class of the first failing step (chk_c11.ml, fixed order): mode nnf: new-variable-clause (was K3), "
        "nnf-recompile-forgets-model (was K20), nnf-removal (K21: refused with Error since F28; :panic was K35); mode cnf: detectors named by the "
        "observable misbehaviour first (undo-stale-after-entry, undo-stale (was K34), undo-partial-match (was K25), unit-add-drops-removal "
        "(was K26), add-on-empty-cnf = Tautology for an effective edit on an empty clause set (was K27), new-variable-subdag = a new-variable "
        "unit clause answered by a sub-DAG replacement (was K29)), then the recorded classes clause-removal (K8; :panic K37), removal-frees-core "
        "(K24), free-feature-subdag (K28), then the broad input classes of repaired defects (recompile-removes-shortened-clause (was K38), "
        "after-undo-stale-cnf (was K22; :panic K33)), subdag-after-unit-edit (K30), unit-after-subdag (was K32), panic-after-unit-edit (was K31); "
        "a failing step without a class of its own inherits the first class met earlier in its history; anything else is reported under "
        "edit:wrong-count / wrong-core / wrong-enumeration / wrong-sample / feature-count / inverse-not-restored / panic / load-wrong and is a VIOLATION",
        "the oracle follows EVERY state that fits all answers so far (the two readings of an inverse edit - edit_spec of the inverse / the "
        "previous state restored - can give the same answers with different clause sets; F25 makes the implementation follow the second); a "
        "history whose followed states all become unsatisfiable has left the input space and is not judged further; beyond 5000 models one "
        "enumeration page of 5000 distinct models is accepted",
        "model-side bookkeeping of the checker (decides only which dispatch facts are known, never a verdict): stored clause list = "
        "adjust_intern_cnf per step (recompile_stored for Recompile), restored by an Undo from the entry (F25), cache keys = cache_find over the "
        "pushed entries, emptied by every unit edit (cache_after_unit), unknown after a sub-DAG replacement pushed onto a non-empty cache "
        "(retain_push depends on the cached graphs); facts: from_cnf and root == node 0 as reported by the harness",
    ],
    "rule": "one case = one history (load + edits with the battery after each) or the reduce_clause table; non-trivial when some dumped "
            "vector has an And and an Or node; distinct = different case body (sha1)",
    "trusted": ["the stand-in CNF compiler of the harness (hook H1) - validated per history by the load-step oracle",
                "chk_c11.ml: plain-OCaml truth tables and the input-class rules that choose the signature"],
}
