import props

CONFIG = {
    # --count = number of generated small models for the controlled interleavings
    "runs": props.simple("c17", 12, 60),
    "status": "full for the repaired protocol (reserve the page and advance the cursor under one lock acquisition, then "
              "compute): C17_serialisable / C17_serialisable_exists (every complete run, any number of requests, same or "
              "different keys, any interleaving, any initial cursor: answers and final cursor equal those of the sequential "
              "run in the order of the reserve steps), C17_disjoint_within_cycle + C17_page_size (sequential pages of one key "
              "from cursor 0 are 0..c-1 cyclically: duplicate-free while at most c were handed out, every index once per "
              "completed cycle, no empty page, size min(amount, rest of the cycle)), C17_concurrent_disjoint (the same for "
              "concurrent runs with other keys mixed in), C17_valid_event_step / C17_exec_all_run (the extracted validator is "
              "the step relation); refuted for the old read/compute/write protocol: C17_refuted_race (concrete run, vm_compute)",
    "assumptions": [
        "configurations are abstracted to their index in the fixed enumeration order of their assumption key (the order itself is C06's model); count(A) > 0 and amount > 0 where the theorems say so",
        "atomicity of the reserve step = mutual exclusion of std::sync::Mutex; the compute step touches only the worker's own clone (checked by the controlled runs: every schedule of the lock/unlock points gives the model's answers)",
        "hook H3 (repo_patches/H3-cursor-sched.patch) only adds scheduling points; without it the check runs the free-running stress mode only and says so in driver_stats (blocks_hook_H3_absent_stress_only)",
        "controlled runs: all schedules of the cursor-lock acquisition/release points for 2 and 3 requests (same key, mixed keys; 2..4 workers), random schedules for 4..6 requests, amounts from {1,2,3,5,c-1,c,c+1}, generated models with 5..200 models under A and one with 14 free features; stress: 8 x enum 2000 on 14 free features with 2..4 free-running threads",
        "request literal lists are duplicate-free except in the one 'dupset' case, which records the known finding K12 (cursor keyed by the literal list, not the set: [1] and [1,1] page independently)",
        "the oracle compares with the implementation's own sequential full cycle from cursor 0 (ref) and needs C06 (that cycle has count(A) distinct configurations; count(A) from the truth table of the source formula)",
    ],
    "rule": "one case = one (model, request list) with all its runs (every enumerated or random schedule, or one free-running "
            "stress run); non-trivial when the flattened circuit has an And and an Or node; distinct = different case body (sha1)",
    "trusted": ["the barrier scheduler in harness/src/k_c17.rs (parks every worker at the H3 points, grants one at a time) and H3 itself (wrapper type around the same Mutex; callback before lock / after unlock)"],
}
