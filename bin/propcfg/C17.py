import props

CONFIG = {
    # --count = number of generated small models for the controlled interleavings
    "runs": props.simple("c17", 12, 60),
    "status": "full for the repaired protocol (reserve the page and advance the cursor under one lock acquisition, then "
              "compute): C17_serialisable / C17_serialisable_exists (every complete run, any number of requests, same or "
              "different keys, any interleaving, any initial cursor: answers and final cursor equal those of the sequential "
              "run in the order of the reserve steps), C17_disjoint_within_cycle + C17_page_size (sequential pages of one key "
              "from cursor 0 are 0..c-1 cyclically: duplicate-free while at most c were handed out, every index once per "
              "completed cycle, no empty page, size min(amount, rest of the cycle)), C17_concurrent_disjoint (the same for "
              "concurrent runs with other keys mixed in), C17_valid_event_step / C17_exec_all_run (the extracted validator is "
              "the step relation); refuted for the old read/compute/write protocol: C17_refuted_race (concrete run, vm_compute). "
              "WHICH requests share a key (finding K12, repaired by F19 = repo_patches/F19-enum-cursor-key-set.patch: the key is enum_key A = the "
              "assumption list sorted by feature with repeated literals removed, Model/Enumerate.v): C17_key_is_set (a request whose list has the "
              "same SET of literals as a consistent list A - any order, any repetition - has the key of A), C17_same_set_one_cycle (sequential "
              "requests for one set in any spellings page through ONE cycle: the statement of C17_disjoint_within_cycle for all of them together), "
              "C17_same_set_concurrent (the same for every interleaving of the repaired protocol), C17_key_v0_refuted (the code before F19, key = "
              "sorted LIST: `enum a 1` and `enum a 1 1` both get [0;1]; with F19 the second gets [2;3]). "
              "WHO shares a cursor (repair F21 of finding K2, repo_patches/F21-cursor-per-model.patch + hook H3b): the cursor map of Model/Cursor.v is "
              "the field Ddnnf.enumeration_cursor behind an Arc - clone() shares it, so the stream workers (clones of ONE loaded model) page through "
              "it together as the theorems presuppose, while two separately loaded instances have two maps (C16_cursor_per_model)",
    "assumptions": [
        "configurations are abstracted to their index in the fixed enumeration order of their assumption key (the order itself is C06's model); count(A) > 0 and amount > 0 where the theorems say so",
        "atomicity of the reserve step = mutual exclusion of std::sync::Mutex; the compute step touches only the worker's own clone (checked by the controlled runs: every schedule of the lock/unlock points gives the model's answers)",
        "hook H3 (repo_patches/H3-cursor-sched.patch) only adds scheduling points; without it the check runs the free-running stress mode only and says so in driver_stats (blocks_hook_H3_absent_stress_only)",
        "controlled runs: all schedules of the cursor-lock acquisition/release points for 2 and 3 requests (same key, mixed keys; 2..4 workers), random schedules for 4..6 requests, amounts from {1,2,3,5,c-1,c,c+1}, generated models with 5..200 models under A and one with 14 free features; stress: 8 x enum 2000 on 14 free features with 2..4 free-running threads",
        "every third request of the controlled runs repeats one or two of its literals (all requests permute them); the 'dupset' case pages the sets {1} and {2,-3} "
        "through eight spellings sequentially: one cursor per set (oracle: nothing twice within a cycle, a sequential order exists, final cursor; H3 snapshot: no "
        "cursor entry besides the two keys); the checker recomputes every request's key with the extracted enum_key (DIFF request-key otherwise). "
        "Without repo_patches/F19-enum-cursor-key-set.patch applied to /repo this check reports VIOLATION (enum:duplicate-literal-key; K12)",
        "cursor ownership (F21): hook H3b = per-instance reset / snapshot (Ddnnf::verif_reset_enumeration_cursor / verif_enumeration_cursor_snapshot; every snapshot of "
        "a controlled run is read through a clone of the case's instance); 6 / 24 generated models each in mode clones (8 requests round-robin to an instance and "
        "two clones of it: all answers together must be ONE sequential run from position 0, final cursor read through a clone; signature enum:clones-separate-cursors) "
        "and mode independent (every request to instance X, then to a separately loaded instance Y of the same file: the answers of X and of Y must each be a sequential "
        "run from position 0 of their own; signature enumerate:cursor-shared-across-models, a detector without a finding line since F21); built against a /repo without "
        "H3b the harness falls back to the process-global reset / snapshot and mode independent reports VIOLATION",
        "the oracle compares with the implementation's own sequential full cycle from cursor 0 (ref) and needs C06 (that cycle has count(A) distinct configurations; count(A) from the truth table of the source formula)",
    ],
    "rule": "one case = one (model, request list) with all its runs (every enumerated or random schedule, or one free-running "
            "stress run); non-trivial when the flattened circuit has an And and an Or node; distinct = different case body (sha1)",
    "trusted": ["the barrier scheduler in harness/src/k_c17.rs (parks every worker at the H3 points, grants one at a time) and H3 itself (wrapper type around the same Mutex; callback before lock / after unlock)"],
}
