import props


def runs(tier, seed, replay):
    if replay:
        return props.replay_run(replay)
    n = 1500 if tier == "thorough" else 300
    base = ["--seed", str(seed), "--tier", tier, "--count", str(n)]
    # the result bound of the and-merge behaves differently per build profile (overflow checks):
    # full input space in the debug profile, wide Ands + a sample of the space in the release profile
    return [{"args": ["c20"] + base, "profile": "debug"},
            {"args": ["c20wide"] + base, "profile": "release"}]


CONFIG = {
    "runs": runs,
    "status": "full: C20_best (None iff MCA = 0, otherwise a maximal-value model containing A), C20_topk (min(k, MCA) pairwise "
              "distinct models containing A with their values, non-increasing, nothing omitted is better; for EVERY tie-breaking "
              "policy of the candidate heap, frontier invariant of the and-merge + k-way or-merge), C20_merge_and, C20_merge_or, "
              "C20_is_best_iff / C20_is_topk_iff (verified result checkers evaluated on every answer of the implementation), "
              "C20_topk_accepted; refuted: C20_refuted_overflow (model of the unrepaired usize product, word size 64: 0 results in "
              "release / panic in debug on 64 free features, k = 2); the theorems are about the repaired bound (fix F6)",
    "assumptions": [
        "objective values are integers (the harness feeds integer-valued f64 in -9..9, sums are exact, no -0.0 arises); f64 rounding, NaN and -0.0 ordering (total_cmp) are not modelled",
        "Config is modelled as the list of decided literals (order has no counterpart in the var-indexed vector); the BiHashMap candidate_idx_mapping is modelled by the list of inserted index tuples (distinct tuples give distinct configurations below a decomposable And)",
        "which of several equally good candidates BinaryHeap::pop returns is a parameter of the model (theorems hold for every choice); the correspondence compares top-k VALUE sequences, the configurations are judged by the truth-table oracle and compared with the model only when all model values are pairwise distinct; calc_best_config is compared exactly (value and configuration)",
        "k <= usize::MAX and assumptions within 1..n (hypotheses of the theorems); C01 input space: exhaustive functions over 1..3 (quick) / 1..4 (thorough) features plus random CNFs, plus And nodes over 63/64/70 or-triangles in the debug and the release profile",
        "the 63/64/70-feature cases have no truth table: necessary-condition oracle (models containing A, distinct, sorted, correct values, size against the model count, one-flip neighbours) plus equality with the model",
    ],
}
