import os
import props

ROOT = os.path.dirname(os.path.dirname(os.path.dirname(os.path.abspath(__file__))))
SCRATCH = os.path.join(ROOT, ".cache", "run", "C13", "scratch")


def runs(tier, seed, replay):
    if replay:
        return props.replay_run(replay)
    n = 600 if tier == "thorough" else 100
    env = {"VERIF_SCRATCH": SCRATCH}
    r = []
    # the overflow behaviour differs between the profiles (F2: abs / + on usize), so both are run
    for profile in ("debug", "release"):
        r.append({"args": ["c13", "--seed", str(seed), "--tier", tier, "--count", str(n)],
                  "profile": profile, "env": env, "timeout": 6000})
    return r


CONFIG = {
    "runs": runs,
    "status": "full after the repairs F2 and F21 for everything the model covers; refuted before F2; the enum cursor precondition (finding K2) is "
              "CLOSED by F21 (repo_patches/F21-cursor-per-model.patch: the cursor is a field of the loaded model, emptied by Ddnnf::swap / rebuild; "
              "without it this check reports VIOLATION enumerate:cursor-shared-across-models): it is an invariant of the stream state machine "
              "(K6 = range expansion before the boundary check is fixed by F18, /repo 2026f7b; C13_f18_same_result: the repaired get_numbers "
              "returns the same Ok value / error code and text / panic as the expanding model for every token list, every boundary 0 <= b and both "
              "profiles, so the model did not have to change; time and memory are not modelled). Model/StreamMsg.v = token-level model of handle_stream_msg over ASCII lines (split_whitespace, "
              "duplicate check, total-features pre-pass, keyword loop with the param_index arithmetic, get_numbers with the nom prefix "
              "parsers a..b | a.. | a, i32 overflow, zero removal, boundary check, get_floats / split_clauses with the f64 grammar, u64/usize "
              "parse, dispatch, op_with_assumptions_and_vars, format_vec / format_vec_vec; every unwrap / index / slice / remove / abs / "
              "negation / usize + / to_usize().expect / BigInt % is an explicit Panic branch; V0 = before F2, V1 = after; debug and release "
              "profiles). Proved (30 theorems, closed under the global context): "
              "C13_parse_no_panic (every line, every state, both profiles: the parsing half never reaches a partial operation and terminates), "
              "C13_no_panic (ONE line in ANY state; unconditional for every line that is not an accepted enum request, for enum under enum_safe = the "
              "cursor does not exceed the count and the root is not a true node; C13_enum_guard_needed: in an arbitrary state that hypothesis cannot be "
              "dropped), THE CURSOR INVARIANT (Proofs/StreamMsgCursor.v; stream_inv st = exists C n, wf_sstate C n st, 0 < n, and for every assumption "
              "list A within 1..n with count(A) > 0: 0 <= cursor(enum_key A) < count(A), fitting a usize): C13_cursor_invariant_init (freshly loaded "
              "model: empty cursor), C13_cursor_invariant_step (EVERY line preserves it: rejected and non-mutating lines change neither model nor cursor, "
              "enum writes stop mod count(A), an accepted clause-update / undo-update replaces the model and EMPTIES the cursor - exec: cur := [] = "
              "Ddnnf::swap after F21 - a refused one changes nothing), C13_cursor_invariant_enum_safe (it implies enum_safe for whatever the line parses "
              "to), C13_no_panic_inv and C13_no_panic_session (UNCONDITIONAL: no line of any session fed to one instance is answered by a panic, enum "
              "lines included; the plugged update/undo must hand back a well-formed model over >= 1 feature when they accept: ext_wf, the compiler "
              "contract of C12; what is left of enum_safe is 0 < n: a model without features - a lone true node - still divides by zero in stop % rt, "
              "outside the input space), C13_stale_cursor_unreachable (the state the code before F21 reached by enum l 3 / clause-update 4 -> 1 "
              "configurations: wf_sstate holds, enum panics, the invariant fails) + ex_c13_invariant_hyps (a stand-in that ACCEPTS updates satisfies "
              "all hypotheses; the session enum l 3 / clause-update / enum / enum / undo-update / enum l 2 / enum l 3 evaluated), C13_profile_irrelevant, "
              "C13_refuted_total_features / _total_features_index / _i32_min / _boundary_gap / _cursor_overflow (V0 witnesses by vm_compute, "
              "each with the V1 answer), C13_error_codes (both versions: an error text starts with its code E1..E6), "
              "C13_reject_unchanged (a rejected line leaves model, cursor and clause cache EQUAL and the scratch state Clean; a line rejected "
              "while parsing leaves the state literally equal; every accepted request other than enum / clause-update / undo-update likewise; "
              "enum only moves the cursor), C13_result_count / _sat / _core (answer = ';'-joined rendering of the TRUTH-TABLE answers of the "
              "parsed request, through the C02 / C03 / C05 theorems), C13_result_enum / _random (rendering of the library call of "
              "Model/Enumerate.v), C13_ranges_closed / _open / C13_range_members / _ascending (a..b and a.. with decimal integers = the "
              "inclusive ascending list without 0), C13_f18_same_result (Proofs/C13F18.v: get_numbers_f18 = the code after F18, a limited range a <= b with an end point outside the boundary contributes [a, b] only; equal to get_numbers V1 everywhere, by the invariant \"accumulators equal, or both hold a number outside the boundary\"), C13_param_order (two well-formed groups a|v|seed|limit|path after the command commute: same "
              "outcome and successor state) and C13_param_order_anywhere + C13_kw_loop_suffix (anywhere in the line). "
              "atomic / t-wise / clause-update / undo-update / save-* are parameters of the model (ext_total / ext_keeps = the statements of "
              "C08 C09 C10 C12); the f/add/rmv groups are outside C13_param_order (partial there)",
    "assumptions": [
        "ASCII lines: non-ASCII char::is_alphabetic / is_whitespace are outside the model (exercised only by the junk generator of the thorough tier: none)",
        "theorems are about the Gallina model; tied to /repo + F2 by exact equality of the answer text (results and errors; error CODE only for lines "
        "with control characters) of every generated line in the debug AND the release profile, one long-lived instance per block",
        "models loaded from nnf (C01 input space, n = 2..6) for the line space: there clause-update / undo-update / save-cnf are exercised on their "
        "E4 / E5 / E6 paths only; CNF-loaded models (compiler stand-in, hook H1): kind C13U - 30 / 150 sessions per profile of enum / count / "
        "clause-update add|rmv / undo-update lines (every second update leaves fewer configurations than the cursor position), the model threaded "
        "through them with the node vector the implementation dumped after each accepted update (so the model's `cur := []` is compared: exact answers), "
        "the oracle = the truth table of the clause set the session is at (cycle rule of C06, restarting after every accepted update / undo; count = |T|)",
        "cursor ownership (was finding K2, repaired by F21): block c13-<profile>-k2 - ANOTHER model of the process (8 configurations) is paged before "
        "and between the enum lines of a 3-configuration model, which must answer from its own empty cursor (exact answers + full cycle rule); "
        "signature enumerate:cursor-shared-across-models = detector without a finding line (also for C13U defects after an update)",
        "independent oracle: no panic; truth-table answers for well-formed count / sat / core lines (own mini-parser); probe battery "
        "(count, sat, core, enum cursor) unchanged across rejected and non-mutating lines; same request in another group order / spelling / "
        "blanks = same answer; fresh instance = long-lived instance",
        "not run (resource guard): ranges expanding to more than 100 000 numbers (guard kept from K6; since F18 only ranges INSIDE the boundary expand), random / t-wise limits above 64, save-* to absolute paths "
        "outside the scratch directory; the sampling choices of `random` are replayed from hook H2, atomic / t-wise answers are replayed",
        "without repo_patches/F2-stream-panics.patch applied to /repo this check reports VIOLATION (stream:panic)",
        "the enum cursor is the one of the SET of assumed literals (enum_key, repair F19 of finding K12): a fixed battery of `enum a ...` lines spelling "
        "{1} and {1,-2} with repeated literals in different orders is compared exactly; without repo_patches/F19-enum-cursor-key-set.patch applied to /repo "
        "this check reports 22 DIFFs (the second spelling starts a cycle of its own)",
    ],
    "rule": "one case = one block of up to 2500 lines on one long-lived instance; evaluations = blocks; the line counts are in driver_stats "
            "(c13_lines, c13_answer_<code> = error-kind histogram); non-trivial = flattened circuit has And and Or nodes",
}
