import os
import props

ROOT = os.path.dirname(os.path.dirname(os.path.dirname(os.path.abspath(__file__))))
SCRATCH = os.path.join(ROOT, ".cache", "run", "C13", "scratch")


def runs(tier, seed, replay):
    if replay:
        return props.replay_run(replay)
    n = 600 if tier == "thorough" else 100
    env = {"VERIF_SCRATCH": SCRATCH}
    r = []
    # the overflow behaviour differs between the profiles (F2: abs / + on usize), so both are run
    for profile in ("debug", "release"):
        r.append({"args": ["c13", "--seed", str(seed), "--tier", tier, "--count", str(n)],
                  "profile": profile, "env": env, "timeout": 6000})
    return r


CONFIG = {
    "runs": runs,
    "status": "in progress",
    "assumptions": [],
}
