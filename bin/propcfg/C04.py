import props

CONFIG = {
    "runs": props.simple("c04", 300, 4000),
    "status": "proved (full, model level): C04_card_of_each_feature: for every WFQ circuit and every Clean scratch state (arbitrary "
              "left-over partial derivatives) the table of card_of_each_feature (reverse-mode sweep annotate_partial_derivatives + "
              "rc - pd[leaf -f]) is exactly [(f, MCA C n [f]) | f = 1..n] in order and the state stays Clean; "
              "C04_card_of_feature_pd (single row); C04_countsA_is_MCA. No side condition on And child lists is needed (a child "
              "occurring twice below a decomposable And has no variables, its derivative is never read). All three are closed under "
              "the global context. Model tied to the Rust by the correspondence + truth-table oracle on every table; "
              "the printed ratio is glue, compared to 1e-9 relative (not covered by the theorem)",
    "assumptions": ["ratio compared numerically (never as text)"],
}
