import props



def runs(tier, seed, replay):
    if replay:
        return props.replay_run(replay)
    base = props.simple("c04", 300, 4000)(tier, seed, None)
    # CLI glue (the binary's subcommands against the library; see bin/propcfg/C02.py)
    return base + [{"args": ["cli", "--seed", str(seed), "--tier", tier, "--count", "1500" if tier == "thorough" else "150"]}]


CONFIG = {
    "runs": runs,
    "status": "proved (full, model level): C04_card_of_each_feature: for every WFQ circuit and every Clean scratch state (arbitrary "
              "left-over partial derivatives) the table of card_of_each_feature (reverse-mode sweep annotate_partial_derivatives + "
              "rc - pd[leaf -f]) is exactly [(f, MCA C n [f]) | f = 1..n] in order and the state stays Clean; "
              "C04_card_of_feature_pd (single row); C04_countsA_is_MCA. No side condition on And child lists is needed (a child "
              "occurring twice below a decomposable And has no variables, its derivative is never read). All three are closed under "
              "the global context. Model tied to the Rust by the correspondence + truth-table oracle on every table; "
              "C04_ratio_exact: the ratio column (Model/Ratio.v = BigRational::from((cardinality, rc)) = Ratio::new) is, for every "
              "satisfiable model, the exact fraction a/b in lowest terms with 0 < b, a * MC = MCA [f] * b, 0 <= a <= b, and the call "
              "does not panic; C04_ratio_panics_iff_unsat: on a model without models (outside the input space) and n > 0 the call "
              "panics (zero denominator; reproduced on the code). The extracted fraction is compared with every printed ratio "
              "(1e-9 relative, DIFF table-ratio); only the f64 rounding and the '{:.10e}' text are glue",
    "assumptions": ["ratio compared numerically (never as text)",
                    "0 < MC for the ratio column (the C01 input space: satisfiable formulas); MC = 0 panics in num-rational"],
}
