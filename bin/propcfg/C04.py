import props

CONFIG = {
    "runs": props.simple("c04", 300, 4000),
    "status": "partial (in progress): C04_countsA_is_MCA proved; the reverse-mode derivative theorem (row f = MCA [f]) is being "
              "proved; correspondence + truth-table oracle on every table meanwhile; the printed ratio is glue, compared to 1e-9 relative",
    "assumptions": ["ratio compared numerically (never as text)"],
}
