import props



def runs(tier, seed, replay):
    if replay:
        return props.replay_run(replay)
    base = props.simple("c04", 300, 4000)(tier, seed, None)
    # CLI glue (the binary's subcommands against the library; see bin/propcfg/C02.py)
    return base + [{"args": ["cli", "--seed", str(seed), "--tier", tier, "--count", "1500" if tier == "thorough" else "150"]}]


CONFIG = {
    "runs": runs,
    "status": "proved (full, model level): C04_card_of_each_feature: for every WFQ circuit and every Clean scratch state (arbitrary "
              "left-over partial derivatives) the table of card_of_each_feature (reverse-mode sweep annotate_partial_derivatives + "
              "rc - pd[leaf -f]) is exactly [(f, MCA C n [f]) | f = 1..n] in order and the state stays Clean; "
              "C04_card_of_feature_pd (single row); C04_countsA_is_MCA. No side condition on And child lists is needed (a child "
              "occurring twice below a decomposable And has no variables, its derivative is never read). All three are closed under "
              "the global context. Model tied to the Rust by the correspondence + truth-table oracle on every table; "
              "the printed ratio is glue, compared to 1e-9 relative (not covered by the theorem)",
    "assumptions": ["ratio compared numerically (never as text)"],
}
