import props

CONFIG = {
    "runs": props.simple("c15", 24, 120),
    "status": "full, for the code after repair F10 (the main thread drops its own Sender; model parameter drop_tx = true; "
              "theorems quantified over drop_tx also hold for the code before it): "
              "C15_collect (nothing lost or duplicated, all interleavings, any number of workers), "
              "C15_sorted_output / C15_any_correct_sort (sorting by (index, query, result) restores the file order for any "
              "comparison on the result type and any correct sorting algorithm), C15_byte_identical and "
              "C15_file_byte_identical (every output written in any reachable state, for every j, is the single-thread "
              "output; one work item per line of the file; no hypothesis on panics), C15_output_only_without_panic, "
              "C15_bounded, C15_no_deadlock, C15_terminates, C15_no_panic_never_panics (j >= 1, no panicking query), "
              "C15_no_block (repaired system: EVERY non-final state has an enabled action, any j, any panics), "
              "C15_worker_panic_propagates / C15_worker_panic_reaches_panic (a panicking query: nothing is ever written and "
              "every maximal run ends in the main thread's panic 'All workers died unexpectedly.'), C15_outcome (j >= 1: "
              "every maximal run ends like the single-thread loop: all lines and Ok, or a panic), "
              "C15_single_no_panic / C15_single_some_panic, "
              "C15_valid_event_step / C15_replay_run (the executable trace checker is the step relation); "
              "C15_worker_panic_blocks_refuted is kept as a theorem about v0 (drop_tx = false, the code before the repair: "
              "a dead worker blocks the main thread in recv() for ever, former finding K13); "
              "the OS scheduler is not modelled: a schedule is any sequence of enabled atomic actions",
    "assumptions": [
        "atomic actions of the model: queue pop under the WorkQueue mutex, compute+send on the mpsc channel (FIFO), recv, "
        "sort+write, join; workctl::WorkQueue, std::sync::mpsc and slice::sort_unstable are trusted to implement them "
        "(C15_any_correct_sort covers every sorted permutation)",
        "the answer of a worker clone is a function of the query alone (Section variable answer; history independence "
        "of clones is property C16); the correspondence takes it from the single-thread run and checks that it is a function there",
        "scheduling is exercised, not modelled: j in {1,2,3,4,8,16,32} (thorough: plus random j in 2..32), files of 0..500 "
        "(thorough 0..5000) lines with empty/blank lines, duplicates, 1..40-literal queries, CRLF, '+5'/'007' spellings, "
        "seeded delays before send (hook H4b) of up to 2 ms, 0..32 spinning threads, 1..3 repetitions",
        "hook H4b (repo_patches/H4b-multiquery-delay.patch) provides the delays and the event log; without it the check "
        "still runs: no delays are injected and trace validation is skipped (STAT traces_skipped_no_events counts those runs)",
        "panicking operation (planted cases): six query files with the one-literal query -2147483648 (debug build: negate "
        "overflow in the operation), count-queries and sat, j in {1,2,3,4,32}, 3 s watchdog: single-thread panics and "
        "multi-thread panics with 'All workers died unexpectedly.' = agreement with the model (canonical completion and a "
        "pseudo-random schedule end in PPanicked None); a run that does not return is VIOL multiq:hang (what /repo did "
        "before repo_patches/F10-multiquery-drop-sender.patch); panics of the workers are otherwise not exercised",
        "text model of parse_queries_file is ASCII only (Unicode white space other than U+0009..U+000D, U+0020 is outside the model)",
    ],
    "rule": "cases are generated from VERIF_SEED by the harness: one case = one (model, query file, operation) with 7..21 "
            "multi-thread runs, plus 12 planted cases (6 files x 2 operations) with 5 runs each; a case is non-trivial when the dumped circuit has at least one And and one Or node "
            "(VP9 and generated models are dumped, auto1 is not); distinct = different case body (sha1)",
}
