import props

CONFIG = {
    "runs": props.simple("c15", 24, 120),
    "status": "full: C15_collect (nothing lost or duplicated, all interleavings, any number of workers), "
              "C15_sorted_output / C15_any_correct_sort (sorting by (index, query, result) restores the file order for any "
              "comparison on the result type and any correct sorting algorithm), C15_byte_identical and "
              "C15_file_byte_identical (every output written in any reachable state, for every j, is the single-thread "
              "output; one work item per line of the file), C15_bounded, C15_no_deadlock, C15_terminates (j >= 1), "
              "C15_valid_event_step / C15_replay_run (the executable trace checker is the step relation); "
              "the OS scheduler is not modelled: a schedule is any sequence of enabled atomic actions",
    "assumptions": [
        "atomic actions of the model: queue pop under the WorkQueue mutex, compute+send on the mpsc channel (FIFO), recv, "
        "sort+write, join; workctl::WorkQueue, std::sync::mpsc and slice::sort_unstable are trusted to implement them "
        "(C15_any_correct_sort covers every sorted permutation)",
        "the answer of a worker clone is a function of the query alone (Section variable answer; history independence "
        "of clones is property C16); the correspondence takes it from the single-thread run and checks that it is a function there",
        "scheduling is exercised, not modelled: j in {1,2,3,4,8,16,32} (thorough: plus random j in 2..32), files of 0..500 "
        "(thorough 0..5000) lines with empty/blank lines, duplicates, 1..40-literal queries, CRLF, '+5'/'007' spellings, "
        "seeded delays before send (hook H4b) of up to 2 ms, 0..32 spinning threads, 1..3 repetitions",
        "hook H4b (repo_patches/H4b-multiquery-delay.patch) provides the delays and the event log; without it the check "
        "still runs: no delays are injected and trace validation is skipped (STAT traces_skipped_no_events counts those runs)",
        "text model of parse_queries_file is ASCII only (Unicode white space other than U+0009..U+000D, U+0020 is outside the model)",
    ],
    "rule": "cases are generated from VERIF_SEED by the harness: one case = one (model, query file, operation) with 7..21 "
            "multi-thread runs; a case is non-trivial when the dumped circuit has at least one And and one Or node "
            "(VP9 and generated models are dumped, auto1 is not); distinct = different case body (sha1)",
}
