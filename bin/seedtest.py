#!/usr/bin/env python3
"""seedtest.py <patch> <Cxx> [<Cyy> ...]: apply a seeded change to /repo, run the named checks,
undo the change (git -C /repo checkout -- .).  Prints one line per check:
  <Cxx> exit=<code> <VIOLATION line or 'no alarm'>
SEED_REPO=<dir> (default /repo): the git worktree the change is applied to - a scratch worktree of
/repo with repo_patches applied, when harness/Cargo.toml points at it (testing a repair before
it is committed to /repo)."""
import subprocess, sys, os, json
ROOT = os.path.dirname(os.path.dirname(os.path.abspath(__file__)))
REPO = os.environ.get("SEED_REPO", "/repo")
patch = os.path.abspath(sys.argv[1])
checks = sys.argv[2:]
def sh(cmd, **kw):
    return subprocess.run(cmd, shell=True, stdout=subprocess.PIPE, stderr=subprocess.STDOUT, **kw)
st = sh("git -C %s status --porcelain --untracked-files=no" % REPO).stdout.decode().strip()
if st:
    print("refusing: %s has uncommitted changes" % REPO); sys.exit(2)
r = sh("git -C %s apply %s || git -C %s apply --3way %s" % (REPO, patch, REPO, patch))
if r.returncode != 0:
    print("patch does not apply:", r.stdout.decode()[-400:]); sh("git -C %s reset -q --hard HEAD" % REPO); sys.exit(2)
results = []
try:
    for c in checks:
        p = sh("bin/check %s" % c, cwd=ROOT)
        out = p.stdout.decode()
        viol = [l for l in out.splitlines() if l.startswith("VIOLATION")]
        summ = [l for l in out.splitlines() if l.startswith(c + ":")]
        line = "%s exit=%d %s | %s" % (c, p.returncode, viol[0] if viol else "no alarm", summ[0] if summ else "")
        if viol and "replay=" in viol[0]:
            rp = viol[0].split("replay=")[1].split()[0]
            try:
                j = json.load(open(rp))
                line += " | " + str(j.get("signature") or [w.get("correspondence") or w.get("theorem_stage") for w in j.get("no_longer_checks", [])][:3]) + " " + str(j.get("oracle_verdict", ""))[:160]
            except Exception:
                pass
        print(line); results.append(line)
finally:
    sh("git -C %s reset -q --hard HEAD" % REPO)
