#!/usr/bin/env python3
"""Regenerates MANIFEST.json from bin/props.py (claimed checks) and properties.jsonl."""
import json, os, sys
ROOT = os.path.dirname(os.path.dirname(os.path.abspath(__file__)))
sys.path.insert(0, os.path.join(ROOT, "bin"))
import props

ids = [json.loads(l)["id"] for l in open(os.path.join(ROOT, "properties.jsonl"))]
claimed = [i for i in ids if i in props.PROPS]
m = {
    "version": 1,
    "setup_cmd": "bin/setup.sh",
    "hooks": {
        "guard": "cargo feature 'verif' of crate ddnnife (re-exported as feature 'verif' of ddnnife_bin)",
        "enable": "the harness depends on ddnnife = { path = \"/repo/ddnnife\", features = [\"verif\"] }; "
                  "the CLI binary is built with cargo build -p ddnnife_bin --features verif",
        "baseline_off_cmd": "cd /repo && (cargo nextest run --workspace --no-fail-fast --offline || cargo test --workspace --no-fail-fast --offline)",
        "source_commits": props.HOOK_COMMITS,
        "add_only": True,
    },
    "engines": [{
        "name": "coq-proof+correspondence", "path": "bin/check", "serves_properties": claimed,
        "kind_free_text": "Coq 8.16.1 theorems about a hand-written Gallina model (coq/), extracted to OCaml "
                          "(ocaml/driver) and run against the implementation by a Rust harness (harness/) on the same "
                          "inputs; spec oracles (truth table, abstract machines) decide violations",
    }],
    "checks": [],
    "not_applicable": [],
    "notes": "see DESIGN.md; KNOWN_FINDINGS.txt lists recorded findings and fixed defects",
}
for pid in ids:
    if pid in props.PROPS:
        c = props.PROPS[pid]
        m["checks"].append({
            "property_id": pid,
            "quick_cmd": "bin/check %s --tier quick" % pid,
            "thorough_cmd": "bin/check %s --tier thorough" % pid,
            "evidence_file": "evidence/%s.json" % pid,
            "replay_cmd_template": "bin/check %s --replay {path}" % pid,
            "engine": "coq-proof+correspondence",
            "level_claimed": {"category": "proof", "text": c["status"], "design_ref": "DESIGN.md section 5, " + pid},
            "level_note": "; ".join(c.get("assumptions", [])) or "see DESIGN.md section 7",
            "technique": c.get("technique", "machine-checked proof in Coq about a hand-written Gallina model + "
                                            "checked correspondence (extracted model vs implementation on the same inputs) + spec oracle"),
        })
    else:
        m["not_applicable"].append({"property_id": pid, "reason": props.NOT_CLAIMED.get(
            pid, "check not built yet (planned, see DESIGN.md section 5)")})
json.dump(m, open(os.path.join(ROOT, "MANIFEST.json"), "w"), indent=1)
print("claimed:", " ".join(claimed))
