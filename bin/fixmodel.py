#!/usr/bin/env python3
"""fixmodel.py <ocaml file> <Module> [<Module>...]: rewrite `Model.<name>` to `Mdl.<Module>.<name>`
for every name (value, type, constructor, record field) that ocaml/gen/<Module>.mli defines.
Used when a checker written against the old flat extraction is merged."""
import re, sys, os
ROOT = os.path.dirname(os.path.dirname(os.path.abspath(__file__)))
f = sys.argv[1]
src = open(f).read()
for mod in sys.argv[2:]:
    mli = open(os.path.join(ROOT, "ocaml", "gen", mod + ".mli")).read()
    names = set(re.findall(r"^val ([a-z_][A-Za-z0-9_']*)", mli, re.M))
    names |= set(re.findall(r"^(?:type|and) (?:'[a-z0-9]+ |\([^)]*\) )?([a-z_][A-Za-z0-9_']*)", mli, re.M))
    names |= set(re.findall(r"^\| ([A-Z][A-Za-z0-9_']*)", mli, re.M))
    names |= set(re.findall(r"=\s*\n?\s*([A-Z][A-Za-z0-9_']*)\b", mli))
    names |= set(re.findall(r"[{;]\s*(?:mutable\s+)?([a-z_][A-Za-z0-9_']*)\s*:", mli))
    def rep(m):
        return ("Mdl.%s.%s" % (mod, m.group(1))) if m.group(1) in names else m.group(0)
    src = re.sub(r"\bModel\.([A-Za-z_][A-Za-z0-9_']*)", rep, src)
open(f, "w").write(src)
