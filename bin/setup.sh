#!/bin/sh
# MANIFEST.setup_cmd: builds the Coq development (full .vo), the extracted OCaml driver and the
# Rust harness, offline, from files on disk only.
set -e
cd "$(dirname "$0")/.."
mkdir -p .cache evidence replays
(cd coq && ./gen_project.sh && timeout 3000 make -j16 >/dev/null 2>.cache_make_err || { cat .cache_make_err; exit 1; })
rm -f coq/.cache_make_err
(cd ocaml && ./build.sh)
cp /repo/Cargo.lock harness/Cargo.lock
(cd harness && CARGO_NET_OFFLINE=true cargo build --offline 2>&1 | tail -3)
(cd harness && CARGO_NET_OFFLINE=true cargo build --offline --release 2>&1 | tail -3)
echo setup done
