"""Per-property configuration of bin/check.  Each property has a module bin/propcfg/Cxx.py
defining CONFIG = { 'runs': f(tier, seed, replay) -> [run...], 'status': str,
'assumptions': [...], optional 'rule', 'trusted', 'technique', 'nontrivial' }.
A run is {'args': [harness args...], optional 'profile': 'debug'|'release', 'env': {...},
'timeout': s} or {'replay_cases': path}."""
import importlib
import os
import sys

HERE = os.path.dirname(os.path.abspath(__file__))
sys.path.insert(0, HERE)

TRUSTED_BASE = [
    "Coq 8.16.1 kernel (coqc; vm_compute used only in Examples and _refuted witnesses); no native_compute; Coq stdlib only (List ZArith NArith QArith Bool Lia Permutation Sorting String); coqchk -o re-check in the thorough tier",
    "axioms: none expected (every property theorem must print 'Closed under the global context'; anything else fails the check)",
    "hand-written Gallina model of ddnnife; tied to /repo by the differential correspondence run of this check",
    "extraction to OCaml with ExtrOcamlBasic only (bool, option, list, prod, unit, sumbool mapped to OCaml; no Extract Constant / Extract Inductive of our own); OCaml 4.13.1; ocaml/driver.ml, conv.ml, blocks.ml, chk_*.ml",
    "Rust harness /verif/harness (generators, reference CNF compiler, canonicalisation) built against /repo with cargo feature 'verif'",
]

# hook commits in /repo (guarded by cargo feature 'verif')
HOOK_COMMITS = ["0b8985f", "1141b44", "fd41ccb", "3a8a973", "0f4e986", "94a03e4", "51650e6", "c177853", "4219d4e", "8a92a16", "55e7139", "882bfe4"]
# H3b (repo_patches/H3b-cursor-per-model.patch: CursorLock as a value; with the repair F21,
# repo_patches/F21-cursor-per-model.patch, the per-model accessors Ddnnf::verif_reset_enumeration_cursor /
# verif_enumeration_cursor_snapshot replace the global reset / snapshot functions of H2/H3):
# H3b = 55e7139; F21 (8c59a7d, a fix: commit) also touches the guarded code, see its message
# reasons for properties without a check
NOT_CLAIMED = {}


def replay_run(replay):
    return [{"replay_cases": replay}]


def simple(kind, quick_count, thorough_count, extra=None, profile="debug"):
    def runs(tier, seed, replay):
        if replay:
            return replay_run(replay)
        n = thorough_count if tier == "thorough" else quick_count
        args = [kind, "--seed", str(seed), "--tier", tier, "--count", str(n)]
        return [{"args": args + (extra or []), "profile": profile}]
    return runs


PROPS = {}
for f in sorted(os.listdir(os.path.join(HERE, "propcfg"))):
    if f.endswith(".py") and f[0] == "C":
        mod = importlib.import_module("propcfg." + f[:-3])
        PROPS[f[:-3]] = mod.CONFIG
