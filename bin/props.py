"""Per-property configuration of bin/check: which harness runs make up the quick and the
thorough tier, the status of the theorems, what is trusted."""

TRUSTED_BASE = [
    "Coq 8.16.1 kernel (coqc; vm_compute used only in Examples); no native_compute",
    "no axioms: every property theorem prints 'Closed under the global context'",
    "hand-written Gallina model of ddnnife; tied to /repo by the differential correspondence run of this check",
    "extraction to OCaml with ExtrOcamlBasic only (bool, option, list, prod, unit, sumbool mapped to OCaml; no Extract Constant); OCaml 4.13.1; ocaml/driver.ml, conv.ml, blocks.ml, chk_*.ml",
    "Rust harness /verif/harness (generators, reference CNF compiler, canonicalisation) built against /repo with cargo feature 'verif'",
]


def replay_run(replay):
    return [{"replay_cases": replay}]


def simple(kind, quick_count, thorough_count, extra=None):
    def runs(tier, seed, replay):
        if replay:
            return replay_run(replay)
        n = thorough_count if tier == "thorough" else quick_count
        args = [kind, "--seed", str(seed), "--tier", tier, "--count", str(n)]
        return [{"args": args + (extra or [])}]
    return runs


PROPS = {
    "C01": {
        "runs": simple("c01", 400, 4000),
        "status": "full: C01_count_flat, C01_same_function_same_count, C01_models_enum (all WF circuits, unbounded Z); "
                  "partial: that the loaders establish WF and preserve the file's function is discharged per input "
                  "(verified checker check_wf + truth table against the source formula), not yet a theorem over all files",
        "assumptions": [
            "the d4/c2d loaders are modelled only through their output: every loaded vector is checked by the verified check_wf and compared with the source truth table",
            "input space: exhaustive functions over 1..3 (quick) / 1..4 (thorough) features plus random CNFs, compiled by the harness' reference compiler",
        ],
    },
}

HOOK_COMMITS = ["0b8985f"]
NOT_CLAIMED = {}
