(* C16: property theorems (see bin/propcfg/C16.py for the status).
   One long-lived instance = one scratch state (Node.temp, Node.marker, Node.partial_derivative,
   Ddnnf.md) threaded through every request, plus the enumeration cursor (Ddnnf.enumeration_cursor
   since the repair F21; the process-global ENUMERATION_CACHE before).
     req      = RCount A | RSat A | RCore A | RTable | RSample A k chs | REnum A k | RMarked A
     run_req d (s, cur) q = ((s', cur'), answer)   built from the model functions execute_query, sat,
                core_dead_with_assumptions, card_of_each_feature, uniform_random_sampling (recorded
                choice stream = the seed), enumerate, get_marked_nodes_clone
     hist_ok n q : side condition on an EARLIER request: RCount/RCore literals within 1..n,
                RSample/REnum literals non-zero (out-of-range literals allowed: the call answers
                None and changes nothing); none for RSat/RTable/RMarked
     ans_ok n q  : side condition on the request whose answer is compared: RCount/RCore within 1..n
     Clean C s   : all markers false, md empty, vectors of the right length; temps and partial
                derivatives ARBITRARY (whatever earlier requests left there)
     WFQ C n     : WF + unique leaves + all nodes reachable + non-zero literals (check_wf_WFQ) *)
From Coq Require Import List ZArith Bool Lia Permutation.
From DD Require Import Model.Circuit Model.Query Model.Enumerate Proofs.Semantics Proofs.CountsA
     Proofs.QueryDefs Proofs.C06Page Proofs.C16Proof.
Import ListNotations.
Open Scope Z_scope.

(* every request kind re-establishes the invariant *)
Theorem C16_request_keeps_clean : forall C n q s cur,
  WFQ C n -> hist_ok n q -> Clean C s -> Clean C (fst (fst (run_req (build C n) (s, cur) q))).
Proof. exact run_req_clean. Qed.
Print Assumptions C16_request_keeps_clean.

(* MAIN: after ANY sequence of earlier requests of any kind (enumeration included), from any Clean
   starting state, the answer to every count / SAT / core-dead / per-feature table / seeded
   sampling / marked-nodes request is the answer of a fresh instance *)
Theorem C16_history : forall C n (qs : list req) s0 cur0,
  WFQ C n -> Forall (hist_ok n) qs -> Clean C s0 ->
  let '(s, cur) := fold_left (fun st q => fst (run_req (build C n) st q)) qs (s0, cur0) in
  Clean C s /\
  forall q, ~ is_enum q -> ans_ok n q ->
    snd (run_req (build C n) (s, cur) q) = snd (run_req (build C n) (fresh_scratch C, cur0) q).
Proof. exact history_independent. Qed.
Print Assumptions C16_history.

(* equal circuits => equal answers: a copy of the instance, whatever either was asked before *)
Theorem C16_clone : forall C n (qs1 qs2 : list req) s1 s2 cur1 cur2,
  WFQ C n -> Forall (hist_ok n) qs1 -> Forall (hist_ok n) qs2 -> Clean C s1 -> Clean C s2 ->
  forall q, ~ is_enum q -> ans_ok n q ->
    snd (run_req (build C n) (run_reqs (build C n) qs1 (s1, cur1)) q) =
    snd (run_req (build C n) (run_reqs (build C n) qs2 (s2, cur2)) q).
Proof. exact clone_independent. Qed.
Print Assumptions C16_clone.

(* enumeration: page and new cursor depend on the history only through the cursor it left;
   no other request kind touches the cursor *)
Theorem C16_enum_only_cursor : forall C n (qs : list req) s0 cur0 A k,
  WFQ C n -> Forall (hist_ok n) qs -> Clean C s0 ->
  let '(s, cur) := fold_left (fun st q => fst (run_req (build C n) st q)) qs (s0, cur0) in
  snd (run_req (build C n) (s, cur) (REnum A k)) =
  snd (run_req (build C n) (fresh_scratch C, cur) (REnum A k)) /\
  snd (fst (run_req (build C n) (s, cur) (REnum A k))) =
  snd (fst (run_req (build C n) (fresh_scratch C, cur) (REnum A k))).
Proof. exact history_enum_only_cursor. Qed.
Print Assumptions C16_enum_only_cursor.

Theorem C16_non_enum_keeps_cursor : forall d q s cur,
  ~ is_enum q -> snd (fst (run_req d (s, cur) q)) = cur.
Proof. exact non_enum_keeps_cursor. Qed.
Print Assumptions C16_non_enum_keeps_cursor.

(* get_marked_nodes_clone: the answer reads markers and md only *)
Theorem C16_marked_reads_marks_only : forall C n A s s', marks s = marks s' -> mdl s = mdl s' ->
  snd (get_marked_nodes_clone (build C n) A s) = snd (get_marked_nodes_clone (build C n) A s').
Proof. exact get_marked_indep. Qed.
Print Assumptions C16_marked_reads_marks_only.

(* The cursor part of the property: "Enumeration paging state belongs to one loaded model and one
   assumption set; it is unaffected by requests made to other models loaded in the same process."
   A process with two loaded models d1, d2 (any two: different circuits, or two loads of the same
   file).  Since the repair F21 the cursor is a field of the loaded model, so the process state is
   two instance states (scratch, cursor) side by side and [proc_run] sends each request of an
   interleaved history to the model it names.  [only M1 l] = the entries of l that concern model 1.
   For EVERY history, every starting state: the final state of model 1 (scratch and cursor) and
   all its answers, enumeration pages included, are those of running its own requests alone
   ([run_reqs_ans]); likewise model 2.  (True by construction of the model - which is the point:
   the model always described one cursor per model; the repaired code is the code it describes.
   The tie to /repo is the correspondence: kind C16X, and C17 modes clones / independent.) *)
Theorem C16_cursor_per_model : forall d1 d2 (h : list (which * req)) st1 st2,
  let '(p', ans) := proc_run d1 d2 (st1, st2) h in
  (fst p', only M1 ans) = run_reqs_ans d1 st1 (only M1 h) /\
  (snd p', only M2 ans) = run_reqs_ans d2 st2 (only M2 h).
Proof. exact cursor_per_model. Qed.
Print Assumptions C16_cursor_per_model.

(* The code BEFORE the repair (finding K2): [proc_run_v0] threads ONE cursor map through the
   requests of both models (the process-global static, keyed by the assumption set only).  Two
   different well-formed circuits over the same features (x1 <-> x2, and x1, x2 free), one page of
   model 1, then the first page of model 2: with the shared cursor model 2 does not answer what it
   answers alone; with the cursor per model it does, and that answer is the first configuration
   of its enumeration order. *)
Theorem C16_cursor_shared_refuted_v0 : exists C1 C2 n h,
  check_wf C1 n = true /\ check_wf C2 n = true /\ C1 <> C2 /\
  let d1 := build C1 n in let d2 := build C2 n in
  let alone := snd (run_reqs_ans d2 (fresh_scratch C2, []) (only M2 h)) in
  only M2 (snd (proc_run_v0 d1 d2 (fresh_scratch C1, fresh_scratch C2, []) h)) <> alone /\
  only M2 (snd (proc_run d1 d2 ((fresh_scratch C1, []), (fresh_scratch C2, [])) h)) = alone /\
  alone = [AEnum (Some (map sort_abs (slice 0 1 (EOr C2 []))))].
Proof. exact cursor_shared_refuted_v0. Qed.
Print Assumptions C16_cursor_shared_refuted_v0.

(* non-vacuity of C16_cursor_per_model with enumeration on both sides: x1 <-> x2 (2
   configurations) and x1, x2 free (4) paged alternately, page size 1, six requests: each model
   pages through its own cycle (model 1 wraps after two pages); with the shared cursor of the old
   code model 1's second page is empty and model 2 skips - evaluated *)
Example ex_c16_two_models :
  let d1 := build c16_iff 2 in let d2 := build c16_free 2 in
  let h := [(M1, REnum [] 1); (M2, REnum [] 1); (M2, REnum [] 1); (M1, REnum [] 1); (M2, REnum [] 1); (M1, REnum [] 1)] in
  let ans := snd (proc_run d1 d2 ((fresh_scratch c16_iff, []), (fresh_scratch c16_free, [])) h) in
  only M1 ans = [AEnum (Some [[1; 2]]); AEnum (Some [[-1; -2]]); AEnum (Some [[1; 2]])] /\
  only M2 ans = [AEnum (Some [[1; 2]]); AEnum (Some [[-1; 2]]); AEnum (Some [[1; -2]])] /\
  only M1 (snd (proc_run_v0 d1 d2 (fresh_scratch c16_iff, fresh_scratch c16_free, []) h)) <> only M1 ans.
Proof. cbv zeta. split; [vm_compute; reflexivity|]. split; [vm_compute; reflexivity|]. vm_compute. discriminate. Qed.

(* ---------------- non-vacuity ---------------- *)
(* 1 & (2 <-> 3) with a true node; a dirty but Clean starting state; a history with every request
   kind (marker and default strategy, a core literal, an unsatisfiable and an out-of-range list) *)
Definition ex_c16 : circuit :=
  [Lit 1; Lit 2; Lit (-2); Lit 3; Lit (-3); And [1;3]%nat; And [2;4]%nat; Or [5;6]%nat; TrueN;
   And [0;8;7]%nat].
Definition ex_dirty : scratch :=
  {| temps := [7; 7; 7; 7; 7; 7; 7; 7; 7; 7]; marks := map (fun _ => false) ex_c16;
     pds := [3; 3; 3; 3; 3; 3; 3; 3; 3; 3]; mdl := [] |}.
Definition ex_long : cfg := [2;3;2;3;2;3;2;3;2;3;2;3;2;3;2;3;2;3;2;3;2;3].
Definition ex_chs1 : list choice :=
  [Perm [0%nat]; Perm []; Split [1; 0]; Perm [0%nat]; Perm [0%nat]; Perm [0%nat]; Perm [0%nat]].
Definition ex_chs2 : list choice :=
  [Perm [1%nat; 0%nat]; Perm []; Split [1; 1]; Perm [0%nat]; Perm [0%nat]; Perm [0%nat]; Perm [0%nat];
   Perm [1%nat; 0%nat]; Perm [0%nat; 1%nat]].
Definition ex_hist : list req :=
  [RCount [2]; REnum [2] 1; RTable; RSample [1] 2 ex_chs2; RMarked [2; -3];
   RCount ex_long; RCore [2]; RSat [-1]; REnum [5] 1; RSample [-1] 1 []; RCount [-1; 2]; REnum [] 3].

Example ex_c16_hyps :
  WFQ ex_c16 3 /\ Clean ex_c16 ex_dirty /\ Forall (hist_ok 3) ex_hist.
Proof.
  split; [apply check_wf_WFQ; vm_compute; reflexivity|]. split.
  - constructor; try reflexivity. cbn. repeat constructor.
  - assert (R : forall A, forallb (fun l => (1 <=? Z.abs l) && (Z.abs l <=? 3)) A = true -> in_range 3 A).
    { intros A H l Hl. rewrite forallb_forall in H. specialize (H l Hl). cbn in H. lia. }
    assert (Z0' : forall A, forallb (fun l => negb (l =? 0)) A = true -> forall l, In l A -> l <> 0).
    { intros A H l Hl. rewrite forallb_forall in H. specialize (H l Hl).
      apply negb_true_iff, Z.eqb_neq in H. exact H. }
    unfold ex_hist. repeat (constructor; [cbn [hist_ok]; try exact I; try (apply R; reflexivity); try (apply Z0'; reflexivity)|]).
    constructor.
Qed.

(* the history really moves the state (temps, pds, cursor), and the answers afterwards are the
   fresh ones: evaluated *)
Example ex_c16_evaluated :
  let d := build ex_c16 3 in
  let st := run_reqs d ex_hist (ex_dirty, []) in
  temps (fst st) <> temps (fresh_scratch ex_c16) /\
  pds (fst st) <> pds (fresh_scratch ex_c16) /\
  snd st = [([2], 0); ([], 0)] /\
  forallb (fun q => match snd (run_req d st q), snd (run_req d (fresh_scratch ex_c16, []) q) with
                    | ACount a, ACount b => a =? b
                    | ASat a, ASat b => Bool.eqb a b
                    | ACore a, ACore b => cfg_eqb a b
                    | ATable a, ATable b => cfg_eqb (map snd a) (map snd b)
                    | ASample (Some a) true, ASample (Some b) true => cfg_eqb (concat a) (concat b)
                    | AMarked a, AMarked b => cfg_eqb (map Z.of_nat a) (map Z.of_nat b)
                    | _, _ => false
                    end)
          [RCount []; RCount [3]; RCount [-2; 3]; RCount ex_long; RSat [2; -3]; RCore []; RCore [3];
           RTable; RSample [3] 1 ex_chs1; RSample [1] 2 ex_chs2; RMarked [-2]] = true.
Proof. cbv zeta. split; [vm_compute; discriminate|]. split; [vm_compute; discriminate|].
       split; vm_compute; reflexivity. Qed.

Example ex_c16_applies :
  forall q, ~ is_enum q -> ans_ok 3 q ->
    snd (run_req (build ex_c16 3) (run_reqs (build ex_c16 3) ex_hist (ex_dirty, [])) q) =
    snd (run_req (build ex_c16 3) (fresh_scratch ex_c16, []) q).
Proof.
  destruct ex_c16_hyps as (HQ & HC & HH).
  pose proof (C16_history ex_c16 3 ex_hist ex_dirty [] HQ HH HC) as H. unfold run_reqs.
  destruct (fold_left _ ex_hist (ex_dirty, [])) as [s cur]. apply H.
Qed.
