(* C16: property theorems (see bin/propcfg/C16.py for the status).
   One long-lived instance = one scratch state (Node.temp, Node.marker, Node.partial_derivative,
   Ddnnf.md) threaded through every request, plus the enumeration cursor (ENUMERATION_CACHE).
     req      = RCount A | RSat A | RCore A | RTable | RSample A k chs | REnum A k | RMarked A
     run_req d (s, cur) q = ((s', cur'), answer)   built from the model functions execute_query, sat,
                core_dead_with_assumptions, card_of_each_feature, uniform_random_sampling (recorded
                choice stream = the seed), enumerate, get_marked_nodes_clone
     hist_ok n q : side condition on an EARLIER request: RCount/RCore literals within 1..n,
                RSample/REnum literals non-zero (out-of-range literals allowed: the call answers
                None and changes nothing); none for RSat/RTable/RMarked
     ans_ok n q  : side condition on the request whose answer is compared: RCount/RCore within 1..n
     Clean C s   : all markers false, md empty, vectors of the right length; temps and partial
                derivatives ARBITRARY (whatever earlier requests left there)
     WFQ C n     : WF + unique leaves + all nodes reachable + non-zero literals (check_wf_WFQ) *)
From Coq Require Import List ZArith Bool Lia Permutation.
From DD Require Import Model.Circuit Model.Query Model.Enumerate Proofs.Semantics Proofs.CountsA
     Proofs.QueryDefs Proofs.C06Page Proofs.C16Proof.
Import ListNotations.
Open Scope Z_scope.

(* every request kind re-establishes the invariant *)
Theorem C16_request_keeps_clean : forall C n q s cur,
  WFQ C n -> hist_ok n q -> Clean C s -> Clean C (fst (fst (run_req (build C n) (s, cur) q))).
Proof. exact run_req_clean. Qed.
Print Assumptions C16_request_keeps_clean.

(* MAIN: after ANY sequence of earlier requests of any kind (enumeration included), from any Clean
   starting state, the answer to every count / SAT / core-dead / per-feature table / seeded
   sampling / marked-nodes request is the answer of a fresh instance *)
Theorem C16_history : forall C n (qs : list req) s0 cur0,
  WFQ C n -> Forall (hist_ok n) qs -> Clean C s0 ->
  let '(s, cur) := fold_left (fun st q => fst (run_req (build C n) st q)) qs (s0, cur0) in
  Clean C s /\
  forall q, ~ is_enum q -> ans_ok n q ->
    snd (run_req (build C n) (s, cur) q) = snd (run_req (build C n) (fresh_scratch C, cur0) q).
Proof. exact history_independent. Qed.
Print Assumptions C16_history.

(* equal circuits => equal answers: a copy of the instance, whatever either was asked before *)
Theorem C16_clone : forall C n (qs1 qs2 : list req) s1 s2 cur1 cur2,
  WFQ C n -> Forall (hist_ok n) qs1 -> Forall (hist_ok n) qs2 -> Clean C s1 -> Clean C s2 ->
  forall q, ~ is_enum q -> ans_ok n q ->
    snd (run_req (build C n) (run_reqs (build C n) qs1 (s1, cur1)) q) =
    snd (run_req (build C n) (run_reqs (build C n) qs2 (s2, cur2)) q).
Proof. exact clone_independent. Qed.
Print Assumptions C16_clone.

(* enumeration: page and new cursor depend on the history only through the cursor it left;
   no other request kind touches the cursor *)
Theorem C16_enum_only_cursor : forall C n (qs : list req) s0 cur0 A k,
  WFQ C n -> Forall (hist_ok n) qs -> Clean C s0 ->
  let '(s, cur) := fold_left (fun st q => fst (run_req (build C n) st q)) qs (s0, cur0) in
  snd (run_req (build C n) (s, cur) (REnum A k)) =
  snd (run_req (build C n) (fresh_scratch C, cur) (REnum A k)) /\
  snd (fst (run_req (build C n) (s, cur) (REnum A k))) =
  snd (fst (run_req (build C n) (fresh_scratch C, cur) (REnum A k))).
Proof. exact history_enum_only_cursor. Qed.
Print Assumptions C16_enum_only_cursor.

Theorem C16_non_enum_keeps_cursor : forall d q s cur,
  ~ is_enum q -> snd (fst (run_req d (s, cur) q)) = cur.
Proof. exact non_enum_keeps_cursor. Qed.
Print Assumptions C16_non_enum_keeps_cursor.

(* get_marked_nodes_clone: the answer reads markers and md only *)
Theorem C16_marked_reads_marks_only : forall C n A s s', marks s = marks s' -> mdl s = mdl s' ->
  snd (get_marked_nodes_clone (build C n) A s) = snd (get_marked_nodes_clone (build C n) A s').
Proof. exact get_marked_indep. Qed.
Print Assumptions C16_marked_reads_marks_only.

(* The cursor part of the property, REFUTED on the current code (K2): the cursor map is keyed by
   the assumption set only and shared by all models of the process.  Two different well-formed
   circuits over the same features, one page of C1, then the first page of C2 with the same cursor
   map: C2's page starts where C1's cursor stopped. *)
Theorem C16_cursor_shared_refuted : exists C1 C2 n A k,
  check_wf C1 n = true /\ check_wf C2 n = true /\ C1 <> C2 /\
  let cur1 := snd (fst (enumerate (build C1 n) A k [] (fresh_scratch C1))) in
  let own_page := snd (enumerate (build C2 n) A k [] (fresh_scratch C2)) in
  let shared_page := snd (enumerate (build C2 n) A k cur1 (fresh_scratch C2)) in
  cur_get cur1 (enum_key A) = k /\
  own_page = Some (map sort_abs (slice 0 k (EOr C2 A))) /\
  shared_page = Some (map sort_abs (slice k (k + k) (EOr C2 A))) /\
  shared_page <> own_page.
Proof. exact cursor_shared_refuted. Qed.
Print Assumptions C16_cursor_shared_refuted.

(* ---------------- non-vacuity ---------------- *)
(* 1 & (2 <-> 3) with a true node; a dirty but Clean starting state; a history with every request
   kind (marker and default strategy, a core literal, an unsatisfiable and an out-of-range list) *)
Definition ex_c16 : circuit :=
  [Lit 1; Lit 2; Lit (-2); Lit 3; Lit (-3); And [1;3]%nat; And [2;4]%nat; Or [5;6]%nat; TrueN;
   And [0;8;7]%nat].
Definition ex_dirty : scratch :=
  {| temps := [7; 7; 7; 7; 7; 7; 7; 7; 7; 7]; marks := map (fun _ => false) ex_c16;
     pds := [3; 3; 3; 3; 3; 3; 3; 3; 3; 3]; mdl := [] |}.
Definition ex_long : cfg := [2;3;2;3;2;3;2;3;2;3;2;3;2;3;2;3;2;3;2;3;2;3].
Definition ex_chs1 : list choice :=
  [Perm [0%nat]; Perm []; Split [1; 0]; Perm [0%nat]; Perm [0%nat]; Perm [0%nat]; Perm [0%nat]].
Definition ex_chs2 : list choice :=
  [Perm [1%nat; 0%nat]; Perm []; Split [1; 1]; Perm [0%nat]; Perm [0%nat]; Perm [0%nat]; Perm [0%nat];
   Perm [1%nat; 0%nat]; Perm [0%nat; 1%nat]].
Definition ex_hist : list req :=
  [RCount [2]; REnum [2] 1; RTable; RSample [1] 2 ex_chs2; RMarked [2; -3];
   RCount ex_long; RCore [2]; RSat [-1]; REnum [5] 1; RSample [-1] 1 []; RCount [-1; 2]; REnum [] 3].

Example ex_c16_hyps :
  WFQ ex_c16 3 /\ Clean ex_c16 ex_dirty /\ Forall (hist_ok 3) ex_hist.
Proof.
  split; [apply check_wf_WFQ; vm_compute; reflexivity|]. split.
  - constructor; try reflexivity. cbn. repeat constructor.
  - assert (R : forall A, forallb (fun l => (1 <=? Z.abs l) && (Z.abs l <=? 3)) A = true -> in_range 3 A).
    { intros A H l Hl. rewrite forallb_forall in H. specialize (H l Hl). cbn in H. lia. }
    assert (Z0' : forall A, forallb (fun l => negb (l =? 0)) A = true -> forall l, In l A -> l <> 0).
    { intros A H l Hl. rewrite forallb_forall in H. specialize (H l Hl).
      apply negb_true_iff, Z.eqb_neq in H. exact H. }
    unfold ex_hist. repeat (constructor; [cbn [hist_ok]; try exact I; try (apply R; reflexivity); try (apply Z0'; reflexivity)|]).
    constructor.
Qed.

(* the history really moves the state (temps, pds, cursor), and the answers afterwards are the
   fresh ones: evaluated *)
Example ex_c16_evaluated :
  let d := build ex_c16 3 in
  let st := run_reqs d ex_hist (ex_dirty, []) in
  temps (fst st) <> temps (fresh_scratch ex_c16) /\
  pds (fst st) <> pds (fresh_scratch ex_c16) /\
  snd st = [([2], 0); ([], 0)] /\
  forallb (fun q => match snd (run_req d st q), snd (run_req d (fresh_scratch ex_c16, []) q) with
                    | ACount a, ACount b => a =? b
                    | ASat a, ASat b => Bool.eqb a b
                    | ACore a, ACore b => cfg_eqb a b
                    | ATable a, ATable b => cfg_eqb (map snd a) (map snd b)
                    | ASample (Some a) true, ASample (Some b) true => cfg_eqb (concat a) (concat b)
                    | AMarked a, AMarked b => cfg_eqb (map Z.of_nat a) (map Z.of_nat b)
                    | _, _ => false
                    end)
          [RCount []; RCount [3]; RCount [-2; 3]; RCount ex_long; RSat [2; -3]; RCore []; RCore [3];
           RTable; RSample [3] 1 ex_chs1; RSample [1] 2 ex_chs2; RMarked [-2]] = true.
Proof. cbv zeta. split; [vm_compute; discriminate|]. split; [vm_compute; discriminate|].
       split; vm_compute; reflexivity. Qed.

Example ex_c16_applies :
  forall q, ~ is_enum q -> ans_ok 3 q ->
    snd (run_req (build ex_c16 3) (run_reqs (build ex_c16 3) ex_hist (ex_dirty, [])) q) =
    snd (run_req (build ex_c16 3) (fresh_scratch ex_c16, []) q).
Proof.
  destruct ex_c16_hyps as (HQ & HC & HH).
  pose proof (C16_history ex_c16 3 ex_hist ex_dirty [] HQ HH HC) as H. unfold run_reqs.
  destruct (fold_left _ ex_hist (ex_dirty, [])) as [s cur]. apply H.
Qed.
