(* C08: property theorems (see bin/propcfg/C08.py for the status). *)
From Coq Require Import List ZArith Bool Lia.
From DD Require Import Model.Circuit Model.Query Model.Enumerate Model.Atomic.
Import ListNotations.
Open Scope Z_scope.

Lemma wrap16_example : wrap16 39999 = -25537 /\ wrap16 40000 = -25536.
Proof. split; reflexivity. Qed.
Print Assumptions wrap16_example.
