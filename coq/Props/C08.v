(* C08: atomic sets.  Property theorems (see bin/propcfg/C08.py for the status).
   Model: Model/Atomic.v get_atomic_sets (anomalies/atomic_sets.rs).  Specification: truth table
   (ModelsA), eqvb / Eqv = "same value in every model that contains the assumptions". *)
From Coq Require Import List ZArith Bool Lia.
From DD Require Import Model.Circuit Model.Query Model.Enumerate Model.Atomic
  Proofs.Semantics Proofs.CountsA Proofs.QueryDefs Proofs.AtomicSort Proofs.AtomicUF Proofs.AtomicSem
  Proofs.AtomicMain Proofs.AtomicFinal Proofs.AtomicCross Proofs.AtomicI16 Proofs.AtomicExample.
Import ListNotations.
Open Scope Z_scope.

(* MAIN, plain mode.  For every WFQ circuit, every in-range assumption list A with at least one
   model, n <= 32767, every duplicate-free candidate list within 1..n in any order (None = all
   features), EVERY choice stream of the internal 512-sample call for which the samples are valid
   (samples_valid: 512 samples, each a model containing A - the conclusion of the C07 validity
   theorem; a stream that does not fit the traversal is covered as long as what the model then
   returns is valid) and every Clean scratch state: the model of get_atomic_sets does not panic and
   returns exactly classes_spec: the classes of the candidates under Eqv with at least two members,
   each ascending, in ascending (lexicographic) order; and leaves the state Clean. *)
Theorem C08_atomic : forall C n A cands chs s,
  WFQ C n -> in_range n A -> 0 < MCA C n A -> Z.of_nat n <= 32767 -> cands_ok n cands ->
  samples_valid C n A chs -> Clean C s ->
  exists s' ok,
    get_atomic_sets (build C n) cands A false chs s =
      (s', Some (classes_spec (eqvb C n A) (cand_list n cands)), ok) /\ Clean C s'.
Proof. exact atomic_plain_correct. Qed.
Print Assumptions C08_atomic.

(* What classes_spec lists: every listed class has >= 2 members, is strictly ascending and is the
   complete class of its first member among the candidates; any two different equivalent candidates
   are together in a listed class; the classes are in strictly ascending order of their first
   members (so each class is listed once). *)
Theorem C08_plain_spec_meaning : forall C n A cs, NoDup cs ->
  (forall c, In c (classes_spec (eqvb C n A) cs) ->
     (2 <= length c)%nat /\ ssorted Z.lt c /\
     In (hd 0 c) c /\ forall z, In z c <-> In z cs /\ Eqv C n A (hd 0 c) z) /\
  (forall f g, In f cs -> In g cs -> f <> g -> Eqv C n A f g ->
     exists c, In c (classes_spec (eqvb C n A) cs) /\ In f c /\ In g c) /\
  ssorted (fun c1 c2 => hd 0 c1 < hd 0 c2) (classes_spec (eqvb C n A) cs).
Proof. exact atomic_plain_meaning. Qed.
Print Assumptions C08_plain_spec_meaning.

(* MAIN, cross mode: same hypotheses; the result is exactly cross_spec: the classes of the signed
   literals +-candidate under Eqv (f with -g when they always differ) with at least two members, of
   every mirrored pair of classes the one whose smallest feature occurs negatively, members by
   ascending feature, classes by ascending smallest feature. *)
Theorem C08_atomic_cross : forall C n A cands chs s,
  WFQ C n -> in_range n A -> 0 < MCA C n A -> Z.of_nat n <= 32767 -> cands_ok n cands ->
  samples_valid C n A chs -> Clean C s ->
  exists s' ok,
    get_atomic_sets (build C n) cands A true chs s =
      (s', Some (cross_spec (eqvb C n A) (cand_list n cands)), ok) /\ Clean C s'.
Proof. exact atomic_cross_correct. Qed.
Print Assumptions C08_atomic_cross.

(* What cross_spec lists: every listed class has >= 2 members, ascending features, its smallest
   feature negated, and is the complete class of that literal among the signed candidates; any two
   different equivalent signed candidates l1, l2 are together in a listed class, or -l1, -l2 are
   (reported once up to negating all members); classes in strictly ascending order of their smallest
   feature. *)
Theorem C08_cross_spec_meaning : forall C n A cs,
  NoDup cs -> (forall f, In f cs -> 1 <= f <= Z.of_nat n) -> 0 < MCA C n A ->
  let Ls := flat_map (fun f => [f; - f]) cs in
  (forall c, In c (cross_spec (eqvb C n A) cs) ->
     (2 <= length c)%nat /\ ssorted (fun a b => Z.abs a < Z.abs b) c /\ hd 0 c < 0 /\ In (hd 0 c) c /\
     forall z, In z c <-> In z Ls /\ Eqv C n A (hd 0 c) z) /\
  (forall l1 l2, In l1 Ls -> In l2 Ls -> l1 <> l2 -> Eqv C n A l1 l2 ->
     exists c, In c (cross_spec (eqvb C n A) cs) /\
               ((In l1 c /\ In l2 c) \/ (In (- l1) c /\ In (- l2) c))) /\
  ssorted (fun c1 c2 => Z.abs (hd 0 c1) < Z.abs (hd 0 c2)) (cross_spec (eqvb C n A) cs).
Proof. exact atomic_cross_meaning. Qed.
Print Assumptions C08_cross_spec_meaning.

(* ---- the key lemmas ---- *)
(* equal counts are necessary for equivalence (why grouping by count loses nothing) *)
Theorem C08_equal_counts_necessary : forall C n A x y,
  Eqv C n A x y -> MCA C n (x :: A) = MCA C n (y :: A).
Proof. exact Eqv_counts. Qed.
Print Assumptions C08_equal_counts_necessary.

(* the confirmation query: within a group, count(A,x,y) = the group's count iff x ~ y *)
Theorem C08_confirmation_query : forall C n A x y,
  MCA C n (x :: A) = MCA C n (y :: A) ->
  (MCA C n (x :: y :: A) = MCA C n (x :: A) <-> Eqv C n A x y).
Proof. exact confirm_iff. Qed.
Print Assumptions C08_confirmation_query.

(* the sign-vector pre-filter only skips pairs that differ on a model, whatever was sampled, as
   long as the samples are models containing A (negated vector when the signs differ) *)
Theorem C08_prefilter_sound : forall C n A L a b,
  Forall (fun m => In m (ModelsA C n A)) L -> litr n a -> litr n b ->
  xor_any (if 0 <? Z.sgn a * Z.sgn b then signs L a else map negb (signs L a)) (signs L b) = true ->
  ~ Eqv C n A a b.
Proof. exact prefilter_sound. Qed.
Print Assumptions C08_prefilter_sound.

(* the union-find against its specification: equiv = same class; a union of two R-related elements
   keeps the partition invariant (disjoint, duplicate-free classes of size >= 2 with R-related
   members), keeps every earlier equivalence and puts the two arguments in one class *)
Theorem C08_uf_equiv : forall u x y, Disj u -> (uf_equiv x y u = true <-> same_class u x y).
Proof. exact uf_equiv_iff. Qed.
Print Assumptions C08_uf_equiv.

Theorem C08_uf_union : forall (R : Z -> Z -> Prop) (L : Z -> Prop),
  (forall a, R a a) -> (forall a b, R a b -> R b a) -> (forall a b c, R a b -> R b c -> R a c) ->
  forall x y u, UFInv R L u -> L x -> L y -> R x y -> uf_equiv x y u = false ->
  UFInv R L (uf_union x y u) /\
  (forall a b, same_class u a b -> same_class (uf_union x y u) a b) /\
  same_class (uf_union x y u) x y.
Proof. exact uf_union_inv. Qed.
Print Assumptions C08_uf_union.

(* the run up to the final partition, both modes (skipping already equivalent pairs is harmless:
   completeness is stated for ALL pairs of considered literals) *)
Theorem C08_final_partition : forall C n A cross fs chs s,
  WFQ C n -> in_range n A -> 0 < MCA C n A -> Z.of_nat n <= 32767 ->
  (forall f, In f fs -> 1 <= f <= Z.of_nat n) -> samples_valid C n A chs -> Clean C s ->
  exists s' ok u,
    run_body (build C n) A cross chs fs s = (s', Some (finish cross u), ok) /\ Clean C s' /\
    UFInv (Eqv C n A) (fun l => In l (lits_of cross fs)) u /\
    (forall a b, In a (lits_of cross fs) -> In b (lits_of cross fs) -> Eqv C n A a b -> same_class u a b).
Proof. exact run_body_spec. Qed.
Print Assumptions C08_final_partition.

(* ---- the `as i16` casts (finding K1) ---- *)
(* every id in any answer of the model is an i16, for every circuit, request, stream and state *)
Theorem C08_ids_are_i16 : forall d cands A cross chs s s' out ok,
  get_atomic_sets d cands A cross chs s = (s', Some out, ok) ->
  forall c z, In c out -> In z c -> -32768 <= z <= 32767.
Proof. exact atomic_ids_i16. Qed.
Print Assumptions C08_ids_are_i16.

(* REFUTED above 32767 features: with 40 000 features, candidates [39999, 40000] and both assumed
   (so that they are equivalent in every circuit), the specification is [[39999, 40000]] and no
   answer of the model equals it - for EVERY circuit (in particular every WFQ one with a model
   containing both features; that such circuits exist is not proved here - a 40 000-feature circuit
   cannot be evaluated inside Coq - it is witnessed by the K1 case of the correspondence run, where
   the implementation reports [[-25537, -25536]] = wrap16 of the two ids). *)
Theorem C08_refuted_i16 :
  exists (n : nat) (cands : list Z) (A : cfg),
    Z.of_nat n > 32767 /\ NoDup cands /\ (forall f, In f cands -> 1 <= f <= Z.of_nat n) /\
    in_range n A /\
    forall C chs s s' out ok,
      classes_spec (eqvb C n A) cands = [[39999; 40000]] /\
      (get_atomic_sets (build C n) (Some cands) A false chs s = (s', Some out, ok) ->
       out <> classes_spec (eqvb C n A) cands).
Proof. exact atomic_refuted_i16. Qed.
Print Assumptions C08_refuted_i16.

Theorem C08_wrap16_example : wrap16 39999 = -25537 /\ wrap16 40000 = -25536 /\
  (forall z, -32768 <= z <= 32767 -> wrap16 z = z).
Proof. exact (conj eq_refl (conj eq_refl wrap16_id)). Qed.
Print Assumptions C08_wrap16_example.

(* ---- non-vacuity: x1 <-> x2 with a free x3; a concrete choice stream (splits 200/312 and 500/12,
   reversing and identity shuffles) whose 512 samples are valid; candidates in a non-ascending
   order; the model's answers and the specification ---- *)
Example C08_hypotheses_satisfiable :
  WFQ ex_c08 3 /\ in_range 3 [] /\ 0 < MCA ex_c08 3 [] /\ Z.of_nat 3 <= 32767 /\
  cands_ok 3 None /\ cands_ok 3 (Some [3; 1; 2]) /\
  samples_valid ex_c08 3 [] ex_c08_choices /\ Clean ex_c08 (fresh_scratch ex_c08).
Proof. exact ex_c08_hyps. Qed.

Example C08_example_values :
  snd (fst (get_atomic_sets (build ex_c08 3) None [] false ex_c08_choices (fresh_scratch ex_c08)))
    = Some [[1; 2]] /\
  snd (fst (get_atomic_sets (build ex_c08 3) (Some [3; 1; 2]) [] true ex_c08_choices (fresh_scratch ex_c08)))
    = Some [[-1; -2]] /\
  classes_spec (eqvb ex_c08 3 []) [1; 2; 3] = [[1; 2]] /\
  cross_spec (eqvb ex_c08 3 []) [3; 1; 2] = [[-1; -2]].
Proof. exact ex_c08_values. Qed.
