(* C11: incremental clause edits.  Property theorems only (proofs: Proofs/EditReduce.v,
   EditRenumber.v, EditUnit.v, EditSpec.v, EditDispatch.v); see bin/propcfg/C11.py for the status.
   The model is the code after the repairs F14-F17 (K23, K25, K26, K34) and F23-F28 (K38, K27, K22/K33,
   K30-K32, K3/K20/K29, K21/K35).
   PARTIAL BY DESIGN: the unit-clause edit is modelled and proved; the bridge / sub-DAG / recompile /
   undo machinery is not modelled - for it there is only the specification edit_spec and the
   correspondence run against its truth table. *)
From Coq Require Import List ZArith Bool Permutation.
From DD Require Import Model.Circuit Model.Query Model.Edit Proofs.Semantics Proofs.CountsA Proofs.QueryDefs
  Proofs.EditReduce Proofs.EditRenumber Proofs.EditUnit Proofs.EditSpec Proofs.EditDispatch
  Proofs.EditWF Proofs.EditCore Proofs.EditQueries Proofs.EditReflattenWF Proofs.EditUnitNew.
Import ListNotations.
Open Scope Z_scope.

(* ---------- (a) reduce_clause ---------- *)

(* For every assignment that satisfies the decisions: None = the clause is false, Some [] = the
   clause is empty or true, Some r = a duplicate-free clause with the same truth value. *)
Theorem C11_reduce_clause : forall (c D : list Z) (s : asg),
  ~ In 0 c -> (forall d, In d D -> lit_true s d = true) ->
  match reduce_clause c D with
  | None => clause_true s c = false
  | Some [] => c = [] \/ clause_true s c = true
  | Some r => clause_true s r = clause_true s c /\ NoDup r /\ ~ In 0 r
  end.
Proof. exact reduce_clause_sound. Qed.
Print Assumptions C11_reduce_clause.

(* Without decisions (the call in prepare_and_apply_incremental_edit): a clause is skipped exactly
   when it is empty or contains a complementary pair ... *)
Theorem C11_reduce_clause_skipped : forall c,
  ~ In 0 c -> (reduce_clause c [] = Some [] <-> c = [] \/ exists e, In e c /\ In (- e) c).
Proof. exact reduce_clause_skipped_iff. Qed.
Print Assumptions C11_reduce_clause_skipped.

(* ... otherwise it is kept with the same literals, each once *)
Theorem C11_reduce_clause_kept : forall c r,
  ~ In 0 c -> reduce_clause c [] = Some r -> r <> [] ->
  NoDup r /\ (forall x, In x r <-> In x c) /\ (forall s, clause_true s r = clause_true s c).
Proof. exact reduce_clause_kept. Qed.
Print Assumptions C11_reduce_clause_kept.

(* the "dDNNF becomes UNSAT" panic of prepare_and_apply_incremental_edit is unreachable *)
Theorem C11_prepare_no_panic : forall e, prepare e <> PreparePanic.
Proof. exact prepare_no_panic. Qed.
Print Assumptions C11_prepare_no_panic.

(* ---------- the dispatch conditions ---------- *)
(* Model/Edit.v follows /repo AFTER the repairs F14 (K23), F15 (K25), F16 (K26), F17 (K34) of
   parser/intermediate_representation.rs (commits: see KNOWN_FINDINGS.txt, `fixed:` lines of C11);
   theorems named `.._v0` are about the code BEFORE the repair in question. *)
Theorem C11_dispatch_nothing : forall f, dispatch f [] [] = Decided StTautology.
Proof. exact dispatch_nothing. Qed.
Print Assumptions C11_dispatch_nothing.

Theorem C11_dispatch_cache_hit : forall f a r,
  (a <> [] \/ r <> []) -> cache_hit f = true -> dispatch f a r = Decided StUndo.
Proof. exact dispatch_cache_hit. Qed.
Print Assumptions C11_dispatch_cache_hit.

(* one added unit clause - over an existing or a NEW variable (F27) - and nothing to remove ->
   unit path *)
Theorem C11_dispatch_unit : forall f l,
  cache_hit f = false -> dispatch f [[l]] [] = Decided StUnitClause.
Proof. exact dispatch_unit. Qed.
Print Assumptions C11_dispatch_unit.

(* ... and the unit path is taken in exactly that case *)
Theorem C11_dispatch_unit_iff : forall f a r,
  dispatch f a r = Decided StUnitClause <->
  cache_hit f = false /\ r = [] /\ exists l, a = [[l]].
Proof. exact dispatch_unit_iff. Qed.
Print Assumptions C11_dispatch_unit_iff.

(* an edit with removals never takes the unit path (which would drop them): K26 repaired by F16 *)
Theorem C11_dispatch_removal_not_unit : forall f a r,
  r <> [] -> dispatch f a r <> Decided StUnitClause.
Proof. exact dispatch_removal_not_unit. Qed.
Print Assumptions C11_dispatch_removal_not_unit.

(* every other edit needs the source clauses: on a d-DNNF that was not compiled from a CNF it is
   refused with Error - exactly then - and nothing changes (K3, K20, K21, K35 repaired by F28) *)
Theorem C11_dispatch_error_iff : forall f a r,
  dispatch f a r = Decided StError <->
  (a <> [] \/ r <> []) /\ cache_hit f = false /\ from_cnf f = false /\ ~ (r = [] /\ exists l, a = [[l]]).
Proof. exact dispatch_error_iff. Qed.
Print Assumptions C11_dispatch_error_iff.

(* an empty clause list of a CNF-compiled d-DNNF is complete: the edited CNF is compiled as a whole
   (K27 repaired by F24) *)
Theorem C11_dispatch_empty_from_cnf : forall f a r,
  (a <> [] \/ r <> []) -> cache_hit f = false -> from_cnf f = true -> stored_cnf_empty f = true ->
  ~ (r = [] /\ exists l, a = [[l]]) -> dispatch f a r = Decided StRecompile.
Proof. exact dispatch_empty_from_cnf. Qed.
Print Assumptions C11_dispatch_empty_from_cnf.

(* the dispatch conditions answer Tautology only for an edit without effective clauses (the
   bridge computation of the graph-dependent case still can) *)
Theorem C11_dispatch_tautology_iff : forall f a r,
  dispatch f a r = Decided StTautology <-> a = [] /\ r = [].
Proof. exact dispatch_tautology_iff. Qed.
Print Assumptions C11_dispatch_tautology_iff.

(* the code before F16 (K26): one added unit clause over an existing variable took the unit path
   whatever else the edit removes; add_unit_clause never reads the removals *)
Theorem C11_dispatch_unit_drops_removal_v0 : forall f l r,
  cache_hit f = false -> Z.abs l <= ig_nvars f -> dispatch_v0 f [[l]] r = Decided StUnitClause.
Proof. exact dispatch_unit_v0. Qed.
Print Assumptions C11_dispatch_unit_drops_removal_v0.

(* F16 changed the decision of edits with removals only *)
Theorem C11_dispatch_v0_same_without_removal : forall f a, dispatch_v1 f a [] = dispatch_v0 f a [].
Proof. exact dispatch_v0_same_without_removal. Qed.
Print Assumptions C11_dispatch_v0_same_without_removal.

(* the code after F16 and before F24 / F27 / F28 (dispatch_v1; K3, K20, K27): with an empty stored
   clause list - all nnf-loaded models, a CNF without effective clauses - every edit that is not a
   pure unit edit over an existing variable was answered Tautology (ignored), or Recompile of the
   edit's clauses alone when root = node 0 *)
Theorem C11_dispatch_empty_store_v1 : forall f a r,
  cache_hit f = false -> stored_cnf_empty f = true -> (a <> [] \/ r <> []) ->
  (forall l, a = [[l]] -> r = [] -> ig_nvars f < Z.abs l) ->
  dispatch_v1 f a r = Decided (if root_is_node0 f then StRecompile else StTautology).
Proof. exact dispatch_empty_store_v1. Qed.
Print Assumptions C11_dispatch_empty_store_v1.

(* F24 / F27 / F28 changed nothing for a pure unit edit over an existing variable and for every
   other edit on a CNF-compiled d-DNNF with a non-empty clause list *)
Theorem C11_dispatch_v1_same : forall f a r,
  from_cnf f = true -> stored_cnf_empty f = false ->
  (forall l, a = [[l]] -> r = [] -> Z.abs l <= ig_nvars f) ->
  dispatch f a r = dispatch_v1 f a r.
Proof. exact dispatch_v1_same. Qed.
Print Assumptions C11_dispatch_v1_same.

(* ---------- the undo cache: predicate and keys ---------- *)
Theorem C11_cache_matches_inverse : forall a r, cache_matches a r r a = true.
Proof. exact cache_matches_inverse. Qed.
Print Assumptions C11_cache_matches_inverse.

(* a request is answered from the cache iff it is the exact inverse of the entry: its added clauses
   are, as a set of literal sets, the entry's removed clauses and vice versa (K25 repaired by F15) *)
Theorem C11_cache_matches_iff_inverse : forall ea er a r,
  cache_matches ea er a r = true <-> same_clauses a er /\ same_clauses r ea.
Proof. exact cache_matches_iff. Qed.
Print Assumptions C11_cache_matches_iff_inverse.

Theorem C11_cache_find_inverse : forall keys a r e,
  cache_find keys a r = Some e -> In e keys /\ same_clauses a (snd e) /\ same_clauses r (fst e).
Proof. exact cache_find_Some. Qed.
Print Assumptions C11_cache_find_inverse.

(* the code before F15 (K25): the predicate (inclusion in one direction) also accepted a request
   that is NOT the inverse; the repaired predicate rejects that request *)
Theorem C11_cache_matches_partial_refuted_v0 :
  exists ea er a r, cache_matches_v0 ea er a r = true /\ ~ same_clauses a er /\
                    cache_matches ea er a r = false.
Proof. exact cache_matches_partial_refuted_v0. Qed.
Print Assumptions C11_cache_matches_partial_refuted_v0.

Theorem C11_cache_matches_v0_weaker : forall ea er a r,
  cache_matches ea er a r = true -> cache_matches_v0 ea er a r = true.
Proof. exact cache_matches_v0_weaker. Qed.
Print Assumptions C11_cache_matches_v0_weaker.

(* a unit edit empties the cache: the edit after it is never answered Undo (K34 repaired by F17) *)
Theorem C11_unit_edit_clears_cache : forall keys a r,
  cache_find (cache_after_unit keys) a r = None.
Proof. exact cache_find_after_unit. Qed.
Print Assumptions C11_unit_edit_clears_cache.

Theorem C11_no_undo_after_unit : forall f keys a r,
  cache_hit f = is_some (cache_find (cache_after_unit keys) a r) -> dispatch f a r <> Decided StUndo.
Proof. exact no_undo_after_unit. Qed.
Print Assumptions C11_no_undo_after_unit.

(* the code before F17 (K34): the entry of an older edit survived a unit edit, its inverse was
   answered Undo (restoring a state without the unit clause) *)
Theorem C11_undo_stale_after_unit_refuted_v0 :
  exists keys a r, cache_find (cache_after_unit_v0 keys) a r <> None /\
                   cache_find (cache_after_unit keys) a r = None.
Proof. exact undo_stale_after_unit_refuted_v0. Qed.
Print Assumptions C11_undo_stale_after_unit_refuted_v0.

(* ---------- the stored clause list ---------- *)
(* the retain step of adjust_intern_cnf removes exactly the stored clauses that are (as sets) among
   the clauses to remove - any number of them - and keeps the others in order (K23 repaired by F14) *)
Theorem C11_retain_removes_exactly : forall stored rmv c,
  In c (retain_clauses stored rmv) <-> In c stored /\ mem_clause c rmv = false.
Proof. exact retain_clauses_In. Qed.
Print Assumptions C11_retain_removes_exactly.

Theorem C11_retain_is_filter : forall stored rmv,
  retain_clauses stored rmv = filter (fun c => negb (mem_clause c rmv)) stored.
Proof. exact retain_clauses_filter. Qed.
Print Assumptions C11_retain_is_filter.

(* it is the removal step of the specification *)
Theorem C11_retain_is_edit_spec : forall F n rmvs,
  fst (edit_spec F n [] rmvs) = retain_clauses F (filter_map' norm_clause rmvs).
Proof. exact retain_is_spec. Qed.
Print Assumptions C11_retain_is_edit_spec.

(* and on a stored list that simplify_clauses leaves alone (duplicate-free, non-tautological,
   non-unit clauses) the whole of adjust_intern_cnf is the removal of the specification *)
Theorem C11_adjust_removal_is_edit_spec : forall F n rmvs,
  plain_clauses F ->
  adjust_intern_cnf F [] (filter_map' norm_clause rmvs) = fst (edit_spec F n [] rmvs).
Proof. exact adjust_removal_is_spec. Qed.
Print Assumptions C11_adjust_removal_is_edit_spec.

(* refuted, still (K8): clause removal on the unit-propagated stored list does not yield the clause
   set of the specification *)
Theorem C11_removal_after_simplify_refuted :
  length (cnf_models_n (adjust_intern_cnf (simplify_clauses k8_cnf) [] [[-4]]) 4) = 6%nat /\
  length (cnf_models_n (fst (edit_spec k8_cnf 4 [] [[-4]])) 4) = 4%nat.
Proof. exact removal_after_simplify_refuted. Qed.
Print Assumptions C11_removal_after_simplify_refuted.

(* an edit answered Recompile applies the edit to the stored clause list exactly once (K38
   repaired by F23) *)
Theorem C11_recompile_stored_once : forall stored a r,
  recompile_stored stored a r = adjust_intern_cnf stored a r.
Proof. exact recompile_stored_once. Qed.
Print Assumptions C11_recompile_stored_once.

(* the code before F23 (K38): adjust_intern_cnf was applied TWICE (once in
   transform_to_cnf_from_starting_cnf, once in recompile_everything); the second round removed a
   clause that the first round shortened to a removed clause.  CNF {-1 -2}, edit (remove {-1}, add
   {2}): the compiled list was {2} (2 models) instead of {-1 -2},{2} (1 model) *)
Theorem C11_recompile_adjusts_twice_refuted_v0 :
  recompile_stored_v0 [[-1; -2]] [[2]] [[-1]] = [[2]] /\
  cnf_models_n (recompile_stored_v0 [[-1; -2]] [[2]] [[-1]]) 2 = [[1; 2]; [-1; 2]] /\
  cnf_models_n (fst (edit_spec [[-1; -2]] 2 [[2]] [[-1]])) 2 = [[-1; 2]] /\
  cnf_models_n (recompile_stored [[-1; -2]] [[2]] [[-1]]) 2 = [[-1; 2]].
Proof. exact recompile_adjusts_twice_refuted_v0. Qed.
Print Assumptions C11_recompile_adjusts_twice_refuted_v0.

(* the code before F14 (K23): removing two different clauses at once removed nothing; the repaired
   code removes both, as the specification *)
Theorem C11_multi_removal_refuted_v0 :
  adjust_intern_cnf_v0 [[-1; 2]; [-1; -2]] [] [[-1; 2]; [-1; -2]] = [[-1; 2]; [-1; -2]] /\
  fst (edit_spec [[-1; 2]; [-1; -2]] 2 [] [[-1; 2]; [-1; -2]]) = [] /\
  adjust_intern_cnf [[-1; 2]; [-1; -2]] [] [[-1; 2]; [-1; -2]] = [].
Proof. exact multi_removal_refuted_v0. Qed.
Print Assumptions C11_multi_removal_refuted_v0.

(* with one clause to remove the old retain step already was the repaired one *)
Theorem C11_retain_v0_single : forall stored r,
  retain_clauses_v0 stored [r] = retain_clauses stored [r].
Proof. exact retain_v0_single. Qed.
Print Assumptions C11_retain_v0_single.

(* ---------- (c) the specification ---------- *)
(* adding clauses is conjunction (tautological clauses change nothing, duplicates are absorbed) *)
Theorem C11_edit_spec_add : forall (F : cnf) (n : nat) (adds : cnf) (s : asg),
  nonempty_clauses adds -> nonzero_clauses adds ->
  cnf_true s (fst (edit_spec F n adds [])) = cnf_true s F && cnf_true s adds.
Proof. exact edit_spec_add_true. Qed.
Print Assumptions C11_edit_spec_add.

Theorem C11_edit_spec_rmv : forall (F : cnf) (n : nat) (rmvs : cnf) (c : clause),
  In c (fst (edit_spec F n [] rmvs)) <->
  In c F /\ mem_clause c (filter_map' norm_clause rmvs) = false.
Proof. exact edit_spec_rmv_In. Qed.
Print Assumptions C11_edit_spec_rmv.

Theorem C11_edit_spec_features : forall (F : cnf) (n : nat) (adds rmvs : cnf),
  snd (edit_spec F n adds rmvs) = Nat.max n (Z.to_nat (max_var (filter_map' norm_clause adds))).
Proof. exact edit_spec_n. Qed.
Print Assumptions C11_edit_spec_features.

(* ---------- (b) the unit-clause edit ---------- *)

(* FULL: the models of the edited vector are the models of C that contain l (equality of lists:
   both are filters of the same truth table).  Only idx_ok, smooth and complete of WF are used. *)
Theorem C11_unit_sem : forall (C : circuit) (n : nat) (l : Z),
  WF C n -> 1 <= Z.abs l <= Z.of_nat n -> 0 < MCA C n [l] ->
  Models (unit_edit C l) n = filter (contains_all [l]) (Models C n).
Proof. exact unit_sem. Qed.
Print Assumptions C11_unit_sem.

(* pointwise form, for every assignment (not only the canonical configurations) *)
Theorem C11_unit_eval : forall (C : circuit) (n : nat) (l : Z) (s : asg),
  WF C n -> 1 <= Z.abs l <= Z.of_nat n -> 0 < MCA C n [l] ->
  eval_root s (unit_edit C l) = eval_root s C && lit_true s l.
Proof.
  intros C n l s HWF Hl Hp. pose proof HWF as [Hne Hok _ Hsm Hco _].
  exact (unit_edit_eval C n l s Hne Hok Hsm Hco Hl (root_not_removed C n l Hne Hok Hl Hp)).
Qed.
Print Assumptions C11_unit_eval.

(* every later query under assumptions A is about the conjunction with l *)
Theorem C11_unit_sem_assumptions : forall (C : circuit) (n : nat) (l : Z) (A : cfg),
  WF C n -> 1 <= Z.abs l <= Z.of_nat n -> 0 < MCA C n [l] ->
  ModelsA (unit_edit C l) n A = ModelsA C n (l :: A).
Proof. exact unit_sem_assumptions. Qed.
Print Assumptions C11_unit_sem_assumptions.

(* the cached root count (Ddnnf::rc) after the edit - proved directly, without assuming that the
   edited vector is well-formed *)
Theorem C11_unit_count : forall (C : circuit) (n : nat) (l : Z),
  WF C n -> 1 <= Z.abs l <= Z.of_nat n -> 0 < MCA C n [l] ->
  root_count (unit_edit C l) = MCA C n [l].
Proof. exact unit_root_count. Qed.
Print Assumptions C11_unit_count.

(* the unit edit implements edit_spec for a unit clause over an existing variable *)
Theorem C11_unit_is_edit_spec : forall (C : circuit) (F : cnf) (n : nat) (l : Z),
  WF C n -> 1 <= Z.abs l <= Z.of_nat n -> 0 < MCA C n [l] ->
  Models C n = cnf_models_n F n ->
  Models (unit_edit C l) n = cnf_models_n (fst (edit_spec F n [[l]] [])) n
  /\ snd (edit_spec F n [[l]] []) = n.
Proof. exact unit_edit_is_spec. Qed.
Print Assumptions C11_unit_is_edit_spec.

(* Well-formedness of the edited vector.  Always: non-empty and well-indexed (the re-flattening
   is a post-order).  When the edit leaves no dead node: WF and WFQ again, so that the C02..C07
   theorems apply to the edited vector verbatim (instances below).  With dead nodes smooth and
   no_dead fail (C11_unit_core_refuted); then only C11_unit_sem / C11_unit_count speak about the
   vector and check_wf is evaluated per dumped vector modulo dead or-children (strip_dead). *)
Theorem C11_unit_idx_ok : forall (C : circuit) (n : nat) (l : Z),
  WF C n -> 1 <= Z.abs l <= Z.of_nat n -> 0 < MCA C n [l] ->
  unit_edit C l <> [] /\ idx_ok (unit_edit C l) = true.
Proof. exact unit_edit_idx_ok. Qed.
Print Assumptions C11_unit_idx_ok.

Theorem C11_unit_WF : forall (C : circuit) (n : nat) (l : Z),
  WF C n -> 1 <= Z.abs l <= Z.of_nat n -> 0 < MCA C n [l] ->
  no_dead (unit_edit C l) = true -> WF (unit_edit C l) n.
Proof. exact unit_edit_WF. Qed.
Print Assumptions C11_unit_WF.

Theorem C11_unit_WFQ : forall (C : circuit) (n : nat) (l : Z),
  WFQ C n -> 1 <= Z.abs l <= Z.of_nat n -> 0 < MCA C n [l] ->
  no_dead (unit_edit C l) = true -> WFQ (unit_edit C l) n.
Proof. exact unit_edit_WFQ. Qed.
Print Assumptions C11_unit_WFQ.

(* ... hence: the ALGORITHMS (Model/Query.v: execute_query with all its strategies, sat, the
   cached core) run on the edited vector answer for the conjunction with the unit clause (count
   and sat when the edit left no dead node, the core for every unit edit) *)
Theorem C11_unit_then_count : forall (C : circuit) (n : nat) (l : Z) (A : cfg) (s : scratch),
  WFQ C n -> 1 <= Z.abs l <= Z.of_nat n -> 0 < MCA C n [l] -> no_dead (unit_edit C l) = true ->
  in_range n A -> Clean (unit_edit C l) s ->
  let '(s', r) := execute_query (build (unit_edit C l) n) A s in
  r = MCA C n (l :: A) /\ Clean (unit_edit C l) s'.
Proof. exact unit_then_count. Qed.
Print Assumptions C11_unit_then_count.

Theorem C11_unit_then_sat : forall (C : circuit) (n : nat) (l : Z) (A : cfg),
  WFQ C n -> 1 <= Z.abs l <= Z.of_nat n -> 0 < MCA C n [l] -> no_dead (unit_edit C l) = true ->
  in_range n A ->
  sat (build (unit_edit C l) n) A = (0 <? MCA C n (l :: A)).
Proof. exact unit_then_sat. Qed.
Print Assumptions C11_unit_then_sat.

(* the cached core that rebuild recomputes (F7) with the repaired calculate_core (F22): exact for
   EVERY unit edit - no hypothesis on the edited vector, which may contain dead (zero-count)
   nodes, is then neither smooth nor no_dead and outside the scope of the WF theorems (K4) *)
Theorem C11_unit_then_core : forall (C : circuit) (n : nat) (l : Z) (x : Z),
  WF C n -> 1 <= Z.abs l <= Z.of_nat n -> 0 < MCA C n [l] ->
  (In x (calculate_core (unit_edit C l) n) <->
   (forall m, In m (Models C n) -> In l m -> In x m)).
Proof. exact unit_then_core. Qed.
Print Assumptions C11_unit_then_core.

Theorem C11_unit_then_core_models : forall (C : circuit) (n : nat) (l : Z) (x : Z),
  WF C n -> 1 <= Z.abs l <= Z.of_nat n -> 0 < MCA C n [l] ->
  (In x (calculate_core (unit_edit C l) n) <->
   (forall m, In m (Models (unit_edit C l) n) -> In x m)).
Proof. exact unit_then_core_models. Qed.
Print Assumptions C11_unit_then_core_models.

(* the configurations of the root of the edited vector are those of C without -l (list equality;
   what the core theorem rests on) *)
Theorem C11_unit_enum_root : forall (C : circuit) (n : nat) (l : Z),
  WF C n -> 1 <= Z.abs l <= Z.of_nat n -> 0 < MCA C n [l] ->
  enum_root (unit_edit C l) = filter (okA [l]) (enum_root C).
Proof. exact unit_edit_enum_root. Qed.
Print Assumptions C11_unit_enum_root.

(* ---------- (b') the unit-clause edit over a NEW variable (unit_edit_new, repair F27) ----------
   C is WF over n features, n < |l| (any gap: the features strictly between n and |l| become
   optional), n' = |l|.  The edited vector is WF / WFQ over n' - for a root that already is an And
   node (it takes the new children) and for every other root (a fresh And root above it) - and it
   denotes C /\ l over n' features.  `Models C n'` IS the lifted truth table: the models of C over
   n features extended by every assignment of the features n+1..n' (C11_models_lift). *)

(* FULL: list equality, both sides filters of the truth table over n' = |l| features *)
Theorem C11_unit_new_sem : forall (C : circuit) (n : nat) (l : Z),
  WF C n -> Z.of_nat n < Z.abs l ->
  Models (unit_edit_new C n l) (Z.to_nat (Z.abs l)) =
  filter (contains_all [l]) (Models C (Z.to_nat (Z.abs l))).
Proof. exact unit_new_sem. Qed.
Print Assumptions C11_unit_new_sem.

(* what the right-hand side ranges over: m is a model of C over n' features iff it is a
   configuration over n' features whose restriction to the first n is a model of C over n *)
Theorem C11_models_lift : forall (C : circuit) (n : nat) (l : Z),
  WF C n -> Z.of_nat n < Z.abs l -> forall m : cfg, all_reachable C = true ->
  (In m (Models C (Z.to_nat (Z.abs l))) <->
   In m (all_cfgs (Z.to_nat (Z.abs l))) /\ In (canon n (asg_of m)) (Models C n)).
Proof. exact models_lift. Qed.
Print Assumptions C11_models_lift.

(* pointwise, for every assignment *)
Theorem C11_unit_new_eval : forall (C : circuit) (n : nat) (l : Z),
  WF C n -> Z.of_nat n < Z.abs l -> forall s : asg,
  eval_root s (unit_edit_new C n l) = eval_root s C && lit_true s l.
Proof. exact unit_new_eval. Qed.
Print Assumptions C11_unit_new_eval.

Theorem C11_unit_new_sem_assumptions : forall (C : circuit) (n : nat) (l : Z),
  WF C n -> Z.of_nat n < Z.abs l -> forall A : cfg,
  ModelsA (unit_edit_new C n l) (Z.to_nat (Z.abs l)) A = ModelsA C (Z.to_nat (Z.abs l)) (l :: A).
Proof. exact unit_new_sem_assumptions. Qed.
Print Assumptions C11_unit_new_sem_assumptions.

(* the cached root count: every skipped feature doubles it *)
Theorem C11_unit_new_count : forall (C : circuit) (n : nat) (l : Z),
  WF C n -> Z.of_nat n < Z.abs l ->
  root_count (unit_edit_new C n l) = 2 ^ (Z.abs l - 1 - Z.of_nat n) * root_count C.
Proof. exact unit_new_count. Qed.
Print Assumptions C11_unit_new_count.

(* well-formedness over n' features, unconditionally (no dead node can arise) *)
Theorem C11_unit_new_WF : forall (C : circuit) (n : nat) (l : Z),
  WF C n -> Z.of_nat n < Z.abs l -> WF (unit_edit_new C n l) (Z.to_nat (Z.abs l)).
Proof. exact unit_new_WF. Qed.
Print Assumptions C11_unit_new_WF.

Theorem C11_unit_new_WFQ : forall (C : circuit) (n : nat) (l : Z),
  WF C n -> Z.of_nat n < Z.abs l -> WFQ C n -> WFQ (unit_edit_new C n l) (Z.to_nat (Z.abs l)).
Proof. exact unit_new_WFQ. Qed.
Print Assumptions C11_unit_new_WFQ.

(* ... which rests on: the re-flattening of ANY well-formed vector is well-formed (what is not
   reachable from the root - here the old And root - disappears) *)
Theorem C11_reflatten_WF : forall (P : circuit) (n : nat), WF P n -> WF (reflatten P) n.
Proof. exact reflatten_WF. Qed.
Print Assumptions C11_reflatten_WF.

Theorem C11_reflatten_WFQ : forall (P : circuit) (n : nat),
  WF P n -> unique_leaves P = true -> lits_nonzero P = true -> WFQ (reflatten P) n.
Proof. exact reflatten_WFQ. Qed.
Print Assumptions C11_reflatten_WFQ.

(* ... hence the ALGORITHMS on the edited vector answer for the conjunction with l over n' features *)
Theorem C11_unit_new_then_count : forall (C : circuit) (n : nat) (l : Z),
  WF C n -> Z.of_nat n < Z.abs l -> forall (A : cfg) (s : scratch),
  WFQ C n -> in_range (Z.to_nat (Z.abs l)) A -> Clean (unit_edit_new C n l) s ->
  let '(s', r) := execute_query (build (unit_edit_new C n l) (Z.to_nat (Z.abs l))) A s in
  r = MCA C (Z.to_nat (Z.abs l)) (l :: A) /\ Clean (unit_edit_new C n l) s'.
Proof. exact unit_new_then_count. Qed.
Print Assumptions C11_unit_new_then_count.

Theorem C11_unit_new_then_sat : forall (C : circuit) (n : nat) (l : Z),
  WF C n -> Z.of_nat n < Z.abs l -> forall A : cfg,
  WFQ C n -> 0 < root_count C -> in_range (Z.to_nat (Z.abs l)) A ->
  sat (build (unit_edit_new C n l) (Z.to_nat (Z.abs l))) A = (0 <? MCA C (Z.to_nat (Z.abs l)) (l :: A)).
Proof. exact unit_new_then_sat. Qed.
Print Assumptions C11_unit_new_then_sat.

(* the cached core (calculate_core, C05_core_exact_WF): the literals of every model that contains l *)
Theorem C11_unit_new_then_core : forall (C : circuit) (n : nat) (l : Z),
  WF C n -> Z.of_nat n < Z.abs l -> forall x : Z, 0 < root_count C ->
  (In x (calculate_core (unit_edit_new C n l) (Z.to_nat (Z.abs l))) <->
   (forall m, In m (Models C (Z.to_nat (Z.abs l))) -> In l m -> In x m)).
Proof. exact unit_new_then_core. Qed.
Print Assumptions C11_unit_new_then_core.

(* the edit implements edit_spec for a unit clause over a new variable: the formula is conjoined
   with l and the feature count grows to |l| (F: a CNF over the n features with the models of C) *)
Theorem C11_unit_new_is_edit_spec : forall (C : circuit) (n : nat) (l : Z),
  WF C n -> Z.of_nat n < Z.abs l -> forall F : cnf,
  all_reachable C = true ->
  (forall c x, In c F -> In x c -> 1 <= Z.abs x <= Z.of_nat n) ->
  Models C n = cnf_models_n F n ->
  Models (unit_edit_new C n l) (Z.to_nat (Z.abs l)) =
    cnf_models_n (fst (edit_spec F n [[l]] [])) (Z.to_nat (Z.abs l))
  /\ snd (edit_spec F n [[l]] []) = Z.to_nat (Z.abs l).
Proof. exact unit_new_is_spec. Qed.
Print Assumptions C11_unit_new_is_edit_spec.

(* the re-flattening model (DfsPostOrder over the vector) preserves the function and the count *)
Theorem C11_reflatten : forall (C : circuit) (s : asg),
  C <> [] -> idx_ok C = true ->
  eval_root s (reflatten C) = eval_root s C /\ root_count (reflatten C) = root_count C
  /\ idx_ok (reflatten C) = true.
Proof.
  intros C s Hne Hok. split; [now apply eval_root_reflatten|].
  split; [now apply root_count_reflatten|now apply reflatten_idx_ok].
Qed.
Print Assumptions C11_reflatten.

(* REFUTED for the code before F22 (finding K4, repaired): after a unit edit the vector can
   contain dead (zero-count) branches; it is then neither no_dead nor smooth, and the syntactic
   core of the old code (calculate_core_v0, recomputed by rebuild since F7) under-reports; the
   repaired calculate_core is exact on the same vector (C11_unit_then_core).  Witness = a vector the d4 loader produces
   ('o 1 0 / o 2 0 / t 3 0 / f 4 0 / 1 3 1 2 3 0 / 1 2 -1 0 / 2 4 2 0 / 2 3 -2 3 0', 3 features),
   edit: add the unit clause 2; literal 1 is in every model but not in the core. *)
Definition k4_circuit : circuit :=
  [Lit 1; Lit 2; Lit 3; And [2; 1; 0]%nat; Lit (-1); Lit (-2); And [2; 5]%nat; Or [6]%nat;
   And [7; 4]%nat; Or [8; 3]%nat].

Theorem C11_unit_core_refuted :
  exists C n l x,
    WFQ C n /\ no_dead C = true /\ 1 <= Z.abs l <= Z.of_nat n /\ 0 < MCA C n [l] /\
    (forall m, In m (Models (unit_edit C l) n) -> In x m) /\
    ~ In x (calculate_core_v0 (unit_edit C l) n) /\
    In x (calculate_core (unit_edit C l) n) /\
    no_dead (unit_edit C l) = false /\ smooth (unit_edit C l) = false.
Proof.
  exists k4_circuit, 3%nat, 2, 1.
  split; [apply check_wf_WFQ; vm_compute; reflexivity|].
  split; [vm_compute; reflexivity|].
  split; [vm_compute; split; discriminate|].
  split; [vm_compute; reflexivity|].
  split; [vm_compute; intros m [<-|[]]; now left|].
  split; [vm_compute; intros [H|[H|[]]]; discriminate|].
  split; [vm_compute; now left|].
  split; vm_compute; reflexivity.
Qed.
Print Assumptions C11_unit_core_refuted.

(* ---------- non-vacuity ---------- *)

(* the hypotheses of the unit theorems are satisfiable, the edited vector is exactly what the Rust
   dumps for this input (L 1 | L 2 | L 3 | A 2 1 0 | L -1 | O | A 5 4 | O 6 3), the conclusion is
   not trivial (the model set shrinks from 2 to 1) *)
Example ex_c11_unit :
  check_wf k4_circuit 3 = true /\ MCA k4_circuit 3 [2] = 1 /\
  unit_edit k4_circuit 2 =
    [Lit 1; Lit 2; Lit 3; And [2; 1; 0]%nat; Lit (-1); Or []; And [5; 4]%nat; Or [6; 3]%nat] /\
  Models k4_circuit 3 = [[1; 2; 3]; [-1; -2; 3]] /\
  Models (unit_edit k4_circuit 2) 3 = [[1; 2; 3]] /\
  root_count (unit_edit k4_circuit 2) = 1 /\
  calculate_core_v0 (unit_edit k4_circuit 2) 3 = [2; 3] /\
  calculate_core (unit_edit k4_circuit 2) 3 = [1; 2; 3] /\
  check_wf (strip_dead (unit_edit k4_circuit 2)) 3 = true.
Proof. vm_compute. repeat split. Qed.

(* an edit without dead branches: x1 & (x2 <-> x3), add -2: the edited vector is again accepted
   by check_wf, so the C02/C03/C05/C06/C07 theorems apply to it verbatim *)
Definition ex_c11 : circuit :=
  [Lit 1; Lit 2; Lit (-2); Lit 3; Lit (-3); And [1;3]%nat; And [2;4]%nat; Or [5;6]%nat;
   And [0;7]%nat].
Example ex_c11_clean :
  check_wf ex_c11 3 = true /\ MCA ex_c11 3 [-2] = 1 /\
  check_wf (unit_edit ex_c11 (-2)) 3 = true /\ no_dead (unit_edit ex_c11 (-2)) = true /\
  Models (unit_edit ex_c11 (-2)) 3 = [[1; -2; -3]] /\
  snd (execute_query (build (unit_edit ex_c11 (-2)) 3) [1; -3] (fresh_scratch (unit_edit ex_c11 (-2)))) = 1 /\
  sat (build (unit_edit ex_c11 (-2)) 3) [3] = false /\
  calculate_core (unit_edit ex_c11 (-2)) 3 = [-3; -2; 1].
Proof. vm_compute. repeat split. Qed.

(* reduce_clause: duplicates removed, tautology / empty skipped, decisions applied *)
Example ex_c11_reduce :
  reduce_clause [1; 2; 1] [] = Some [1; 2] /\ reduce_clause [1; 2; -1] [] = Some [] /\
  reduce_clause [] [] = Some [] /\ reduce_clause [1; 2] [-1] = Some [2] /\
  reduce_clause [1; 2] [-1; -2] = None /\ reduce_clause [1; 2] [2] = Some [].
Proof. vm_compute. repeat split. Qed.

(* the dispatch on concrete facts: unit clause over an old / a new variable on an nnf-loaded and a
   CNF-loaded model; every other edit is refused on the nnf-loaded model; empty clause list of a
   CNF-loaded model; a unit clause that comes with a removal takes the general path; the same
   inputs under the older dispatches *)
Example ex_c11_dispatch :
  let nnf := {| cache_hit := false; ig_nvars := 3; stored_cnf_empty := true; root_is_node0 := false; from_cnf := false |} in
  let d4r := {| cache_hit := false; ig_nvars := 3; stored_cnf_empty := true; root_is_node0 := true; from_cnf := false |} in
  let cnf := {| cache_hit := false; ig_nvars := 3; stored_cnf_empty := false; root_is_node0 := true; from_cnf := true |} in
  let cnf0 := {| cache_hit := false; ig_nvars := 3; stored_cnf_empty := true; root_is_node0 := false; from_cnf := true |} in
  dispatch nnf [[2]] [] = Decided StUnitClause /\ dispatch nnf [[4]] [] = Decided StUnitClause /\
  dispatch_v1 nnf [[4]] [] = Decided StTautology /\ dispatch_v1 d4r [[4]] [] = Decided StRecompile /\
  dispatch nnf [] [[2]] = Decided StError /\ dispatch_v1 nnf [] [[2]] = Decided StTautology /\
  dispatch d4r [[1; 4]] [] = Decided StError /\
  dispatch cnf [[2]] [] = Decided StUnitClause /\ dispatch cnf [[5]] [] = Decided StUnitClause /\
  dispatch_v1 cnf [[5]] [] = GraphDependent /\
  dispatch cnf [[2]] [[1; 3]] = GraphDependent /\ dispatch_v0 cnf [[2]] [[1; 3]] = Decided StUnitClause /\
  dispatch cnf [[1; 2]] [] = GraphDependent /\
  dispatch cnf0 [[1; 2]] [] = Decided StRecompile /\ dispatch_v1 cnf0 [[1; 2]] [] = Decided StTautology /\
  dispatch cnf0 [[3]] [[-2; 3]] = Decided StRecompile /\
  prepare [([1; -1], AddC); ([2; 2], AddC); ([], RemoveC); ([3; 1], RemoveC)] = Prepared [[2]] [[3; 1]].
Proof. vm_compute. repeat split. Qed.

(* the unit edit over a NEW variable.  Hypotheses satisfiable, conclusions not trivial:
   gap 0, And root (x1 & (x2 <-> x3), add 4): the root takes the literal, the count stays 2;
   gap 2, And root (add -6): two or-triangles, count 2 * 2^2 = 8, core -6 and 1;
   gap 2, Or root (x1 | -x1, add 4): a fresh And root above the Or;
   gap 0, literal root (-x1, add 2); n = 0, TrueN root (add -2): the TrueN stays below the new root *)
Definition ex_or_root : circuit := [Lit 1; Lit (-1); Or [0; 1]%nat].
Example ex_c11_unit_new :
  check_wf ex_c11 3 = true /\
  unit_edit_new ex_c11 3 4 =
    [Lit (-3); Lit (-2); And [1; 0]%nat; Lit 3; Lit 2; And [4; 3]%nat; Or [5; 2]%nat; Lit 1; Lit 4;
     And [8; 7; 6]%nat] /\
  check_wf (unit_edit_new ex_c11 3 4) 4 = true /\ root_count (unit_edit_new ex_c11 3 4) = 2 /\
  check_wf (unit_edit_new ex_c11 3 (-6)) 6 = true /\ root_count (unit_edit_new ex_c11 3 (-6)) = 8 /\
  length (Models (unit_edit_new ex_c11 3 (-6)) 6) = 8%nat /\
  calculate_core (unit_edit_new ex_c11 3 (-6)) 6 = [-6; 1] /\
  Models (unit_edit_new ex_c11 3 (-5)) 5 =
    [[1; 2; 3; 4; -5]; [1; 2; 3; -4; -5]; [1; -2; -3; 4; -5]; [1; -2; -3; -4; -5]] /\
  check_wf ex_or_root 1 = true /\
  unit_edit_new ex_or_root 1 4 =
    [Lit (-1); Lit 1; Or [1; 0]%nat; Lit 2; Lit (-2); Or [4; 3]%nat; Lit 3; Lit (-3); Or [7; 6]%nat;
     Lit 4; And [9; 8; 5; 2]%nat] /\
  check_wf (unit_edit_new ex_or_root 1 4) 4 = true /\ root_count (unit_edit_new ex_or_root 1 4) = 8 /\
  check_wf [Lit (-1)] 1 = true /\ unit_edit_new [Lit (-1)] 1 2 = [Lit (-1); Lit 2; And [1; 0]%nat] /\
  check_wf (unit_edit_new [Lit (-1)] 1 2) 2 = true /\ Models (unit_edit_new [Lit (-1)] 1 2) 2 = [[-1; 2]] /\
  check_wf [TrueN] 0 = true /\
  unit_edit_new [TrueN] 0 (-2) = [TrueN; Lit 1; Lit (-1); Or [2; 1]%nat; Lit (-2); And [4; 3; 0]%nat] /\
  check_wf (unit_edit_new [TrueN] 0 (-2)) 2 = true /\
  Models (unit_edit_new [TrueN] 0 (-2)) 2 = [[1; -2]; [-1; -2]].
Proof. vm_compute. repeat split. Qed.

(* the cache predicate: the inverse spelled in another order matches, a partial inverse and a
   superset do not (the K25 history: entry = add {1 3}, remove {1}); the K34 history: entry of
   `add [2 3]`, request `remove [2 3]` after a unit edit *)
Example ex_c11_cache :
  cache_matches [[1; 3]] [[1]] [[1]] [[3; 1]] = true /\
  cache_matches [[1; 3]] [[1]] [] [[1; 3]] = false /\ cache_matches_v0 [[1; 3]] [[1]] [] [[1; 3]] = true /\
  cache_matches [[1; 3]] [] [[2]] [[1; 3]] = false /\
  same_clauses [[1]] [[1]; [1; 1]] /\ ~ same_clauses [] [[1]] /\
  cache_find [([[2; 3]], [])] [] [[3; 2]] = Some ([[2; 3]], []) /\
  cache_find (cache_after_unit [([[2; 3]], [])]) [] [[3; 2]] = None.
Proof.
  repeat split; try (vm_compute; reflexivity).
  - intros c [<-|[]]. exists [1]. split; [now left|]. intros l; tauto.
  - intros c [<-|[<-|[]]]; exists [1]; (split; [now left|]); intros l; cbn; tauto.
  - intros [_ H]. destruct (H [1] (or_introl eq_refl)) as [d [[] _]].
Qed.

(* the stored clause list: removal of two clauses at once (the K23 history, second clause spelled
   in another order), of a clause that is absent, and on a list with a unit clause (K8 remains) *)
Example ex_c11_adjust :
  plain_clauses [[-1; 2]; [-1; -2]] /\
  adjust_intern_cnf [[-1; 2]; [-1; -2]] [] [[-1; 2]; [-2; -1]] = [] /\
  adjust_intern_cnf_v0 [[-1; 2]; [-1; -2]] [] [[-1; 2]; [-2; -1]] = [[-1; 2]; [-1; -2]] /\
  adjust_intern_cnf [[-1; 2]; [-1; -2]; [1; 3]] [] [[2; -1]; [3; 1]; [2; 3]] = [[-1; -2]] /\
  adjust_intern_cnf [[1; 2]] [[-1]] [] = [[-1]; [2]] /\
  adjust_intern_cnf [[2]; [-1]] [] [[-1]] = [[2]].
Proof.
  split; [exact plain_example|vm_compute; repeat split]. Qed.

(* the specification on the K8 formula: removing -4 gives the three remaining clauses *)
Example ex_c11_spec :
  edit_spec k8_cnf 4 [] [[-4]] = ([[-4; 3]; [-3; -1]; [-2]], 4%nat) /\
  edit_spec [[1; 2]] 2 [[3; -1; 3]; [2; 1]; [4; -4]] [] = ([[1; 2]; [-1; 3]], 3%nat).
Proof. vm_compute. repeat split. Qed.
