(* C15: evaluating a query file with j worker threads writes exactly one line per query, in file
   order, byte-identical to the single-threaded output, for every j and every interleaving of the
   atomic actions of the workers and the main thread.  Property theorems only.

   All theorems hold for an arbitrary result type R, an arbitrary comparison rcmp on it (no order
   laws assumed: with pairwise distinct indices the tuple order never looks at it), an arbitrary
   rendering rshow and an arbitrary answer function (history independence of worker clones is C16).
   The OS scheduler is not modelled: a schedule is any sequence of enabled atomic actions (mq_run),
   and every theorem is quantified over all of them.
   [panics q = true] means that the operation panics on q; [no_panic panics W] says that no query
   of the file does, [some_panic panics W] that one does.
   [drop_tx] selects the system: true = the code after repair F10-multiquery-drop-sender (the main
   thread drops its own Sender once the workers are spawned, so recv() fails and the main thread
   panics with "All workers died unexpectedly." when every worker has exited or died and the
   channel is empty); false = v0, the code before the repair (the main thread keeps its Sender:
   finding K13, C15_worker_panic_blocks_refuted).  Theorems quantified over drop_tx hold for both;
   C15_no_block, C15_worker_panic_propagates, C15_worker_panic_reaches_panic and C15_outcome are
   about the repaired system (drop_tx = true) and need no hypothesis on panics. *)
From Coq Require Import List ZArith Bool Permutation Sorted String.
From DD Require Import Model.MultiQ Proofs.MultiQSort Proofs.MultiQ.
Import ListNotations.

(* Nothing lost, nothing duplicated: when the main thread has received |W| results, the collected
   list (in arrival order) is a permutation of [(i, q_i, answer q_i)].  (No hypothesis on panics:
   a query on which the operation panics is never sent, so PCollect 0 is not reached then.) *)
Theorem C15_collect : forall (R : Type) (answer : mq_query -> R) panics rcmp rshow drop_tx W j tr s,
  mq_run R answer panics rcmp rshow drop_tx (mq_init R W j) tr s ->
  mq_main s = PCollect 0 ->
  Permutation (mq_results s) (mq_expected answer W).
Proof. exact collect. Qed.
Print Assumptions C15_collect.

(* Sorting any permutation of the expected results by the tuple (index, query, result) and rendering
   it gives exactly the bytes of the single-thread loop.  mq_file_order W (strictly increasing
   indices, which parse_queries_file guarantees: C15_parse_file_order) implies NoDup of the indices. *)
Theorem C15_sorted_output : forall (R : Type) (answer : mq_query -> R) rcmp rshow W results,
  mq_file_order W ->
  Permutation results (mq_expected answer W) ->
  mq_render rshow (mq_sort rcmp results) = mq_render_single answer rshow W.
Proof. exact sorted_output. Qed.
Print Assumptions C15_sorted_output.

(* The same for whatever sort_unstable does, as long as it returns a permutation whose neighbours
   are ordered by the tuple order: the sorting algorithm does not matter. *)
Theorem C15_any_correct_sort : forall (R : Type) (answer : mq_query -> R) rcmp rshow W results sorted,
  mq_file_order W ->
  Permutation results (mq_expected answer W) ->
  Permutation sorted results ->
  Sorted (fun a b => mq_tle rcmp a b = true) sorted ->
  mq_render rshow sorted = mq_render_single answer rshow W.
Proof. exact any_sort_output. Qed.
Print Assumptions C15_any_correct_sort.

(* Composition: whatever has been written in any reachable state, for every j (also j = 0, where
   nothing is ever written unless W is empty) and every schedule, is the single-thread output.
   An output with a missing, duplicated or misplaced line is never written, with or without
   panicking queries (with one, nothing is ever written: C15_output_only_without_panic). *)
Theorem C15_byte_identical : forall (R : Type) (answer : mq_query -> R) panics rcmp rshow drop_tx W j tr s out,
  mq_file_order W ->
  mq_run R answer panics rcmp rshow drop_tx (mq_init R W j) tr s ->
  mq_output s = Some out ->
  out = mq_render_single answer rshow W.
Proof. exact byte_identical. Qed.
Print Assumptions C15_byte_identical.

(* From the text of the query file: one work item per line of the file (empty lines included), and
   the output is the single-thread output of exactly these items. *)
Theorem C15_file_byte_identical : forall (R : Type) (answer : mq_query -> R) panics rcmp rshow drop_tx content W j tr s out,
  mq_parse_file content = Some W ->
  mq_run R answer panics rcmp rshow drop_tx (mq_init R W j) tr s ->
  mq_output s = Some out ->
  out = mq_render_single answer rshow W
  /\ List.length W = List.length (mq_file_lines content).
Proof. exact file_byte_identical. Qed.
Print Assumptions C15_file_byte_identical.

Theorem C15_parse_file_order : forall lines W, mq_parse_lines lines = Some W -> mq_file_order W.
Proof. exact mq_parse_lines_file_order. Qed.
Print Assumptions C15_parse_file_order.

(* The executable checker that validates the implementation's event logs is the step relation. *)
Theorem C15_valid_event_step : forall (R : Type) (answer : mq_query -> R) panics rcmp rshow drop_tx s e s',
  mq_valid_event R answer panics rcmp rshow drop_tx s e = Some s' <-> mq_step R answer panics rcmp rshow drop_tx s e s'.
Proof. exact valid_event_step. Qed.
Print Assumptions C15_valid_event_step.

Theorem C15_replay_run : forall (R : Type) (answer : mq_query -> R) panics rcmp rshow drop_tx tr s s',
  mq_replay R answer panics rcmp rshow drop_tx s tr = Some s' <-> mq_run R answer panics rcmp rshow drop_tx s tr s'.
Proof. exact replay_run. Qed.
Print Assumptions C15_replay_run.

(* Every run is finite: at most 3|W| + j + 2 atomic actions. *)
Theorem C15_bounded : forall (R : Type) (answer : mq_query -> R) panics rcmp rshow drop_tx W j tr s,
  mq_run R answer panics rcmp rshow drop_tx (mq_init R W j) tr s ->
  List.length tr <= 3 * List.length W + j + 2.
Proof. exact run_bounded. Qed.
Print Assumptions C15_bounded.

(* With at least one worker no reachable state is stuck before the function has returned ... *)
Theorem C15_no_deadlock : forall (R : Type) (answer : mq_query -> R) panics rcmp rshow drop_tx W j tr s,
  1 <= j ->
  no_panic panics W ->
  mq_run R answer panics rcmp rshow drop_tx (mq_init R W j) tr s ->
  (forall out, mq_main s <> PJoined out) ->
  exists e s', mq_step R answer panics rcmp rshow drop_tx s e s'.
Proof. exact progress. Qed.
Print Assumptions C15_no_deadlock.

(* ... hence terminated runs exist for every W and j >= 1 (the hypotheses of C15_byte_identical are
   satisfiable for every input), and they return the single-thread bytes. *)
Theorem C15_terminates : forall (R : Type) (answer : mq_query -> R) panics rcmp rshow drop_tx W j,
  1 <= j -> mq_file_order W -> no_panic panics W ->
  exists tr s, mq_run R answer panics rcmp rshow drop_tx (mq_init R W j) tr s
               /\ mq_main s = PJoined (mq_render_single answer rshow W).
Proof. exact terminates. Qed.
Print Assumptions C15_terminates.

(* Under no_panic the main thread never panics (so the repair changes no run without panics:
   "closed" and "join-dead" are never enabled). *)
Theorem C15_no_panic_never_panics : forall (R : Type) (answer : mq_query -> R) panics rcmp rshow drop_tx W j tr s,
  1 <= j ->
  no_panic panics W ->
  mq_run R answer panics rcmp rshow drop_tx (mq_init R W j) tr s ->
  forall o, mq_main s <> PPanicked o.
Proof. exact np_not_panicked. Qed.
Print Assumptions C15_no_panic_never_panics.

(* An output is written only if no query of the file makes the operation panic. *)
Theorem C15_output_only_without_panic : forall (R : Type) (answer : mq_query -> R) panics rcmp rshow drop_tx W j tr s out,
  mq_run R answer panics rcmp rshow drop_tx (mq_init R W j) tr s ->
  mq_output s = Some out ->
  no_panic panics W.
Proof. exact output_no_panic. Qed.
Print Assumptions C15_output_only_without_panic.

(* ---------- the repaired system (drop_tx = true) ---------- *)

(* Never blocked: EVERY state (reachable or not, any j including 0, any W, any panics) in which the
   main thread has neither returned nor panicked has an enabled action.  Nothing remains: the only
   states without an enabled action are final ones.  With C15_bounded: every run can be extended to
   a final state and every maximal run ends in one. *)
Theorem C15_no_block : forall (R : Type) (answer : mq_query -> R) panics rcmp rshow (s : mq_state R),
  mq_final s = false ->
  exists e s', mq_step R answer panics rcmp rshow true s e s'.
Proof. exact no_block_fixed. Qed.
Print Assumptions C15_no_block.

(* If the operation panics on some query of the file: in no reachable state anything has been
   written (in particular no output with a missing line), and every maximal run (a reachable state
   without enabled action) has ended in the main thread's panic in the recv loop, for every j
   (also 0) and every schedule. *)
Theorem C15_worker_panic_propagates : forall (R : Type) (answer : mq_query -> R) panics rcmp rshow W j tr s,
  some_panic panics W ->
  mq_run R answer panics rcmp rshow true (mq_init R W j) tr s ->
  mq_output s = None
  /\ ((forall e s', ~ mq_step R answer panics rcmp rshow true s e s') -> mq_main s = PPanicked None).
Proof. exact worker_panic_propagates_fixed. Qed.
Print Assumptions C15_worker_panic_propagates.

(* ... and from every reachable state such an end can be reached (maximal runs exist). *)
Theorem C15_worker_panic_reaches_panic : forall (R : Type) (answer : mq_query -> R) panics rcmp rshow W j tr s,
  some_panic panics W ->
  mq_run R answer panics rcmp rshow true (mq_init R W j) tr s ->
  exists tr' s', mq_run R answer panics rcmp rshow true s tr' s' /\ mq_main s' = PPanicked None.
Proof. exact worker_panic_reaches_panic_fixed. Qed.
Print Assumptions C15_worker_panic_reaches_panic.

(* The outcome of every maximal run of the repaired function with j >= 1 workers is that of the
   single-thread loop (C15_single_no_panic, C15_single_some_panic): all lines written and Ok(()), or
   a panic; the multi-thread run panics before anything is written, the single-thread loop after the
   lines that precede the first panicking query. *)
Theorem C15_outcome : forall (R : Type) (answer : mq_query -> R) panics rcmp rshow W j tr s,
  1 <= j ->
  mq_file_order W ->
  mq_run R answer panics rcmp rshow true (mq_init R W j) tr s ->
  (forall e s', ~ mq_step R answer panics rcmp rshow true s e s') ->
  (no_panic panics W /\ mq_main s = PJoined (mq_render_single answer rshow W))
  \/ (some_panic panics W /\ mq_main s = PPanicked None).
Proof. exact outcome_fixed. Qed.
Print Assumptions C15_outcome.

(* ---------- the single-thread loop ---------- *)

(* Under no_panic it writes mq_render_single and returns. *)
Theorem C15_single_no_panic : forall (R : Type) (answer : mq_query -> R) panics rshow W,
  no_panic panics W ->
  mq_single R answer panics rshow W = (mq_render_single answer rshow W, false).
Proof. exact single_no_panic. Qed.
Print Assumptions C15_single_no_panic.

(* With a panicking query it panics. *)
Theorem C15_single_some_panic : forall (R : Type) (answer : mq_query -> R) panics rshow W,
  some_panic panics W ->
  snd (mq_single R answer panics rshow W) = true.
Proof. exact single_some_panic. Qed.
Print Assumptions C15_single_some_panic.

(* v0 (drop_tx = false, the code BEFORE repair F10) REFUTED outside no_panic: if the operation panics
   on one query (e.g. the literal -2147483648 in a build with overflow checks, finding K6 of C13),
   the single-thread loop panics after the lines before it, but with j workers the worker dies, its
   result never arrives, every other worker leaves its loop, and the main thread is blocked in
   recv() for ever (it keeps its own Sender, so the "All workers died unexpectedly" branch is
   unreachable): a reachable state with no enabled action in which nothing has been written.
   Reproduced on /repo before the repair: file "1\n-2147483648\n2", debug build, count-queries or
   sat, j = 2 does not return.  C15_no_block is the opposite statement for the repaired system;
   ex_worker_panic_fixed below replays the same schedule there. *)
Theorem C15_worker_panic_blocks_refuted :
  exists s,
    mq_run string ref_answer ref_panics ref_rcmp ref_show false (mq_init string ref_W 2) ref_trace s
    /\ mq_main s = PCollect 1
    /\ (forall e, mq_valid_event string ref_answer ref_panics ref_rcmp ref_show false s e = None)
    /\ mq_single string ref_answer ref_panics ref_show ref_W = (("1,7" ++ mq_nl)%string, true).
Proof. exact worker_panic_blocks. Qed.
Print Assumptions C15_worker_panic_blocks_refuted.

(* ---------- non-vacuity ---------- *)
Open Scope string_scope.

(* a toy answer (number of literals), an adversarial comparison on results *)
Definition ex_answer (q : mq_query) : string := mq_zshow (Z.of_nat (List.length q)).
Definition ex_rcmp (_ _ : string) : comparison := Gt.
Definition ex_nopanic (_ : mq_query) : bool := false.
Example ex_no_panic : forall W, no_panic ex_nopanic W.
Proof. intros W it _. reflexivity. Qed.
Definition ex_show (s : string) : string := s.
(* five lines: a query, an empty line, the same query again, a long one, "+3" *)
Definition ex_file : string :=
  "1 -2" ++ mq_nl ++ mq_nl ++ "1 -2" ++ mq_nl ++ "5 6 7 -8 9" ++ mq_nl ++ "+3".
Definition ex_W : list mq_item :=
  [(0, [1; -2]%Z); (1, []); (2, [1; -2]%Z); (3, [5; 6; 7; -8; 9]%Z); (4, [3]%Z)]%nat.
Example ex_parse : mq_parse_file ex_file = Some ex_W.
Proof. vm_compute. reflexivity. Qed.
Example ex_file_order : mq_file_order ex_W.
Proof. exact (mq_parse_lines_file_order _ _ ex_parse). Qed.

(* two workers; results arrive in the order 1,0,3,2,4 *)
Definition ex_trace : list mq_event :=
  [EPull 0 0; EPull 1 1; ESend 1 1; EPull 1 2; ERecv 1; ESend 0 0; EPull 0 3; ESend 0 3; ERecv 0;
   ERecv 3; ESend 1 2; EPull 1 4; EPullNone 0; ERecv 2; ESend 1 4; ERecv 4; EWrite; EPullNone 1; EJoin]%nat.
Example ex_run_out_of_order :
  exists s, mq_run string ex_answer ex_nopanic ex_rcmp ex_show true (mq_init string ex_W 2) ex_trace s
            /\ map mq_idx (mq_results s) = [1; 0; 3; 2; 4]%nat
            /\ mq_main s = PJoined (mq_render_single ex_answer ex_show ex_W)
            /\ mq_render_single ex_answer ex_show ex_W
               = "1 -2,2" ++ mq_nl ++ ",0" ++ mq_nl ++ "1 -2,2" ++ mq_nl ++ "5 6 7 -8 9,5" ++ mq_nl ++ "3,1" ++ mq_nl.
Proof.
  destruct (mq_replay string ex_answer ex_nopanic ex_rcmp ex_show true (mq_init string ex_W 2) ex_trace) as [s|] eqn:E;
    [|vm_compute in E; discriminate].
  exists s. split; [apply replay_run; exact E|].
  vm_compute in E. injection E as <-. vm_compute. repeat split.
Qed.

(* the hypotheses of C15_collect hold at a reachable state with PCollect 0 *)
Example ex_collect_hyp :
  exists tr s, mq_run string ex_answer ex_nopanic ex_rcmp ex_show true (mq_init string ex_W 2) tr s /\ mq_main s = PCollect 0.
Proof.
  exists (firstn 16 ex_trace).
  destruct (mq_replay string ex_answer ex_nopanic ex_rcmp ex_show true (mq_init string ex_W 2) (firstn 16 ex_trace)) as [s|] eqn:E;
    [|vm_compute in E; discriminate].
  exists s. split; [apply replay_run; exact E|]. vm_compute in E. injection E as <-. reflexivity.
Qed.

(* edge cases: the empty file (j = 3 workers: write, three pull-none, join), one worker, more
   workers than queries *)
Example ex_empty_file :
  mq_parse_file "" = Some []
  /\ exists s, mq_run string ex_answer ex_nopanic ex_rcmp ex_show true (mq_init string [] 3)
                 [EWrite; EPullNone 2; EPullNone 0; EPullNone 1; EJoin]%nat s
               /\ mq_main s = PJoined "".
Proof.
  split; [reflexivity|].
  eexists. split; [apply replay_run; vm_compute; reflexivity|reflexivity].
Qed.

Example ex_one_worker_and_many_workers :
  (exists tr s, mq_run string ex_answer ex_nopanic ex_rcmp ex_show true (mq_init string ex_W 1) tr s
                /\ mq_main s = PJoined (mq_render_single ex_answer ex_show ex_W))
  /\ (exists tr s, mq_run string ex_answer ex_nopanic ex_rcmp ex_show true (mq_init string ex_W 32) tr s
                /\ mq_main s = PJoined (mq_render_single ex_answer ex_show ex_W)).
Proof.
  split; apply terminates; try exact ex_file_order; try apply ex_no_panic; repeat constructor.
Qed.

(* the canonical completion (used by the correspondence) reaches the end from the initial state *)
Example ex_complete :
  mq_output (mq_complete string ex_answer ex_nopanic ex_rcmp ex_show true 100 (mq_init string ex_W 4))
  = Some (mq_render_single ex_answer ex_show ex_W).
Proof. vm_compute. reflexivity. Qed.

(* with j = 0 and a non-empty file v0 is stuck in the initial state (the Rust blocked in recv() for
   ever because the main thread kept its own Sender alive); the repaired code panics at once ("All
   workers died unexpectedly": there is no Sender at all); the CLI restricts --jobs to 1..=32 *)
Example ex_zero_workers_stuck_v0 : forall e,
  mq_valid_event string ex_answer ex_nopanic ex_rcmp ex_show false (mq_init string ex_W 0) e = None.
Proof. intros [w i|w|w i|i|w i| | | |w]; try reflexivity; destruct w; reflexivity. Qed.
Example ex_zero_workers_panics :
  exists s, mq_run string ex_answer ex_nopanic ex_rcmp ex_show true (mq_init string ex_W 0) [EClosed] s
            /\ mq_main s = PPanicked None.
Proof. eexists. split; [apply replay_run; vm_compute; reflexivity|reflexivity]. Qed.

(* the schedule of C15_worker_panic_blocks_refuted in the repaired system: the same state is
   reached; there the main-thread panic, and nothing else, is enabled *)
Example ex_worker_panic_fixed :
  exists s,
    mq_run string ref_answer ref_panics ref_rcmp ref_show true (mq_init string ref_W 2) ref_trace s
    /\ mq_main s = PCollect 1
    /\ (forall e s', mq_valid_event string ref_answer ref_panics ref_rcmp ref_show true s e = Some s' ->
                     e = EClosed /\ mq_main s' = PPanicked None)
    /\ exists s', mq_valid_event string ref_answer ref_panics ref_rcmp ref_show true s EClosed = Some s'.
Proof. exact worker_panic_fixed_example. Qed.

(* the hypotheses of C15_worker_panic_propagates / C15_outcome (second case) are satisfiable, and
   the canonical completion used by the correspondence ends in the panic, for j = 1, 2, 4 and 0 *)
Example ex_some_panic : some_panic ref_panics ref_W.
Proof. exists (1%nat, [-2147483648]%Z). split; [right; now left|reflexivity]. Qed.
Example ex_complete_panics :
  map (fun j => mq_main (mq_complete string ref_answer ref_panics ref_rcmp ref_show true 100 (mq_init string ref_W j)))
      [1; 2; 4; 0]%nat
  = [PPanicked None; PPanicked None; PPanicked None; PPanicked None].
Proof. vm_compute. reflexivity. Qed.
(* ... whereas v0 stops in the collect loop *)
Example ex_complete_blocks_v0 :
  mq_main (mq_complete string ref_answer ref_panics ref_rcmp ref_show false 100 (mq_init string ref_W 2))
  = PCollect 1.
Proof. vm_compute. reflexivity. Qed.

(* sorting by the query instead of the index would not give the file order (sensitivity of the
   statement: the order by index is what makes it true) *)
Example ex_sort_by_query_differs :
  let by_query (a b : nat * list Z * string) :=
      match mq_lcmp (snd (fst a)) (snd (fst b)) with Gt => false | _ => true end in
  mq_render ex_show (mq_sort_by by_query (mq_expected ex_answer ex_W))
  <> mq_render_single ex_answer ex_show ex_W.
Proof. vm_compute. discriminate. Qed.
