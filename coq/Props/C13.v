(* C13: the stream line handler (ddnnf/stream.rs handle_stream_msg), model: Model/StreamMsg.v.
   Property theorems only; proofs in Proofs/StreamMsg*.v, status in bin/propcfg/C13.py.

   V1 = the code with the repair F2 (tied to /repo by the correspondence), V0 = before it (refuted
   witnesses only).  dbg = overflow checks on (debug) / off (release).  A line is any Coq [string];
   the tie to the Rust holds for ASCII lines (non-ASCII is_alphabetic / is_whitespace are outside
   the model).  [X] = the plugged operations (atomic sets, t-wise, clause cache, file writers):
   [ext_total X] says they do not panic, [ext_keeps X C] that the plugged queries keep the scratch
   state Clean and that a refused update / undo changes nothing -- statements of their own
   properties (C08, C09, C12).  handle_stream_msg = exec . parse_request by definition
   (handle_factor): nothing is executed before the whole line is parsed. *)
From Coq Require Import List ZArith Bool String Ascii Lia.
From DD Require Import Model.Circuit Model.Query Model.Enumerate Model.StreamMsg
  Proofs.Semantics Proofs.CountsA Proofs.QueryDefs Proofs.C05Proof Proofs.StreamMsgDefs
  Proofs.StreamMsgParse Proofs.StreamMsgExec Proofs.StreamMsgOrder Proofs.StreamMsgRanges
  Proofs.StreamMsgMain Proofs.C13F18 Proofs.StreamMsgCursor.
Import ListNotations.
Open Scope Z_scope.

(* ------------------------------------------------------------------ never a panic, never a hang *)

(* The parsing half (whitespace split, duplicate check, total-features pre-pass, keyword loop with
   get_numbers / get_floats / split_clauses and all its index arithmetic) never reaches a partial
   operation and always terminates (running out of fuel is a panic outcome of the model): for
   EVERY line and state, in both profiles. *)
Theorem C13_parse_no_panic : forall CC (X : extops CC) C n dbg (st : sstate CC) line,
  wf_sstate C n st -> ext_total X ->
  forall site, parse_request X V1 dbg st line <> RPanic site.
Proof. exact @parse_no_panic. Qed.
Print Assumptions C13_parse_no_panic.

(* The whole handler, ONE line in ANY state.  The only partial operations the repair F2 leaves are
   the two inside Ddnnf::enumerate (`stop % rt`, `range.1 - range.0`); [enum_safe] is what makes
   them safe: the cursor of the request's assumption set does not exceed the count under these
   assumptions and the root's count is not hidden (the root is not a true node).  For every line
   that is not an accepted `enum` request the statement is unconditional.  C13_enum_guard_needed
   shows that in an ARBITRARY state the hypothesis cannot be dropped; since the repair F21 (finding
   K2) the states a session can reach all satisfy it: C13_cursor_invariant_* and
   C13_no_panic_session below. *)
Theorem C13_no_panic : forall CC (X : extops CC) C n dbg (st : sstate CC) line chs,
  wf_sstate C n st -> ext_total X ->
  (forall rq, parse_request X V1 dbg st line = ROk rq -> r_cmd rq = "enum"%string ->
     enum_safe (dd st) (cur st) (sc st) (p_params (r_args rq))) ->
  forall site, snd (handle_stream_msg X V1 dbg st line chs) <> SPanic site.
Proof. exact @handle_no_panic. Qed.
Print Assumptions C13_no_panic.

(* a state whose cursor (9) lies beyond the number of configurations (4): not reachable by a
   session since F21, see C13_stale_cursor_unreachable *)
Theorem C13_enum_guard_needed : exists (st : sstate unit) line,
  wf_sstate ex13 2 st /\ ext_total X13 /\
  ans V1 true st line = SPanic "enumerate_node: range.1 - range.0 underflows usize".
Proof. exact enum_guard_needed. Qed.
Print Assumptions C13_enum_guard_needed.

(* ------------------------------------------------------------------ the cursor invariant (F21) *)
(* [stream_inv st]: st is the state of a well-formed loaded model over at least one feature
   (exists C n, wf_sstate C n st /\ 0 < n) whose cursor map satisfies [cursor_ok C n]: for every
   assumption list A within 1..n with count(A) > 0, 0 <= cursor(enum_key A) < count(A), and the
   position fits a usize.  The cursor is a field of the loaded model since F21 (before: one map
   for the whole process, moved by every other model - finding K2), so the model's [cur] IS the
   map the implementation consults, and Ddnnf::swap empties it when clause-update / undo-update
   replace the nodes (exec: cur := []).
   0 < n is what is left of the second half of enum_safe (the root is not a true node,
   C06Page.root_not_true): a model without features - the lone true node - still divides by zero in
   `stop % rt`; it is outside the input space of the properties.
   [ext_wf X] (new): an ACCEPTED update / undo hands back a well-formed model over >= 1 feature
   with a Clean scratch state - the contract of the recompilation (C12), like ext_total/ext_keeps. *)

(* it holds for a freshly loaded model *)
Theorem C13_cursor_invariant_init : forall CC C n (st : sstate CC),
  wf_sstate C n st -> (0 < n)%nat -> cur st = [] -> stream_inv st.
Proof. exact @stream_inv_init. Qed.
Print Assumptions C13_cursor_invariant_init.

(* EVERY line preserves it: rejected lines and non-mutating requests leave model and cursor alone,
   `enum` writes stop mod count(A) < count(A), an accepted clause-update / undo-update replaces
   the model and empties the cursor, a refused one changes nothing *)
Theorem C13_cursor_invariant_step : forall CC (X : extops CC) dbg (st : sstate CC) line chs,
  stream_inv st -> ext_total X -> (forall C, ext_keeps X C) -> ext_wf X ->
  stream_inv (fst (handle_stream_msg X V1 dbg st line chs)).
Proof. exact @stream_inv_step. Qed.
Print Assumptions C13_cursor_invariant_step.

(* and it implies the hypothesis of C13_no_panic, for whatever request the line parses to *)
Theorem C13_cursor_invariant_enum_safe : forall CC (X : extops CC) dbg (st : sstate CC) line,
  stream_inv st -> ext_total X ->
  forall rq, parse_request X V1 dbg st line = ROk rq -> r_cmd rq = "enum"%string ->
    enum_safe (dd st) (cur st) (sc st) (p_params (r_args rq)).
Proof. exact @stream_inv_enum_safe. Qed.
Print Assumptions C13_cursor_invariant_enum_safe.

(* one line in a state satisfying the invariant: no panic, `enum` lines included *)
Theorem C13_no_panic_inv : forall CC (X : extops CC) dbg (st : sstate CC) line chs,
  stream_inv st -> ext_total X ->
  forall site, snd (handle_stream_msg X V1 dbg st line chs) <> SPanic site.
Proof. exact @handle_no_panic_inv. Qed.
Print Assumptions C13_no_panic_inv.

(* UNCONDITIONAL for sessions: whatever lines one instance is fed one after another, starting
   from a state with the invariant (e.g. freshly loaded), none of them is answered by a panic *)
Theorem C13_no_panic_session : forall CC (X : extops CC) dbg (ls : list (string * list choice)) (st : sstate CC),
  stream_inv st -> ext_total X -> (forall C, ext_keeps X C) -> ext_wf X ->
  forall o, In o (session X dbg st ls) -> forall site, o <> SPanic site.
Proof. exact @session_no_panic. Qed.
Print Assumptions C13_no_panic_session.

(* The state the code BEFORE F21 reached by `enum l 3` on four configurations followed by a
   clause-update to one configuration (new model, old cursor 3): wf_sstate holds, `enum` panics,
   and the state violates the invariant - with F21 no session reaches it. *)
Theorem C13_stale_cursor_unreachable :
  wf_sstate ex13s 2 st13_stale /\ cur st13_stale = [([], 3)] /\
  snd (handle_stream_msg X13u V1 true st13_stale "enum" []) =
    SPanic "enumerate_node: range.1 - range.0 underflows usize" /\
  ~ stream_inv st13_stale.
Proof. exact stale_cursor_panics. Qed.
Print Assumptions C13_stale_cursor_unreachable.

(* non-vacuity: an instance of the plugged operations that ACCEPTS updates satisfies the three
   hypotheses, its start state has the invariant, and the session enum l 3 / clause-update (4 -> 1
   configurations) / enum / enum / undo-update / enum l 2 / enum l 3 is answered without a panic,
   in both profiles alike: evaluated *)
Example ex_c13_invariant_hyps :
  stream_inv st13c /\ ext_total X13u /\ (forall C, ext_keeps X13u C) /\ ext_wf X13u /\
  ext_wf X13 /\
  session X13u true st13c shrink_session =
  [SOk "1 2;-1 2;1 -2"; SOk ""; SOk "1 2"; SOk "1 2"; SOk ""; SOk "1 2;-1 2"; SOk "1 -2;-1 -2"]%string.
Proof.
  split; [exact st13c_inv|]. split; [exact X13u_total|]. split; [exact X13u_keeps|].
  split; [exact X13u_wf|]. split; [apply ext_nnf_wf|]. exact (proj1 shrink_session_evaluated).
Qed.

(* the repaired parser does not depend on the build profile *)
Theorem C13_profile_irrelevant : forall n conf args, tf_ok n ->
  parse_args V1 true n conf args = parse_args V1 false n conf args.
Proof. exact parse_args_v1_dbg_irrelevant. Qed.
Print Assumptions C13_profile_irrelevant.

(* ------------------------------------------------------------------ refuted on the unrepaired code *)
(* `clause-update t 5` on a model loaded from an nnf file *)
Theorem C13_refuted_total_features : exists (st : sstate unit) line,
  wf_sstate ex13 2 st /\ ext_total X13 /\
  forall dbg, ans V0 dbg st line = SPanic "cached_state.as_mut().unwrap()".
Proof. exact refuted_total_features. Qed.
Print Assumptions C13_refuted_total_features.

(* `clause-update t 0 add 1`: numbers[0] on an empty vector *)
Theorem C13_refuted_total_features_index : exists (st : sstate unit) line,
  wf_sstate ex13 2 st /\ forall dbg, ans V0 dbg st line = SPanic "numbers[0]".
Proof. exact refuted_total_features_index. Qed.
Print Assumptions C13_refuted_total_features_index.

(* `count a -2147483648`: panic (debug) / answered as if unconstrained (release) *)
Theorem C13_refuted_i32_min : exists (st : sstate unit) line,
  wf_sstate ex13 2 st /\
  ans V0 true st line = SPanic "check_boundary: i32::abs overflows" /\
  ans V0 false st line = SOk "4" /\ ans V0 false st "count" = SOk "4" /\
  ans V1 true st line = ans V1 false st line /\
  ans V1 true st line = SErr E3 "E3 error: not all parameters are within the boundary of -2 to 2".
Proof. exact refuted_i32_min. Qed.
Print Assumptions C13_refuted_i32_min.

(* `count a 3 v 1` vs `count v 1 a 3` on two features: out-of-range literal accepted, answer
   depends on the parameter order *)
Theorem C13_refuted_boundary_gap : exists (st : sstate unit) l1 l2,
  wf_sstate ex13 2 st /\
  (forall dbg, ans V0 dbg st l1 = SOk "2") /\
  (forall dbg, ans V0 dbg st l2 = SErr E3 "E3 error: not all parameters are within the boundary of -2 to 2") /\
  (forall dbg, ans V1 dbg st l1 = ans V1 dbg st l2).
Proof. exact refuted_boundary_gap. Qed.
Print Assumptions C13_refuted_boundary_gap.

(* `enum l 1` then `enum l 18446744073709551615` *)
Theorem C13_refuted_cursor_overflow : exists (st : sstate unit) l1 l2,
  wf_sstate ex13 2 st /\
  ans V0 true (after V0 true st l1) l2 = SPanic "enumerate: last_stop + amount overflows usize" /\
  ans V0 false (after V0 false st l1) l2 = SOk "" /\
  (forall dbg, ans V1 dbg (after V1 dbg st l1) l2 = SOk "-1 2;1 -2;-1 -2").
Proof. exact refuted_cursor_overflow. Qed.
Print Assumptions C13_refuted_cursor_overflow.

(* ------------------------------------------------------------------ errors carry their code *)
(* both versions, both profiles, every state and line *)
Theorem C13_error_codes : forall CC (X : extops CC) ver dbg (st : sstate CC) line chs c t,
  snd (handle_stream_msg X ver dbg st line chs) = SErr c t ->
  In c [E1; E2; E3; E4; E5; E6] /\ prefix (code_str c ++ " ") t = true.
Proof. exact handle_error_codes. Qed.
Print Assumptions C13_error_codes.

(* ------------------------------------------------------------------ a rejected line changes nothing *)
(* "unchanged" = [same_model C st st']: the model (node vector, counts, core), the enumeration
   cursor and the clause cache are EQUAL, and the scratch state is Clean again (markers false, md
   empty).  temps / partial derivatives may differ; no answer depends on them (the C02/C03/C05
   theorems are stated for every Clean state).  A line that is rejected while parsing leaves the
   state literally equal; so does a panic.  The same holds for every accepted request other than
   enum / clause-update / undo-update, and enum only moves the cursor. *)
Theorem C13_reject_unchanged : forall CC (X : extops CC) C n dbg (st : sstate CC) line chs,
  wf_sstate C n st -> ext_total X -> ext_keeps X C ->
  let '(st', o) := handle_stream_msg X V1 dbg st line chs in
  (forall c t, o = SErr c t -> same_model C st st') /\
  ((forall rq, parse_request X V1 dbg st line <> ROk rq) -> st' = st) /\
  (forall rq, parse_request X V1 dbg st line = ROk rq -> mutating (r_cmd rq) = false -> same_model C st st') /\
  (forall rq, parse_request X V1 dbg st line = ROk rq -> r_cmd rq = "enum"%string ->
     dd st' = dd st /\ cache st' = cache st /\ Clean C (sc st')).
Proof. exact @handle_state. Qed.
Print Assumptions C13_reject_unchanged.

(* ------------------------------------------------------------------ the documented result *)
(* count: one field per variable, joined by ';', each the TRUTH-TABLE count under the assumptions
   plus that variable (via C02); without variables the count under the assumptions *)
Theorem C13_result_count : forall CC (X : extops CC) C n dbg (st : sstate CC) line chs rq,
  wf_sstate C n st -> ext_total X ->
  parse_request X V1 dbg st line = ROk rq -> r_cmd rq = "count"%string ->
  exists s', handle_stream_msg X V1 dbg st line chs =
             (keep st s', SOk (count_answer C n (p_params (r_args rq)) (p_values (r_args rq)))) /\
             Clean C s'.
Proof. exact @handle_count. Qed.
Print Assumptions C13_result_count.

(* sat: "true"/"false" per variable, satisfiability by truth table (via C03) *)
Theorem C13_result_sat : forall CC (X : extops CC) C n dbg (st : sstate CC) line chs rq,
  wf_sstate C n st -> ext_total X -> 0 < root_count C ->
  parse_request X V1 dbg st line = ROk rq -> r_cmd rq = "sat"%string ->
  handle_stream_msg X V1 dbg st line chs =
  (keep st (sc st), SOk (sat_answer C n (p_params (r_args rq)) (p_values (r_args rq)))).
Proof. exact @handle_sat. Qed.
Print Assumptions C13_result_sat.

(* core: without variables the ascending list of the literals fixed in all models containing the
   assumptions (via C05; the cached core when there are no assumptions - since the repair F22 it
   is exact on every model with a model count > 0, dead branches or not: C05_core_exact); with variables
   the candidates whose addition does not change the count, the others are left out *)
Theorem C13_result_core : forall CC (X : extops CC) C n dbg (st : sstate CC) line chs rq,
  wf_sstate C n st -> ext_total X ->
  parse_request X V1 dbg st line = ROk rq -> r_cmd rq = "core"%string ->
  exists s', handle_stream_msg X V1 dbg st line chs =
             (keep st s', SOk (core_answer C n (p_params (r_args rq)) (p_values (r_args rq)))) /\
             Clean C s'.
Proof. exact @handle_core. Qed.
Print Assumptions C13_result_core.

(* enum: the rendering (configurations joined by ';', literals by ' ') of the library's
   enumerate with the cursor, amount = the limit, by default min(#models, 1000); saturated only
   when cursor + limit exceeds usize.  The cursor is the one of the SET of assumed literals
   (enum_key = sorted by feature, repeated literals removed: repair F19 of finding K12; C06_key_is_set) *)
Theorem C13_result_enum : forall CC (X : extops CC) C n dbg (st : sstate CC) line chs rq,
  wf_sstate C n st -> ext_total X ->
  parse_request X V1 dbg st line = ROk rq -> r_cmd rq = "enum"%string ->
  enum_safe (dd st) (cur st) (sc st) (p_params (r_args rq)) ->
  exists am,
    (cur_get (cur st) (enum_key (p_params (r_args rq))) + enum_limit (dd st) (r_args rq) <= u64_max ->
     am = enum_limit (dd st) (r_args rq)) /\
    handle_stream_msg X V1 dbg st line chs =
    (let '(s', c', r) := enumerate (dd st) (p_params (r_args rq)) am (cur st) (sc st) in
     ({| dd := dd st; sc := s'; cur := c'; cache := cache st |},
      match r with Some cfgs => SOk (format_vec_vec cfgs) | None => SErr E5 unsat_text end)).
Proof. exact @handle_enum. Qed.
Print Assumptions C13_result_enum.

(* random: the rendering of uniform_random_sampling for the recorded choice stream, limit 1 and
   seed 42 by default (the seed only determines the choice stream) *)
Theorem C13_result_random : forall CC (X : extops CC) ver dbg (st : sstate CC) line chs rq,
  parse_request X ver dbg st line = ROk rq -> r_cmd rq = "random"%string ->
  handle_stream_msg X ver dbg st line chs =
  (let l := match p_limit (r_args rq) with Some l => l | None => 1 end in
   let '(s', r, _) := uniform_random_sampling (dd st) (p_params (r_args rq)) l chs (sc st) in
   (keep st s', match r with Some cfgs => SOk (format_vec_vec cfgs) | None => SErr E5 unsat_text end)).
Proof. exact @handle_random. Qed.
Print Assumptions C13_result_random.

(* ------------------------------------------------------------------ ranges *)
(* `a..b` written with decimal integers: the inclusive list a, a+1, .., b without 0, provided it
   is not empty and lies within -n..n *)
Theorem C13_ranges_closed : forall dbg n a b, tf_ok n -> - n <= a -> b <= n ->
  filter nonzero (zrange a b) <> [] ->
  get_numbers V1 dbg [(zstr a ++ ".." ++ zstr b)%string] n = ROk (filter nonzero (zrange a b), 1%nat).
Proof. exact ranges_closed. Qed.
Print Assumptions C13_ranges_closed.

(* `a..`: up to the number of features *)
Theorem C13_ranges_open : forall dbg n a, tf_ok n -> - n <= a ->
  filter nonzero (zrange a n) <> [] ->
  get_numbers V1 dbg [(zstr a ++ "..")%string] n = ROk (filter nonzero (zrange a n), 1%nat).
Proof. exact ranges_open. Qed.
Print Assumptions C13_ranges_open.

Theorem C13_range_members : forall a b z,
  In z (filter nonzero (zrange a b)) <-> a <= z <= b /\ z <> 0.
Proof. exact range_members. Qed.
Print Assumptions C13_range_members.

Theorem C13_range_ascending : forall a b, Sorted.StronglySorted Z.lt (zrange a b).
Proof. exact zrange_sorted. Qed.
Print Assumptions C13_range_ascending.

(* F18 (/repo 2026f7b, repair of finding K6): the code no longer expands a limited range a..b,
   a <= b, with an end point outside the boundary; it pushes a and b only.  [get_numbers_f18]
   (Proofs/C13F18.v) is that code: the V1 definitions with this one case changed.  The model above
   still expands -- and that is the same function: for EVERY token list, every boundary (a u32 in
   the Rust: 0 <= b <= 4294967295; only 0 <= b is needed) and both profiles the two return the
   same Ok value, the same error code and text, the same panic.  So all theorems about
   [get_numbers V1] hold for the repaired code; the time and memory F18 saves are not modelled. *)
Theorem C13_f18_same_result : forall dbg ps b, 0 <= b ->
  get_numbers_f18 dbg ps b = get_numbers V1 dbg ps b.
Proof. exact f18_same_result. Qed.
Print Assumptions C13_f18_same_result.

(* what the prefix parsers of the Rust accept beyond that (trailing garbage is ignored, an
   alternative whose i32 conversion overflows falls through to the next one) is part of the
   model: see the Examples below *)

(* ------------------------------------------------------------------ parameter order *)
(* two well-formed keyword groups of different kinds (a|assumptions, v|variables, seed|s, limit|l,
   path|p with their values, each value list consumed completely) directly after the command, in
   either order, followed by anything that starts with a keyword-like token: the same outcome and
   the same successor state.  Hypotheses: the tokens contain no blank, no total-features, no word
   twice (otherwise both lines are rejected, possibly naming different words). *)
Theorem C13_param_order : forall CC (X : extops CC) dbg (st : sstate CC) chs cmd c1 g1 c2 g2 r,
  let b := Z.of_nat (nv (dd st)) in
  c1 <> c2 -> group_ok dbg b c1 g1 -> group_ok dbg b c2 g2 -> stops r ->
  Forall tok_ok (cmd :: g1 ++ g2 ++ r) ->
  position is_t (cmd :: g1 ++ g2 ++ r) = None ->
  dup_scan (cmd :: g1 ++ g2 ++ r) [] = None ->
  handle_stream_msg X V1 dbg st (join " " (cmd :: g1 ++ g2 ++ r)) chs =
  handle_stream_msg X V1 dbg st (join " " (cmd :: g2 ++ g1 ++ r)) chs.
Proof. exact @handle_param_order. Qed.
Print Assumptions C13_param_order.

(* anywhere in the line: the keyword loop started on the remaining tokens with ANY accumulated
   request gives the same result for both orders (kw_loop_suffix ties the index form of the Rust
   loop to this suffix form) *)
Theorem C13_param_order_anywhere : forall dbg tf fuel c1 g1 c2 g2 r acc,
  c1 <> c2 -> group_ok dbg tf c1 g1 -> group_ok dbg tf c2 g2 -> stops r ->
  (length (g1 ++ g2 ++ r) < fuel)%nat ->
  kw_loop_s V1 dbg tf fuel (g1 ++ g2 ++ r) acc = kw_loop_s V1 dbg tf fuel (g2 ++ g1 ++ r) acc.
Proof. exact param_order_suffix. Qed.
Print Assumptions C13_param_order_anywhere.

Theorem C13_kw_loop_suffix : forall ver dbg tf fuel args i acc, (i <= length args)%nat ->
  kw_loop ver dbg tf fuel args i acc = kw_loop_s ver dbg tf fuel (skipn i args) acc.
Proof. exact kw_loop_suffix. Qed.
Print Assumptions C13_kw_loop_suffix.

(* ------------------------------------------------------------------ non-vacuity *)
Local Open Scope string_scope.

(* the hypotheses of C13_no_panic / C13_reject_unchanged hold for the two-free-features model, the
   nnf instance of the plugged operations, and enum requests from the fresh state and after a page *)
Example ex13_hyps : wf_sstate ex13 2 st13 /\ ext_total X13 /\ ext_keeps X13 ex13 /\
  enum_safe (dd st13) (cur st13) (sc st13) [] /\ 0 < root_count ex13.
Proof.
  split; [exact st13_wf|]. split; [apply ext_nnf_total|]. split; [apply ext_nnf_keeps|].
  split; [apply st13_enum_safe|vm_compute; reflexivity].
Qed.

(* answers of the repaired model on this state: results, the per-variable form, ranges, paging,
   and one line per error code *)
Example ex13_answers :
  map (ans V1 true st13)
      ["count"; "count a 1"; "count v 1 2 a -1"; "count a 1..2"; "count a -1.."; "sat v 1 -1 a 1";
       "core a 1"; "core v 1 2 a 1"; "enum l 2"; "exit";
       "revive"; "count a 2147483648"; "count a 3"; "count a"; ""; "count a 1 a 2";
       "clause-update t 5"; "undo-update"; "save-ddnnf"; "save-cnf p rel"]
  = [SOk "4"; SOk "2"; SOk "0;1"; SOk "1"; SOk "0"; SOk "true;false";
     SOk "1"; SOk "1"; SOk "1 2;-1 2"; SOk "exit";
     SErr E2 "E2 error: the operation ""revive"" is not supported";
     SErr E3 "E3 Parsing Error: Error { input: ""2147483648"", code: MapRes }";
     SErr E3 "E3 error: not all parameters are within the boundary of -2 to 2";
     SErr E4 "E4 error: option used but there was no value supplied";
     SErr E4 "E4 error: got an empty msg";
     SErr E4 "E4 error: ""a"" occurs at least twice in the stream msg";
     SErr E5 "E5 error: clauses corresponding to the d-DNNF aren't available; the input file must be a CNF";
     SErr E5 "E5 error: could not perform undo; there does not exist any cached state1";
     SErr E6 "E6 error: no file path was supplied";
     SErr E6 "E6 error: file path is not absolute, but has to be"].
Proof. vm_compute. reflexivity. Qed.

(* what the nom prefix parsers accept: trailing garbage is ignored ("1..2..3" = 1..2, "1.5" = 1,
   "1...2" = 1..), "3x" ends the number list (a letter), "--1" and ";" are parse errors, an i32
   overflow in the upper bound turns `a..b` into `a..`; zeros are dropped; an empty range gives E4 *)
Example ex13_prefix_parsing :
  map (fun t => get_numbers V1 true [t] 5)
      ["1..2..3"; "1.5"; "1...2"; "3..99999999999"; "-1..1"; "0"; "2..1"; "--1"; ";"]
  = [ROk ([1; 2], 1%nat); ROk ([1], 1%nat); ROk ([1; 2; 3; 4; 5], 1%nat); ROk ([3; 4; 5], 1%nat);
     ROk ([-1; 1], 1%nat);
     RErr E4 "E4 error: option used but there was no value supplied";
     RErr E4 "E4 error: option used but there was no value supplied";
     RErr E3 "E3 Parsing Error: Error { input: ""-1"", code: Digit }";
     RErr E3 "E3 Parsing Error: Error { input: "";"", code: Digit }"].
Proof. vm_compute. reflexivity. Qed.

(* the parameter-order hypotheses: `count a 1 -2 v 1..2 l 7` / `count v 1..2 a 1 -2 l 7` *)
Example ex13_param_order_hyps :
  group_ok true 2 GA ["a"; "1"; "-2"] /\ group_ok true 2 GV ["v"; "1..2"] /\ stops ["l"; "7"] /\
  Forall tok_ok ("count" :: ["a"; "1"; "-2"] ++ ["v"; "1..2"] ++ ["l"; "7"]) /\
  position is_t ("count" :: ["a"; "1"; "-2"] ++ ["v"; "1..2"] ++ ["l"; "7"]) = None /\
  dup_scan ("count" :: ["a"; "1"; "-2"] ++ ["v"; "1..2"] ++ ["l"; "7"]) [] = None /\
  ans V1 true st13 "count a 1 -2 v 1..2 l 7" = SOk "1;0" /\
  ans V1 true st13 "count v 1..2 a 1 -2 l 7" = SOk "1;0".
Proof.
  split; [split; [reflexivity|split; [repeat constructor|eexists; vm_compute; reflexivity]]|].
  split; [split; [reflexivity|split; [repeat constructor|eexists; vm_compute; reflexivity]]|].
  split; [reflexivity|]. split; [repeat constructor; discriminate|].
  repeat split; vm_compute; reflexivity.
Qed.

(* F18: `1..2147483647` on five features.  The repaired parser is evaluated (two numbers); the
   answer of the expanding model follows by C13_f18_same_result WITHOUT expanding 2^31 numbers.  A
   later malformed token still wins, a range inside the boundary is expanded as before. *)
Example ex13_f18 :
  parse_range_f18 5 "1..2147483647" = inl [1; 2147483647] /\
  get_numbers_f18 true ["1..2147483647"] 5 =
    RErr E3 "E3 error: not all parameters are within the boundary of -5 to 5" /\
  get_numbers V1 true ["1..2147483647"] 5 =
    RErr E3 "E3 error: not all parameters are within the boundary of -5 to 5" /\
  get_numbers V1 false ["-2147483648..3"; "2"; "x"] 5 =
    RErr E3 "E3 error: not all parameters are within the boundary of -5 to 5" /\
  get_numbers V1 true ["1..2147483647"; ";"] 5 =
    RErr E3 "E3 Parsing Error: Error { input: "";"", code: Digit }" /\
  get_numbers_f18 true ["-2..2"; "5..4"; "4"] 5 = ROk ([-2; -1; 1; 2; 4], 3%nat).
Proof.
  split; [vm_compute; reflexivity|]. split; [vm_compute; reflexivity|].
  split; [rewrite <- C13_f18_same_result by lia; vm_compute; reflexivity|].
  split; [rewrite <- C13_f18_same_result by lia; vm_compute; reflexivity|].
  split; [rewrite <- C13_f18_same_result by lia; vm_compute; reflexivity|].
  vm_compute; reflexivity.
Qed.
