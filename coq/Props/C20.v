(* C20: best configuration and top-k configurations under one objective value per feature.
   Property theorems only.  Model: Model/Optimal.v (values in Z; see its header for what that
   abstracts).  Truth-table side: Circuit.ModelsA / MCA.  `cval vals m` = sum of the values of the
   selected features of m; `canon_cfg n c` = the literals of c sorted by variable. *)
From Coq Require Import List ZArith Bool Lia Permutation.
From DD Require Import Model.Circuit Model.Optimal Proofs.PassLemmas Proofs.Enum Proofs.Semantics
  Proofs.DetCert Proofs.TopK Proofs.OptimalBridge Proofs.OptimalBest Proofs.OptimalOr
  Proofs.OptimalTuples Proofs.OptimalAnd Proofs.OptimalTopk Proofs.OptimalCheck Proofs.OptimalRefuted.
Import ListNotations.
Open Scope Z_scope.

(* calc_best_config: nothing exactly when no model contains the assumptions; otherwise a model
   containing the assumptions, reported with its value, and no such model is better.  [full] *)
Theorem C20_best : forall (vals : list Z) (C : circuit) (n : nat) (A : cfg),
  WF C n -> Forall (fun a => 1 <= Z.abs a <= Z.of_nat n) A ->
  let r := calc_best_config vals A C in
  (r = None <-> MCA C n A = 0) /\
  forall c v, r = Some (c, v) ->
    In (canon_cfg n c) (ModelsA C n A) /\ v = cval vals (canon_cfg n c) /\
    forall m, In m (ModelsA C n A) -> cval vals m <= v.
Proof. exact best_correct. Qed.
Print Assumptions C20_best.

(* calc_top_k_configs (repaired result bound, F6), for EVERY tie-breaking policy `pick` of the
   candidate heap and every 1 <= k <= usize::MAX: no panic; min(k, MCA) results; pairwise distinct
   models containing the assumptions, each reported with its value; values non-increasing; every
   model that is left out is no better than any returned one.  [full] *)
Theorem C20_topk : forall (pick : picker) (vals : list Z) (C : circuit) (n : nat) (A : cfg) (k : nat),
  WF C n -> Forall (fun a => 1 <= Z.abs a <= Z.of_nat n) A -> (1 <= k)%nat -> Z.of_nat k <= 2 ^ 64 - 1 ->
  exists R, calc_top_k_configs pick vals A k C = Done R
    /\ length R = Nat.min k (Z.to_nat (MCA C n A))
    /\ NoDup (map (fun r => canon_cfg n (fst r)) R)
    /\ (forall r, In r R -> In (canon_cfg n (fst r)) (ModelsA C n A)
                            /\ snd r = cval vals (canon_cfg n (fst r)))
    /\ (forall i j, (i <= j < length R)%nat -> snd (nth j R oc_empty) <= snd (nth i R oc_empty))
    /\ (forall m, In m (ModelsA C n A) -> ~ In m (map (fun r => canon_cfg n (fst r)) R) ->
                  forall r, In r R -> cval vals m <= snd r).
Proof. exact topk_correct. Qed.
Print Assumptions C20_topk.

(* The and-merge on its own: for sorted lists it returns the k best elements of their product,
   whatever candidate of maximal value the heap hands out (frontier invariant). *)
Theorem C20_merge_and : forall (umax : Z) (pick : picker) (k : nat) (Ls : list (list oc)),
  1 <= umax -> Z.of_nat k <= umax -> Forall (desc snd) Ls ->
  exists R, merge_and (bound_sat umax) pick k Ls = Done R /\ TopK snd k (ocprod (rev Ls)) R.
Proof. exact merge_and_correct. Qed.
Print Assumptions C20_merge_and.

Theorem C20_merge_or : forall (k : nat) (Ls : list (list oc)),
  Forall (desc snd) Ls -> exists R, merge_or k Ls = Done R /\ TopK snd k (concat Ls) R.
Proof. exact merge_or_correct. Qed.
Print Assumptions C20_merge_or.

(* The result checkers that the correspondence evaluates on every answer of the implementation
   (against the truth table ModelsA) decide exactly the specification ... *)
Theorem C20_is_best_iff : forall vals M r, is_best vals M r = true <-> BestSpec vals M r.
Proof. exact is_best_iff. Qed.
Print Assumptions C20_is_best_iff.

Theorem C20_is_topk_iff : forall vals k M R, is_topk vals k M R = true <-> TopkSpec vals k M R.
Proof. exact is_topk_iff. Qed.
Print Assumptions C20_is_topk_iff.

(* ... and accept what the model computes. *)
Theorem C20_topk_accepted : forall (pick : picker) (vals : list Z) (C : circuit) (n : nat) (A : cfg) (k : nat),
  WF C n -> Forall (fun a => 1 <= Z.abs a <= Z.of_nat n) A -> (1 <= k)%nat -> Z.of_nat k <= 2 ^ 64 - 1 ->
  exists R, calc_top_k_configs pick vals A k C = Done R
            /\ is_topk vals k (ModelsA C n A) (map (canon_oc n) R) = true.
Proof. exact topk_accepted. Qed.
Print Assumptions C20_topk_accepted.

(* ---------- the unrepaired result bound (usize product) is refuted ---------- *)

(* Word size 64, no scaling down: on 64 free features with k = 2 the model of the unrepaired code
   returns no configuration in the release profile (the product 2^64 wraps to 0) and panics in
   the debug profile, although 2^64 models exist; the repaired code returns 2.  [refuted] *)
Theorem C20_refuted_overflow :
  exists (C : circuit) (n : nat) (vals : list Z) (k : nat),
    WF C n /\ k = 2%nat /\ MCA C n [] = 2 ^ 64
    /\ calc_top_k_configs_v0_release pick_first vals [] k C = Done []
    /\ calc_top_k_configs_v0_debug pick_first vals [] k C = Panic
    /\ exists R, calc_top_k_configs pick_first vals [] k C = Done R /\ length R = 2%nat.
Proof. exact refuted_overflow. Qed.
Print Assumptions C20_refuted_overflow.

(* ---------- non-vacuity ---------- *)

(* (x1 or not x1) and (x2 or not x2), values 3 and -1 *)
Definition ex_free2 : circuit :=
  [Lit 1; Lit (-1); Or [0;1]%nat; Lit 2; Lit (-2); Or [3;4]%nat; And [2;5]%nat].

Example ex_free2_hyps :
  WF ex_free2 2 /\ Forall (fun a => 1 <= Z.abs a <= Z.of_nat 2) [-1] /\ MCA ex_free2 2 [-1] = 2.
Proof.
  split; [apply check_wf_sound; vm_compute; reflexivity|].
  split; [repeat constructor; cbn; lia|vm_compute; reflexivity].
Qed.

Example ex_free2_best :
  calc_best_config [3; -1] [] ex_free2 = Some ([-2; 1], 3)
  /\ calc_best_config [3; -1] [-1] ex_free2 = Some ([-2; -1], 0)
  /\ calc_best_config [3; -1] [1; -1] ex_free2 = None.
Proof. vm_compute. repeat split. Qed.

Example ex_free2_topk :
  calc_top_k_configs pick_first [3; -1] [] 3 ex_free2 = Done [([-2; 1], 3); ([2; 1], 2); ([-2; -1], 0)]
  /\ calc_top_k_configs pick_first [3; -1] [-1] 5 ex_free2 = Done [([-2; -1], 0); ([2; -1], -1)]
  /\ is_topk [3; -1] 3 (ModelsA ex_free2 2 [])
             (map (canon_oc 2) [([-2; 1], 3); ([2; 1], 2); ([-2; -1], 0)]) = true
  /\ is_topk [3; -1] 3 (ModelsA ex_free2 2 [])
             (map (canon_oc 2) [([-2; 1], 3); ([-2; -1], 0); ([2; -1], -1)]) = false.
Proof. vm_compute. repeat split. Qed.
