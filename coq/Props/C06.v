(* C06: property theorems (statements proved so far; see bin/propcfg/C06.py for the status). *)
From Coq Require Import List ZArith Bool Permutation.
From DD Require Import Model.Circuit Model.Query Model.Enumerate Proofs.Semantics Proofs.CountsA.
Import ListNotations.

(* The unbounded enumeration in the order enumerate_node produces it is exactly the model set:
   every model once, nothing else (all WF circuits). *)
Theorem C06_enum_is_model_set : forall C n, WF C n ->
  Permutation (map (canon_cfg n) (enum_root C)) (Models C n).
Proof. exact models_enum_perm. Qed.
Print Assumptions C06_enum_is_model_set.

(* Under assumptions A the configurations compatible with A are counted by countsA = MCA. *)
Theorem C06_compatible_count : forall C n A, WF C n -> in_range n A ->
  nth (root C) (countsA A C) 0 = MCA C n A.
Proof. exact countsA_MCA. Qed.
Print Assumptions C06_compatible_count.
