(* C06: property theorems (see bin/propcfg/C06.py for the status). *)
From Coq Require Import List ZArith Bool Lia Permutation.
From DD Require Import Model.Circuit Model.Query Model.Enumerate Proofs.Semantics Proofs.DetCert
     Proofs.CountsA Proofs.QueryDefs Proofs.Live
     Proofs.C06Prefix Proofs.C06Machine Proofs.C06Node Proofs.C06Sort Proofs.C06Page
     Proofs.C06Final.
Import ListNotations.
Open Scope Z_scope.

(* The unbounded enumeration in the order enumerate_node produces it is exactly the model set:
   every model once, nothing else (all WF circuits). *)
Theorem C06_enum_is_model_set : forall C n, WF C n ->
  Permutation (map (canon_cfg n) (enum_root C)) (Models C n).
Proof. exact models_enum_perm. Qed.
Print Assumptions C06_enum_is_model_set.

(* Under assumptions A the configurations compatible with A are counted by countsA = MCA. *)
Theorem C06_compatible_count : forall C n A, WF C n -> in_range n A ->
  nth (root C) (countsA A C) 0 = MCA C n A.
Proof. exact countsA_MCA. Qed.
Print Assumptions C06_compatible_count.

(* ---------------------------------------------------------------------------------------------
   Definitions used below (all in Proofs/C06*.v):
     EO A C i        = filter (okA A) (nth i (enums C) [])   full enumeration of node i under A
     EOr C A         = EO A C (root C)
     Reach C i       = i is the root or a child of a reachable node with a non-zero count (Proofs/Live.v)
     temps_ok A C ts = forall i < |C|, node i is not TrueN -> Reach C i ->
                       nth i ts 0 = nth i (countsA A C) 0
                       (inside a dead branch the temps may be stale since the core ignores dead
                        branches, F22: Proofs/ExecTemps.v; enumerate_node never gets there)
     or_no_true_child C : no Or node has a TrueN child
     enum_key A      = dedup (sort_abs A): the cursor key of an assumption list since the repair F19
                       (sorted by feature, repeated literals removed; Model/Enumerate.v)
     same_set A A'   = forall l, In l A <-> In l A'
     consistent A    = no two literals of A with the same feature but different signs
     req_ok A (A',k) = same_set A A' /\ 0 <= k     (a request for the same SET of literals)
     exec_spec C n A = forall clean s, preprocess (build C n) A s = Some s1 ->
                       execute_query (build C n) (enum_key A) s1 = (s2, r) ->
                       r = MCA C n A /\ (0 < r -> temps_ok (enum_key A) C (temps s2)) /\ Clean C s2
                       (the correctness of execute_query on the preprocessed scratch; HYPOTHESIS of
                        the page theorems, proved here only for A = [] : C06_exec_spec_nil)
   --------------------------------------------------------------------------------------------- *)

(* (1a) the mixed-radix prefix lemma on plain lists: truncating the factors the way the And loop
   does (min hi |T| while the running product is < hi, one element afterwards) does not change the
   first hi elements of the cartesian product (first list = fastest digit) *)
Theorem C06_mixed_radix_prefix : forall hi (Ts : list (list cfg)),
  (forall T, In T Ts -> T <> []) ->
  firstn (Z.to_nat hi) (prod (rev (trunc hi 1 Ts))) = firstn (Z.to_nat hi) (prod (rev Ts)).
Proof. exact mixed_radix_prefix. Qed.
Print Assumptions C06_mixed_radix_prefix.

(* (1b) core lemma: enumerate_node with range (lo, hi) is the slice [lo, hi) of the node's full
   enumeration under A, as lists (order included) *)
Theorem C06_enumerate_node_slice : forall (d : ddnnf) (A : cfg) (ts : list Z),
  idx_ok (circ d) = true -> temps_ok A (circ d) ts -> or_no_true_child (circ d) = true ->
  forall i, (i < length (circ d))%nat -> nth i (circ d) FalseN <> TrueN -> Reach (circ d) i ->
  forall fuel lo hi, (i < fuel)%nat -> 0 <= lo < hi ->
    hi <= Z.of_nat (length (EO A (circ d) i)) ->
    enumerate_node d ts fuel lo hi i = slice lo hi (EO A (circ d) i).
Proof. exact enumerate_node_slice. Qed.
Print Assumptions C06_enumerate_node_slice.

(* the hypothesis or_no_true_child cannot be dropped: an Or node with a (hidden) true child
   loses the empty configuration *)
Definition bad_or : circuit := [Lit 1; TrueN; Or [0;1]%nat].
Example C06_or_true_child_refuted :
  idx_ok bad_or = true /\ temps_ok [] bad_or [1;0;2] /\
  enumerate_node (build bad_or 1) [1;0;2] 3 0 2 2 <> slice 0 2 (EO [] bad_or 2).
Proof.
  split; [reflexivity|]. split; [|vm_compute; discriminate].
  intros i Hi Hnt _. do 3 (destruct i as [|i]; [try reflexivity; exfalso; now apply Hnt|]).
  cbn in Hi. lia.
Qed.

(* (2) one call of enumerate: the page is the next slice, sorted by feature; the cursor entry of
   the key of the assumption list (sorted by feature, repeated literals removed) moves to
   min c (p + amount) mod c; other entries are untouched *)
Theorem C06_enumerate_page : forall C n, WF C n -> (0 < n)%nat -> or_no_true_child C = true ->
  forall A amount cur s, in_range n A -> exec_spec C n A -> Clean C s -> 0 < amount ->
  let c := MCA C n A in
  let p := cur_get cur (enum_key A) in
  let stop := Z.min c (p + amount) in
  0 < c -> 0 <= p < c ->
  exists s2, Clean C s2 /\
    enumerate (build C n) A amount cur s =
    (s2, cur_set cur (enum_key A) (stop mod c), Some (map sort_abs (slice p stop (EOr C A)))).
Proof. exact enumerate_page. Qed.
Print Assumptions C06_enumerate_page.

Theorem C06_enumerate_page_cursor : forall C n, WF C n -> (0 < n)%nat -> or_no_true_child C = true ->
  forall A amount cur s s2 cur2 r, in_range n A -> exec_spec C n A -> Clean C s -> 0 < amount ->
  let c := MCA C n A in
  let p := cur_get cur (enum_key A) in
  0 < c -> 0 <= p < c ->
  enumerate (build C n) A amount cur s = (s2, cur2, r) ->
  cur_get cur2 (enum_key A) = Z.min c (p + amount) mod c /\
  (forall k, k <> enum_key A -> cur_get cur2 k = cur_get cur k).
Proof. exact enumerate_page_cursor. Qed.
Print Assumptions C06_enumerate_page_cursor.

Theorem C06_enumerate_zero : forall C n A cur s,
  enumerate (build C n) A 0 cur s = (s, cur, Some []).
Proof. exact enumerate_zero. Qed.
Print Assumptions C06_enumerate_zero.

(* None exactly when no model contains A or a literal is out of range (non-zero literals) *)
Theorem C06_enumerate_none_iff : forall C n, WF C n -> (0 < n)%nat ->
  forall A amount cur s,
  (forall l, In l A -> l <> 0) -> (in_range n A -> exec_spec C n A) -> Clean C s -> amount <> 0 ->
  (snd (enumerate (build C n) A amount cur s) = None <-> MCA C n A = 0 \/ out_of_range n A).
Proof. exact enumerate_none_iff. Qed.
Print Assumptions C06_enumerate_none_iff.

Theorem C06_enumerate_none_keeps_cursor : forall C n, WF C n -> (0 < n)%nat ->
  forall A amount cur s, in_range n A -> exec_spec C n A -> Clean C s -> amount <> 0 ->
  MCA C n A = 0 ->
  exists s2, Clean C s2 /\ enumerate (build C n) A amount cur s = (s2, cur, None).
Proof. exact enumerate_none_unsat. Qed.
Print Assumptions C06_enumerate_none_keeps_cursor.

Theorem C06_enumerate_out_of_range : forall C n A amount cur s,
  amount <> 0 -> out_of_range n A -> enumerate (build C n) A amount cur s = (s, cur, None).
Proof. exact enumerate_none_out. Qed.
Print Assumptions C06_enumerate_out_of_range.

(* the enumeration behind the pages is the set of models containing A, each once, and every
   returned (sorted) configuration is the truth-table row itself *)
Theorem C06_EOr_models : forall C n, WF C n -> forall A, in_range n A ->
  Permutation (map (canon_cfg n) (EOr C A)) (ModelsA C n A).
Proof. exact EOr_models. Qed.
Print Assumptions C06_EOr_models.

Theorem C06_sorted_is_canonical : forall C n, WF C n -> forall A,
  map sort_abs (EOr C A) = map (canon_cfg n) (EOr C A).
Proof. exact EOr_sort_canon. Qed.
Print Assumptions C06_sorted_is_canonical.

(* (4) *)
Theorem C06_sort_abs_canon : forall n c V, Good c V -> range_set n V -> sort_abs c = canon_cfg n c.
Proof. exact sort_abs_canon. Qed.
Print Assumptions C06_sort_abs_canon.

(* sorting does not depend on the order in which the literals are given *)
Theorem C06_sort_abs_perm_eq : forall l l',
  Permutation l l' -> NoDup (map Z.abs l) -> sort_abs l = sort_abs l'.
Proof. exact sort_abs_perm_eq. Qed.
Print Assumptions C06_sort_abs_perm_eq.

(* F19 (finding K12 of C17): THE CURSOR KEY IS THE SET OF LITERALS.  Two consistent assumption lists
   with the same literals -- in any order, any literal any number of times -- have the same key;
   the key has the literals of the list, sorted by feature, each once; without a repeated feature
   it is the sorted list (the key before F19). *)
Theorem C06_key_is_set : forall A A', consistent A -> same_set A A' -> enum_key A = enum_key A'.
Proof. exact enum_key_same_set. Qed.
Print Assumptions C06_key_is_set.

Theorem C06_key_shape : forall A,
  same_set (enum_key A) A /\ Sorted.StronglySorted (fun a b => Z.abs a <= Z.abs b) (enum_key A) /\
  (consistent A -> NoDup (map Z.abs (enum_key A))) /\
  (NoDup (map Z.abs A) -> enum_key A = sort_abs A).
Proof.
  intros A. split; [apply enum_key_In|]. split; [apply enum_key_sorted|].
  split; [apply enum_key_nodup_abs|apply enum_key_nodup].
Qed.
Print Assumptions C06_key_shape.

(* a list that some model contains is consistent (so the hypothesis above is implied by 0 < MCA) *)
Theorem C06_sat_consistent : forall C n A, 0 < MCA C n A -> consistent A.
Proof. exact sat_consistent. Qed.
Print Assumptions C06_sat_consistent.

(* (3) histories of requests for one assumption SET (req_ok: the literals in any order, any literal
   any number of times, from call to call: since F19 they all use one cursor).
   run_pages: the calls in sequence; spec_lens c p ks: page i has size min k_i (c - position);
   cyc c E [] p len: the len elements E[(p + j) mod c], j < len. *)
Theorem C06_pages_cyclic : forall C n A, WF C n -> (0 < n)%nat -> or_no_true_child C = true ->
  in_range n A -> (forall A', same_set A A' -> exec_spec C n A') ->
  forall reqs cur s, Clean C s -> Forall (req_ok A) reqs -> 0 < MCA C n A ->
  let p := cur_get cur (enum_key A) in
  0 <= p < MCA C n A ->
  exists rs cur' s',
    run_pages (build C n) reqs cur s = (rs, cur', s') /\
    pages_of rs = map sort_abs (cyc (MCA C n A) (EOr C A) [] p
                                    (spec_total (MCA C n A) p (map snd reqs))) /\
    map (fun r => match r with Some l => Z.of_nat (length l) | None => -1 end) rs
      = spec_lens (MCA C n A) p (map snd reqs) /\
    0 <= cur_get cur' (enum_key A) < MCA C n A.
Proof. exact pages_cyclic. Qed.
Print Assumptions C06_pages_cyclic.

Theorem C06_pages_within_cycle : forall C n A, WF C n -> (0 < n)%nat -> or_no_true_child C = true ->
  in_range n A -> (forall A', same_set A A' -> exec_spec C n A') ->
  forall reqs cur s, Clean C s -> Forall (req_ok A) reqs -> 0 < MCA C n A ->
  cur_get cur (enum_key A) = 0 -> zsum (map snd reqs) <= MCA C n A ->
  exists rs cur' s',
    run_pages (build C n) reqs cur s = (rs, cur', s') /\
    pages_of rs = map sort_abs (firstn (Z.to_nat (zsum (map snd reqs))) (EOr C A)) /\
    NoDup (pages_of rs) /\
    cur_get cur' (enum_key A) = zsum (map snd reqs) mod MCA C n A.
Proof. exact pages_within_cycle. Qed.
Print Assumptions C06_pages_within_cycle.

Theorem C06_pages_within_cycle_from : forall C n A, WF C n -> (0 < n)%nat ->
  or_no_true_child C = true ->
  in_range n A -> (forall A', same_set A A' -> exec_spec C n A') ->
  forall reqs cur s, Clean C s -> Forall (req_ok A) reqs -> 0 < MCA C n A ->
  let p := cur_get cur (enum_key A) in
  0 <= p < MCA C n A -> p + zsum (map snd reqs) <= MCA C n A ->
  exists rs cur' s',
    run_pages (build C n) reqs cur s = (rs, cur', s') /\
    pages_of rs = map sort_abs (slice p (p + zsum (map snd reqs)) (EOr C A)) /\
    NoDup (pages_of rs) /\
    cur_get cur' (enum_key A) = (p + zsum (map snd reqs)) mod MCA C n A.
Proof. exact pages_within_cycle_from. Qed.
Print Assumptions C06_pages_within_cycle_from.

Theorem C06_pages_cycle : forall C n A, WF C n -> (0 < n)%nat -> or_no_true_child C = true ->
  in_range n A -> (forall A', same_set A A' -> exec_spec C n A') ->
  forall reqs cur s, Clean C s -> Forall (req_ok A) reqs -> 0 < MCA C n A ->
  cur_get cur (enum_key A) = 0 -> zsum (map snd reqs) = MCA C n A ->
  exists rs cur' s',
    run_pages (build C n) reqs cur s = (rs, cur', s') /\
    pages_of rs = map sort_abs (EOr C A) /\
    Permutation (pages_of rs) (ModelsA C n A) /\
    NoDup (pages_of rs) /\
    cur_get cur' (enum_key A) = 0.
Proof. exact pages_cycle. Qed.
Print Assumptions C06_pages_cycle.

(* without assumptions nothing is left as a hypothesis *)
Theorem C06_exec_spec_nil : forall C n, WF C n -> exec_spec C n [].
Proof. exact exec_spec_nil. Qed.
Print Assumptions C06_exec_spec_nil.

Theorem C06_enumerate_page_nil : forall C n, WF C n -> (0 < n)%nat -> or_no_true_child C = true ->
  forall amount cur s, Clean C s -> 0 < amount ->
  let c := MCA C n [] in
  let p := cur_get cur [] in
  let stop := Z.min c (p + amount) in
  0 < c -> 0 <= p < c ->
  exists s2, Clean C s2 /\
    enumerate (build C n) [] amount cur s =
    (s2, cur_set cur [] (stop mod c), Some (map sort_abs (slice p stop (EOr C [])))).
Proof. exact enumerate_page_nil. Qed.
Print Assumptions C06_enumerate_page_nil.

Theorem C06_pages_cycle_nil : forall C n, WF C n -> (0 < n)%nat -> or_no_true_child C = true ->
  forall reqs cur s, Clean C s -> Forall (req_ok []) reqs -> 0 < MCA C n [] ->
  cur_get cur [] = 0 -> zsum (map snd reqs) = MCA C n [] ->
  exists rs cur' s',
    run_pages (build C n) reqs cur s = (rs, cur', s') /\
    Permutation (pages_of rs) (Models C n) /\ NoDup (pages_of rs) /\ cur_get cur' [] = 0.
Proof. exact pages_cycle_nil. Qed.
Print Assumptions C06_pages_cycle_nil.

(* the hypothesis 0 < n cannot be dropped: the circuit consisting of one true node (0 features)
   is WF and has one model, but its hidden root yields an empty page and rt = 0
   (the Rust evaluates `stop % rt` there) *)
Definition top : circuit := [TrueN].
Example C06_true_root_refuted :
  WF top 0 /\ MCA top 0 [] = 1 /\ EOr top [] = [[]] /\
  snd (enumerate (build top 0) [] 1 [] (fresh_scratch top)) = Some [] /\
  rt (build top 0) (fst (fst (enumerate (build top 0) [] 1 [] (fresh_scratch top)))) = 0.
Proof.
  split; [apply check_wf_sound; vm_compute; reflexivity|].
  repeat (split; [vm_compute; reflexivity|]). vm_compute; reflexivity.
Qed.

(* ---------- non-vacuity ---------- *)
(* Or root: x1 <-> x2 *)
Definition ex_iff : circuit :=
  [Lit 1; Lit (-1); Lit 2; Lit (-2); And [0;2]%nat; And [1;3]%nat; Or [4;5]%nat].
(* And root with a true child: three free features *)
Definition ex_and : circuit :=
  [Lit 1; Lit (-1); Or [0;1]%nat; TrueN; Lit 2; Lit (-2); Or [4;5]%nat;
   Lit 3; Lit (-3); Or [7;8]%nat; And [2;3;6;9]%nat].

Tactic Notation "concrete_exec" integer(k) :=
  let s := fresh "s" in let s1 := fresh "s1" in let s2 := fresh "s2" in let r := fresh "r" in
  let Hcl := fresh "Hcl" in let Hpre := fresh "Hpre" in let Hq := fresh "Hq" in
  intros s s1 s2 r Hcl Hpre Hq;
  let Hm := fresh "Hm" in let Hmd := fresh "Hmd" in
  destruct (clean_shape _ _ Hcl) as [Hm Hmd];
  pose proof (cl_pds _ _ Hcl) as Hpd;
  destruct s as [ts ms pd md]; cbn [marks mdl pds] in Hm, Hmd, Hpd; subst ms md;
  vm_compute in Hpre; inversion Hpre; subst s1; clear Hpre;
  vm_compute in Hq; inversion Hq; subst s2 r; clear Hq;
  split; [vm_compute; reflexivity|]; split;
  [ intros _ i Hi Hnt;
    do k (destruct i as [|i]; [try (vm_compute; reflexivity); exfalso; now apply Hnt|]);
    cbn in Hi; lia
  | constructor; cbn [temps marks pds mdl]; try reflexivity; [exact Hpd|repeat constructor] ].

Example ex_iff_hyps :
  WF ex_iff 2 /\ or_no_true_child ex_iff = true /\ in_range 2 [1] /\ consistent [1] /\
  exec_spec ex_iff 2 [1] /\
  Clean ex_iff (fresh_scratch ex_iff) /\ MCA ex_iff 2 [1] = 1 /\ MCA ex_iff 2 [] = 2.
Proof.
  split; [apply check_wf_sound; vm_compute; reflexivity|]. split; [reflexivity|].
  split; [intros l [<-|[]]; cbn; lia|]. split; [intros x y [<-|[]] [<-|[]] _; reflexivity|].
  split; [|split; [apply fresh_clean|split; vm_compute; reflexivity]].
  concrete_exec 7.
Qed.

Example ex_and_hyps :
  WF ex_and 3 /\ or_no_true_child ex_and = true /\ in_range 3 [-2] /\ consistent [-2] /\
  exec_spec ex_and 3 [-2] /\
  Clean ex_and (fresh_scratch ex_and) /\ MCA ex_and 3 [-2] = 4 /\ MCA ex_and 3 [] = 8.
Proof.
  split; [apply check_wf_sound; vm_compute; reflexivity|]. split; [reflexivity|].
  split; [intros l [<-|[]]; cbn; lia|]. split; [intros x y [<-|[]] [<-|[]] _; reflexivity|].
  split; [|split; [apply fresh_clean|split; vm_compute; reflexivity]].
  concrete_exec 11.
Qed.

(* the statements evaluated: a page in the middle of the cycle, the last page of a cycle (cursor
   back to 0), a request running over the end (truncated), a whole cycle in three requests *)
Example ex_and_pages :
  enumerate (build ex_and 3) [-2] 2 [([-2], 1)] (fresh_scratch ex_and)
    = (fst (fst (enumerate (build ex_and 3) [-2] 2 [([-2], 1)] (fresh_scratch ex_and))),
       [([-2], 3)], Some (map sort_abs (slice 1 3 (EOr ex_and [-2])))) /\
  snd (enumerate (build ex_and 3) [-2] 7 [([-2], 1)] (fresh_scratch ex_and))
    = Some (map sort_abs (slice 1 4 (EOr ex_and [-2]))) /\
  snd (fst (enumerate (build ex_and 3) [-2] 7 [([-2], 1)] (fresh_scratch ex_and))) = [([-2], 0)] /\
  EOr ex_and [-2] = [[3; -2; 1]; [3; -2; -1]; [-3; -2; 1]; [-3; -2; -1]] /\
  fst (fst (run_pages (build ex_and 3) [([], 3); ([], 3); ([], 2)] [] (fresh_scratch ex_and)))
    = [Some [[1; 2; 3]; [-1; 2; 3]; [1; -2; 3]];
       Some [[-1; -2; 3]; [1; 2; -3]; [-1; 2; -3]];
       Some [[1; -2; -3]; [-1; -2; -3]]].
Proof. repeat (split; [vm_compute; reflexivity|]). vm_compute; reflexivity. Qed.

Example ex_iff_pages :
  snd (enumerate (build ex_iff 2) [] 1 [([], 1)] (fresh_scratch ex_iff))
    = Some (map sort_abs (slice 1 2 (EOr ex_iff []))) /\
  snd (fst (enumerate (build ex_iff 2) [] 1 [([], 1)] (fresh_scratch ex_iff))) = [([], 0)] /\
  EOr ex_iff [] = [[2; 1]; [-2; -1]] /\
  snd (enumerate (build ex_iff 2) [1; -2] 1 [] (fresh_scratch ex_iff)) = None /\
  snd (enumerate (build ex_iff 2) [3] 1 [] (fresh_scratch ex_iff)) = None.
Proof. repeat (split; [vm_compute; reflexivity|]). vm_compute; reflexivity. Qed.

(* the hypothesis exec_spec evaluated (fresh scratch) on every partial assignment, and with every
   literal repeated 8 times (more than 20 literals: the default strategy instead of the marker
   strategy), for the two circuits above and a deeper one with a core literal and a true node *)
Definition ex_core : circuit :=
  [Lit 1; Lit 2; Lit (-2); Lit 3; Lit (-3); And [1;3]%nat; And [2;4]%nat; Or [5;6]%nat; TrueN;
   And [0;8;7]%nat].
Example exec_spec_evaluated :
  check_wf ex_core 3 = true /\ or_no_true_child ex_core = true /\
  forallb (exec_okb ex_iff 2) (partials [2;1]) = true /\
  forallb (exec_okb ex_and 3) (partials [3;1;2]) = true /\
  forallb (exec_okb ex_core 3) (partials [3;1;2]) = true /\
  forallb (exec_okb ex_core 3)
          (map (fun a => a ++ a ++ a ++ a ++ a ++ a ++ a ++ a) (partials [3;1;2])) = true.
Proof. repeat (split; [vm_compute; reflexivity|]). vm_compute; reflexivity. Qed.

(* ---------------------------------------------------------------------------------------------
   FINAL forms: the hypothesis exec_spec is a theorem (Proofs/ExecTemps.v, Proofs/C06Final.v) for
   every WFQ circuit (WF + unique leaves + all nodes reachable + non-zero literals; all established
   by check_wf: QueryDefs.check_wf_WFQ) and every in-range assumption list (any order, duplicates,
   contradictory literals, core and dead literals, any length / strategy). *)
Theorem C06_exec_spec_holds : forall C n A, WFQ C n -> in_range n A -> exec_spec C n A.
Proof. exact exec_spec_holds. Qed.
Print Assumptions C06_exec_spec_holds.

Theorem C06_enumerate_page_final : forall C n, WFQ C n -> (0 < n)%nat -> or_no_true_child C = true ->
  forall A amount cur s, in_range n A -> Clean C s -> 0 < amount ->
  let c := MCA C n A in
  let p := cur_get cur (enum_key A) in
  let stop := Z.min c (p + amount) in
  0 < c -> 0 <= p < c ->
  exists s2, Clean C s2 /\
    enumerate (build C n) A amount cur s =
    (s2, cur_set cur (enum_key A) (stop mod c), Some (map sort_abs (slice p stop (EOr C A)))).
Proof. exact enumerate_page_final. Qed.
Print Assumptions C06_enumerate_page_final.

Theorem C06_enumerate_page_cursor_final : forall C n, WFQ C n -> (0 < n)%nat ->
  or_no_true_child C = true ->
  forall A amount cur s s2 cur2 r, in_range n A -> Clean C s -> 0 < amount ->
  let c := MCA C n A in
  let p := cur_get cur (enum_key A) in
  0 < c -> 0 <= p < c ->
  enumerate (build C n) A amount cur s = (s2, cur2, r) ->
  cur_get cur2 (enum_key A) = Z.min c (p + amount) mod c /\
  (forall k, k <> enum_key A -> cur_get cur2 k = cur_get cur k).
Proof. exact enumerate_page_cursor_final. Qed.
Print Assumptions C06_enumerate_page_cursor_final.

(* F19: a request spelled A' (the literals of A in any order, any of them any number of times) uses
   the cursor entry of A and returns the page a request spelled A would have returned.  With
   C06_pages_*_final below (req_ok = same set): all spellings of one set page through ONE cycle. *)
Theorem C06_enumerate_same_set_final : forall C n, WFQ C n -> (0 < n)%nat -> or_no_true_child C = true ->
  forall A A' amount cur s, in_range n A -> same_set A A' -> Clean C s -> 0 < amount ->
  let c := MCA C n A in
  let p := cur_get cur (enum_key A) in
  let stop := Z.min c (p + amount) in
  0 < c -> 0 <= p < c ->
  enum_key A' = enum_key A /\
  exists s2, Clean C s2 /\
    enumerate (build C n) A' amount cur s =
    (s2, cur_set cur (enum_key A) (stop mod c), Some (map sort_abs (slice p stop (EOr C A)))).
Proof. exact enumerate_same_set_final. Qed.
Print Assumptions C06_enumerate_same_set_final.

(* before F19 (finding K12) the key was the sorted LIST: [enumerate_v0] (Proofs/C06Final.v) is that
   code; it is the same function on lists without a repeated feature; on a repeated literal it
   hands out the same configuration twice where the repaired code continues the cycle
   (ex_k12_evaluated below) *)
Theorem C06_enumerate_v0_nodup : forall d A amount cur s,
  NoDup (map Z.abs A) -> enumerate_v0 d A amount cur s = enumerate d A amount cur s.
Proof. exact enumerate_v0_nodup. Qed.
Print Assumptions C06_enumerate_v0_nodup.

Theorem C06_enumerate_none_iff_final : forall C n, WFQ C n -> (0 < n)%nat ->
  forall A amount cur s,
  (forall l, In l A -> l <> 0) -> Clean C s -> amount <> 0 ->
  (snd (enumerate (build C n) A amount cur s) = None <-> MCA C n A = 0 \/ out_of_range n A).
Proof. exact enumerate_none_iff_final. Qed.
Print Assumptions C06_enumerate_none_iff_final.

Theorem C06_enumerate_none_keeps_cursor_final : forall C n, WFQ C n -> (0 < n)%nat ->
  forall A amount cur s, in_range n A -> Clean C s -> amount <> 0 ->
  MCA C n A = 0 ->
  exists s2, Clean C s2 /\ enumerate (build C n) A amount cur s = (s2, cur, None).
Proof. exact enumerate_none_unsat_final. Qed.
Print Assumptions C06_enumerate_none_keeps_cursor_final.

Theorem C06_pages_cyclic_final : forall C n, WFQ C n -> (0 < n)%nat -> or_no_true_child C = true ->
  forall A, in_range n A ->
  forall reqs cur s, Clean C s -> Forall (req_ok A) reqs -> 0 < MCA C n A ->
  let p := cur_get cur (enum_key A) in
  0 <= p < MCA C n A ->
  exists rs cur' s',
    run_pages (build C n) reqs cur s = (rs, cur', s') /\
    pages_of rs = map sort_abs (cyc (MCA C n A) (EOr C A) [] p
                                    (spec_total (MCA C n A) p (map snd reqs))) /\
    map (fun r => match r with Some l => Z.of_nat (length l) | None => -1 end) rs
      = spec_lens (MCA C n A) p (map snd reqs) /\
    0 <= cur_get cur' (enum_key A) < MCA C n A.
Proof. exact pages_cyclic_final. Qed.
Print Assumptions C06_pages_cyclic_final.

Theorem C06_pages_within_cycle_final : forall C n, WFQ C n -> (0 < n)%nat ->
  or_no_true_child C = true ->
  forall A, in_range n A ->
  forall reqs cur s, Clean C s -> Forall (req_ok A) reqs -> 0 < MCA C n A ->
  cur_get cur (enum_key A) = 0 -> zsum (map snd reqs) <= MCA C n A ->
  exists rs cur' s',
    run_pages (build C n) reqs cur s = (rs, cur', s') /\
    pages_of rs = map sort_abs (firstn (Z.to_nat (zsum (map snd reqs))) (EOr C A)) /\
    NoDup (pages_of rs) /\
    cur_get cur' (enum_key A) = zsum (map snd reqs) mod MCA C n A.
Proof. exact pages_within_cycle_final. Qed.
Print Assumptions C06_pages_within_cycle_final.

Theorem C06_pages_within_cycle_from_final : forall C n, WFQ C n -> (0 < n)%nat ->
  or_no_true_child C = true ->
  forall A, in_range n A ->
  forall reqs cur s, Clean C s -> Forall (req_ok A) reqs -> 0 < MCA C n A ->
  let p := cur_get cur (enum_key A) in
  0 <= p < MCA C n A -> p + zsum (map snd reqs) <= MCA C n A ->
  exists rs cur' s',
    run_pages (build C n) reqs cur s = (rs, cur', s') /\
    pages_of rs = map sort_abs (slice p (p + zsum (map snd reqs)) (EOr C A)) /\
    NoDup (pages_of rs) /\
    cur_get cur' (enum_key A) = (p + zsum (map snd reqs)) mod MCA C n A.
Proof. exact pages_within_cycle_from_final. Qed.
Print Assumptions C06_pages_within_cycle_from_final.

Theorem C06_pages_cycle_final : forall C n, WFQ C n -> (0 < n)%nat -> or_no_true_child C = true ->
  forall A, in_range n A ->
  forall reqs cur s, Clean C s -> Forall (req_ok A) reqs -> 0 < MCA C n A ->
  cur_get cur (enum_key A) = 0 -> zsum (map snd reqs) = MCA C n A ->
  exists rs cur' s',
    run_pages (build C n) reqs cur s = (rs, cur', s') /\
    pages_of rs = map sort_abs (EOr C A) /\
    Permutation (pages_of rs) (ModelsA C n A) /\
    NoDup (pages_of rs) /\
    cur_get cur' (enum_key A) = 0.
Proof. exact pages_cycle_final. Qed.
Print Assumptions C06_pages_cycle_final.

(* non-vacuity of the final forms: the three example circuits are WFQ (check_wf), and the full
   cycle theorem applies to ex_core with the assumption [2] (a core literal 1 and a true node are
   in the circuit): two pages of one model each return ModelsA and the cursor to 0 *)
Example ex_final_hyps :
  WFQ ex_iff 2 /\ WFQ ex_and 3 /\ WFQ ex_core 3 /\ or_no_true_child ex_core = true /\
  in_range 3 [2] /\ same_set [2] [2; 2] /\ MCA ex_core 3 [2] = 1 /\ MCA ex_core 3 [3; 1] = 1 /\
  same_set [-3; 1] [1; -3; 1; -3] /\ in_range 3 [-3; 1] /\ MCA ex_and 3 [-3; 1] = 2.
Proof.
  split; [apply check_wf_WFQ; vm_compute; reflexivity|].
  split; [apply check_wf_WFQ; vm_compute; reflexivity|].
  split; [apply check_wf_WFQ; vm_compute; reflexivity|].
  split; [reflexivity|]. split; [intros l [<-|[]]; cbn; lia|].
  split; [intros l; cbn [In]; tauto|]. split; [vm_compute; reflexivity|].
  split; [vm_compute; reflexivity|]. split; [intros l; cbn [In]; tauto|].
  split; [intros l [<-|[<-|[]]]; cbn; lia|]. vm_compute; reflexivity.
Qed.

Example ex_final_applies :
  exists rs cur' s',
    run_pages (build ex_core 3) [([2], 1)] [] (fresh_scratch ex_core) = (rs, cur', s') /\
    pages_of rs = map sort_abs (EOr ex_core [2]) /\
    Permutation (pages_of rs) (ModelsA ex_core 3 [2]) /\
    NoDup (pages_of rs) /\ cur_get cur' (enum_key [2]) = 0.
Proof.
  destruct ex_final_hyps as (_ & _ & HQ & Hor & HA & _ & Hc & _).
  apply (C06_pages_cycle_final ex_core 3 HQ ltac:(lia) Hor [2] HA).
  - apply fresh_clean.
  - constructor; [|constructor]. split; [apply same_set_refl|cbn; lia].
  - rewrite Hc. lia.
  - reflexivity.
  - rewrite Hc. reflexivity.
Qed.

(* F19 applied: `enum a -3 1 l 1` then `enum a 1 -3 1 -3 l 1` on ex_and (two models contain -3 and 1):
   by C06_pages_cycle_final the two requests -- different spellings of one set -- return the two
   models, each once, and the cursor of the set is back at 0.  Evaluated: one cursor entry, keyed
   by the set; the code before F19 (finding K12) returns the same configuration twice and leaves
   two entries. *)
Example ex_k12_one_cycle :
  exists rs cur' s',
    run_pages (build ex_and 3) [([-3; 1], 1); ([1; -3; 1; -3], 1)] [] (fresh_scratch ex_and) = (rs, cur', s') /\
    pages_of rs = map sort_abs (EOr ex_and [-3; 1]) /\
    Permutation (pages_of rs) (ModelsA ex_and 3 [-3; 1]) /\
    NoDup (pages_of rs) /\ cur_get cur' (enum_key [-3; 1]) = 0.
Proof.
  destruct ex_final_hyps as (_ & HQ & _ & _ & _ & _ & _ & _ & HS & HA & Hc).
  apply (C06_pages_cycle_final ex_and 3 HQ ltac:(lia) ltac:(reflexivity) [-3; 1] HA).
  - apply fresh_clean.
  - constructor; [split; [apply same_set_refl|cbn; lia]|].
    constructor; [split; [exact HS|cbn; lia]|constructor].
  - rewrite Hc. lia.
  - reflexivity.
  - rewrite Hc. reflexivity.
Qed.

Example ex_k12_evaluated :
  let d := build ex_and 3 in let s0 := fresh_scratch ex_and in
  (* repaired: second page = the next configuration, one cursor entry keyed by the set *)
  (let '(s1, c1, r1) := enumerate d [-3; 1] 1 [] s0 in
   let '(_, c2, r2) := enumerate d [1; -3; 1; -3] 1 c1 s1 in (r1, r2, c1, c2))
  = (Some [[1; 2; -3]], Some [[1; -2; -3]], [([1; -3], 1)], [([1; -3], 0)]) /\
  (* before F19: the same configuration again, two cursor entries *)
  (let '(s1, c1, r1) := enumerate_v0 d [-3; 1] 1 [] s0 in
   let '(_, c2, r2) := enumerate_v0 d [1; -3; 1; -3] 1 c1 s1 in (r1, r2, c2))
  = (Some [[1; 2; -3]], Some [[1; 2; -3]], [([1; -3], 1); ([1; 1; -3; -3], 1)]) /\
  enum_key [1; -3; 1; -3] = [1; -3] /\ sort_abs [1; -3; 1; -3] = [1; 1; -3; -3].
Proof. vm_compute. repeat split; reflexivity. Qed.
