(* C04: property theorems (see bin/propcfg/C04.py for the status). *)
From Coq Require Import List ZArith Bool Permutation.
From DD Require Import Model.Circuit Model.Query Proofs.Semantics Proofs.CountsA Proofs.QueryDefs
  Proofs.C04Proof Props.C01.
Import ListNotations.
Open Scope Z_scope.

(* The specification-level count with the complementary leaves zeroed is the number of models
   that contain all assumed literals (every WF circuit, every in-range assumption list,
   duplicates and contradictions included). *)
Theorem C04_countsA_is_MCA : forall C n A,
  WF C n -> in_range n A -> nth (root C) (countsA A C) 0 = MCA C n A.
Proof. exact countsA_MCA. Qed.
Print Assumptions C04_countsA_is_MCA.

(* The per-feature cardinality table (features.rs card_of_each_feature: one reverse-mode
   partial-derivative sweep, marking.rs annotate_partial_derivatives, then rc - pd[leaf -f]):
   one row per feature 1..n, in order; the cardinality in row f is the number of models that
   select f.  The partial derivatives left over from earlier calls are arbitrary (history
   independence) and the scratch state stays Clean.  No extra side condition on And child lists:
   the sweep compares children by index, but a child that occurs twice below a decomposable And
   mentions no variable, so its (wrong) derivative is never read. *)
Theorem C04_card_of_each_feature : forall C n s, WFQ C n -> Clean C s ->
  let '(s', rows) := card_of_each_feature (build C n) s in
  rows = map (fun f => (f, MCA C n [f])) (zseq 1 n) /\ Clean C s'.
Proof. exact card_of_each_feature_correct. Qed.
Print Assumptions C04_card_of_each_feature.

(* A single row, any feature in range (card_of_feature_with_partial_derivatives after the sweep). *)
Theorem C04_card_of_feature_pd : forall C n s f,
  WFQ C n -> length (pds s) = length C -> 1 <= f <= Z.of_nat n ->
  card_of_feature_pd (build C n) (annotate_partial_derivatives (build C n) s) f = MCA C n [f].
Proof. exact card_of_feature_pd_correct. Qed.
Print Assumptions C04_card_of_feature_pd.

(* Non-vacuity.  x1 <-> x2 (Props/C01.v), and a circuit with shared nodes (node 4 = x2 | -x2 and
   the leaf 5 = x3 have two parents each) and And nodes with three children; the scratch state
   carries junk temps and junk partial derivatives from "earlier calls". *)
Definition junk_scratch (C : circuit) : scratch :=
  {| temps := map (fun _ => 7) C; marks := map (fun _ => false) C;
     pds := map (fun _ => 5) C; mdl := [] |}.

Example ex_iff_table :
  WFQ ex_iff 2 /\ Clean ex_iff (junk_scratch ex_iff) /\
  snd (card_of_each_feature (build ex_iff 2) (junk_scratch ex_iff)) = [(1, 1); (2, 1)] /\
  map (fun f => (f, MCA ex_iff 2 [f])) (zseq 1 2) = [(1, 1); (2, 1)].
Proof.
  split; [apply check_wf_WFQ; vm_compute; reflexivity|]. split.
  - constructor; try reflexivity. vm_compute. repeat constructor.
  - split; vm_compute; reflexivity.
Qed.

Definition ex_shared : circuit :=
  [Lit 1; Lit (-1); Lit 2; Lit (-2); Or [2;3]%nat; Lit 3; Lit (-3); Or [5;6]%nat;
   And [0;4;5]%nat; And [1;4;7]%nat; Or [8;9]%nat].

Example ex_shared_table :
  WFQ ex_shared 3 /\ Clean ex_shared (junk_scratch ex_shared) /\
  snd (card_of_each_feature (build ex_shared 3) (junk_scratch ex_shared)) = [(1, 2); (2, 3); (3, 4)] /\
  map (fun f => (f, MCA ex_shared 3 [f])) (zseq 1 3) = [(1, 2); (2, 3); (3, 4)] /\
  pds (fst (card_of_each_feature (build ex_shared 3) (junk_scratch ex_shared)))
    = [2; 4; 3; 3; 3; 4; 2; 2; 1; 1; 1].
Proof.
  split; [apply check_wf_WFQ; vm_compute; reflexivity|]. split.
  - constructor; try reflexivity. vm_compute. repeat constructor.
  - repeat split; vm_compute; reflexivity.
Qed.

(* a decomposable And with a duplicated (variable-free) child: the index comparison of the sweep
   skips both copies, the table is still right *)
Definition ex_dup : circuit := [TrueN; Lit 1; Lit (-1); Or [1;2]%nat; And [0;0;3]%nat].
Example ex_dup_table :
  WFQ ex_dup 1 /\
  snd (card_of_each_feature (build ex_dup 1) (junk_scratch ex_dup)) = [(1, 1)] /\
  MCA ex_dup 1 [1] = 1.
Proof.
  split; [apply check_wf_WFQ; vm_compute; reflexivity|]. split; vm_compute; reflexivity.
Qed.
