(* C04: property theorems (see bin/propcfg/C04.py for the status). *)
From Coq Require Import List ZArith Bool Permutation.
From DD Require Import Model.Circuit Model.Query Model.Ratio Proofs.Semantics Proofs.CountsA Proofs.QueryDefs
  Proofs.C04Proof Proofs.C04Ratio Props.C01.
Import ListNotations.
Open Scope Z_scope.

(* The specification-level count with the complementary leaves zeroed is the number of models
   that contain all assumed literals (every WF circuit, every in-range assumption list,
   duplicates and contradictions included). *)
Theorem C04_countsA_is_MCA : forall C n A,
  WF C n -> in_range n A -> nth (root C) (countsA A C) 0 = MCA C n A.
Proof. exact countsA_MCA. Qed.
Print Assumptions C04_countsA_is_MCA.

(* The per-feature cardinality table (features.rs card_of_each_feature: one reverse-mode
   partial-derivative sweep, marking.rs annotate_partial_derivatives, then rc - pd[leaf -f]):
   one row per feature 1..n, in order; the cardinality in row f is the number of models that
   select f.  The partial derivatives left over from earlier calls are arbitrary (history
   independence) and the scratch state stays Clean.  No extra side condition on And child lists:
   the sweep compares children by index, but a child that occurs twice below a decomposable And
   mentions no variable, so its (wrong) derivative is never read. *)
Theorem C04_card_of_each_feature : forall C n s, WFQ C n -> Clean C s ->
  let '(s', rows) := card_of_each_feature (build C n) s in
  rows = map (fun f => (f, MCA C n [f])) (zseq 1 n) /\ Clean C s'.
Proof. exact card_of_each_feature_correct. Qed.
Print Assumptions C04_card_of_each_feature.

(* A single row, any feature in range (card_of_feature_with_partial_derivatives after the sweep). *)
Theorem C04_card_of_feature_pd : forall C n s f,
  WFQ C n -> length (pds s) = length C -> 1 <= f <= Z.of_nat n ->
  card_of_feature_pd (build C n) (annotate_partial_derivatives (build C n) s) f = MCA C n [f].
Proof. exact card_of_feature_pd_correct. Qed.
Print Assumptions C04_card_of_feature_pd.

(* Non-vacuity.  x1 <-> x2 (Props/C01.v), and a circuit with shared nodes (node 4 = x2 | -x2 and
   the leaf 5 = x3 have two parents each) and And nodes with three children; the scratch state
   carries junk temps and junk partial derivatives from "earlier calls". *)
Definition junk_scratch (C : circuit) : scratch :=
  {| temps := map (fun _ => 7) C; marks := map (fun _ => false) C;
     pds := map (fun _ => 5) C; mdl := [] |}.

Example ex_iff_table :
  WFQ ex_iff 2 /\ Clean ex_iff (junk_scratch ex_iff) /\
  snd (card_of_each_feature (build ex_iff 2) (junk_scratch ex_iff)) = [(1, 1); (2, 1)] /\
  map (fun f => (f, MCA ex_iff 2 [f])) (zseq 1 2) = [(1, 1); (2, 1)].
Proof.
  split; [apply check_wf_WFQ; vm_compute; reflexivity|]. split.
  - constructor; try reflexivity. vm_compute. repeat constructor.
  - split; vm_compute; reflexivity.
Qed.

Definition ex_shared : circuit :=
  [Lit 1; Lit (-1); Lit 2; Lit (-2); Or [2;3]%nat; Lit 3; Lit (-3); Or [5;6]%nat;
   And [0;4;5]%nat; And [1;4;7]%nat; Or [8;9]%nat].

Example ex_shared_table :
  WFQ ex_shared 3 /\ Clean ex_shared (junk_scratch ex_shared) /\
  snd (card_of_each_feature (build ex_shared 3) (junk_scratch ex_shared)) = [(1, 2); (2, 3); (3, 4)] /\
  map (fun f => (f, MCA ex_shared 3 [f])) (zseq 1 3) = [(1, 2); (2, 3); (3, 4)] /\
  pds (fst (card_of_each_feature (build ex_shared 3) (junk_scratch ex_shared)))
    = [2; 4; 3; 3; 3; 4; 2; 2; 1; 1; 1].
Proof.
  split; [apply check_wf_WFQ; vm_compute; reflexivity|]. split.
  - constructor; try reflexivity. vm_compute. repeat constructor.
  - repeat split; vm_compute; reflexivity.
Qed.

(* a decomposable And with a duplicated (variable-free) child: the index comparison of the sweep
   skips both copies, the table is still right *)
Definition ex_dup : circuit := [TrueN; Lit 1; Lit (-1); Or [1;2]%nat; And [0;0;3]%nat].
Example ex_dup_table :
  WFQ ex_dup 1 /\
  snd (card_of_each_feature (build ex_dup 1) (junk_scratch ex_dup)) = [(1, 1)] /\
  MCA ex_dup 1 [1] = 1.
Proof.
  split; [apply check_wf_WFQ; vm_compute; reflexivity|]. split; vm_compute; reflexivity.
Qed.

(* The ratio column (features.rs: BigRational::from((cardinality, rc)), Model/Ratio.v): for every
   satisfiable model the call does not panic, the rows are those of C04_card_of_each_feature and
   the ratio of row f is the exact fraction a/b in lowest terms with positive denominator,
   a * MC = MCA [f] * b, between 0 and 1.  (The conversion of a/b to f64 and its printed text are
   glue: compared numerically by the correspondence check.) *)
Theorem C04_ratio_exact : forall C n s, WFQ C n -> Clean C s -> 0 < MC C n ->
  exists rows, snd (card_of_each_feature_ratio (build C n) s) = Some rows /\
    map fst rows = map (fun f => (f, MCA C n [f])) (zseq 1 n) /\
    Forall (fun row => let c := snd (fst row) in let a := fst (snd row) in let b := snd (snd row) in
              0 < b /\ a * MC C n = c * b /\ Z.gcd a b = 1 /\ 0 <= a <= b) rows.
Proof. exact card_of_each_feature_ratio_correct. Qed.
Print Assumptions C04_ratio_exact.

(* The hypothesis 0 < MC is needed: on a model without models (outside the C01 input space, which
   asks for a satisfiable formula) the first row divides by a zero total and the call panics
   (num-rational "denominator == 0"); reproduced on the code with the c2d file
   'nnf 4 0 1 / O 0 0 / L 1 / L -1 / O 1 2 1 2 / A 2 0 3' and the d4 file 'o 1 0 / f 2 0 / 1 2 1 0'. *)
Theorem C04_ratio_panics_iff_unsat : forall C n s, WFQ C n -> Clean C s ->
  MC C n = 0 -> (0 < n)%nat ->
  snd (card_of_each_feature_ratio (build C n) s) = None.
Proof. exact card_of_each_feature_ratio_panics. Qed.
Print Assumptions C04_ratio_panics_iff_unsat.

Example ex_shared_ratio :
  WFQ ex_shared 3 /\ Clean ex_shared (junk_scratch ex_shared) /\ MC ex_shared 3 = 6 /\
  snd (card_of_each_feature_ratio (build ex_shared 3) (junk_scratch ex_shared))
    = Some [(1, 2, (1, 3)); (2, 3, (1, 2)); (3, 4, (2, 3))].
Proof.
  split; [apply check_wf_WFQ; vm_compute; reflexivity|]. split.
  - constructor; try reflexivity. vm_compute. repeat constructor.
  - split; vm_compute; reflexivity.
Qed.

(* a well-formed circuit without models: (x1 | -x1) & false *)
Definition ex_unsat : circuit := [Lit 1; Lit (-1); Or [0;1]%nat; FalseN; And [2;3]%nat].
Example ex_unsat_ratio :
  WFQ ex_unsat 1 /\ Clean ex_unsat (junk_scratch ex_unsat) /\ MC ex_unsat 1 = 0 /\
  snd (card_of_each_feature_ratio (build ex_unsat 1) (junk_scratch ex_unsat)) = None.
Proof.
  split; [apply check_wf_WFQ; vm_compute; reflexivity|]. split.
  - constructor; try reflexivity. vm_compute. repeat constructor.
  - split; vm_compute; reflexivity.
Qed.
