(* C03: the SAT propagation of anomalies/sat.rs (Model/Query.v sat, sat_propagate).
   Property theorems only; proofs in Proofs/C03Proof.v, status in bin/propcfg/C03.py. *)
From Coq Require Import List ZArith Bool Permutation Lia.
From DD Require Import Model.Circuit Model.Query Proofs.Semantics Proofs.CountsA Proofs.QueryDefs
  Proofs.C03Proof Proofs.C03Contra Props.C01.
Import ListNotations.
Open Scope Z_scope.

(* The specification-level count with the complementary leaves zeroed is the number of models
   that contain all assumed literals (every WF circuit, every in-range assumption list,
   duplicates and contradictions included). *)
Theorem C03_countsA_is_MCA : forall C n A,
  WF C n -> in_range n A -> nth (root C) (countsA A C) 0 = MCA C n A.
Proof. exact countsA_MCA. Qed.
Print Assumptions C03_countsA_is_MCA.

(* `sat` (fresh mark vector, root_index None) answers true exactly when some model of the formula
   contains all literals of the query (duplicates, contradictory literals, core/dead literals
   included). *)
Theorem C03_sat_correct : forall C n A,
  WFQ C n -> 0 < root_count C -> in_range n A ->
  sat (build C n) A = (0 <? MCA C n A).
Proof. exact sat_correct. Qed.
Print Assumptions C03_sat_correct.

(* Decision propagation: calls of sat_propagate sharing one mark vector (sat_chain, defined in
   Proofs/C03Proof.v: answers of the calls in order, each call continuing on the vector the
   previous one left).  While every earlier answer was `true`, the k-th answer is the
   satisfiability of everything asserted so far. *)
Theorem C03_sat_incremental : forall C n (As : list cfg),
  WFQ C n -> 0 < root_count C -> Forall (in_range n) As ->
  let answers := sat_chain (build C n) As (map (fun _ => false) C) in
  forall k, (k < length As)%nat ->
    (forall j, (j < k)%nat -> nth j answers false = true) ->
    nth k answers false = (0 <? MCA C n (concat (firstn (S k) As))).
Proof. exact sat_incremental. Qed.
Print Assumptions C03_sat_incremental.

(* Stronger: only an earlier call that was cut short by the core test (makes_query_unsat) breaks
   the chain; an earlier `false` found by the propagation itself does not (the root stays marked). *)
Theorem C03_sat_incremental_strong : forall C n (As : list cfg),
  WFQ C n -> 0 < root_count C -> Forall (in_range n) As ->
  let answers := sat_chain (build C n) As (map (fun _ => false) C) in
  forall k, (k < length As)%nat ->
    (forall j, (j < k)%nat -> existsb (makes_unsat (build C n)) (nth j As []) = false) ->
    nth k answers false = (0 <? MCA C n (concat (firstn (S k) As))).
Proof. exact sat_incremental_strong. Qed.
Print Assumptions C03_sat_incremental_strong.

(* The proviso is needed: after a call answered by the core test the vector does not know the
   literals of that call, and a later call is answered `true` although the accumulated
   configuration has no model (and a fresh `sat` on it says false). *)
Theorem C03_sat_incremental_proviso_needed : exists C n (As : list cfg) k,
  WFQ C n /\ 0 < root_count C /\ Forall (in_range n) As /\ (k < length As)%nat /\
  let answers := sat_chain (build C n) As (map (fun _ => false) C) in
  (exists j, (j < k)%nat /\ nth j answers false = false) /\
  nth k answers false = true /\
  sat (build C n) (concat (firstn (S k) As)) = false /\
  MCA C n (concat (firstn (S k) As)) = 0.
Proof. exact sat_incremental_proviso_needed. Qed.
Print Assumptions C03_sat_incremental_proviso_needed.

(* Sub-root variant (sat_wrapper.rs is_sat_in_subgraph_cached): root_index = Some r for a node r
   whose cached count is positive.  The answer is: no literal is refuted by the core test, and the
   sub-circuit below r keeps a positive count under all literals asserted so far. *)
Theorem C03_sat_subroot : forall C n A r,
  WFQ C n -> (r < length C)%nat -> 0 < nth r (counts C) 0 ->
  snd (sat_propagate (build C n) A (map (fun _ => false) C) (Some r)) =
  negb (existsb (makes_unsat (build C n)) A) && (0 <? nth r (countsA A C) 0).
Proof. exact sat_subroot. Qed.
Print Assumptions C03_sat_subroot.

Theorem C03_sat_subroot_incremental : forall C n (Qs : list (cfg * option nat)),
  WFQ C n -> Forall (fun q => live_root C (snd q)) Qs ->
  let answers := sat_chain_sub (build C n) Qs (map (fun _ => false) C) in
  forall k, (k < length Qs)%nat ->
    (forall j, (j < k)%nat -> nth j answers false = true) ->
    nth k answers false =
    negb (existsb (makes_unsat (build C n)) (fst (nth k Qs ([], None)))) &&
    (0 <? nth (root_of C (snd (nth k Qs ([], None))))
              (countsA (concat (map fst (firstn (S k) Qs))) C) 0).
Proof. exact sat_subroot_incremental. Qed.
Print Assumptions C03_sat_subroot_incremental.

(* With sub-roots an earlier `false` found by the propagation breaks the chain as well (the loop
   returns as soon as ITS root is marked; the remaining literals are never propagated), and the
   core test is a genuine part of the answer. *)
Theorem C03_sat_subroot_proviso_needed : exists C n (Qs : list (cfg * option nat)) k,
  WFQ C n /\ Forall (fun q => live_root C (snd q)) Qs /\ (k < length Qs)%nat /\
  let answers := sat_chain_sub (build C n) Qs (map (fun _ => false) C) in
  (exists j, (j < k)%nat /\ nth j answers false = false) /\
  existsb (makes_unsat (build C n)) (concat (map fst Qs)) = false /\
  nth k answers false = true /\
  nth (root_of C (snd (nth k Qs ([], None)))) (countsA (concat (map fst (firstn (S k) Qs))) C) 0 = 0.
Proof. exact sat_subroot_proviso_needed. Qed.
Print Assumptions C03_sat_subroot_proviso_needed.

Theorem C03_sat_subroot_core_guard_needed : exists C n A r,
  WFQ C n /\ (r < length C)%nat /\ 0 < nth r (counts C) 0 /\ in_range n A /\
  snd (sat_propagate (build C n) A (map (fun _ => false) C) (Some r)) = false /\
  0 < nth r (countsA A C) 0.
Proof. exact sat_subroot_core_guard_needed. Qed.
Print Assumptions C03_sat_subroot_core_guard_needed.

(* Non-vacuity: the hypotheses hold for x1 <-> x2 (Props/C01.v ex_iff) and for x1 /\ (x2 \/ -x2)
   (ex_core, feature 1 core), and both answers occur. *)
Example ex_iff_wfq : WFQ ex_iff 2 /\ 0 < root_count ex_iff /\ ex_iff = ex_iff'.
Proof. split; [apply check_wf_WFQ; vm_compute; reflexivity|split; vm_compute; reflexivity]. Qed.
Example ex_iff_in_range : in_range 2 [1; -2] /\ Forall (in_range 2) [[1]; [2]; [-1]].
Proof.
  assert (H : forall A, forallb (fun l => (1 <=? Z.abs l) && (Z.abs l <=? 2)) A = true -> in_range 2 A).
  { intros A HA l Hl. rewrite forallb_forall in HA. specialize (HA l Hl). cbn in *. lia. }
  split; [|constructor; [|constructor; [|constructor; [|constructor]]]]; apply H; reflexivity.
Qed.
Example ex_iff_sat :
  sat (build ex_iff 2) [1; 2] = true /\ sat (build ex_iff 2) [1; -2] = false /\
  MCA ex_iff 2 [1; 2] = 1 /\ MCA ex_iff 2 [1; -2] = 0.
Proof. repeat split; vm_compute; reflexivity. Qed.
Example ex_iff_chain :
  sat_chain (build ex_iff 2) [[1]; [2]; [-1]] (map (fun _ => false) ex_iff) = [true; true; false].
Proof. vm_compute. reflexivity. Qed.
Example ex_iff_subroot : live_root ex_iff (Some 4%nat) /\
  snd (sat_propagate (build ex_iff 2) [1] (map (fun _ => false) ex_iff) (Some 4%nat)) = true /\
  snd (sat_propagate (build ex_iff 2) [-1] (map (fun _ => false) ex_iff) (Some 4%nat)) = false.
Proof. repeat split; vm_compute; reflexivity || lia. Qed.
Example ex_core_core : WFQ ex_core 2 /\ 0 < root_count ex_core /\ core (build ex_core 2) = [1] /\
  sat (build ex_core 2) [-1] = false /\ sat (build ex_core 2) [1; -2] = true.
Proof. split; [apply check_wf_WFQ; vm_compute; reflexivity|repeat split; vm_compute; reflexivity]. Qed.

(* A list that contains both x and -x is unsatisfiable (any length, any position of the pair). *)
Theorem C03_sat_contradictory_false : forall C n A x,
  WFQ C n -> 0 < root_count C -> in_range n A -> In x A -> In (- x) A ->
  sat (build C n) A = false.
Proof. exact sat_contradictory. Qed.
Print Assumptions C03_sat_contradictory_false.

Example ex_sat_contradictory :
  WFQ ex_iff 2 /\ 0 < root_count ex_iff /\ sat (build ex_iff 2) [1; 2; -1] = false /\
  sat (build ex_iff 2) [1; 2] = true.
Proof.
  split; [apply check_wf_WFQ; vm_compute; reflexivity|]. split; [vm_compute; reflexivity|].
  split; vm_compute; reflexivity.
Qed.
