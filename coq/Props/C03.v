(* C03: property theorems (statements proved so far; see bin/propcfg/C03.py for the status). *)
From Coq Require Import List ZArith Bool Permutation.
From DD Require Import Model.Circuit Model.Query Proofs.Semantics Proofs.CountsA Proofs.QueryDefs.
Import ListNotations.

(* The specification-level count with the complementary leaves zeroed is the number of models
   that contain all assumed literals (every WF circuit, every in-range assumption list,
   duplicates and contradictions included). *)
Theorem C03_countsA_is_MCA : forall C n A,
  WF C n -> in_range n A -> nth (root C) (countsA A C) 0 = MCA C n A.
Proof. exact countsA_MCA. Qed.
Print Assumptions C03_countsA_is_MCA.
