(* C05: core / dead features.  Property theorems only (proofs: Proofs/C05Proof.v, Proofs/CountsA.v);
   see bin/propcfg/C05.py for the status. *)
From Coq Require Import List ZArith Bool Permutation.
From DD Require Import Model.Circuit Model.Query Proofs.Semantics Proofs.CountsA Proofs.QueryDefs
  Proofs.C05Proof Proofs.C05Final.
Import ListNotations.
Open Scope Z_scope.

(* The specification-level count with the complementary leaves zeroed is the number of models
   that contain all assumed literals (every WF circuit, every in-range assumption list,
   duplicates and contradictions included). *)
Theorem C05_countsA_is_MCA : forall C n A,
  WF C n -> in_range n A -> nth (root C) (countsA A C) 0 = MCA C n A.
Proof. exact countsA_MCA. Qed.
Print Assumptions C05_countsA_is_MCA.

(* ---------- (A) the cached core (calculate_core, returned for empty assumptions) ---------- *)

(* Soundness: every literal the syntactic core reports is in every model.  Needs neither
   no_dead nor reachability nor unique leaves (proved from WF alone: C05_core_sound_WF). *)
Theorem C05_core_sound : forall C n l,
  WFQ C n -> In l (calculate_core C n) -> forall m, In m (Models C n) -> In l m.
Proof. exact core_sound. Qed.
Print Assumptions C05_core_sound.

Theorem C05_core_sound_WF : forall C n l,
  WF C n -> In l (calculate_core C n) -> forall m, In m (Models C n) -> In l m.
Proof. exact core_sound_WF. Qed.
Print Assumptions C05_core_sound_WF.

(* Completeness: uses WF + all_reachable + no_dead (no_dead also gives a model, so the
   right-hand side is not vacuous). *)
Theorem C05_core_complete : forall C n l,
  WF C n -> all_reachable C = true -> no_dead C = true ->
  (forall m, In m (Models C n) -> In l m) -> In l (calculate_core C n).
Proof. exact core_complete_WF. Qed.
Print Assumptions C05_core_complete.

(* Exactness when no node is dead. *)
Theorem C05_core_syntactic : forall C n l,
  WFQ C n -> no_dead C = true ->
  (In l (calculate_core C n) <-> (forall m, In m (Models C n) -> In l m)).
Proof. exact core_syntactic. Qed.
Print Assumptions C05_core_syntactic.

(* ... which is what core_dead_with_assumptions answers for the empty assumption list. *)
Theorem C05_core_dead_nil_correct : forall C n s l,
  WFQ C n -> no_dead C = true ->
  (In l (snd (core_dead_with_assumptions (build C n) [] s)) <->
   (forall m, In m (Models C n) -> In l m)).
Proof. exact core_dead_nil_correct. Qed.
Print Assumptions C05_core_dead_nil_correct.

(* ---------- (B) without no_dead the syntactic core is incomplete (finding K7) ---------- *)
Theorem C05_core_refuted_without_no_dead :
  exists C n l, WFQ C n /\ (forall m, In m (Models C n) -> In l m) /\ ~ In l (calculate_core C n).
Proof. exact core_refuted_without_no_dead. Qed.
Print Assumptions C05_core_refuted_without_no_dead.

(* ---------- (D) per-candidate criteria at truth-table level (no hypothesis needed) ---------- *)
Theorem C05_candidate_criterion : forall C n A x,
  MCA C n (A ++ [x]) = MCA C n A <-> (forall m, In m (ModelsA C n A) -> In x m).
Proof. exact candidate_criterion. Qed.
Print Assumptions C05_candidate_criterion.

Theorem C05_candidate_dead_criterion : forall C n A v,
  1 <= v <= Z.of_nat n ->
  (MCA C n (A ++ [v]) = 0 <-> (forall m, In m (ModelsA C n A) -> In (- v) m)).
Proof. exact candidate_dead_criterion. Qed.
Print Assumptions C05_candidate_dead_criterion.

Theorem C05_MCA_split : forall C n A v,
  1 <= v <= Z.of_nat n -> MCA C n (A ++ [v]) + MCA C n (A ++ [- v]) = MCA C n A.
Proof. exact MCA_split. Qed.
Print Assumptions C05_MCA_split.

(* ModelsA = the models that contain every assumed literal *)
Theorem C05_ModelsA_In : forall C n A m,
  In m (ModelsA C n A) <-> In m (Models C n) /\ (forall a, In a A -> In a m).
Proof. exact ModelsA_In. Qed.
Print Assumptions C05_ModelsA_In.

(* ---------- (C) the with-assumptions loop over the specified count ---------- *)

(* The loop of core_dead_with_assumptions with the truth-table count MCA in place of
   execute_query reports, in order 1..n, i when every model containing A contains i and -i when
   every model containing A contains -i (both when there is no such model). *)
Theorem C05_core_dead_spec_correct : forall C n A,
  WF C n -> in_range n A -> A <> [] ->
  core_dead_spec (MCA C n) n A =
  flat_map (fun i => (if fixedb C n A i then [i] else []) ++
                     (if fixedb C n A (- i) then [- i] else []))
           (zseq 1 n).
Proof. exact core_dead_spec_correct. Qed.
Print Assumptions C05_core_dead_spec_correct.

(* the hypotheses are not needed at this level *)
Theorem C05_core_dead_spec_correct_gen : forall C n A,
  core_dead_spec (MCA C n) n A = core_dead_sem C n A.
Proof. exact core_dead_spec_correct_gen. Qed.
Print Assumptions C05_core_dead_spec_correct_gen.

Theorem C05_fixedb_spec : forall C n A l,
  fixedb C n A l = true <-> (forall m, In m (ModelsA C n A) -> In l m).
Proof. exact fixedb_spec. Qed.
Print Assumptions C05_fixedb_spec.

Theorem C05_core_dead_spec_In : forall C n A l,
  In l (core_dead_spec (MCA C n) n A) <->
  1 <= Z.abs l <= Z.of_nat n /\ (forall m, In m (ModelsA C n A) -> In l m).
Proof. exact core_dead_spec_In. Qed.
Print Assumptions C05_core_dead_spec_In.

Theorem C05_core_dead_spec_unsat : forall C n A,
  MCA C n A = 0 -> core_dead_spec (MCA C n) n A = flat_map (fun i => [i; - i]) (zseq 1 n).
Proof. exact core_dead_spec_unsat. Qed.
Print Assumptions C05_core_dead_spec_unsat.

(* Glue to the algorithm: IF execute_query computes MCA and preserves the Clean invariant
   (explicit hypothesis; the statement of the separately developed execute_query_correct), THEN
   core_dead_with_assumptions returns the spec loop, hence exactly the fixed literals. *)
Theorem C05_core_dead_glue : forall C n,
  (forall A s, in_range n A -> Clean C s ->
     exists s', execute_query (build C n) A s = (s', MCA C n A) /\ Clean C s') ->
  forall A s, A <> [] -> in_range n A -> Clean C s ->
  exists s', core_dead_with_assumptions (build C n) A s = (s', core_dead_spec (MCA C n) n A)
             /\ Clean C s'.
Proof. exact core_dead_glue. Qed.
Print Assumptions C05_core_dead_glue.

Theorem C05_core_dead_with_assumptions_correct : forall C n,
  (forall A s, in_range n A -> Clean C s ->
     exists s', execute_query (build C n) A s = (s', MCA C n A) /\ Clean C s') ->
  forall A s, A <> [] -> in_range n A -> Clean C s ->
  exists s', core_dead_with_assumptions (build C n) A s = (s', core_dead_sem C n A)
             /\ Clean C s'.
Proof. exact core_dead_with_assumptions_correct. Qed.
Print Assumptions C05_core_dead_with_assumptions_correct.

(* ---------- non-vacuity ---------- *)

(* x1 & (x2 <-> x3): WFQ, no dead node, two models; core = [1] syntactically and semantically *)
Definition ex_c05 : circuit :=
  [Lit 1; Lit 2; Lit (-2); Lit 3; Lit (-3); And [1;3]%nat; And [2;4]%nat; Or [5;6]%nat;
   And [0;7]%nat].

Example ex_c05_hyps : WFQ ex_c05 3 /\ no_dead ex_c05 = true /\
  Models ex_c05 3 = [[1; 2; 3]; [1; -2; -3]] /\ calculate_core ex_c05 3 = [1].
Proof. split; [apply check_wf_WFQ; vm_compute; reflexivity|]. vm_compute. repeat split. Qed.

(* the hypotheses of the with-assumptions theorems: in-range non-empty A, a Clean state; the
   algorithm, the spec loop and the semantic answer agree on satisfiable, unsatisfiable and
   contradictory assumptions *)
Example ex_c05_assume :
  in_range 3 [2] /\ Clean ex_c05 (fresh_scratch ex_c05) /\
  snd (core_dead_with_assumptions (build ex_c05 3) [2] (fresh_scratch ex_c05)) = [1; 2; 3] /\
  core_dead_spec (MCA ex_c05 3) 3 [2] = [1; 2; 3] /\ core_dead_sem ex_c05 3 [2] = [1; 2; 3] /\
  snd (core_dead_with_assumptions (build ex_c05 3) [-1] (fresh_scratch ex_c05))
    = [1; -1; 2; -2; 3; -3] /\
  core_dead_sem ex_c05 3 [-1] = [1; -1; 2; -2; 3; -3] /\
  snd (core_dead_with_assumptions (build ex_c05 3) [2; -3] (fresh_scratch ex_c05))
    = core_dead_sem ex_c05 3 [2; -3].
Proof.
  split; [intros l [<-|[]]; vm_compute; split; discriminate|].
  split; [apply fresh_clean|]. vm_compute. repeat split.
Qed.

(* instances of the hypothesis H_exec of the glue theorems on this circuit (the universally
   quantified hypothesis itself is the statement of execute_query_correct) *)
Example ex_c05_exec_instances :
  forallb (fun A => snd (execute_query (build ex_c05 3) A (fresh_scratch ex_c05)) =? MCA ex_c05 3 A)
          [[2]; [2; 1]; [-1]; [2; -3]; [2; -3; 1]; [3; 3]; [1; -1]] = true.
Proof. vm_compute. reflexivity. Qed.

(* the K7 witness of (B): WFQ holds, no_dead fails, the only model is [-1; 2], core reports [2];
   the with-assumptions loop (which does not use the syntactic core for candidates) is exact *)
Example ex_k7 :
  check_wf k7_circuit 2 = true /\ no_dead k7_circuit = false /\
  Models k7_circuit 2 = [[-1; 2]] /\ calculate_core k7_circuit 2 = [2] /\
  snd (core_dead_with_assumptions (build k7_circuit 2) [2] (fresh_scratch k7_circuit)) = [-1; 2].
Proof. vm_compute. repeat split. Qed.

(* With the C02 theorem in place of the hypothesis: for every WF circuit, every non-empty
   in-range assumption list and every Clean state, the with-assumptions report is exactly
   [ l | l = i or -i in loop order, every model containing A contains l ]
   (both polarities of every feature when no model contains A). *)
Theorem C05_core_dead_with_assumptions : forall C n A s,
  WFQ C n -> A <> [] -> in_range n A -> Clean C s ->
  exists s', core_dead_with_assumptions (build C n) A s = (s', core_dead_sem C n A) /\ Clean C s'.
Proof. exact core_dead_with_assumptions_final. Qed.
Print Assumptions C05_core_dead_with_assumptions.
