(* C05: core / dead features.  Property theorems only (proofs: Proofs/C05Proof.v, Proofs/CountsA.v);
   see bin/propcfg/C05.py for the status. *)
From Coq Require Import List ZArith Bool Permutation.
From DD Require Import Model.Circuit Model.Query Proofs.Semantics Proofs.CountsA Proofs.QueryDefs
  Proofs.C05Proof Proofs.C05Final.
Import ListNotations.
Open Scope Z_scope.

(* The specification-level count with the complementary leaves zeroed is the number of models
   that contain all assumed literals (every WF circuit, every in-range assumption list,
   duplicates and contradictions included). *)
Theorem C05_countsA_is_MCA : forall C n A,
  WF C n -> in_range n A -> nth (root C) (countsA A C) 0 = MCA C n A.
Proof. exact countsA_MCA. Qed.
Print Assumptions C05_countsA_is_MCA.

(* ---------- (A) the cached core (calculate_core, returned for empty assumptions) ----------
   calculate_core is the repaired algorithm (F22, repo_patches/F22-core-ignores-dead-branches.patch):
   a literal is reported iff it is LIVE and its complement is not, where a literal is live when its
   node is reachable from the root through nodes with a non-zero count (one downward sweep over
   the node vector, Model/Query.v live_literals).  Representation: the sub-list of
   -n, ..., -1, 0, 1, ..., n (ascending, hence duplicate-free) of the reported literals; the Rust
   value is the HashSet of these numbers. *)

(* Exactness, UNCONDITIONALLY in the shape of the circuit: for every well-formed circuit that has a
   model - dead (zero-count) branches or not, reachable or not, unique leaves or not - the cached
   core contains a signed literal exactly when every model contains it. *)
Theorem C05_core_exact : forall C n l,
  WFQ C n -> 0 < root_count C ->
  (In l (calculate_core C n) <-> (forall m, In m (Models C n) -> In l m)).
Proof. exact core_exact. Qed.
Print Assumptions C05_core_exact.

Theorem C05_core_exact_WF : forall C n l,
  WF C n -> 0 < root_count C ->
  (In l (calculate_core C n) <-> (forall m, In m (Models C n) -> In l m)).
Proof. exact core_exact_WF. Qed.
Print Assumptions C05_core_exact_WF.

(* ... as a list: exactly the literals of -n..n, ascending, that every model contains
   (in_all_models C n l = forallb (fun m => memZ l m) (Models C n), the truth-table test) *)
Theorem C05_core_exact_list : forall C n,
  WF C n -> 0 < root_count C ->
  calculate_core C n = filter (in_all_models C n) (zseq (- Z.of_nat n) (2 * n + 1)).
Proof. exact core_exact_list. Qed.
Print Assumptions C05_core_exact_list.

Theorem C05_in_all_models_spec : forall C n l,
  in_all_models C n l = true <-> (forall m, In m (Models C n) -> In l m).
Proof. exact in_all_models_spec. Qed.
Print Assumptions C05_in_all_models_spec.

(* Soundness holds for every WF circuit, also without a model (then there is nothing to show). *)
Theorem C05_core_sound : forall C n l,
  WFQ C n -> In l (calculate_core C n) -> forall m, In m (Models C n) -> In l m.
Proof. exact core_sound. Qed.
Print Assumptions C05_core_sound.

Theorem C05_core_sound_WF : forall C n l,
  WF C n -> In l (calculate_core C n) -> forall m, In m (Models C n) -> In l m.
Proof. exact core_sound_WF. Qed.
Print Assumptions C05_core_sound_WF.

(* Completeness: WF and a model; no hypothesis on dead nodes. *)
Theorem C05_core_complete : forall C n l,
  WF C n -> 0 < root_count C ->
  (forall m, In m (Models C n) -> In l m) -> In l (calculate_core C n).
Proof. exact core_complete_WF. Qed.
Print Assumptions C05_core_complete.

(* ... which is what core_dead_with_assumptions answers for the empty assumption list. *)
Theorem C05_core_dead_nil_correct : forall C n s l,
  WFQ C n -> 0 < root_count C ->
  (In l (snd (core_dead_with_assumptions (build C n) [] s)) <->
   (forall m, In m (Models C n) -> In l m)).
Proof. exact core_dead_nil_correct. Qed.
Print Assumptions C05_core_dead_nil_correct.

(* The degenerate case the repair leaves alone: a circuit without a model (root count 0; only c2d
   input can be loaded that way).  Every literal is vacuously "in every model"; the code answers
   what it answered before the repair: the syntactic core over all literal nodes. *)
Theorem C05_core_unsat_is_v0 : forall C n,
  root_count C = 0 -> calculate_core C n = calculate_core_v0 C n.
Proof. exact core_unsat_is_v0. Qed.
Print Assumptions C05_core_unsat_is_v0.

(* ---------- (A0) the code before the repair: calculate_core_v0 (purely syntactic) ---------- *)

(* sound for every WF circuit *)
Theorem C05_core_v0_sound_WF : forall C n l,
  WF C n -> In l (calculate_core_v0 C n) -> forall m, In m (Models C n) -> In l m.
Proof. exact core_sound_WF_v0. Qed.
Print Assumptions C05_core_v0_sound_WF.

(* exact when no node is dead *)
Theorem C05_core_v0_syntactic : forall C n l,
  WFQ C n -> no_dead C = true ->
  (In l (calculate_core_v0 C n) <-> (forall m, In m (Models C n) -> In l m)).
Proof. exact core_syntactic_v0. Qed.
Print Assumptions C05_core_v0_syntactic.

(* ... and then the repair changes nothing *)
Theorem C05_core_no_dead_is_v0 : forall C n l,
  WF C n -> all_reachable C = true -> no_dead C = true ->
  (In l (calculate_core C n) <-> In l (calculate_core_v0 C n)).
Proof. exact core_no_dead_is_v0. Qed.
Print Assumptions C05_core_no_dead_is_v0.

(* ---------- (B) finding K7 (repaired by F22): without no_dead the syntactic core of the old code
   is incomplete - a statement about calculate_core_v0 only ---------- *)
Theorem C05_core_refuted_without_no_dead :
  exists C n l, WFQ C n /\ (forall m, In m (Models C n) -> In l m) /\ ~ In l (calculate_core_v0 C n).
Proof. exact core_refuted_without_no_dead. Qed.
Print Assumptions C05_core_refuted_without_no_dead.

(* ---------- (D) per-candidate criteria at truth-table level (no hypothesis needed) ---------- *)
Theorem C05_candidate_criterion : forall C n A x,
  MCA C n (A ++ [x]) = MCA C n A <-> (forall m, In m (ModelsA C n A) -> In x m).
Proof. exact candidate_criterion. Qed.
Print Assumptions C05_candidate_criterion.

Theorem C05_candidate_dead_criterion : forall C n A v,
  1 <= v <= Z.of_nat n ->
  (MCA C n (A ++ [v]) = 0 <-> (forall m, In m (ModelsA C n A) -> In (- v) m)).
Proof. exact candidate_dead_criterion. Qed.
Print Assumptions C05_candidate_dead_criterion.

Theorem C05_MCA_split : forall C n A v,
  1 <= v <= Z.of_nat n -> MCA C n (A ++ [v]) + MCA C n (A ++ [- v]) = MCA C n A.
Proof. exact MCA_split. Qed.
Print Assumptions C05_MCA_split.

(* ModelsA = the models that contain every assumed literal *)
Theorem C05_ModelsA_In : forall C n A m,
  In m (ModelsA C n A) <-> In m (Models C n) /\ (forall a, In a A -> In a m).
Proof. exact ModelsA_In. Qed.
Print Assumptions C05_ModelsA_In.

(* ---------- (C) the with-assumptions loop over the specified count ---------- *)

(* The loop of core_dead_with_assumptions with the truth-table count MCA in place of
   execute_query reports, in order 1..n, i when every model containing A contains i and -i when
   every model containing A contains -i (both when there is no such model). *)
Theorem C05_core_dead_spec_correct : forall C n A,
  WF C n -> in_range n A -> A <> [] ->
  core_dead_spec (MCA C n) n A =
  flat_map (fun i => (if fixedb C n A i then [i] else []) ++
                     (if fixedb C n A (- i) then [- i] else []))
           (zseq 1 n).
Proof. exact core_dead_spec_correct. Qed.
Print Assumptions C05_core_dead_spec_correct.

(* the hypotheses are not needed at this level *)
Theorem C05_core_dead_spec_correct_gen : forall C n A,
  core_dead_spec (MCA C n) n A = core_dead_sem C n A.
Proof. exact core_dead_spec_correct_gen. Qed.
Print Assumptions C05_core_dead_spec_correct_gen.

Theorem C05_fixedb_spec : forall C n A l,
  fixedb C n A l = true <-> (forall m, In m (ModelsA C n A) -> In l m).
Proof. exact fixedb_spec. Qed.
Print Assumptions C05_fixedb_spec.

Theorem C05_core_dead_spec_In : forall C n A l,
  In l (core_dead_spec (MCA C n) n A) <->
  1 <= Z.abs l <= Z.of_nat n /\ (forall m, In m (ModelsA C n A) -> In l m).
Proof. exact core_dead_spec_In. Qed.
Print Assumptions C05_core_dead_spec_In.

Theorem C05_core_dead_spec_unsat : forall C n A,
  MCA C n A = 0 -> core_dead_spec (MCA C n) n A = flat_map (fun i => [i; - i]) (zseq 1 n).
Proof. exact core_dead_spec_unsat. Qed.
Print Assumptions C05_core_dead_spec_unsat.

(* Glue to the algorithm: IF execute_query computes MCA and preserves the Clean invariant
   (explicit hypothesis; the statement of the separately developed execute_query_correct), THEN
   core_dead_with_assumptions returns the spec loop, hence exactly the fixed literals. *)
Theorem C05_core_dead_glue : forall C n,
  (forall A s, in_range n A -> Clean C s ->
     exists s', execute_query (build C n) A s = (s', MCA C n A) /\ Clean C s') ->
  forall A s, A <> [] -> in_range n A -> Clean C s ->
  exists s', core_dead_with_assumptions (build C n) A s = (s', core_dead_spec (MCA C n) n A)
             /\ Clean C s'.
Proof. exact core_dead_glue. Qed.
Print Assumptions C05_core_dead_glue.

Theorem C05_core_dead_with_assumptions_correct : forall C n,
  (forall A s, in_range n A -> Clean C s ->
     exists s', execute_query (build C n) A s = (s', MCA C n A) /\ Clean C s') ->
  forall A s, A <> [] -> in_range n A -> Clean C s ->
  exists s', core_dead_with_assumptions (build C n) A s = (s', core_dead_sem C n A)
             /\ Clean C s'.
Proof. exact core_dead_with_assumptions_correct. Qed.
Print Assumptions C05_core_dead_with_assumptions_correct.

(* ---------- non-vacuity ---------- *)

(* x1 & (x2 <-> x3): WFQ, a model, no dead node, two models; core = [1] for the old and the
   repaired code and semantically *)
Definition ex_c05 : circuit :=
  [Lit 1; Lit 2; Lit (-2); Lit 3; Lit (-3); And [1;3]%nat; And [2;4]%nat; Or [5;6]%nat;
   And [0;7]%nat].

Example ex_c05_hyps : WFQ ex_c05 3 /\ 0 < root_count ex_c05 /\ no_dead ex_c05 = true /\
  Models ex_c05 3 = [[1; 2; 3]; [1; -2; -3]] /\ calculate_core ex_c05 3 = [1] /\
  calculate_core_v0 ex_c05 3 = [1].
Proof. split; [apply check_wf_WFQ; vm_compute; reflexivity|]. vm_compute. repeat split. Qed.

(* the hypotheses of the with-assumptions theorems: in-range non-empty A, a Clean state; the
   algorithm, the spec loop and the semantic answer agree on satisfiable, unsatisfiable and
   contradictory assumptions *)
Example ex_c05_assume :
  in_range 3 [2] /\ Clean ex_c05 (fresh_scratch ex_c05) /\
  snd (core_dead_with_assumptions (build ex_c05 3) [2] (fresh_scratch ex_c05)) = [1; 2; 3] /\
  core_dead_spec (MCA ex_c05 3) 3 [2] = [1; 2; 3] /\ core_dead_sem ex_c05 3 [2] = [1; 2; 3] /\
  snd (core_dead_with_assumptions (build ex_c05 3) [-1] (fresh_scratch ex_c05))
    = [1; -1; 2; -2; 3; -3] /\
  core_dead_sem ex_c05 3 [-1] = [1; -1; 2; -2; 3; -3] /\
  snd (core_dead_with_assumptions (build ex_c05 3) [2; -3] (fresh_scratch ex_c05))
    = core_dead_sem ex_c05 3 [2; -3].
Proof.
  split; [intros l [<-|[]]; vm_compute; split; discriminate|].
  split; [apply fresh_clean|]. vm_compute. repeat split.
Qed.

(* instances of the hypothesis H_exec of the glue theorems on this circuit (the universally
   quantified hypothesis itself is the statement of execute_query_correct) *)
Example ex_c05_exec_instances :
  forallb (fun A => snd (execute_query (build ex_c05 3) A (fresh_scratch ex_c05)) =? MCA ex_c05 3 A)
          [[2]; [2; 1]; [-1]; [2; -3]; [2; -3; 1]; [3; 3]; [1; -1]] = true.
Proof. vm_compute. reflexivity. Qed.

(* the K7 witness of (B): WFQ holds, the root count is 1, no_dead fails, the only model is
   [-1; 2]; the old code reports [2], the repaired code [-1; 2] (the hypotheses of C05_core_exact
   hold on a circuit WITH a dead branch); the with-assumptions loop (which does not use the cached
   core for candidates) was exact before *)
Example ex_k7 :
  check_wf k7_circuit 2 = true /\ root_count k7_circuit = 1 /\ no_dead k7_circuit = false /\
  Models k7_circuit 2 = [[-1; 2]] /\ calculate_core_v0 k7_circuit 2 = [2] /\
  calculate_core k7_circuit 2 = [-1; 2] /\
  snd (core_dead_with_assumptions (build k7_circuit 2) [] (fresh_scratch k7_circuit)) = [-1; 2] /\
  snd (core_dead_with_assumptions (build k7_circuit 2) [2] (fresh_scratch k7_circuit)) = [-1; 2].
Proof. vm_compute. repeat split. Qed.

(* a circuit without a model (c2d 'nnf 3 2 1 / L 1 / O 0 0 / A 2 0 1'): the repaired code answers
   like the old one *)
Example ex_unsat_root :
  root_count [Lit 1; FalseN; And [0; 1]%nat] = 0 /\ Models [Lit 1; FalseN; And [0; 1]%nat] 1 = [] /\
  calculate_core [Lit 1; FalseN; And [0; 1]%nat] 1 = [1] /\
  calculate_core_v0 [Lit 1; FalseN; And [0; 1]%nat] 1 = [1].
Proof. vm_compute. repeat split. Qed.

(* With the C02 theorem in place of the hypothesis: for every WF circuit, every non-empty
   in-range assumption list and every Clean state, the with-assumptions report is exactly
   [ l | l = i or -i in loop order, every model containing A contains l ]
   (both polarities of every feature when no model contains A). *)
Theorem C05_core_dead_with_assumptions : forall C n A s,
  WFQ C n -> A <> [] -> in_range n A -> Clean C s ->
  exists s', core_dead_with_assumptions (build C n) A s = (s', core_dead_sem C n A) /\ Clean C s'.
Proof. exact core_dead_with_assumptions_final. Qed.
Print Assumptions C05_core_dead_with_assumptions.
