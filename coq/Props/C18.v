(* C18: reproducibility across reloads.  See bin/propcfg/C18.py for the status. *)
From Coq Require Import List Arith Permutation.
From DD Require Import Model.Circuit Model.Query Proofs.C18Proof.
Import ListNotations.

(* repaired loader: the order in which missing features are attached below a balancing And does
   not depend on the iteration order of the hash set (any permutation oracle) *)
Theorem C18_attach_order_hash_independent : forall (ord1 ord2 : list nat -> list nat) missing,
  (forall l, Permutation (ord1 l) l) -> (forall l, Permutation (ord2 l) l) ->
  sort_nat (ord1 missing) = sort_nat (ord2 missing).
Proof. exact attach_order_hash_independent. Qed.
Print Assumptions C18_attach_order_hash_independent.

(* unrepaired loader (hash order used directly): refuted *)
Theorem C18_refuted_hash_order : exists (ord1 ord2 : list nat -> list nat) (missing : list nat),
  (forall l, Permutation (ord1 l) l) /\ (forall l, Permutation (ord2 l) l) /\
  ord1 missing <> ord2 missing.
Proof. exact attach_order_v0_refuted. Qed.
Print Assumptions C18_refuted_hash_order.

Example sort_example : sort_nat [5; 2; 9]%nat = [2; 5; 9]%nat /\ sort_nat [9; 5; 2]%nat = [2; 5; 9]%nat.
Proof. split; reflexivity. Qed.
