(* C18: reproducibility across reloads.  See bin/propcfg/C18.py for the status. *)
From Coq Require Import List Arith Permutation.
From DD Require Import Model.Circuit Model.Query Proofs.C18Proof.
From DD Require Import Model.LexerD4 Model.LoadD4 Proofs.LoadD4Ord Proofs.LoadD4Examples.
Import ListNotations.

(* repaired loader: the order in which missing features are attached below a balancing And does
   not depend on the iteration order of the hash set (any permutation oracle) *)
Theorem C18_attach_order_hash_independent : forall (ord1 ord2 : list nat -> list nat) missing,
  (forall l, Permutation (ord1 l) l) -> (forall l, Permutation (ord2 l) l) ->
  sort_nat (ord1 missing) = sort_nat (ord2 missing).
Proof. exact attach_order_hash_independent. Qed.
Print Assumptions C18_attach_order_hash_independent.

(* unrepaired loader (hash order used directly): refuted *)
Theorem C18_refuted_hash_order : exists (ord1 ord2 : list nat -> list nat) (missing : list nat),
  (forall l, Permutation (ord1 l) l) /\ (forall l, Permutation (ord2 l) l) /\
  ord1 missing <> ord2 missing.
Proof. exact attach_order_v0_refuted. Qed.
Print Assumptions C18_refuted_hash_order.

Example sort_example : sort_nat [5; 2; 9]%nat = [2; 5; 9]%nat /\ sort_nat [9; 5; 2]%nat = [2; 5; 9]%nat.
Proof. split; reflexivity. Qed.

(* ---- the whole d4 loader as a Gallina function (Model/LoadD4.v; tied to build_d4_ddnnf +
   rebuild by the exact correspondence of harness kind ld4) ----

   load_d4_h ord = the loader in /repo now, with the iteration order of the hash set in
   balance_or_children as an explicit parameter (an arbitrary permutation oracle): the loaded
   node vector and number_of_variables do not depend on it ... *)
Theorem C18_loader_function : forall (ord1 ord2 : list nat -> list nat) toks n,
  (forall l, Permutation (ord1 l) l) -> (forall l, Permutation (ord2 l) l) ->
  load_d4_h ord1 toks n = load_d4_h ord2 toks n.
Proof. exact loader_function. Qed.
Print Assumptions C18_loader_function.

(* ... and equal load_d4, the parameter-free function the correspondence compares with the code *)
Theorem C18_loader_is_load_d4 : forall (ord : list nat -> list nat) toks n,
  (forall l, Permutation (ord l) l) -> load_d4_h ord toks n = load_d4 toks n.
Proof. exact load_d4_h_is_load_d4. Qed.
Print Assumptions C18_loader_is_load_d4.

(* the loader before the repair (features attached in hash order): two iteration orders, two
   node vectors, on `o 1 0 / t 2 0 / 1 2 1 2 3 0 / 1 2 -1 0` with 3 features *)
Theorem C18_refuted_loader_v0 : exists (toks : list d4token) (n : nat) (ord1 ord2 : list nat -> list nat),
  (forall l, Permutation (ord1 l) l) /\ (forall l, Permutation (ord2 l) l) /\
  load_d4_v0 ord1 toks n <> load_d4_v0 ord2 toks n.
Proof. exact loader_v0_refuted. Qed.
Print Assumptions C18_refuted_loader_v0.

(* non-vacuity: the loader model is not constantly None - it reproduces the vectors the
   implementation dumped for tests/data/small_ex_d4.nnf and for a file with smoothing, a free
   feature, a false edge and a shared node; the witness of the refutation loads under both orders *)
Example loader_nonvacuous :
  load_lines small_ex_d4_text 4 = Some (small_ex_d4_vector, 4%nat) /\
  load_lines mixed_d4_text 5 = Some (mixed_d4_vector, 5%nat) /\
  load_d4_h (@rev nat) mixed_d4 5 = Some (mixed_d4_vector, 5%nat) /\
  load_d4_v0 (fun l => l) f5_file 3%nat <> None /\ load_d4_v0 (@rev nat) f5_file 3%nat <> None.
Proof. repeat split; vm_compute; try reflexivity; discriminate. Qed.
