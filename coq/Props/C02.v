(* C02: property theorems.  See bin/propcfg/C02.py for the status text. *)
From Coq Require Import List ZArith Bool Permutation.
From DD Require Import Model.Circuit Model.Query Proofs.Semantics Proofs.CountsA Proofs.QueryDefs
  Proofs.C02Proof Proofs.C02Contra.
Import ListNotations.
Open Scope Z_scope.

(* The specification-level count with the complementary leaves zeroed is the number of models
   that contain all assumed literals (every WF circuit, every in-range assumption list,
   duplicates and contradictions included). *)
Theorem C02_countsA_is_MCA : forall C n A,
  WF C n -> in_range n A -> nth (root C) (countsA A C) 0 = MCA C n A.
Proof. exact countsA_MCA. Qed.
Print Assumptions C02_countsA_is_MCA.

(* MAIN: the model of Ddnnf::execute_query (length 0 -> cached root count; length 1 -> core
   shortcuts or single marker run; 2..20 -> marker strategy incl. the "at most half of the
   children marked: divide the cached product" shortcut; > 20 -> full recomputation; both with the
   core shortcuts reduce_query / query_is_not_sat) returns, for EVERY in-range literal list (any
   length, order, repetition, contradictory, core and dead literals) and from EVERY Clean scratch
   state (arbitrary temps / partial derivatives left by earlier operations), exactly the number of
   rows of the truth table over 1..n that satisfy the circuit and contain all listed literals; and
   it re-establishes Clean (all markers false, md empty), so the statement composes over any
   sequence of queries. *)
Theorem C02_execute_query_correct : forall C n A s,
  WFQ C n -> in_range n A -> Clean C s ->
  let '(s', r) := execute_query (build C n) A s in
  r = MCA C n A /\ Clean C s'.
Proof. exact execute_query_correct. Qed.
Print Assumptions C02_execute_query_correct.

(* Both strategies, each run on an arbitrary list (not only in its own length window) and from
   arbitrary (different) Clean states, return the same number: the truth-table count. *)
Theorem C02_strategy_independent : forall C n A s1 s2,
  WFQ C n -> in_range n A -> Clean C s1 -> Clean C s2 ->
  snd (operate_on_partial_config_marker (build C n) A s1) = MCA C n A /\
  snd (operate_on_partial_config_default (build C n) A s2) = MCA C n A.
Proof. exact strategy_independent. Qed.
Print Assumptions C02_strategy_independent.

(* Truth-table level: the count under A splits over the two values of any feature. *)
Theorem C02_split : forall C n A x, 1 <= x <= Z.of_nat n ->
  MCA C n A = MCA C n (x :: A) + MCA C n (- x :: A).
Proof. exact MCA_split. Qed.
Print Assumptions C02_split.

(* C16 (count part): the answer does not depend on what was computed before. *)
Theorem C16_count_history_independent : forall C n A s,
  WFQ C n -> in_range n A -> Clean C s ->
  snd (execute_query (build C n) A s) = snd (execute_query (build C n) A (fresh_scratch C)).
Proof. exact count_history_independent. Qed.
Print Assumptions C16_count_history_independent.

(* Non-vacuity: x1 & (x2 | -x2): literal 1 is core, -1 is dead; a dirty Clean state; a short and
   a long (default strategy) list. *)
Definition ex_c02 : circuit := [Lit 1; Lit 2; Lit (-2); Or [1;2]%nat; And [0;3]%nat].
Definition ex_dirty : scratch :=
  {| temps := [7;8;9;10;11]; marks := map (fun _ => false) ex_c02; pds := [5;4;3;2;1]; mdl := [] |}.
Definition ex_long : cfg := [1;2;1;2;1;2;1;2;1;2;1;2;1;2;1;2;1;2;1;2;1;2].
Example ex_c02_hyps : WFQ ex_c02 2 /\ in_range 2 ex_long /\ Clean ex_c02 ex_dirty.
Proof.
  split; [apply check_wf_WFQ; vm_compute; reflexivity|]. split.
  - intros l Hl. unfold ex_long in Hl. cbn in Hl.
    repeat (destruct Hl as [<-|Hl]; [cbn; split; discriminate|]). destruct Hl.
  - constructor; try reflexivity. cbn. repeat constructor.
Qed.
Example ex_c02_values :
  map (fun A => snd (execute_query (build ex_c02 2) A ex_dirty))
      [[]; [1]; [-1]; [2]; [1;-2]; [2;-2]; [2;2]; ex_long; (-1) :: ex_long]
  = [2; 2; 0; 1; 1; 0; 1; 1; 0].
Proof. vm_compute. reflexivity. Qed.

(* A contradictory list - both x and -x, anywhere in the list, whatever its length - is contained
   in no model, so every strategy (cached root, marker, full recomputation past 20 literals) and
   the core shortcuts answer 0.  (Seeded change C02-r4A: the full recomputation kept one entry per
   variable and answered count(A, last of {x, -x}).) *)
Theorem C02_contradictory_is_zero : forall C n A s x,
  WFQ C n -> in_range n A -> Clean C s -> In x A -> In (- x) A ->
  snd (execute_query (build C n) A s) = 0.
Proof. exact execute_query_contradictory. Qed.
Print Assumptions C02_contradictory_is_zero.

Theorem C02_MCA_contradictory : forall C n A x, In x A -> In (- x) A -> MCA C n A = 0.
Proof. exact MCA_contradictory. Qed.
Print Assumptions C02_MCA_contradictory.

(* non-vacuity: 23 literals (full recomputation), x2 is neither core nor dead, the pair 2, -2 at
   the end; without the pair the count is 1 *)
Definition ex_contra : cfg := ex_long ++ [-2].
Example ex_c02_contra :
  in_range 2 ex_contra /\ In 2 ex_contra /\ In (- 2) ex_contra /\ (20 <? length ex_contra)%nat = true /\
  snd (execute_query (build ex_c02 2) ex_contra ex_dirty) = 0 /\
  snd (execute_query (build ex_c02 2) ex_long ex_dirty) = 1.
Proof.
  split.
  - intros l Hl. unfold ex_contra, ex_long in Hl. cbn in Hl.
    repeat (destruct Hl as [<-|Hl]; [cbn; split; discriminate|]). destruct Hl.
  - split; [right; left; reflexivity|]. split; [apply in_or_app; right; left; reflexivity|].
    split; [vm_compute; reflexivity|]. split; vm_compute; reflexivity.
Qed.
