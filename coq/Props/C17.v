(* C17: concurrent enumeration requests behave as if processed one after another; requests for
   the same assumption set hand out no configuration twice within a cycle.  Property theorems only.

   Model: Model/Cursor.v (abstract page semantics; a configuration is its index in the fixed
   enumeration order of its assumption key, count(A) = cnt key).  The key of a request with the
   assumption list A is enum_key A (Model/Enumerate.v: sorted by feature, repeated literals
   removed -- repair F19 of finding K12); for consistent lists that is the SET of literals
   (C17_key_is_set), so "the same assumption set" below is "the same key".  The repaired protocol
   (reserve under one lock acquisition, then compute) is what /repo HEAD implements; the old
   protocol v0 (read, compute, write under a second acquisition) is what 33d49b8 replaced. *)
From Coq Require Import List ZArith Bool Arith Permutation.
From DD Require Import Model.Circuit Model.Enumerate Model.Cursor Proofs.C06Sort
  Proofs.Cursor Proofs.CursorCycle Proofs.CursorRace Proofs.C17Key.
Import ListNotations.
Close Scope Z_scope. Open Scope nat_scope.

(* Every complete run of the repaired protocol -- any number of requests, same or different keys,
   any interleaving of their reserve and compute steps, any initial cursor, any counts -- returns
   exactly the answers of the sequential run that processes the requests in the order of their
   reserve steps, and ends with the same cursor. *)
Theorem C17_serialisable : forall cnt reqs cur0 es st,
  r_run cnt reqs (r_init cur0 reqs) es st -> r_complete st = true ->
  let ord := reserve_order es in
  Permutation ord (seq 0 (length reqs)) /\
  Permutation (select dreq reqs ord) reqs /\
  seq_run cnt cur0 (select dreq reqs ord) = select [] (r_answers st) ord /\
  (forall k, seq_cursor cnt cur0 (select dreq reqs ord) k = r_cur st k).
Proof. exact serialisable. Qed.
Print Assumptions C17_serialisable.

Theorem C17_serialisable_exists : forall cnt reqs cur0 es st,
  r_run cnt reqs (r_init cur0 reqs) es st -> r_complete st = true ->
  exists ord : list nat,
    Permutation ord (seq 0 (length reqs)) /\
    Permutation (select dreq reqs ord) reqs /\
    seq_run cnt cur0 (select dreq reqs ord) = select [] (r_answers st) ord /\
    (forall k, seq_cursor cnt cur0 (select dreq reqs ord) k = r_cur st k).
Proof. exact serialisable_exists. Qed.
Print Assumptions C17_serialisable_exists.

(* Sequential runs on one key, starting at cursor 0: the pages one after another are
   0,1,..,c-1,0,1,.. (cyc); while at most c indices were handed out none is handed out twice
   (pages pairwise disjoint and duplicate-free); in general every index is handed out exactly
   once per completed cycle; no page is empty. *)
Theorem C17_disjoint_within_cycle : forall cnt k rs cur0,
  0 < cnt k -> cur0 k = 0 ->
  (forall r, In r rs -> rkey r = k /\ 0 < ramount r) ->
  let c := cnt k in
  let pages := seq_run cnt cur0 rs in
  let T := length (concat pages) in
  concat pages = cyc c T /\
  (forall n, length (concat (firstn n pages)) <= c -> NoDup (concat (firstn n pages))) /\
  (forall j, j < c -> count_occ Nat.eq_dec (concat pages) j = T / c + (if j <? T mod c then 1 else 0)) /\
  (forall p, In p pages -> p <> []).
Proof. exact disjoint_within_cycle. Qed.
Print Assumptions C17_disjoint_within_cycle.

(* size of every page: the requested amount, cut at the end of the cycle *)
Theorem C17_page_size : forall cnt cur r, cur (rkey r) < cnt (rkey r) ->
  length (snd (seq_step cnt cur r)) = Nat.min (ramount r) (cnt (rkey r) - cur (rkey r)).
Proof. exact seq_step_size. Qed.
Print Assumptions C17_page_size.

(* The same for concurrent runs of the repaired protocol with arbitrary other keys mixed in: the
   answers of the requests with key k, in the order of their reserve steps, are cyc; in request
   order they are a permutation of it, duplicate-free while at most c were handed out, and every
   configuration occurs once per completed cycle. *)
Theorem C17_concurrent_disjoint : forall cnt reqs cur0 es st k,
  r_run cnt reqs (r_init cur0 reqs) es st -> r_complete st = true ->
  0 < cnt k -> cur0 k = 0 -> (forall r, In r reqs -> 0 < ramount r) ->
  let mine := fun i => on_key k (nth i reqs dreq) in
  let in_reserve_order := select [] (r_answers st) (filter mine (reserve_order es)) in
  let in_request_order := select [] (r_answers st) (filter mine (seq 0 (length reqs))) in
  let T := length (concat in_request_order) in
  concat in_reserve_order = cyc (cnt k) T /\
  Permutation (concat in_request_order) (cyc (cnt k) T) /\
  (T <= cnt k -> NoDup (concat in_request_order)) /\
  (forall j, j < cnt k ->
     count_occ Nat.eq_dec (concat in_request_order) j = T / cnt k + (if j <? T mod cnt k then 1 else 0)).
Proof. exact concurrent_cycle. Qed.
Print Assumptions C17_concurrent_disjoint.

(* F19 (finding K12): requests for the same SET of literals have the same key.  req_of (A, amount) is
   the request the library makes of an assumption list: key = enum_key A.  consistent A: no literal
   together with its complement (implied by count(A) > 0, C06_sat_consistent); same_set A A': the
   same literals, in any order, any literal any number of times. *)
Theorem C17_key_is_set : forall A q,
  consistent A -> same_set A (fst q) -> rkey (req_of q) = enum_key A.
Proof. exact req_key_is_set. Qed.
Print Assumptions C17_key_is_set.

(* ... and therefore page through ONE cycle: sequentially (C17_disjoint_within_cycle for all
   spellings together) *)
Theorem C17_same_set_one_cycle : forall (cnt : key -> nat) A (qs : list (cfg * nat)) (cur0 : Cursor.cursor),
  consistent A -> 0 < cnt (enum_key A) -> cur0 (enum_key A) = 0 ->
  (forall q, In q qs -> same_set A (fst q) /\ 0 < snd q) ->
  let c := cnt (enum_key A) in
  let pages := seq_run cnt cur0 (map req_of qs) in
  let T := length (concat pages) in
  concat pages = cyc c T /\
  (forall n, length (concat (firstn n pages)) <= c -> NoDup (concat (firstn n pages))) /\
  (forall j, j < c -> count_occ Nat.eq_dec (concat pages) j = T / c + (if j <? T mod c then 1 else 0)) /\
  (forall p, In p pages -> p <> []).
Proof. exact same_set_one_cycle. Qed.
Print Assumptions C17_same_set_one_cycle.

(* ... and concurrently (every interleaving of the repaired protocol): every request is `mine`, the
   answers in reserve order are one walk through the cycle, nothing twice within a cycle *)
Theorem C17_same_set_concurrent : forall (cnt : key -> nat) A (qs : list (cfg * nat)) (cur0 : Cursor.cursor) es st,
  let reqs := map req_of qs in
  consistent A -> (forall q, In q qs -> same_set A (fst q) /\ 0 < snd q) ->
  r_run cnt reqs (r_init cur0 reqs) es st -> r_complete st = true ->
  0 < cnt (enum_key A) -> cur0 (enum_key A) = 0 ->
  let mine := fun i => on_key (enum_key A) (nth i reqs dreq) in
  (forall i, i < length reqs -> mine i = true) /\
  let in_reserve_order := select [] (r_answers st) (filter mine (reserve_order es)) in
  let in_request_order := select [] (r_answers st) (filter mine (seq 0 (length reqs))) in
  let T := length (concat in_request_order) in
  concat in_reserve_order = cyc (cnt (enum_key A)) T /\
  Permutation (concat in_request_order) (cyc (cnt (enum_key A)) T) /\
  (T <= cnt (enum_key A) -> NoDup (concat in_request_order)).
Proof. exact same_set_concurrent. Qed.
Print Assumptions C17_same_set_concurrent.

(* REFUTED for the code before F19 (key = the sorted LIST, req_of_v0): `enum a 1` and `enum a 1 1`,
   two of four configurations each: both requests get [0; 1]; with F19 the second gets [2; 3] *)
Theorem C17_key_v0_refuted : exists (cnt : key -> nat) (qs : list (cfg * nat)),
  (forall q, In q qs -> same_set [1%Z] (fst q) /\ 0 < snd q) /\ consistent [1%Z] /\
  seq_run cnt (fun _ => 0) (map req_of_v0 qs) = [[0; 1]; [0; 1]] /\
  ~ NoDup (concat (seq_run cnt (fun _ => 0) (map req_of_v0 qs))) /\
  seq_run cnt (fun _ => 0) (map req_of qs) = [[0; 1]; [2; 3]].
Proof. exact key_v0_refuted. Qed.
Print Assumptions C17_key_v0_refuted.

(* the executable event validator used by the correspondence run is the step relation *)
Theorem C17_valid_event_step : forall cnt reqs st e,
  valid_event cnt reqs st e = true <-> exists st', r_step cnt reqs st e st'.
Proof. exact valid_event_step. Qed.
Print Assumptions C17_valid_event_step.

Theorem C17_exec_all_run : forall cnt reqs es st st',
  r_exec_all cnt reqs st es = Some st' <-> r_run cnt reqs st es st'.
Proof. exact r_exec_all_run. Qed.
Print Assumptions C17_exec_all_run.

(* The old protocol (cursor read and written under separate lock acquisitions) violates the
   property: two requests for 2 of 4 configurations of the same key both get [0;1]. *)
Theorem C17_refuted_race :
  exists cnt reqs cur0 es st,
    v_run cnt reqs (v_init cur0 reqs) es st /\ v_complete st = true /\
    length reqs = 2 /\
    (forall r, In r reqs -> rkey r = [] /\ 0 < ramount r) /\
    fold_right plus 0 (map ramount reqs) <= cnt [] /\ cur0 [] = 0 /\
    (exists x, In x (nth 0 (v_answers st) []) /\ In x (nth 1 (v_answers st) [])) /\
    ~ NoDup (concat (v_answers st)) /\
    (forall ord, Permutation ord [0; 1] ->
       seq_run cnt cur0 (select dreq reqs ord) <> select [] (v_answers st) ord).
Proof. exact refuted_race. Qed.
Print Assumptions C17_refuted_race.

(* ---------- non-vacuity ---------- *)
(* three requests, two keys (count 5 under [1], count 3 under [-2]); interleaving: reserve 1,
   reserve 0, compute 0, reserve 2, compute 2, compute 1 *)
Definition ex_cnt : key -> nat := fun k => if key_eqb k [1%Z] then 5 else 3.
Definition ex_reqs : list request := [mkReq [1%Z] 3; mkReq [1%Z] 4; mkReq [(-2)%Z] 2].
Definition ex_cur0 : cursor := fun _ => 0.
Definition ex_events : list revent := [EReserve 1; EReserve 0; ECompute 0; EReserve 2; ECompute 2; ECompute 1].

Example ex_run_complete :
  exists st, r_run ex_cnt ex_reqs (r_init ex_cur0 ex_reqs) ex_events st /\ r_complete st = true /\
    r_answers st = [[4]; [0; 1; 2; 3]; [0; 1]] /\ r_cur st [1%Z] = 0 /\ r_cur st [(-2)%Z] = 2 /\
    reserve_order ex_events = [1; 0; 2] /\
    seq_run ex_cnt ex_cur0 (select dreq ex_reqs [1; 0; 2]) = [[0; 1; 2; 3]; [4]; [0; 1]].
Proof.
  destruct (r_exec_all ex_cnt ex_reqs (r_init ex_cur0 ex_reqs) ex_events) as [st|] eqn:E; [|vm_compute in E; discriminate].
  exists st. split; [apply r_exec_all_run; exact E|].
  vm_compute in E. injection E as <-. repeat split; reflexivity.
Qed.

(* hypotheses of C17_disjoint_within_cycle / C17_concurrent_disjoint are satisfiable, and the
   conclusion is what one expects: 7 configurations handed out of 5 = one full cycle + 2 *)
Example ex_cycle :
  concat (seq_run ex_cnt ex_cur0 [mkReq [1%Z] 3; mkReq [1%Z] 4; mkReq [1%Z] 2]) = [0; 1; 2; 3; 4; 0; 1] /\
  cyc 5 7 = [0; 1; 2; 3; 4; 0; 1] /\
  seq_run ex_cnt ex_cur0 [mkReq [1%Z] 3; mkReq [1%Z] 4; mkReq [1%Z] 2] = [[0; 1; 2]; [3; 4]; [0; 1]].
Proof. repeat split; vm_compute; reflexivity. Qed.

Example ex_valid_event :
  valid_event ex_cnt ex_reqs (r_init ex_cur0 ex_reqs) (EReserve 1) = true /\
  valid_event ex_cnt ex_reqs (r_init ex_cur0 ex_reqs) (ECompute 1) = false.
Proof. split; vm_compute; reflexivity. Qed.

(* F19: the hypotheses of C17_same_set_one_cycle hold for three spellings of {-3, 1}, and the
   statement evaluated: 2 + 2 + 1 indices of a cycle of 4 = [0;1] [2;3] [0] *)
Example ex_same_set :
  let A := [(-3)%Z; 1%Z] in
  let qs := [([(-3)%Z; 1%Z], 2); ([1%Z; (-3)%Z; 1%Z; (-3)%Z], 2); ([1%Z; 1%Z; (-3)%Z], 1)] in
  consistent A /\ (forall q, In q qs -> same_set A (fst q) /\ 0 < snd q) /\
  map rkey (map req_of qs) = [[1%Z; (-3)%Z]; [1%Z; (-3)%Z]; [1%Z; (-3)%Z]] /\
  seq_run (fun _ => 4) (fun _ => 0) (map req_of qs) = [[0; 1]; [2; 3]; [0]].
Proof.
  cbv zeta. split; [|split; [|split; vm_compute; reflexivity]].
  - intros x y [<-|[<-|[]]] [<-|[<-|[]]] H; try reflexivity; cbn in H; discriminate.
  - intros q [<-|[<-|[<-|[]]]]; cbn [fst snd]; (split; [intros l; cbn [In]; tauto|auto with arith]).
Qed.
