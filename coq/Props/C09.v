(* C09: t-wise sampling.
   Full:    the index/interaction iterators of t_iterator.rs (Model/TIter.v);
            the result checker (Spec/TwiseOk.v);
            the PLAIN sampler Ddnnf::sample_t_wise (ZippingMerger + SimilarityMerger, Model/TwiseCfg.v,
            TwiseMerge.v, TwisePipeline.v): C09_sample_t_wise_covers - for every order oracle and every
            trim choice the model returns a sample accepted by the result checker.  Before the repair
            F13 the sampler panicked on a node that lists a child twice (finding K36):
            C09_sample_t_wise_repeated_child_refuted is about that pipeline (sample_t_wise_v0).
            the FITNESS-GUIDED sampler ExtendedDdnnf::sample_t_wise (Model/TwiseFitness.v) for t <= n:
            C09_sample_t_wise_fitness_covers; refuted for t > n (finding K11):
            C09_sample_t_wise_fitness_refuted_t_exceeds_n.
   Property theorems only; proofs in Proofs/TIterProof.v, TwiseOkProof.v, C09Pipeline.v, Twise*.v;
   status in bin/propcfg/C09.py. *)
From Coq Require Import List ZArith Bool Lia Permutation Sorted.
From DD Require Import Model.Circuit Model.Query Model.TIter
  Model.TwiseCfg Model.TwiseMerge Model.TwisePipeline Model.TwiseFitness Model.TwiseSteps Spec.TwiseOk
  Proofs.Semantics Proofs.CountsA Proofs.QueryDefs Proofs.DetCert Proofs.C03Proof
  Proofs.TIterProof Proofs.TwiseOkProof Proofs.C09Pipeline Proofs.TwiseBase Proofs.TwiseShuffle
  Proofs.TwiseMain Proofs.TwiseFitMain Props.C01 Props.C03.
Import ListNotations.

(* ---------------- the iterator (full) ---------------- *)
Open Scope nat_scope.

(* For 1 <= t <= m, TIndicesIter::new(m, t) yields exactly the list dec_tuples m t 0 and then None -
   no panic, in either build profile (dbg), with any fuel above the number of tuples. *)
Theorem C09_titer : forall dbg m t fuel,
  1 <= t -> t <= m -> length (dec_tuples m t 0) < fuel ->
  t_indices dbg fuel m t = (dec_tuples m t 0, TDone).
Proof. exact titer_correct. Qed.
Print Assumptions C09_titer.

(* ... and that list consists of every strictly decreasing t-tuple of indices below m (its reverse is
   strictly increasing), each exactly once. *)
Theorem C09_titer_spec : forall m t x,
  In x (dec_tuples m t 0) <->
  length x = t /\ Sorted lt (rev x) /\ Forall (fun i => i < m) x.
Proof. exact dec_tuples_spec. Qed.
Print Assumptions C09_titer_spec.

Theorem C09_titer_nodup : forall m t, NoDup (dec_tuples m t 0).
Proof. exact dec_tuples_nodup0. Qed.
Print Assumptions C09_titer_nodup.

(* t = 0: one empty tuple, then None.  t > m under overflow checks (dev profile): the tuple
   [t-1; ...; 0] - whose entries are not valid positions - is produced and the second next() panics
   ("attempt to subtract with overflow").  Every caller clamps t with min(t, len). *)
Theorem C09_titer_t0 : forall dbg m fuel, 2 <= fuel -> t_indices dbg fuel m 0 = ([[]], TDone).
Proof. exact titer_t0. Qed.
Print Assumptions C09_titer_t0.

Theorem C09_titer_t_above_m_checked : forall m t fuel, m < t -> 2 <= fuel ->
  t_indices true fuel m t = ([rev (seq 0 t)], TPanic).
Proof. exact titer_overflow_checked. Qed.
Print Assumptions C09_titer_t_above_m_checked.

(* without overflow checks (release profile) t = m + 1 stops after that one tuple, t >= m + 2 keeps
   producing tuples (the model and the implementation agree on the first 512, correspondence c09iter);
   bounded instances: *)
Example C09_titer_t_above_m_wrapping :
  t_indices false 100 2 3 = ([[2; 1; 0]], TDone) /\
  snd (t_indices false 100 2 4) = TFuel /\ snd (t_indices false 100 1 3) = TFuel.
Proof. repeat split; vm_compute; reflexivity. Qed.

(* TInteractionIter over a slice of non-zero literals *)
Theorem C09_tinter : forall dbg lits t fuel,
  1 <= t -> t <= length lits -> ~ In 0%Z lits -> length (dec_tuples (length lits) t 0) < fuel ->
  t_interactions dbg fuel lits t =
  (map (map (fun i => nth i lits 0%Z)) (dec_tuples (length lits) t 0), TDone).
Proof. exact tinter_correct. Qed.
Print Assumptions C09_tinter.

(* every set of t distinct literals of the slice is one of the outputs *)
Theorem C09_tinter_covers : forall dbg lits t fuel,
  1 <= t -> t <= length lits -> ~ In 0%Z lits -> length (dec_tuples (length lits) t 0) < fuel ->
  forall I, NoDup I -> incl I lits -> length I = t ->
  exists o, In o (fst (t_interactions dbg fuel lits t)) /\ Permutation o I.
Proof. exact tinter_covers. Qed.
Print Assumptions C09_tinter_covers.

(* the unit test of t_iterator.rs *)
Example C09_titer_5_3 :
  t_indices true 100 5 3 =
  ([[2;1;0]; [3;1;0]; [4;1;0]; [3;2;0]; [4;2;0]; [4;3;0]; [3;2;1]; [4;2;1]; [4;3;1]; [4;3;2]], TDone).
Proof. vm_compute. reflexivity. Qed.

(* ---------------- the result checker (full) ---------------- *)
Close Scope nat_scope.
Open Scope Z_scope.

Theorem C09_twise_ok_sound_complete : forall C n t S,
  twise_ok C n t S = true <->
  (forall c, In c S -> In c (Models C n)) /\
  (forall I, valid_interaction C n t I -> exists c, In c S /\ incl I c).
Proof. exact twise_ok_sound_complete. Qed.
Print Assumptions C09_twise_ok_sound_complete.

(* non-vacuity on x1 <-> x2: both answers occur, a non-model and an incomplete configuration are
   rejected, and valid interactions exist *)
Example C09_twise_ok_ex :
  twise_ok ex_iff 2 2 [[1; 2]; [-1; -2]] = true /\
  twise_ok ex_iff 2 2 [[1; 2]] = false /\
  twise_ok ex_iff 2 1 [[1; 2]; [-1; 2]] = false /\
  twise_ok ex_iff 2 1 [[1; 2]; [-1; 0]] = false /\
  twise_ok ex_iff 2 5 [[-1; -2]; [1; 2]] = true /\
  twise_first_uncovered ex_iff 2 2 [[1; 2]] = Some [-1; -2].
Proof. repeat split; vm_compute; reflexivity. Qed.
Example C09_valid_interaction_ex : valid_interaction ex_iff 2 2 [-2; -1].
Proof.
  repeat split.
  - repeat constructor; cbn; intuition lia.
  - destruct H as [<-|[<-|[]]]; cbn; lia.
  - destruct H as [<-|[<-|[]]]; cbn; lia.
  - exists [-1; -2]. split; [vm_compute; auto|]. intros l [<-|[<-|[]]]; cbn; auto.
Qed.

(* ---------------- the SAT-guarded steps of the pipeline (partial: abstract steps) ---------------- *)

(* C09_cover_step, abstract form: with an oracle `ok` that is exact for "extendable to a model of
   the (sub-)root" on the literal lists in R, one cover_with_caching step keeps every configuration
   extendable, makes an extendable interaction covered, and never loses coverage. *)
Theorem C09_cover_step : forall (ok : cfg -> bool) (M : list cfg) (compat : cfg -> cfg -> Prop)
    (R : cfg -> Prop),
  (forall A B, R A -> R B -> R (A ++ B)) ->
  (forall A, R A -> (ok A = true <-> exists m, In m M /\ compat A m)) ->
  forall Cs P I Cs' P',
  Forall (fun c => R c /\ exists m, In m M /\ compat c m) (Cs ++ P) -> R I ->
  cover_with_caching ok Cs P I = (Cs', P') ->
  Forall (fun c => R c /\ exists m, In m M /\ compat c m) (Cs' ++ P') /\
  ((exists m, In m M /\ compat I m) -> exists c, In c (Cs' ++ P') /\ incl I c) /\
  (forall J, covers (Cs ++ P) J = true -> covers (Cs' ++ P') J = true).
Proof. exact cover_step. Qed.
Print Assumptions C09_cover_step.

(* instantiated with the SAT model proved exact in C03, at the root ... *)
Theorem C09_cover_step_root : forall C n, WFQ C n -> 0 < root_count C ->
  forall Cs P I Cs' P',
  Forall (fun c => in_range n c /\ exists m, In m (Models C n) /\ incl c m) (Cs ++ P) -> in_range n I ->
  cover_with_caching (sat (build C n)) Cs P I = (Cs', P') ->
  Forall (fun c => in_range n c /\ exists m, In m (Models C n) /\ incl c m) (Cs' ++ P') /\
  ((exists m, In m (Models C n) /\ incl I m) -> exists c, In c (Cs' ++ P') /\ incl I c) /\
  (forall J, covers (Cs ++ P) J = true -> covers (Cs' ++ P') J = true).
Proof. exact cover_step_root. Qed.
Print Assumptions C09_cover_step_root.

(* ... and at a live sub-root r (is_sat_in_subgraph_cached on a fresh state): "extendable" = no
   literal refuted by the core and some partial configuration enumerated at r is not contradicted *)
Theorem C09_cover_step_subroot : forall C n r,
  WFQ C n -> (r < length C)%nat -> 0 < nth r (counts C) 0 ->
  let ok := fun A => snd (sat_propagate (build C n) A (map (fun _ => false) C) (Some r)) in
  let ExtR := fun A => existsb (makes_unsat (build C n)) A = false /\
                       exists c, In c (nth r (enums C) []) /\ okA A c = true in
  forall Cs P I Cs' P',
  Forall ExtR (Cs ++ P) -> cover_with_caching ok Cs P I = (Cs', P') ->
  Forall ExtR (Cs' ++ P') /\
  (ExtR I -> exists c, In c (Cs' ++ P') /\ incl I c) /\
  (forall J, covers (Cs ++ P) J = true -> covers (Cs' ++ P') J = true).
Proof. exact cover_step_subroot. Qed.
Print Assumptions C09_cover_step_subroot.

(* the SAT call `cover` really makes - the interaction propagated on a clone of the state cached
   after propagating the configuration - answers like a fresh call on the union *)
Theorem C09_cached_call_is_fresh : forall C n r c I,
  WFQ C n -> (r < length C)%nat -> 0 < nth r (counts C) 0 ->
  let d := build C n in
  let m0 := map (fun _ => false) C in
  let st1 := sat_propagate d c m0 (Some r) in
  snd st1 = true ->
  snd (sat_propagate d I (fst st1) (Some r)) = snd (sat_propagate d (c ++ I) m0 (Some r)).
Proof. exact cached_call_is_fresh. Qed.
Print Assumptions C09_cached_call_is_fresh.

(* C09_complete at the root: completing an extendable partial configuration feature by feature
   with SAT checks yields (the literal set of) a model that contains it *)
Theorem C09_complete_root : forall C n, WFQ C n -> 0 < root_count C ->
  forall c, in_range n c -> (exists m, In m (Models C n) /\ incl c m) ->
  let c' := complete_cfg (sat (build C n)) (zseq 1 n) c in
  incl c c' /\ exists m, In m (Models C n) /\ incl c' m /\ incl m c'.
Proof. exact complete_root. Qed.
Print Assumptions C09_complete_root.

(* non-vacuity: on x1 <-> x2 the hypotheses hold and the steps do what they say *)
Example C09_steps_ex :
  WFQ ex_iff 2 /\ 0 < root_count ex_iff /\
  cover_with_caching (sat (build ex_iff 2)) [] [] [1] = ([], [[1]]) /\
  cover_with_caching (sat (build ex_iff 2)) [] [[1]] [-2] = ([], [[1]; [-2]]) /\
  cover_with_caching (sat (build ex_iff 2)) [] [[1]] [2] = ([], [[1; 2]]) /\
  cover_with_caching (sat (build ex_iff 2)) [] [[1]] [1; -2] = ([], [[1]]) /\
  complete_cfg (sat (build ex_iff 2)) (zseq 1 2) [-2] = [-2; -1].
Proof.
  split; [apply ex_iff_wfq|]. split; [apply ex_iff_wfq|]. repeat split; vm_compute; reflexivity.
Qed.

(* ---------------- the pipeline of the plain sampler (full) ---------------- *)

(* what the pipeline model uses for TInteractionIter::new(lits, t), t <= len: exactly the iterator's outputs *)
Theorem C09_tints_is_iterator : forall dbg lits t fuel,
  (t <= length lits)%nat -> ~ In 0 lits -> (S (length (dec_tuples (length lits) t 0)) < fuel)%nat ->
  t_interactions dbg fuel lits t = (tints lits t, TDone).
Proof. exact tints_is_iterator. Qed.
Print Assumptions C09_tints_is_iterator.

(* the thread-RNG shuffle inside Candidate::is_t_wise_covered_by cannot change its answer *)
Theorem C09_shuffle_irrelevant : forall (S : sample) (lits lits' : list Z) (k : nat),
  NoDup lits -> Permutation lits lits' ->
  forallb (s_covers S) (tints lits' k) = forallb (s_covers S) (tints lits k).
Proof. exact sim_covered_perm. Qed.
Print Assumptions C09_shuffle_irrelevant.

(* Ddnnf::sample_t_wise (ZippingMerger + SimilarityMerger, trim_and_resample,
   complete_partial_configs; cached SAT states as in the Rust): for every WFQ circuit over n >= 1
   features with a model, every t (t >= 1 is not
   needed: for t = 0 the sample is merely non-empty), EVERY iteration
   order of the hash sets of cross interactions (ord_int), every order of equally long samples after
   sort_unstable (ord_sort), every shuffle of the literals to resample (ord_shuf) and EVERY choice of
   the configurations that are trimmed (trim_pick: the f64 ranks are abstracted by this oracle), the
   sampler does not panic and returns ResultWithSample S with twise_ok C n t S = true. *)
Theorem C09_sample_t_wise_covers : forall (C : circuit) (n t : nat),
  WFQ C n ->
  forall (ord_int : nat -> nat -> nat -> list cfg -> list cfg)
         (ord_sort : nat -> list sample -> list sample)
         (trim_pick : list (list Z) -> list bool)
         (ord_shuf : list Z -> list Z),
  (forall a b c l, Permutation (ord_int a b c l) l) ->
  (forall a l, Permutation (ord_sort a l) l) ->
  (forall l, Permutation (ord_shuf l) l) ->
  (1 <= n)%nat -> 0 < root_count C ->
  exists S, sample_t_wise (build C n) t ord_int ord_sort trim_pick ord_shuf = Some (WithSample S) /\
            twise_ok C n t (map c_lits (s_iter S)) = true.
Proof. exact sample_t_wise_covers. Qed.
Print Assumptions C09_sample_t_wise_covers.

(* the same in semantic terms (C09_twise_ok_sound_complete): only complete configurations that are
   models, every valid interaction of min(t,n) literals inside some configuration *)
Theorem C09_sample_t_wise_sound_complete : forall (C : circuit) (n t : nat),
  WFQ C n ->
  forall ord_int ord_sort trim_pick ord_shuf,
  (forall a b c l, Permutation (ord_int a b c l) l) ->
  (forall a l, Permutation (ord_sort a l) l) ->
  (forall l, Permutation (ord_shuf l) l) ->
  (1 <= n)%nat -> 0 < root_count C ->
  exists r, sample_t_wise (build C n) t ord_int ord_sort trim_pick ord_shuf = Some r /\
            (forall c, In c (sres_configs r) -> In c (Models C n)) /\
            (forall I, valid_interaction C n t I -> exists c, In c (sres_configs r) /\ incl I c).
Proof.
  intros C n t HQ oi os tp sh H1 H2 H3 Hn Hrc.
  destruct (sample_t_wise_covers C n t HQ oi os tp sh H1 H2 H3 Hn Hrc) as [S [HS Hok]].
  exists (WithSample S). split; [exact HS|]. now apply twise_ok_sound_complete.
Qed.
Print Assumptions C09_sample_t_wise_sound_complete.

(* Finding K36 and its repair F13.  BEFORE the repair remove_unneeded removed a child's partial sample
   once per occurrence in the child list (sample_t_wise_v0 = the pipeline with remove_unneeded_v0):
   x1 /\ x2 /\ true /\ true with the true node listed twice is a WFQ circuit on which that sampler
   panics for every oracle (`expect("Sample does not exist!")` on the second occurrence).  Confirmed on
   the code before the repair with the c2d file  nnf 4 4 2 / A 0 / L 1 / L 2 / A 4 0 0 1 2.
   With children.iter().unique() (the model's remove_unneeded) the theorems above need no hypothesis
   on the child lists; the same circuit now yields the one model. *)
Definition ex_dup : circuit := [TrueN; Lit 1; Lit 2; And [2; 1; 0; 0]%nat].
Theorem C09_sample_t_wise_repeated_child_refuted :
  exists C n, WFQ C n /\ (1 <= n)%nat /\ 0 < root_count C /\ nodup_children C = false /\
    forall t ord_int ord_sort trim_pick ord_shuf,
      sample_t_wise_v0 (build C n) t ord_int ord_sort trim_pick ord_shuf = None.
Proof.
  exists ex_dup, 2%nat. split; [apply check_wf_WFQ; vm_compute; reflexivity|].
  split; [lia|]. split; [vm_compute; reflexivity|]. split; [vm_compute; reflexivity|].
  intros t oi os tp sh. vm_compute. reflexivity.
Qed.
Print Assumptions C09_sample_t_wise_repeated_child_refuted.

Example C09_sample_t_wise_repeated_child_repaired :
  WFQ ex_dup 2 /\ nodup_children ex_dup = false /\
  option_map sres_configs
    (sample_t_wise (build ex_dup 2) 2 (fun _ _ _ l => l) (fun _ l => l) (fun _ => []) (fun l => l))
  = Some [[1; 2]].
Proof. split; [apply check_wf_WFQ; vm_compute; reflexivity|]. split; vm_compute; reflexivity. Qed.

(* non-vacuity: x1 <-> x2 satisfies the hypotheses; with the identity oracles and nothing trimmed
   the model returns the two models, with reversing oracles and everything trimmed as well *)
Example C09_sample_t_wise_ex :
  WFQ ex_iff 2 /\ nodup_children ex_iff = true /\ 0 < root_count ex_iff /\
  option_map sres_configs
    (sample_t_wise (build ex_iff 2) 2 (fun _ _ _ l => l) (fun _ l => l) (fun _ => []) (fun l => l))
  = Some [[-1; -2]; [1; 2]] /\
  option_map (fun r => twise_ok ex_iff 2 2 (sres_configs r))
    (sample_t_wise (build ex_iff 2) 2 (fun _ _ _ l => rev l) (fun _ l => rev l)
                   (fun l => map (fun _ => true) l) (fun l => rev l))
  = Some true.
Proof.
  split; [apply ex_iff_wfq|]. split; [vm_compute; reflexivity|]. split; [apply ex_iff_wfq|].
  split; vm_compute; reflexivity.
Qed.

(* ---------------- the fitness-guided variant ---------------- *)

(* ExtendedDdnnf::sample_t_wise (Model/TwiseFitness.v: AttributeZippingMerger, AttributeSimilarityMerger,
   cover_with_caching_sorted, trim_and_resample, complete_partial_configs_optimal = calc_best_config of
   C20; objective values in Z): for every WFQ circuit, n >= 1 features,
   root_count > 0, EVERY vector of objective values, every t <= n, every trim choice and every
   shuffle, the sampler returns ResultWithSample S with twise_ok C n t S = true.  [full for t <= n] *)
Theorem C09_sample_t_wise_fitness_covers : forall (C : circuit) (n t : nat) (vals : list Z),
  WFQ C n ->
  forall (trim_pick : list (list Z) -> list bool) (ord_shuf : list Z -> list Z),
  (forall l, Permutation (ord_shuf l) l) ->
  (1 <= n)%nat -> 0 < root_count C -> (t <= n)%nat ->
  exists S, sample_t_wise_fit (build C n) t vals trim_pick ord_shuf = Some (WithSample S) /\
            twise_ok C n t (map c_lits (s_iter S)) = true.
Proof. exact sample_t_wise_fit_covers. Qed.
Print Assumptions C09_sample_t_wise_fitness_covers.

(* ... and it is FALSE for t > n (finding K11): on (x1 | -x1) & (x2 | -x2) - what the loader makes of
   the d4 file `t 1 0` with 2 features - with t = 3 and objective values 1 1 the sampler answers
   [1 2; -1 -2]: the valid interactions {1,-2} and {-1,2} are in no configuration.  The and-merge
   draws the parts of a cross interaction from the literal lists with sizes min(len,k), min(len,t-k):
   for t > n each candidate holds both polarities of a feature.  (The plain sampler covers them:
   C09_sample_t_wise_covers has no bound on t.) *)
Definition ex_free2 : circuit := [Lit 1; Lit (-1); Or [0; 1]%nat; Lit 2; Lit (-2); Or [3; 4]%nat; And [2; 5]%nat].
Theorem C09_sample_t_wise_fitness_refuted_t_exceeds_n :
  exists C n t vals (trim_pick : list (list Z) -> list bool) (ord_shuf : list Z -> list Z),
    WFQ C n /\ (1 <= n)%nat /\ 0 < root_count C /\ (n < t)%nat /\
    (forall l, Permutation (ord_shuf l) l) /\
    exists S, sample_t_wise_fit (build C n) t vals trim_pick ord_shuf = Some (WithSample S) /\
              map c_lits (s_iter S) = [[1; 2]; [-1; -2]] /\
              twise_ok C n t (map c_lits (s_iter S)) = false /\
              twise_first_uncovered C n t (map c_lits (s_iter S)) = Some [1; -2].
Proof.
  exists ex_free2, 2%nat, 3%nat, [1; 1], (fun _ => []), (fun l => l).
  split; [apply check_wf_WFQ; vm_compute; reflexivity|].
  split; [lia|]. split; [vm_compute; reflexivity|]. split; [lia|]. split; [intros l; apply Permutation_refl|].
  eexists. split; [vm_compute; reflexivity|]. repeat split; vm_compute; reflexivity.
Qed.
Print Assumptions C09_sample_t_wise_fitness_refuted_t_exceeds_n.

(* non-vacuity: the same circuit with t = 2 <= n *)
Example C09_sample_t_wise_fitness_ex :
  WFQ ex_free2 2 /\ nodup_children ex_free2 = true /\ 0 < root_count ex_free2 /\
  option_map sres_configs (sample_t_wise_fit (build ex_free2 2) 2 [1; 1] (fun _ => []) (fun l => l))
  = Some [[1; 2]; [-1; -2]; [1; -2]; [-1; 2]].
Proof.
  split; [apply check_wf_WFQ; vm_compute; reflexivity|]. split; [vm_compute; reflexivity|].
  split; vm_compute; reflexivity.
Qed.

(* C09_trim / C09_or_merge / C09_and_zip of the design are the lemmas trim_ok (Proofs/TwiseMain.v),
   or_merge_spec (TwiseOr.v), merge_cov (TwiseAnd.v); for the fitness variant merge_fit_cov
   (TwiseFitMerge.v), or_merge_fit_spec (TwiseFitMain.v). *)
