(* C10: save / reload.  Property theorems only.
   Model: Writer.v (persisting.rs), Lexer.v (c2d_lexer.rs), LoadC2d.v (parser.rs build_c2d_ddnnf,
   distribute_building; intermediate_representation.rs rebuild over petgraph). *)
From Coq Require Import List ZArith NArith Bool String.
From DD Require Import Model.Circuit Model.Writer Model.Lexer Model.LoadC2d
  Proofs.PassLemmas Proofs.Enum Proofs.Semantics Proofs.DetCert Proofs.Renum Proofs.C10Lex
  Proofs.C10Load Proofs.C10Total.
Import ListNotations.

(* (a) Character level: the lexer reads back every line the writer prints, for every node whose
   numbers are values of the Rust types (child indices and the child count < 2^64, literal any
   i32 including 0 and -2^31).  `token_of` maps a zero-child And/Or (written `A 0 ` / `O 0 0 `)
   to the true / false token, every other node to its own token with decision slot 0.
   The result is LexOk: neither a lexer error nor one of the modelled panics. *)
Theorem C10_lex_print : forall nd : ntype,
  node_in_range nd -> lex_line_c2d (print_node nd) = Some (token_of nd).
Proof. exact lex_print. Qed.
Print Assumptions C10_lex_print.

Theorem C10_lex_print_res : forall nd : ntype,
  node_in_range nd -> lex_line_c2d_res (print_node nd) = LexOk (token_of nd).
Proof. exact lex_print_res. Qed.
Print Assumptions C10_lex_print_res.

(* side lemma: an And / Or WITH children is never captured by the prefix alternatives
   `A 0` (true) and `O 0 0` (false) that `alt` tries first (no hypothesis on the numbers) *)
Theorem C10_and_not_true : forall cs : list nat,
  cs <> [] -> lex_true (print_node (And cs)) = LexErr.
Proof. exact tag_A0_children. Qed.
Print Assumptions C10_and_not_true.

Theorem C10_or_not_false : forall cs : list nat,
  cs <> [] -> lex_false (print_node (Or cs)) = LexErr.
Proof. exact tag_O00_children. Qed.
Print Assumptions C10_or_not_false.

Theorem C10_header : forall nodes n : nat,
  usize_ok (N.of_nat nodes) -> usize_ok (N.of_nat n) ->
  lex_line_c2d (print_header nodes n) = Some (THeader (N.of_nat nodes) 0 (N.of_nat n)).
Proof. exact lex_header_print. Qed.
Print Assumptions C10_header.

(* (b) The written file, lexed the way distribute_building/build_c2d_ddnnf lex it (first line
   trimmed), is the token list of the vector with header (|C|, 0, n); read as a circuit in file
   order it is C itself up to zero-child gates. *)
Theorem C10_file_is_circuit : forall (C : circuit) (n : nat),
  file_in_range C n ->
  lex_lines (write_c2d C n) = Some (tokens_of C n) /\
  read_c2d (tokens_of C n) = Some (map norm C, n).
Proof. exact file_is_circuit. Qed.
Print Assumptions C10_file_is_circuit.

(* ... and that circuit is smooth, decomposable, deterministic over the same n features,
   denotes the same function and has the same count; it is literally C when no gate is empty *)
Theorem C10_file_wf : forall (C : circuit) (n : nat),
  WF C n ->
  WF (map norm C) n /\
  (forall s, eval_root s (map norm C) = eval_root s C) /\
  root_count (map norm C) = root_count C /\
  (nonempty_gates C = true -> map norm C = C).
Proof. exact file_wf. Qed.
Print Assumptions C10_file_wf.

(* (c) Reloading: whenever the loader model returns a vector for the written text, it has the
   same n and denotes the same function (no well-formedness hypothesis is needed: a successful
   load already implies idx_ok C). *)
Theorem C10_reload_sem : forall (C C' : circuit) (n n' : nat),
  file_in_range C n -> (N.of_nat n < two32)%N ->
  load_c2d_lines (write_c2d C n) = Some (C', n') ->
  n' = n /\ forall s, eval_root s C' = eval_root s C.
Proof. exact reload_lines_sem. Qed.
Print Assumptions C10_reload_sem.

(* (d) the reloaded vector is again well-formed ... *)
Theorem C10_reload_wf : forall (C C' : circuit) (n n' : nat),
  file_in_range C n -> WF C n ->
  load_c2d_lines (write_c2d C n) = Some (C', n') -> WF C' n.
Proof. exact reload_lines_wf. Qed.
Print Assumptions C10_reload_wf.

(* ... so the cached counts agree (C01) ... *)
Theorem C10_reload_count : forall (C C' : circuit) (n n' : nat),
  file_in_range C n -> WF C n ->
  load_c2d_lines (write_c2d C n) = Some (C', n') -> root_count C' = root_count C.
Proof. exact reload_lines_count. Qed.
Print Assumptions C10_reload_count.

(* ... and the truth tables are equal, hence every specification-level answer (model count under
   assumptions, satisfiability, core/dead, model set, atomic sets) is the same. *)
Theorem C10_reload_models : forall (C C' : circuit) (n n' : nat),
  file_in_range C n ->
  load_c2d_lines (write_c2d C n) = Some (C', n') ->
  Models C' n = Models C n /\
  (forall A, ModelsA C' n A = ModelsA C n A) /\ (forall A, MCA C' n A = MCA C n A).
Proof. exact reload_lines_models. Qed.
Print Assumptions C10_reload_models.

(* the structural content of (c)/(d): the reloaded vector is a renumbering of the saved one
   (nodes in DFS post-order from the last line, children reversed, unreachable lines dropped) *)
Theorem C10_reload_renum : forall (C C' : circuit) (n n' : nat),
  load_c2d (tokens_of C n) = Some (C', n') ->
  idx_ok C = true /\ exists out, Renum (map norm C) C' out.
Proof. exact load_tokens_renum. Qed.
Print Assumptions C10_reload_renum.

(* the loader does not panic on the tokens of an indexed non-empty vector: the DFS finishes
   within its fuel and emits every node after all its children, so every `unwrap` of rebuild
   succeeds *)
Theorem C10_reload_defined : forall (C : circuit) (n : nat),
  idx_ok C = true -> C <> [] -> (N.of_nat n < two32)%N ->
  exists C', load_c2d (tokens_of C n) = Some (C', n).
Proof. exact load_tokens_total. Qed.
Print Assumptions C10_reload_defined.

(* C10 as a whole, for every well-formed model whose numbers are values of the Rust types:
   saving and loading the written text succeeds and gives a well-formed vector over the same
   n features with the same function, the same cached count and the same truth table. *)
Theorem C10_save_reload : forall (C : circuit) (n : nat),
  WF C n -> file_in_range C n -> (N.of_nat n < two32)%N ->
  exists C', load_c2d_lines (write_c2d C n) = Some (C', n) /\
             WF C' n /\
             (forall s, eval_root s C' = eval_root s C) /\
             root_count C' = root_count C /\
             Models C' n = Models C n.
Proof. exact save_reload. Qed.
Print Assumptions C10_save_reload.

(* ---------- non-vacuity ---------- *)
Local Open Scope string_scope.

(* the vector ddnnife holds after loading tests/data/small_ex_c2d.nnf *)
Definition small_ex : circuit :=
  [Lit 1; Lit 2; Lit (-3); And [2;1]%nat; Lit (-2); Lit 3; And [5;4]%nat; Or [6;3]%nat;
   Lit 4; Lit (-4); Or [9;8]%nat; And [10;7;0]%nat].

Ltac node_ok :=
  cbn [node_in_range]; unfold i32_ok, usize_ok;
  repeat first [ split | apply Forall_cons | apply Forall_nil | exact I
               | (vm_compute; reflexivity) | (vm_compute; discriminate) ].

Example small_ex_hyps : file_in_range small_ex 4 /\ WF small_ex 4 /\ (N.of_nat 4 < two32)%N.
Proof.
  split; [|split].
  - unfold file_in_range, small_ex. node_ok.
  - apply check_wf_sound. vm_compute. reflexivity.
  - vm_compute. reflexivity.
Qed.

Example small_ex_written :
  write_c2d small_ex 4 =
  ["nnf 12 0 4"; "L 1"; "L 2"; "L -3"; "A 2 2 1"; "L -2"; "L 3"; "A 2 5 4"; "O 0 2 6 3";
   "L 4"; "L -4"; "O 0 2 9 8"; "A 3 10 7 0"].
Proof. vm_compute. reflexivity. Qed.

Example small_ex_reloaded :
  load_c2d_lines (write_c2d small_ex 4) =
  Some ([Lit (-4); Lit 4; Or [1;0]%nat; Lit 3; Lit (-2); And [4;3]%nat; Lit (-3); Lit 2;
         And [7;6]%nat; Or [8;5]%nat; Lit 1; And [10;9;2]%nat], 4%nat).
Proof. vm_compute. reflexivity. Qed.

(* a true node, a 3-ary Or, 3-ary Ands *)
Definition ex_true_nary : circuit :=
  [Lit 1; Lit (-1); Lit 2; Lit (-2); Lit 3; Lit (-3); And [0;3;5]%nat; And [1;2;5]%nat;
   And [1;3;4]%nat; Or [6;7;8]%nat; TrueN; And [9;10]%nat].

Example ex_true_nary_ok :
  WF ex_true_nary 3 /\
  write_c2d ex_true_nary 3 =
    ["nnf 12 0 3"; "L 1"; "L -1"; "L 2"; "L -2"; "L 3"; "L -3"; "A 3 0 3 5"; "A 3 1 2 5";
     "A 3 1 3 4"; "O 0 3 6 7 8"; "A 0"; "A 2 9 10"] /\
  load_c2d_lines (write_c2d ex_true_nary 3) =
    Some ([Lit 1; Lit (-2); Lit (-3); And [2;1;0]%nat; Lit (-1); Lit 2; And [2;5;4]%nat; Lit 3;
           And [7;1;4]%nat; Or [8;6;3]%nat; TrueN; And [10;9]%nat], 3%nat) /\
  root_count ex_true_nary = 3%Z.
Proof.
  split; [apply check_wf_sound; vm_compute; reflexivity|].
  split; [vm_compute; reflexivity|]. split; vm_compute; reflexivity.
Qed.

(* what the prefix alternatives do with other input: the model follows nom, it does not
   "repair" the lexer *)
Example lexer_prefix_semantics :
  lex_line_c2d_res "A 0 " = LexOk TTrue /\            (* a zero-child And as written by the writer *)
  lex_line_c2d_res "A 01 5" = LexOk TTrue /\          (* tag("A 0") is a prefix test *)
  lex_line_c2d_res "O 0 0 " = LexOk TFalse /\
  lex_line_c2d_res "A 3 1 2 x" = LexOk (TAnd [1;2]%N) /\  (* the count is dropped, trailing text ignored *)
  lex_line_c2d_res "O 5" = LexPanic /\                (* second nums.remove(0) *)
  lex_line_c2d_res "nnf 5 6" = LexPanic /\            (* nums[2] *)
  lex_line_c2d_res "L 2147483648" = LexPanic /\       (* parse::<i32>().unwrap() *)
  lex_line_c2d_res "L -2147483648" = LexOk (TLit (-2147483648)) /\
  lex_line_c2d_res "A 1 18446744073709551616" = LexPanic /\
  lex_line_c2d_res "B 1" = LexErr.
Proof. repeat split; vm_compute; reflexivity. Qed.

(* zero-child gates come back as constants *)
Example empty_gates_reload :
  load_c2d_lines (write_c2d [Lit 1; And []; And [0;1]%nat] 1) = Some ([Lit 1; TrueN; And [1;0]%nat], 1%nat).
Proof. vm_compute. reflexivity. Qed.
