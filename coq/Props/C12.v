(* C12: clause-update / undo-update / save-cnf.  Property theorems only (proofs:
   Proofs/ClauseCache{Sets,Refine,Simplify,Theorems}.v); model: Model/ClauseCache.v;
   abstract machine and CNF semantics: Spec/CnfMachine.v; status: bin/propcfg/C12.py.

   Reading guide.  cc_run false loadable d cmds  runs the model of HEAD's clause cache
   (record_all = false) on a history; cc_run true .. is the code before the repair F8.
   `loadable cs n` says whether loading the d-DNNF recompiled from (cs, n) succeeds (it panics
   for an unsatisfiable CNF, finding K9); the theorems hold for every such predicate.
   R loadable d m  is the coupling invariant between a model state d and an abstract machine
   state m; C12_coupling spells it out.
   load_cnf is the loader after repair F9 of /repo (Ddnnf::new attaches the clause cache to every
   model built from a CNF file, also when the stored clause set is empty; finding K14);
   load_cnf_v0 is the loader before it. *)
From Coq Require Import List ZArith Bool String.
From DD Require Import Model.Circuit Model.Query Spec.CnfMachine Model.ClauseCache
  Proofs.CountsA Proofs.QueryDefs
  Proofs.ClauseCacheSets Proofs.ClauseCacheRefine Proofs.ClauseCacheSimplify
  Proofs.ClauseCacheTheorems.
Import ListNotations.
Open Scope Z_scope.

(* MAIN.  A CNF file (good_input: clause lines raw without literal 0, satisfiable - the stored
   set may be empty: no clause lines, or tautologies only) is loaded; then ANY list of commands is run (clause-update with any t / add / rmv lists,
   undo-update, save-cnf).  Every answer is the one the abstract machine prescribes
   (answers_ok: an update answers "" iff the machine accepts it and an error iff it rejects it,
   undo-update answers "", save-cnf writes exactly the machine's clause set and feature count;
   the only possible panic is an accepted update whose resulting CNF cannot be loaded), and
   unless such a panic happened the final state is coupled with the machine's final state. *)
Theorem C12_refines : forall loadable raw n d cmds,
  good_input raw -> load_cnf loadable raw n = Some d ->
  let m0 := m_init (stored_set raw) n in
  let '(d', ans) := cc_run false loadable d cmds in
  answers_ok loadable m0 cmds ans /\
  (~ In APanic ans -> R loadable d' (m_run m0 cmds)).
Proof. exact refines. Qed.
Print Assumptions C12_refines.

(* the hypotheses on the input, spelled out (nothing about the stored set) *)
Theorem C12_good_input : forall raw,
  good_input raw <-> nzs raw /\ (exists s0 : asg, cs_sat s0 raw = true).
Proof. intros raw. reflexivity. Qed.
Print Assumptions C12_good_input.

(* every loaded CNF has a clause cache, initialised with the stored set and the header's n *)
Theorem C12_load_has_cache : forall loadable raw n d,
  load_cnf loadable raw n = Some d ->
  cached d = Some (initialize (stored_set raw) n) /\ live_of d = (raw, n) /\ loadable raw n = true.
Proof. exact load_has_cache. Qed.
Print Assumptions C12_load_has_cache.

(* What the coupling means: the stored clause set IS the machine's set (in BTreeSet order), the
   stored total is the machine's n, the live model was compiled from a CNF with exactly the
   models of the machine's current clause set over the machine's n, old_state (if the machine
   has a previous state) from one with the models of the previous set and its n, and save-cnf
   prints the machine's current set and n. *)
Theorem C12_coupling : forall loadable d m, R loadable d m ->
  exists c, cached d = Some c /\
    cclauses c = canon_set (m_cs m) /\
    total c = Some (m_n m) /\
    snd (live_of d) = m_n m /\
    (forall s, cs_sat s (fst (live_of d)) = cs_sat s (m_cs m)) /\
    loadable (fst (live_of d)) (snd (live_of d)) = true /\
    save_cnf d = ASaved (m_save m) /\
    match m_prev m with
    | None => old c = None
    | Some (pcs, pn) => exists ocs, old c = Some (ocs, pn) /\ forall s, cs_sat s ocs = cs_sat s pcs
    end.
Proof. exact R_unfold. Qed.
Print Assumptions C12_coupling.

(* One clause-update from any coupled state: accepted -> the abstract update; rejected (some rmv
   clause absent or repeated, t not positive or below a variable used by the current set, a
   typed literal above the requested feature count) -> an error and NOTHING changes; panic ->
   only when the machine accepts and the new CNF is not loadable. *)
Theorem C12_update_cases : forall loadable d m t add rmv, R loadable d m ->
  let '(d', a) := clause_update false loadable d t add rmv in
  match a with
  | AOk => m_accepts m t add rmv = true /\ R loadable d' (m_update m t add rmv)
  | AErr _ => m_accepts m t add rmv = false /\ d' = d /\ m_update m t add rmv = m
  | APanic => m_accepts m t add rmv = true /\
              loadable (canon_set (m_cs (m_update m t add rmv))) (m_n (m_update m t add rmv)) = false
  | ASaved _ => False
  end.
Proof. exact update_cases. Qed.
Print Assumptions C12_update_cases.

(* If loading never fails no history panics. *)
Theorem C12_no_panic_when_loadable : forall loadable cmds,
  (forall cs n, loadable cs n = true) ->
  forall d m, R loadable d m -> ~ In APanic (snd (cc_run false loadable d cmds)).
Proof. exact no_panic. Qed.
Print Assumptions C12_no_panic_when_loadable.

(* save-cnf right after loading writes the stored set = simplify_clauses of the input, which has
   exactly the models of the input ("logically equivalent", in general not "the same clauses"). *)
Theorem C12_initial_save : forall loadable raw n d,
  good_input raw -> load_cnf loadable raw n = Some d ->
  save_cnf d = ASaved (print_cnf n (stored_set raw)) /\
  forall s, cs_sat s (stored_set raw) = cs_sat s raw.
Proof. exact initial_save. Qed.
Print Assumptions C12_initial_save.

(* simplify_clauses (unit propagation at load) keeps the models of every satisfiable input ... *)
Theorem C12_simplify_equiv : forall raw (s0 : asg), nzs raw -> cs_sat s0 raw = true ->
  forall s, cs_sat s (simplify_clauses raw) = cs_sat s raw.
Proof. exact simplify_equiv. Qed.
Print Assumptions C12_simplify_equiv.

(* ... and turns some unsatisfiable inputs into satisfiable clause lists (1 / -1 2 / -2 -> 1 / -2);
   harmless today only because an unsatisfiable CNF cannot be loaded at all (K9). *)
Theorem C12_simplify_unsat_refuted :
  exists raw n, cnf_satisfiable raw n = false /\ cnf_satisfiable (simplify_clauses raw) n = true.
Proof. exact simplify_unsat_refuted. Qed.
Print Assumptions C12_simplify_unsat_refuted.

(* undo-update twice gives back the state exactly (whole model state: clause set, recorded
   inverse edit, both totals, live model and old_state), from every coupled state - in
   particular after an accepted update. *)
Theorem C12_undo_twice : forall loadable d m, R loadable d m ->
  fst (cc_undo false (fst (cc_undo false d))) = d.
Proof. exact undo_twice. Qed.
Print Assumptions C12_undo_twice.

(* The answers.  compile = compiler + loader, under its contract (trusted base, checked by the
   harness on every compilation: check_wf of the loaded vector and its truth table against the
   CNF's): the live model after any history has exactly the models of the machine's clause set. *)
Theorem C12_answers : forall loadable (compile : clause_set -> nat -> circuit),
  (forall cs n, loadable cs n = true ->
     check_wf (compile cs n) n = true /\ Models (compile cs n) n = cs_models cs n) ->
  forall d m, R loadable d m ->
  check_wf (live_circuit compile d) (m_n m) = true /\
  Models (live_circuit compile d) (m_n m) = cs_models (m_cs m) (m_n m).
Proof. exact answers. Qed.
Print Assumptions C12_answers.

(* `count a A` (Ddnnf::execute_query, all strategies, from any Clean scratch state) on the live
   model = number of models of the machine's CNF that contain A. *)
Theorem C12_count_answers : forall loadable (compile : clause_set -> nat -> circuit),
  (forall cs n, loadable cs n = true ->
     check_wf (compile cs n) n = true /\ Models (compile cs n) n = cs_models cs n) ->
  forall d m A s, R loadable d m ->
  in_range (m_n m) A -> Clean (live_circuit compile d) s ->
  snd (execute_query (build (live_circuit compile d) (m_n m)) A s) = cnf_count (m_cs m) (m_n m) A.
Proof. exact count_answers. Qed.
Print Assumptions C12_count_answers.

Theorem C12_sat_answers : forall loadable (compile : clause_set -> nat -> circuit),
  (forall cs n, loadable cs n = true ->
     check_wf (compile cs n) n = true /\ Models (compile cs n) n = cs_models cs n) ->
  forall d m A, R loadable d m ->
  in_range (m_n m) A -> 0 < cnf_count (m_cs m) (m_n m) [] ->
  sat (build (live_circuit compile d) (m_n m)) A = (0 <? cnf_count (m_cs m) (m_n m) A).
Proof. exact sat_answers. Qed.
Print Assumptions C12_sat_answers.

Theorem C12_core_answers : forall loadable (compile : clause_set -> nat -> circuit),
  (forall cs n, loadable cs n = true ->
     check_wf (compile cs n) n = true /\ Models (compile cs n) n = cs_models cs n) ->
  forall d m s l, R loadable d m -> 0 < cnf_count (m_cs m) (m_n m) [] ->
  (In l (snd (core_dead_with_assumptions (build (live_circuit compile d) (m_n m)) [] s)) <->
   forall mo, In mo (cs_models (m_cs m) (m_n m)) -> In l mo).
Proof. exact core_answers. Qed.
Print Assumptions C12_core_answers.

(* ---------- the code before the repair F8 (setup_for_edit recorded the whole add list) ---------- *)
(* CNF {1 2},{-1 3}: `clause-update add 1 2`, `undo-update`: the stored set loses 1 2, save-cnf
   writes one clause, and after `clause-update add -3` the live model has 2 models, the CNF 1. *)
Theorem C12_refuted_add_existing :
  let h := [CUpdate None [[1; 2]] []; CUndo] in
  let '(d, ans) := cc_run true always d0 h in
  let m := m_run m0 h in
  ans = [AOk; AOk] /\
  stored d = [[-1; 3]] /\ canon_set (m_cs m) = [[-1; 3]; [1; 2]] /\
  save_cnf d <> ASaved (m_save m) /\
  let '(d2, _) := cc_step true always d (CUpdate None [[-3]] []) in
  let m2 := m_step m (CUpdate None [[-3]] []) in
  cnf_count (fst (live_of d2)) (snd (live_of d2)) [] = 2 /\
  cnf_count (m_cs m2) (m_n m2) [] = 1.
Proof. exact refuted_add_existing. Qed.
Print Assumptions C12_refuted_add_existing.

(* `clause-update add -2 0 -2`, `undo-update`: the inverse edit fails on the second copy, the
   clause set is rolled back to the UPDATED set, the failure is ignored and the models are swapped:
   stored set (1 model) and live model (4 models) disagree. *)
Theorem C12_refuted_duplicate_add :
  let h := [CUpdate None [[-2]; [-2]] []; CUndo] in
  let '(d, ans) := cc_run true always d0 h in
  let m := m_run m0 h in
  ans = [AOk; AOk] /\
  stored d = [[-2]; [-1; 3]; [1; 2]] /\ canon_set (m_cs m) = [[-1; 3]; [1; 2]] /\
  fst (live_of d) = raw0 /\
  cnf_count (fst (live_of d)) 3 [] = 4 /\ cnf_count (stored d) 3 [] = 1 /\
  save_cnf d <> ASaved (m_save m).
Proof. exact refuted_duplicate_add. Qed.
Print Assumptions C12_refuted_duplicate_add.

Theorem C12_fixed_on_refuting_histories :
  let h1 := [CUpdate None [[1; 2]] []; CUndo; CSave] in
  let h2 := [CUpdate None [[-2]; [-2]] []; CUndo; CSave] in
  snd (cc_run false always d0 h1) = [AOk; AOk; ASaved (m_save (m_run m0 h1))] /\
  snd (cc_run false always d0 h2) = [AOk; AOk; ASaved (m_save (m_run m0 h2))].
Proof. exact fixed_on_refuting_histories. Qed.
Print Assumptions C12_fixed_on_refuting_histories.

(* ---------- finding on HEAD ---------- *)
(* K9: with loadable = "the CNF is satisfiable" (d4 prints `f 1 0` otherwise and loading that
   panics): CNF {1 2} over 2 features, `clause-update add 1 0 -1` panics, and the panic leaves
   the stored set {-1},{1},{1 2} (no model) with a live model that still has 3 models. *)
Theorem C12_refuted_unsat_panic :
  let loadable := cnf_satisfiable in
  exists raw n d, good_input raw /\ load_cnf loadable raw n = Some d /\
    let '(d', ans) := cc_run false loadable d [CUpdate None [[1]; [-1]] []] in
    ans = [APanic] /\
    stored d' = [[-1]; [1]; [1; 2]] /\ fst (live_of d') = [[1; 2]] /\
    cnf_count (stored d') n [] = 0 /\ cnf_count (fst (live_of d')) n [] = 3.
Proof. exact refuted_unsat_panic. Qed.
Print Assumptions C12_refuted_unsat_panic.

(* ---------- the loader before the repair F9 (K14) ---------- *)
(* a CNF whose stored set is empty (no clause, or only tautologies) got no cache: save-cnf and
   clause-update answered an error (`clause-update t 3` panicked before fix 1bbe455); the repaired
   loader answers the same history as the abstract machine: the update from the empty set is
   accepted, save-cnf writes `p cnf 2 0` / `p cnf 2 1 / 1 0`, t grows n, undo swaps *)
Theorem C12_refuted_empty_cnf_v0 :
  exists raw n d, load_cnf_v0 always raw n = Some d /\ (forall s : asg, cs_sat s raw = true) /\
    save_cnf d = AErr E5_no_save /\
    snd (clause_update false always d None [[1]] []) = AErr E5_no_clauses /\
    snd (clause_update false always d (Some 3) [] []) = AErr E5_no_clauses /\
    exists d', load_cnf always raw n = Some d' /\
      save_cnf d' = ASaved ["p cnf 2 0"%string] /\
      snd (cc_run false always d' [CUpdate None [[1]] []; CSave; CUpdate (Some 3) [] []; CSave; CUndo; CUndo; CSave]) =
      [AOk; ASaved ["p cnf 2 1"; "1 0"]%string; AOk; ASaved ["p cnf 3 1"; "1 0"]%string; AOk; AOk;
       ASaved ["p cnf 3 1"; "1 0"]%string].
Proof. exact refuted_empty_cnf_v0. Qed.
Print Assumptions C12_refuted_empty_cnf_v0.

(* for a non-empty stored set F9 changes nothing *)
Theorem C12_load_cnf_v0_nonempty : forall loadable raw n,
  stored_set raw <> [] -> load_cnf_v0 loadable raw n = load_cnf loadable raw n.
Proof. exact load_cnf_v0_nonempty. Qed.
Print Assumptions C12_load_cnf_v0_nonempty.

(* ---------- non-vacuity ---------- *)
(* the hypotheses of C12_refines hold for the CNF {1 2},{-1 3} over 3 features ... *)
Example ex_c12_good_input : good_input raw0 /\ load_cnf always raw0 3 = Some d0.
Proof.
  split; [|reflexivity]. split.
  - intros c [<-|[<-|[]]] l Hl; cbn in Hl; intuition (subst; discriminate).
  - exists (fun _ => true). reflexivity.
Qed.
(* ... and for CNFs with an empty stored set: no clause lines, tautologies only *)
Example ex_c12_empty_input : good_input [] /\ good_input [[1; -1]] /\ stored_set [[1; -1]] = [] /\
  exists d, load_cnf always [[1; -1]] 2 = Some d.
Proof. exact empty_cnf_good. Qed.
Example ex_c12_R : R always d0 m0.
Proof. destruct ex_c12_good_input as [H1 H2]. exact (load_R always raw0 3 d0 H1 H2). Qed.

(* ... a history with accepted and rejected updates of every kind, undo, double undo and saves:
   the answers of the model *)
Definition ex_history : list cc_cmd :=
  [ CSave;
    CUpdate None [[-3]] [];                 (* accepted *)
    CUpdate None [] [[2; 3]];               (* rejected: absent clause *)
    CUpdate (Some 2) [] [];                 (* rejected: variable 3 in use *)
    CUpdate None [[4]] [];                  (* rejected: literal above n *)
    CUpdate (Some 4) [[4; 1]; [1; 2]] [[-3]];  (* accepted: grows n, re-adds a present clause *)
    CSave; CUndo; CSave; CUndo; CUndo;
    CUpdate None [] [[1; 2]; [1; 2]];       (* rejected: the same clause removed twice *)
    CSave ].
Example ex_c12_answers :
  snd (cc_run false always d0 ex_history) =
  [ ASaved ["p cnf 3 2"; "-1 3 0"; "1 2 0"]%string;
    AOk; AErr E5_update; AErr E5_conflict; AErr E3_boundary; AOk;
    ASaved ["p cnf 4 3"; "-1 3 0"; "1 2 0"; "1 4 0"]%string;
    AOk;
    ASaved ["p cnf 3 3"; "-3 0"; "-1 3 0"; "1 2 0"]%string;
    AOk; AOk;
    AErr E5_update;
    ASaved ["p cnf 3 3"; "-3 0"; "-1 3 0"; "1 2 0"]%string ].
Proof. vm_compute. reflexivity. Qed.

(* ... and the compiler contract is satisfiable on a real instance: a smooth d-DNNF of
   (1 | 2) & (-1 | 3) as ddnnife flattens it *)
Definition ex_circuit : circuit :=
  [Lit 1; Lit 3; Lit 2; Lit (-2); Or [2; 3]%nat; And [0; 1; 4]%nat;
   Lit (-1); Lit (-3); Or [1; 7]%nat; And [6; 2; 8]%nat; Or [5; 9]%nat].
Definition ex_loadable (cs : clause_set) (n : nat) : bool :=
  if list_eq_dec (list_eq_dec Z.eq_dec) cs raw0 then Nat.eqb n 3 else false.
Example ex_c12_contract :
  ex_loadable raw0 3 = true /\
  forall cs n, ex_loadable cs n = true ->
    check_wf ((fun _ _ => ex_circuit) cs n) n = true /\
    Models ((fun _ _ => ex_circuit) cs n) n = cs_models cs n.
Proof.
  split; [vm_compute; reflexivity|].
  intros cs n H. unfold ex_loadable in H.
  destruct (list_eq_dec (list_eq_dec Z.eq_dec) cs raw0) as [->|]; [|discriminate].
  apply Nat.eqb_eq in H. subst n. split; vm_compute; reflexivity.
Qed.
