(* C19: CNF export.  Property theorems only. *)
From Coq Require Import List ZArith Bool.
From DD Require Import Model.Circuit Model.ToCnf.
Import ListNotations.
