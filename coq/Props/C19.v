(* C19: CNF export (Tseitin transformation, ddnnife/src/cnf/into.rs + ddnnife_cnf).
   Property theorems only.  Model: Model/ToCnf.v (to_cnf, cnf_sat, cnf_models, header_of).

   `to_cnf` is the code after the repair F20 (repo_patches/F20-to-cnf-constants.patch): a true
   node is the empty conjunction, a false node the empty disjunction, and an operation without
   operands gets a Tseitin variable like every operation with <> 1 operands (its biconditional is
   the unit clause (x) resp. (-x)).  `to_cnf_v0` is the code before the repair (findings K5, K10).

   The theorems do NOT exclude true / false nodes or childless and / or nodes.  Hypotheses:
     C <> [], idx_ok C (children before parents), complete C n (the variables below the root are
     exactly 1..n)  - three of the six fields of the C01 bundle WF C n; decomposability,
     smoothness and determinism are needed only by C19_equicount (root_count = number of models);
     all_reachable C (every non-root node has a parent: the vector is what `rebuild` flattens
     from the root; part of check_wf, and NECESSARY, see C19_reachability_needed);
     2 <= n (NECESSARY, see C19_two_features_needed);
     to_cnf C n = Ok F (always the case for idx_ok C: C19_total).
   check_wf C n = true (what the correspondence discharges per loaded vector) implies all of them
   (DetCert.check_wf_sound); none of them mentions no_true_false or forbids And [] / Or []. *)
From Coq Require Import List ZArith Bool Permutation.
From DD Require Import Model.Circuit Model.ToCnf Proofs.Semantics Proofs.DetCert Proofs.ToCnfTheorems.
Import ListNotations.
Open Scope Z_scope.

(* FULL.  The repaired Cnf::from returns a CNF for every well-indexed vector (no panic site is
   left but the index check of nodes_to_literals, which idx_ok rules out). *)
Theorem C19_total : forall C n, idx_ok C = true -> exists F, to_cnf C n = Ok F.
Proof. exact to_cnf_total. Qed.
Print Assumptions C19_total.

(* (a) FULL.  Every satisfying assignment of the produced CNF, read on the features 1..n, is a
   model of the d-DNNF. *)
Theorem C19_sound : forall C n F, C <> [] -> idx_ok C = true -> complete C n = true ->
  all_reachable C = true -> (2 <= n)%nat -> to_cnf C n = Ok F ->
  forall b, cnf_sat b F = true -> eval_root b C = true /\ In (canon n b) (Models C n).
Proof. exact tseitin_sound. Qed.
Print Assumptions C19_sound.

(* (b) FULL.  Every model of the d-DNNF extends to a satisfying assignment of the CNF, and the
   extension is unique on all declared variables 1..num_variables. *)
Theorem C19_extension_exists_unique : forall C n F, C <> [] -> idx_ok C = true -> complete C n = true ->
  all_reachable C = true -> (2 <= n)%nat -> to_cnf C n = Ok F ->
  forall s, eval_root s C = true ->
  exists b, cnf_sat b F = true /\ (forall v, 1 <= v <= Z.of_nat n -> b v = s v) /\
    forall b', cnf_sat b' F = true -> (forall v, 1 <= v <= Z.of_nat n -> b' v = s v) ->
               forall v, 1 <= v <= Z.of_nat (num_variables F) -> b' v = b v.
Proof. exact tseitin_extension. Qed.
Print Assumptions C19_extension_exists_unique.

(* (c) FULL.  The header (num_variables, number of clauses) that Display prints is the number of
   distinct variables and the number of clauses of the clause list; moreover the variables that
   occur are exactly 1..num_variables (so declared = distinct = largest), and Tseitin variables
   were added. *)
Theorem C19_header : forall C n F, C <> [] -> idx_ok C = true -> complete C n = true ->
  all_reachable C = true -> (2 <= n)%nat -> to_cnf C n = Ok F ->
  header_of F = (length (nodup Z.eq_dec (map Z.abs (concat (clauses F)))), length (clauses F)) /\
  (forall v, In v (map Z.abs (concat (clauses F))) <-> 1 <= v <= Z.of_nat (num_variables F)) /\
  (n < num_variables F)%nat.
Proof. exact tseitin_header. Qed.
Print Assumptions C19_header.

(* (a)+(b) as one statement, FULL: restricting the truth table of the CNF over its declared
   variables to the first n positions gives exactly the model list of the d-DNNF, each model
   exactly once. *)
Theorem C19_projection : forall C n F, C <> [] -> idx_ok C = true -> complete C n = true ->
  all_reachable C = true -> (2 <= n)%nat -> to_cnf C n = Ok F ->
  Permutation (map (firstn n) (cnf_models F)) (Models C n).
Proof. exact tseitin_projection. Qed.
Print Assumptions C19_projection.

(* equi-countability with the truth table, FULL: the CNF has exactly as many models over its
   declared variables as the circuit has over 1..n. *)
Theorem C19_equicount_models : forall C n F, C <> [] -> idx_ok C = true -> complete C n = true ->
  all_reachable C = true -> (2 <= n)%nat -> to_cnf C n = Ok F ->
  Z.of_nat (length (cnf_models F)) = MC C n.
Proof. exact tseitin_equicount_models. Qed.
Print Assumptions C19_equicount_models.

(* equi-countability with the model count ddnnife reports, FULL: the CNF has exactly root_count
   models over its declared variables (WF: the circuit is a d-DNNF, so root_count = MC). *)
Theorem C19_equicount : forall C n F, WF C n -> all_reachable C = true -> (2 <= n)%nat ->
  to_cnf C n = Ok F ->
  Z.of_nat (length (cnf_models F)) = root_count C.
Proof. exact tseitin_equicount. Qed.
Print Assumptions C19_equicount.

(* ---- the code before the repair F20 (to_cnf_v0): witnesses of the findings K5 and K10 ---- *)

(* the old code returned a CNF only for vectors without true / false nodes ... *)
Theorem C19_ok_excludes_true_false : forall C n F, to_cnf_v0 C n = Ok F -> no_true_false C = true.
Proof. exact v0_ok_no_true_false. Qed.
Print Assumptions C19_ok_excludes_true_false.

(* ... and where it did, the repaired code returns the same CNF (the repair changes no answer) *)
Theorem C19_repair_conservative : forall C n F, to_cnf_v0 C n = Ok F -> to_cnf C n = Ok F.
Proof. exact v0_ok_same. Qed.
Print Assumptions C19_repair_conservative.

(* REFUTED for the old code (finding K5, repaired by F20): a well-formed loaded circuit with a
   true node (c2d `A 0`) made Cnf::from panic (unreachable!), so "the CNF produced from a loaded
   model" did not exist for it. *)
Theorem C19_refuted_true_node :
  exists C n, WF C n /\ all_reachable C = true /\ (2 <= n)%nat /\ to_cnf_v0 C n = Panic PanicTrue.
Proof. exact v0_refuted_true_node. Qed.
Print Assumptions C19_refuted_true_node.

(* REFUTED for the old code (finding K10, repaired by F20): the d4 loader can leave an or node
   without children (all its children were false); Cnf::from panicked on it ("Attempt to
   transform empty operation."). *)
Theorem C19_refuted_empty_operation :
  exists C n, WF C n /\ all_reachable C = true /\ no_true_false C = true /\ (2 <= n)%nat /\
              to_cnf_v0 C n = Panic PanicEmptyOp.
Proof. exact v0_refuted_empty_operation. Qed.
Print Assumptions C19_refuted_empty_operation.

(* ---- the remaining hypotheses cannot be dropped ---- *)

(* all_reachable *)
Theorem C19_reachability_needed :
  exists C n F b, WF C n /\ (2 <= n)%nat /\ to_cnf C n = Ok F /\
                  cnf_sat b F = true /\ eval_root b C = false.
Proof. exact reachability_needed. Qed.
Print Assumptions C19_reachability_needed.

(* 2 <= n: a model that is a single literal allocates no variable; Cnf::from then returns the
   empty CNF `p cnf 0 0`, whose only model (over no variable) says nothing about feature 1 *)
Theorem C19_two_features_needed :
  exists C F, WF C 1 /\ all_reachable C = true /\ to_cnf C 1 = Ok F /\
              Models C 1 = [[1]] /\ map (firstn 1) (cnf_models F) = [[]] /\ header_of F = (0%nat, 0%nat).
Proof. exact two_features_needed. Qed.
Print Assumptions C19_two_features_needed.

(* ---------- non-vacuity ---------- *)

(* x1 <-> x2 *)
Definition ex_iff : circuit :=
  [Lit 1; Lit (-1); Lit 2; Lit (-2); And [0;2]%nat; And [1;3]%nat; Or [4;5]%nat].
Example ex_iff_hyps :
  WF ex_iff 2 /\ all_reachable ex_iff = true /\
  to_cnf ex_iff 2 = Ok (mkCnf 5 [[3; -1; -2]; [-3; 1]; [-3; 2]; [4; 1; 2]; [-4; -1]; [-4; -2];
                                 [-5; 3; 4]; [5; -3]; [5; -4]; [5]]) /\
  cnf_models (mkCnf 5 [[3; -1; -2]; [-3; 1]; [-3; 2]; [4; 1; 2]; [-4; -1]; [-4; -2];
                       [-5; 3; 4]; [5; -3]; [5; -4]; [5]])
  = [[1; 2; 3; -4; 5]; [-1; -2; -3; 4; 5]] /\
  root_count ex_iff = 2.
Proof.
  split; [apply check_wf_sound; vm_compute; reflexivity|].
  repeat split; vm_compute; reflexivity.
Qed.

(* single-child nodes (And [0], Or [1]), n-ary And, what ddnnife loads from
   `o 1 0 / t 2 0 / 1 2 1 0` with 3 features *)
Definition ex_single_child : circuit :=
  [Lit 1; And [0]%nat; Or [1]%nat; Lit 2; Lit (-2); Or [4;3]%nat; Lit 3; Lit (-3); Or [7;6]%nat;
   And [8;5;2]%nat].
Example ex_single_child_hyps :
  WF ex_single_child 3 /\ all_reachable ex_single_child = true /\
  to_cnf ex_single_child 3 =
    Ok (mkCnf 6 [[-4; -2; 2]; [4; 2]; [4; -2]; [-5; -3; 3]; [5; 3]; [5; -3];
                 [6; -5; -4; -1]; [-6; 5]; [-6; 4]; [-6; 1]; [6]]) /\
  root_count ex_single_child = 4.
Proof.
  split; [apply check_wf_sound; vm_compute; reflexivity|].
  repeat split; vm_compute; reflexivity.
Qed.

(* a shared operation: the two Or nodes have the same kind and literal list and share variable 3 *)
Definition ex_cache_hit : circuit :=
  [Lit 1; Lit (-1); Or [0;1]%nat; Lit 2; And [2;3]%nat; Or [0;1]%nat; Lit (-2); And [5;6]%nat;
   Or [4;7]%nat].
Example ex_cache_hit_hyps :
  WF ex_cache_hit 2 /\ all_reachable ex_cache_hit = true /\
  to_cnf ex_cache_hit 2 =
    Ok (mkCnf 6 [[-3; 1; -1]; [3; -1]; [3; 1]; [4; -3; -2]; [-4; 3]; [-4; 2];
                 [5; -3; 2]; [-5; 3]; [-5; -2]; [-6; 4; 5]; [6; -4]; [6; -5]; [6]]) /\
  root_count ex_cache_hit = 4.
Proof.
  split; [apply check_wf_sound; vm_compute; reflexivity|].
  repeat split; vm_compute; reflexivity.
Qed.

(* ---------- non-vacuity with constants (the input classes of K5 / K10) ---------- *)

(* a TRUE node under an and: what ddnnife loads from the c2d file `nnf 4 3 2 / A 0 / L 1 / L 2 /
   A 3 0 1 2`; the true node is the empty conjunction with variable 3 and the unit clause (3) *)
Definition ex_true_under_and : circuit := [TrueN; Lit 1; Lit 2; And [2; 1; 0]%nat].
Example ex_true_under_and_hyps :
  WF ex_true_under_and 2 /\ all_reachable ex_true_under_and = true /\
  to_cnf ex_true_under_and 2 = Ok (mkCnf 4 [[3]; [4; -2; -1; -3]; [-4; 2]; [-4; 1]; [-4; 3]; [4]]) /\
  cnf_models (mkCnf 4 [[3]; [4; -2; -1; -3]; [-4; 2]; [-4; 1]; [-4; 3]; [4]]) = [[1; 2; 3; 4]] /\
  root_count ex_true_under_and = 1 /\ to_cnf_v0 ex_true_under_and 2 = Panic PanicTrue.
Proof.
  split; [apply check_wf_sound; vm_compute; reflexivity|].
  repeat split; vm_compute; reflexivity.
Qed.

(* a FALSE node under an or (next to a true node: an or node is smooth only if its children
   mention the same features, here none), the or under the root and:
   c2d `nnf 6 5 2 / O 0 0 / A 0 / O 0 2 0 1 / L 1 / L -2 / A 3 2 3 4`;
   false = empty disjunction, variable 3, unit clause (-3); true = variable 4, unit clause (4) *)
Definition ex_false_under_or : circuit :=
  [FalseN; TrueN; Or [1; 0]%nat; Lit 1; Lit (-2); And [4; 3; 2]%nat].
Example ex_false_under_or_hyps :
  WF ex_false_under_or 2 /\ all_reachable ex_false_under_or = true /\
  to_cnf ex_false_under_or 2 =
    Ok (mkCnf 6 [[-3]; [4]; [-5; 4; 3]; [5; -4]; [5; -3]; [6; 2; -1; -5]; [-6; -2]; [-6; 1]; [-6; 5]; [6]]) /\
  cnf_models (mkCnf 6 [[-3]; [4]; [-5; 4; 3]; [5; -4]; [5; -3]; [6; 2; -1; -5]; [-6; -2]; [-6; 1]; [-6; 5]; [6]])
  = [[1; -2; -3; 4; 5; 6]] /\
  root_count ex_false_under_or = 1 /\ to_cnf_v0 ex_false_under_or 2 = Panic PanicFalse.
Proof.
  split; [apply check_wf_sound; vm_compute; reflexivity|].
  repeat split; vm_compute; reflexivity.
Qed.

(* a false node under an and (a dead branch; the file of finding K7):
   c2d `nnf 7 7 2 / L 1 / O 0 0 / L 2 / A 3 0 1 2 / L -1 / A 2 4 2 / O 1 2 3 5` *)
Definition ex_false_under_and : circuit :=
  [Lit 1; FalseN; Lit 2; And [2; 1; 0]%nat; Lit (-1); And [2; 4]%nat; Or [5; 3]%nat].
Example ex_false_under_and_hyps :
  WF ex_false_under_and 2 /\ all_reachable ex_false_under_and = true /\
  to_cnf ex_false_under_and 2 =
    Ok (mkCnf 6 [[-3]; [4; -2; -3; -1]; [-4; 2]; [-4; 3]; [-4; 1]; [5; -2; 1]; [-5; 2]; [-5; -1];
                 [-6; 5; 4]; [6; -5]; [6; -4]; [6]]) /\
  root_count ex_false_under_and = 1 /\ to_cnf_v0 ex_false_under_and 2 = Panic PanicFalse.
Proof.
  split; [apply check_wf_sound; vm_compute; reflexivity|].
  repeat split; vm_compute; reflexivity.
Qed.

(* a CHILDLESS AND: what ddnnife loads from the d4 text
     o 1 0 / a 2 0 / t 3 0 / 1 2 1 0 / 1 3 -1 2 0 / 2 3 0 / 2 3 0       (2 features)
   (the and node 2 has only `t` children, the loader drops them); variable 4, unit clause (4) *)
Definition ex_childless_and : circuit :=
  [Lit (-1); Lit 2; And [1; 0]%nat; Lit 1; And []; And [4; 3]%nat; Lit (-2); Or [6; 1]%nat;
   And [7; 5]%nat; Or [8; 2]%nat].
Example ex_childless_and_hyps :
  WF ex_childless_and 2 /\ all_reachable ex_childless_and = true /\ no_true_false ex_childless_and = true /\
  to_cnf ex_childless_and 2 =
    Ok (mkCnf 8 [[3; -2; 1]; [-3; 2]; [-3; -1]; [4]; [5; -4; -1]; [-5; 4]; [-5; 1]; [-6; -2; 2]; [6; 2]; [6; -2];
                 [7; -6; -5]; [-7; 6]; [-7; 5]; [-8; 7; 3]; [8; -7]; [8; -3]; [8]]) /\
  length (cnf_models (mkCnf 8 [[3; -2; 1]; [-3; 2]; [-3; -1]; [4]; [5; -4; -1]; [-5; 4]; [-5; 1]; [-6; -2; 2]; [6; 2]; [6; -2];
                 [7; -6; -5]; [-7; 6]; [-7; 5]; [-8; 7; 3]; [8; -7]; [8; -3]; [8]])) = 3%nat /\
  root_count ex_childless_and = 3 /\ to_cnf_v0 ex_childless_and 2 = Panic PanicEmptyOp.
Proof.
  split; [apply check_wf_sound; vm_compute; reflexivity|].
  repeat split; vm_compute; reflexivity.
Qed.

(* a CHILDLESS OR (a dead or node): what ddnnife loads from the d4 text
     o 1 0 / o 2 0 / f 3 0 / t 4 0 / 1 2 1 0 / 1 4 -1 2 0 / 2 3 2 0     (2 features)
   (the or node 2 lost its only, false, child); variable 4, unit clause (-4) *)
Definition ex_childless_or : circuit :=
  [Lit (-1); Lit 2; And [1; 0]%nat; Lit 1; Or []; And [4; 3]%nat; Lit (-2); Or [6; 1]%nat;
   And [7; 5]%nat; Or [8; 2]%nat].
Example ex_childless_or_hyps :
  WF ex_childless_or 2 /\ all_reachable ex_childless_or = true /\ no_true_false ex_childless_or = true /\
  to_cnf ex_childless_or 2 =
    Ok (mkCnf 8 [[3; -2; 1]; [-3; 2]; [-3; -1]; [-4]; [5; -4; -1]; [-5; 4]; [-5; 1]; [-6; -2; 2]; [6; 2]; [6; -2];
                 [7; -6; -5]; [-7; 6]; [-7; 5]; [-8; 7; 3]; [8; -7]; [8; -3]; [8]]) /\
  cnf_models (mkCnf 8 [[3; -2; 1]; [-3; 2]; [-3; -1]; [-4]; [5; -4; -1]; [-5; 4]; [-5; 1]; [-6; -2; 2]; [6; 2]; [6; -2];
                 [7; -6; -5]; [-7; 6]; [-7; 5]; [-8; 7; 3]; [8; -7]; [8; -3]; [8]])
  = [[-1; 2; 3; -4; -5; 6; -7; 8]] /\
  root_count ex_childless_or = 1 /\ to_cnf_v0 ex_childless_or 2 = Panic PanicEmptyOp.
Proof.
  split; [apply check_wf_sound; vm_compute; reflexivity|].
  repeat split; vm_compute; reflexivity.
Qed.

(* two true nodes under different parents share ONE variable (the operation cache maps the empty
   conjunction to variable 4), and a true node below a single-child and hands its variable up:
   c2d `nnf 11 10 3 / A 0 / L 1 / L 2 / A 3 0 1 2 / A 0 / L -1 / L -2 / A 3 4 5 6 / O 1 2 3 7 / L 3 / A 2 8 9` *)
Definition ex_two_true_nodes : circuit :=
  [TrueN; Lit 1; Lit 2; And [2; 1; 0]%nat; TrueN; Lit (-1); Lit (-2); And [6; 5; 4]%nat; Or [7; 3]%nat;
   Lit 3; And [9; 8]%nat].
Example ex_two_true_nodes_hyps :
  WF ex_two_true_nodes 3 /\ all_reachable ex_two_true_nodes = true /\
  to_cnf ex_two_true_nodes 3 =
    Ok (mkCnf 8 [[4]; [5; -2; -1; -4]; [-5; 2]; [-5; 1]; [-5; 4]; [6; 2; 1; -4]; [-6; -2]; [-6; -1]; [-6; 4];
                 [-7; 6; 5]; [7; -6]; [7; -5]; [8; -3; -7]; [-8; 3]; [-8; 7]; [8]]) /\
  root_count ex_two_true_nodes = 2.
Proof.
  split; [apply check_wf_sound; vm_compute; reflexivity|].
  repeat split; vm_compute; reflexivity.
Qed.

Definition ex_true_single_child : circuit := [TrueN; And [0]%nat; Lit 1; Lit 2; And [3; 2; 1]%nat].
Example ex_true_single_child_hyps :
  WF ex_true_single_child 2 /\ all_reachable ex_true_single_child = true /\
  to_cnf ex_true_single_child 2 = Ok (mkCnf 4 [[3]; [4; -2; -1; -3]; [-4; 2]; [-4; 1]; [-4; 3]; [4]]) /\
  root_count ex_true_single_child = 1.
Proof.
  split; [apply check_wf_sound; vm_compute; reflexivity|].
  repeat split; vm_compute; reflexivity.
Qed.
