(* C19: CNF export (Tseitin transformation, ddnnife/src/cnf/into.rs + ddnnife_cnf).
   Property theorems only.  Model: Model/ToCnf.v (to_cnf, cnf_sat, cnf_models, header_of).

   Common hypotheses:  WF C n  (the C01 bundle: non-empty, children before parents, decomposable,
   smooth, complete over 1..n, deterministic),  all_reachable C = true  (every non-root node has
   a parent: the vector is what `rebuild` flattens from the root; part of check_wf, and NECESSARY,
   see C19_reachability_needed),  2 <= n,  to_cnf C n = Ok F  (the walk did not panic; this
   implies no_true_false C = true, C19_ok_excludes_true_false, and excludes childless and/or
   nodes). *)
From Coq Require Import List ZArith Bool Permutation.
From DD Require Import Model.Circuit Model.ToCnf Proofs.Semantics Proofs.DetCert Proofs.ToCnfTheorems.
Import ListNotations.
Open Scope Z_scope.

(* (a) FULL.  Every satisfying assignment of the produced CNF, read on the features 1..n, is a
   model of the d-DNNF. *)
Theorem C19_sound : forall C n F, WF C n -> all_reachable C = true -> (2 <= n)%nat ->
  to_cnf C n = Ok F ->
  forall b, cnf_sat b F = true -> eval_root b C = true /\ In (canon n b) (Models C n).
Proof. exact tseitin_sound. Qed.
Print Assumptions C19_sound.

(* (b) FULL.  Every model of the d-DNNF extends to a satisfying assignment of the CNF, and the
   extension is unique on all declared variables 1..num_variables. *)
Theorem C19_extension_exists_unique : forall C n F, WF C n -> all_reachable C = true -> (2 <= n)%nat ->
  to_cnf C n = Ok F ->
  forall s, eval_root s C = true ->
  exists b, cnf_sat b F = true /\ (forall v, 1 <= v <= Z.of_nat n -> b v = s v) /\
    forall b', cnf_sat b' F = true -> (forall v, 1 <= v <= Z.of_nat n -> b' v = s v) ->
               forall v, 1 <= v <= Z.of_nat (num_variables F) -> b' v = b v.
Proof. exact tseitin_extension. Qed.
Print Assumptions C19_extension_exists_unique.

(* (c) FULL.  The header (num_variables, number of clauses) that Display prints is the number of
   distinct variables and the number of clauses of the clause list; moreover the variables that
   occur are exactly 1..num_variables (so declared = distinct = largest), and Tseitin variables
   were added. *)
Theorem C19_header : forall C n F, WF C n -> all_reachable C = true -> (2 <= n)%nat ->
  to_cnf C n = Ok F ->
  header_of F = (length (nodup Z.eq_dec (map Z.abs (concat (clauses F)))), length (clauses F)) /\
  (forall v, In v (map Z.abs (concat (clauses F))) <-> 1 <= v <= Z.of_nat (num_variables F)) /\
  (n < num_variables F)%nat.
Proof. exact tseitin_header. Qed.
Print Assumptions C19_header.

(* (a)+(b) as one statement, FULL: restricting the truth table of the CNF over its declared
   variables to the first n positions gives exactly the model list of the d-DNNF, each model
   exactly once. *)
Theorem C19_projection : forall C n F, WF C n -> all_reachable C = true -> (2 <= n)%nat ->
  to_cnf C n = Ok F ->
  Permutation (map (firstn n) (cnf_models F)) (Models C n).
Proof. exact tseitin_projection. Qed.
Print Assumptions C19_projection.

(* equi-countability, FULL: the CNF has exactly root_count models over its declared variables. *)
Theorem C19_equicount : forall C n F, WF C n -> all_reachable C = true -> (2 <= n)%nat ->
  to_cnf C n = Ok F ->
  Z.of_nat (length (cnf_models F)) = root_count C.
Proof. exact tseitin_equicount. Qed.
Print Assumptions C19_equicount.

Theorem C19_ok_excludes_true_false : forall C n F, to_cnf C n = Ok F -> no_true_false C = true.
Proof. exact ok_no_true_false. Qed.
Print Assumptions C19_ok_excludes_true_false.

(* REFUTED (known finding K5): a well-formed loaded circuit with a true node (c2d `A 0`) makes
   Cnf::from panic, so "the CNF produced from a loaded model" does not exist for it. *)
Theorem C19_refuted_true_node :
  exists C n, WF C n /\ all_reachable C = true /\ (2 <= n)%nat /\ to_cnf C n = Panic PanicTrue.
Proof. exact refuted_true_node. Qed.
Print Assumptions C19_refuted_true_node.

(* REFUTED (finding K10): the d4 loader can leave an or node without children (all its children
   were false); Cnf::from panics on it ("Attempt to transform empty operation."). *)
Theorem C19_refuted_empty_operation :
  exists C n, WF C n /\ all_reachable C = true /\ no_true_false C = true /\ (2 <= n)%nat /\
              to_cnf C n = Panic PanicEmptyOp.
Proof. exact refuted_empty_operation. Qed.
Print Assumptions C19_refuted_empty_operation.

(* the hypothesis all_reachable cannot be dropped *)
Theorem C19_reachability_needed :
  exists C n F b, WF C n /\ (2 <= n)%nat /\ to_cnf C n = Ok F /\
                  cnf_sat b F = true /\ eval_root b C = false.
Proof. exact reachability_needed. Qed.
Print Assumptions C19_reachability_needed.

(* ---------- non-vacuity ---------- *)

(* x1 <-> x2 *)
Definition ex_iff : circuit :=
  [Lit 1; Lit (-1); Lit 2; Lit (-2); And [0;2]%nat; And [1;3]%nat; Or [4;5]%nat].
Example ex_iff_hyps :
  WF ex_iff 2 /\ all_reachable ex_iff = true /\
  to_cnf ex_iff 2 = Ok (mkCnf 5 [[3; -1; -2]; [-3; 1]; [-3; 2]; [4; 1; 2]; [-4; -1]; [-4; -2];
                                 [-5; 3; 4]; [5; -3]; [5; -4]; [5]]) /\
  cnf_models (mkCnf 5 [[3; -1; -2]; [-3; 1]; [-3; 2]; [4; 1; 2]; [-4; -1]; [-4; -2];
                       [-5; 3; 4]; [5; -3]; [5; -4]; [5]])
  = [[1; 2; 3; -4; 5]; [-1; -2; -3; 4; 5]] /\
  root_count ex_iff = 2.
Proof.
  split; [apply check_wf_sound; vm_compute; reflexivity|].
  repeat split; vm_compute; reflexivity.
Qed.

(* single-child nodes (And [0], Or [1]), n-ary And, what ddnnife loads from
   `o 1 0 / t 2 0 / 1 2 1 0` with 3 features *)
Definition ex_single_child : circuit :=
  [Lit 1; And [0]%nat; Or [1]%nat; Lit 2; Lit (-2); Or [4;3]%nat; Lit 3; Lit (-3); Or [7;6]%nat;
   And [8;5;2]%nat].
Example ex_single_child_hyps :
  WF ex_single_child 3 /\ all_reachable ex_single_child = true /\
  to_cnf ex_single_child 3 =
    Ok (mkCnf 6 [[-4; -2; 2]; [4; 2]; [4; -2]; [-5; -3; 3]; [5; 3]; [5; -3];
                 [6; -5; -4; -1]; [-6; 5]; [-6; 4]; [-6; 1]; [6]]) /\
  root_count ex_single_child = 4.
Proof.
  split; [apply check_wf_sound; vm_compute; reflexivity|].
  repeat split; vm_compute; reflexivity.
Qed.

(* a shared operation: the two Or nodes have the same kind and literal list and share variable 3 *)
Definition ex_cache_hit : circuit :=
  [Lit 1; Lit (-1); Or [0;1]%nat; Lit 2; And [2;3]%nat; Or [0;1]%nat; Lit (-2); And [5;6]%nat;
   Or [4;7]%nat].
Example ex_cache_hit_hyps :
  WF ex_cache_hit 2 /\ all_reachable ex_cache_hit = true /\
  to_cnf ex_cache_hit 2 =
    Ok (mkCnf 6 [[-3; 1; -1]; [3; -1]; [3; 1]; [4; -3; -2]; [-4; 3]; [-4; 2];
                 [5; -3; 2]; [-5; 3]; [-5; -2]; [-6; 4; 5]; [6; -4]; [6; -5]; [6]]) /\
  root_count ex_cache_hit = 4.
Proof.
  split; [apply check_wf_sound; vm_compute; reflexivity|].
  repeat split; vm_compute; reflexivity.
Qed.
