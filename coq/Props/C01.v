(* C01: total model count = number of models.  Property theorems only. *)
From Coq Require Import List ZArith Bool Permutation.
From DD Require Import Model.Circuit Proofs.PassLemmas Proofs.Enum Proofs.Semantics Proofs.DetCert.
From DD Require Import Model.LexerD4 Model.LoadD4 Spec.D4Sem Proofs.LoadD4Graph Proofs.LoadD4Ops
  Proofs.LoadD4Pass2 Proofs.LoadD4Struct Proofs.LoadD4Pass3 Proofs.LoadD4Sem Proofs.LoadD4Count
  Proofs.LoadD4Examples Spec.D4Conform Proofs.LoadD4WFTop Proofs.CountsA Proofs.QueryDefs Proofs.EndToEndD4.
From DD Require Import Model.Query.
Import ListNotations.

(* The cached root count of every well-formed flattened circuit is the number of rows of the
   truth table over features 1..n that satisfy it (exact, unbounded Z). *)
Theorem C01_count_flat : forall C n, WF C n -> root_count C = MC C n.
Proof. exact count_is_MC. Qed.
Print Assumptions C01_count_flat.

(* Two circuits (whatever their shape or source format) denoting the same function report the
   same count. *)
Theorem C01_same_function_same_count : forall C1 C2 n,
  WF C1 n -> WF C2 n ->
  (forall s, eval_root s C1 = eval_root s C2) -> root_count C1 = root_count C2.
Proof. exact same_function_same_count. Qed.
Print Assumptions C01_same_function_same_count.

(* The executable checker that the correspondence run evaluates on every loaded circuit is sound:
   what it accepts is WF (so the hypothesis of the theorems above is discharged per input). *)
Theorem C01_check_wf_sound : forall C n, check_wf C n = true -> WF C n.
Proof. exact check_wf_sound. Qed.
Print Assumptions C01_check_wf_sound.

(* the enumeration is exactly the model set (used by C06/C07) *)
Theorem C01_models_enum : forall C n, WF C n ->
  Permutation (map (canon_cfg n) (enum_root C)) (Models C n).
Proof. exact models_enum_perm. Qed.
Print Assumptions C01_models_enum.

(* Non-vacuity: x1 <-> x2 as a smooth deterministic decomposable circuit, and the flattened
   tests/data/small_ex_c2d.nnf. *)
Definition ex_iff : circuit :=
  [Lit 1; Lit (-1); Lit 2; Lit (-2); And [0;2]%nat; And [1;3]%nat; Or [4;5]%nat].
Example ex_iff_wf : WF ex_iff 2 /\ root_count ex_iff = 2 /\ MC ex_iff 2 = 2.
Proof. split; [apply check_wf_sound; vm_compute; reflexivity|split; vm_compute; reflexivity]. Qed.

(* ---- the d4 loader (Model/LoadD4.v = build_d4_ddnnf + rebuild, tied to the code by the exact
   correspondence of harness kind ld4) preserves the function of the file ----

   d4_ok toks = no literal 0 and the part of the file below node 1 is a DAG (Spec/D4Sem.v);
   declarations before use, indices in range, a live root: the loader panics otherwise
   (load_d4 = None).  eval_d4 = value of node 1 of the raw d4 DAG (or: some edge whose literals
   all hold and whose target holds; and: all edges; t; f; unmentioned features are free).
   Proof: the line loop builds a graph that represents the file (edge-literal expansion over
   shared literal leaves), the new root over the free features has the value of node 0, and each
   of the three traversals preserves the value of every retained node on total assignments:
   And(c, f or not f) = c, And(..,T) = And(..), Or(..,F) = Or(..), Or(..,T) = T, an And with a F child is F and
   so is every And above it; rebuild renumbers. *)
Theorem C01_d4_loader_sem : forall toks n C n',
  d4_ok toks -> load_d4 toks n = Some (C, n') ->
  n' = Nat.max n (d4_maxvar toks) /\ forall s, eval_root s C = eval_d4 toks s.
Proof. exact load_d4_sem. Qed.
Print Assumptions C01_d4_loader_sem.

(* the same for the loader before the C18 repair, whatever order the hash set yields, and with or
   without node-index recycling: the function never depended on them, only the child order did *)
Theorem C01_d4_loader_sem_any_order : forall (recycle : bool) (ord : list nat -> list nat) toks n C n',
  (forall l, Permutation (ord l) l) -> d4_ok toks ->
  load_d4_gen recycle ord toks n = Some (C, n') ->
  n' = Nat.max n (d4_maxvar toks) /\ forall s, eval_root s C = eval_d4 toks s.
Proof. exact load_d4_gen_sem_perm. Qed.
Print Assumptions C01_d4_loader_sem_any_order.

(* the passes one by one (graph level): survivors of the true/false elimination keep their value
   (and their label, except that an or node with a true child becomes a true node: repair F12);
   every node present before smoothing keeps label and value *)
Theorem C01_d4_pass2_preserves : forall g root g', Inv g -> pass2 g root = Some g' ->
  forall s x b, sg_alive g' x = true -> GV g s x b -> GV g' s x b.
Proof. exact pass2_preserves. Qed.
Print Assumptions C01_d4_pass2_preserves.

Theorem C01_d4_pass3_preserves : forall st root st', tables_ok nonzero false st -> pass3 true (fun l => l) st root = Some st' ->
  forall s x b, GV (ls_g st) s x b -> GV (ls_g st') s x b.
Proof. exact pass3_preserves. Qed.
Print Assumptions C01_d4_pass3_preserves.

(* ---- every conforming d4 file loads to a well-formed vector ----

   d4_conform toks n (Spec/D4Conform.v, decidable, evaluated by the correspondence runs c01 and
   ld4 on every generated file) = d4's conventions as local conditions on five certificate
   tables: edges join declared nodes, no literal 0, heights decrease along edges; t/f nodes have
   no outgoing edge; an or node is d4's root idiom (one unlabelled edge) or a decision node
   (every edge labelled, any two edges carry a complementary pair; unlabelled edges into f nodes
   tolerated, to distinct f nodes); the literals of an edge are over distinct features, none of
   them mentioned below the target; the edges of an and node are over disjoint features; every
   mentioned feature is still mentioned below node 1 once the dead branches are gone.
   The proof goes through check_wf conjunct by conjunct (Proofs/LoadD4WF.v): rebuild is an
   isomorphism of the graph reachable from the root (nonempty, idx_ok, all_reachable; leaves from
   the literal table: unique_leaves, lits_nonzero); det_cert, decomposable: invariants of the
   graph from the line loop on, kept by the three traversals; smooth: every or node the third
   traversal finishes is smooth and stays so, and the traversal finishes every node the root
   reaches; complete: the tables D/TR/L of d4_conform read against the second traversal. *)
Theorem C01_d4_loader_wf : forall toks n C n',
  d4_conform toks n = true -> load_d4 toks n = Some (C, n') -> check_wf C n' = true.
Proof. exact load_d4_wf. Qed.
Print Assumptions C01_d4_loader_wf.

(* hence WF, and the cached root count is the number of satisfying assignments of THE FILE over
   the loader's feature range 1..n' *)
Theorem C01_d4_loader_wf_count : forall toks n C n',
  d4_conform toks n = true -> load_d4 toks n = Some (C, n') ->
  WF C n' /\ root_count C = Z.of_nat (length (d4_models toks n')).
Proof. exact load_d4_wf_count. Qed.
Print Assumptions C01_d4_loader_wf_count.

(* END TO END: every theorem about the query algorithms (C02-C08, C10, C19, C20) takes WFQ of the
   node vector as hypothesis; for a conforming d4 FILE that hypothesis is now a theorem, and the
   answers are about the function the FILE denotes: *)
Theorem C01_d4_loader_wfq : forall toks n C n',
  d4_conform toks n = true -> load_d4 toks n = Some (C, n') -> WFQ C n'.
Proof. exact load_d4_wfq. Qed.
Print Assumptions C01_d4_loader_wfq.

(* ... a count under assumptions A (any length, any strategy, any Clean scratch state) is the number
   of satisfying assignments of the FILE over 1..n' that contain A *)
Theorem C01_d4_file_count : forall toks n C n' A s,
  d4_conform toks n = true -> load_d4 toks n = Some (C, n') -> in_range n' A -> Clean C s ->
  snd (execute_query (build C n') A s) = Z.of_nat (length (d4_modelsA toks n' A)).
Proof. exact d4_file_count. Qed.
Print Assumptions C01_d4_file_count.

(* ... and SAT says whether such an assignment exists (for a satisfiable file) *)
Theorem C01_d4_file_sat : forall toks n C n' A,
  d4_conform toks n = true -> load_d4 toks n = Some (C, n') -> d4_models toks n' <> [] -> in_range n' A ->
  sat (build C n') A = negb (match d4_modelsA toks n' A with [] => true | _ => false end).
Proof. exact d4_file_sat. Qed.
Print Assumptions C01_d4_file_sat.

(* the same for the loader before the C18 repair (any duplicate-free enumeration order of the
   hash set) and with or without node-index recycling *)
Theorem C01_d4_loader_wf_any_order : forall (recycle : bool) (ord : list nat -> list nat) toks n C n',
  (forall l f, In f (ord l) <-> In f l) -> (forall l, NoDup l -> NoDup (ord l)) ->
  d4_conform toks n = true -> load_d4_gen recycle ord toks n = Some (C, n') -> check_wf C n' = true.
Proof. exact load_d4_gen_wf_any_order. Qed.
Print Assumptions C01_d4_loader_wf_any_order.

(* The conditions of d4_conform that the proof uses cannot be dropped: for each one a file that
   violates (only) it, loads, and fails the named conjunct of check_wf (each file is a hand case
   of run ld4, so the real loader produces exactly these vectors). *)
Theorem C01_d4_conform_or_conflict_refuted : exists toks n C n',
  d4_ok toks /\ or_ok toks 1 = false /\ load_d4 toks n = Some (C, n') /\ det_cert C = false /\
  check_wf C n' = false /\ root_count C <> Z.of_nat (length (d4_models toks n')).
Proof. exact conform_or_conflict_refuted. Qed.
Print Assumptions C01_d4_conform_or_conflict_refuted.

Theorem C01_d4_conform_and_disjoint_refuted : exists toks n C n',
  d4_ok toks /\ and_ok toks (tabT toks) 1 = false /\ load_d4 toks n = Some (C, n') /\ decomposable C = false /\
  check_wf C n' = false.
Proof. exact conform_and_disjoint_refuted. Qed.
Print Assumptions C01_d4_conform_and_disjoint_refuted.

Theorem C01_d4_conform_edge_target_refuted : exists toks n C n',
  d4_ok toks /\ edge_ok (tabT toks) ([1]%Z, 2%nat) = false /\ In ([1]%Z, 2%nat) (edges toks 1) /\
  load_d4 toks n = Some (C, n') /\ decomposable C = false /\ check_wf C n' = false.
Proof. exact conform_edge_target_refuted. Qed.
Print Assumptions C01_d4_conform_edge_target_refuted.

Theorem C01_d4_conform_edge_nodup_refuted : exists toks n C n',
  d4_ok toks /\ edge_ok (tabT toks) ([1; 1]%Z, 2%nat) = false /\ In ([1; 1]%Z, 2%nat) (edges toks 1) /\
  load_d4 toks n = Some (C, n') /\ decomposable C = false /\ check_wf C n' = false.
Proof. exact conform_edge_nodup_refuted. Qed.
Print Assumptions C01_d4_conform_edge_nodup_refuted.

Theorem C01_d4_conform_leaf_edges_refuted : exists toks n C n',
  d4_ok toks /\ kind toks 2 = Some KTrue /\ edges toks 2 <> [] /\
  load_d4 toks n = Some (C, n') /\ complete C n' = false /\ check_wf C n' = false /\
  root_count C <> Z.of_nat (length (d4_models toks n')).
Proof. exact conform_leaf_edges_refuted. Qed.
Print Assumptions C01_d4_conform_leaf_edges_refuted.

Theorem C01_d4_conform_mentioned_live_refuted : exists toks n C n',
  d4_ok toks /\ incln (all_mentioned toks) (get (tabL toks) 1 []) = false /\
  load_d4 toks n = Some (C, n') /\ complete C n' = false /\ check_wf C n' = false /\
  root_count C <> Z.of_nat (length (d4_models toks n')).
Proof. exact conform_mentioned_live_refuted. Qed.
Print Assumptions C01_d4_conform_mentioned_live_refuted.

(* token level only: the lexer ends an edge line at the first 0 *)
Theorem C01_d4_conform_literal_zero_refuted : exists toks n C n',
  forallb (edge_in_range toks) toks = false /\ load_d4 toks n = Some (C, n') /\ lits_nonzero C = false /\
  check_wf C n' = false.
Proof. exact conform_literal_zero_refuted. Qed.
Print Assumptions C01_d4_conform_literal_zero_refuted.

(* d4_conform is sufficient, not necessary: duplicate unlabelled edges into one f node (the proof
   wants duplicate-free child lists before balancing) and an or node that is deterministic
   without being a decision node are rejected by d4_conform, and load to vectors that pass
   check_wf (both are hand cases of run ld4) *)
Theorem C01_d4_conform_not_necessary :
  (d4_conform twice_false_file 1 = false /\ exists C, load_d4 twice_false_file 1 = Some (C, 1%nat) /\ check_wf C 1 = true) /\
  (d4_conform nondecision_file 1 = false /\ exists C, load_d4 nondecision_file 1 = Some (C, 1%nat) /\ check_wf C 1 = true).
Proof. exact conform_not_necessary. Qed.
Print Assumptions C01_d4_conform_not_necessary.

(* the per-input form (superseded by C01_d4_loader_wf_count for conforming files; still what the
   runs use for files outside d4_conform): if the loaded vector passes the verified checker then
   it is WF and its cached root count is the file's model count over 1..n'. *)
Theorem C01_d4_loader_wf_partial : forall toks n C n',
  d4_ok toks -> load_d4 toks n = Some (C, n') -> check_wf C n' = true ->
  WF C n' /\ root_count C = Z.of_nat (length (d4_models toks n')).
Proof. exact load_d4_count. Qed.
Print Assumptions C01_d4_loader_wf_partial.

(* ... and without the per-input check the statement is FALSE for the loader as it is (hence for
   the code, by the exact correspondence: case "feature mentioned only in a dead branch" of run
   ld4): a feature mentioned only below a dead branch is neither free nor kept.  The missing
   side condition of a "conforming" file is that every mentioned feature is mentioned on a live
   branch (d4's own output has it); the generator of the C01 input space enforces it. *)
Theorem C01_d4_loader_wf_refuted : exists toks n C n',
  d4_ok toks /\ load_d4 toks n = Some (C, n') /\ check_wf C n' = false /\
  root_count C <> Z.of_nat (length (d4_models toks n')).
Proof. exact loader_wf_refuted. Qed.
Print Assumptions C01_d4_loader_wf_refuted.

(* finding F12 (repaired): the loader before the repair leaves a true node below the or node of
   d4's tautology idiom  o 1 0 / t 2 0 / 1 2 0  (one feature); the loader now gives a vector
   without true/false nodes that passes check_wf and has the file's count *)
Theorem C01_d4_or_true_child_v0 : exists toks n C C' n',
  d4_ok toks /\
  load_d4_f12_v0 toks n = Some (C, n') /\ In TrueN C /\ no_true_false C = false /\
  load_d4 toks n = Some (C', n') /\ no_true_false C' = true /\ check_wf C' n' = true /\
  root_count C' = Z.of_nat (length (d4_models toks n')).
Proof. exact or_true_child_v0. Qed.
Print Assumptions C01_d4_or_true_child_v0.

(* Non-vacuity: tests/data/small_ex_d4.nnf and a file with smoothing, a free feature, a false
   edge and a shared node satisfy d4_ok, load (to the vectors the implementation dumped), pass
   check_wf, and the count of the loaded vector is the truth-table count of the file. *)
Ltac edges_nonzero := intros from to fs H;
  repeat (destruct H as [H|H]; [try discriminate; injection H as <- <- <-; repeat constructor; discriminate|]);
  destruct H.

Example small_ex_d4_ok : d4_ok small_ex_d4.
Proof. split; [edges_nonzero|]. eexists. vm_compute. reflexivity. Qed.
Example mixed_d4_ok : d4_ok mixed_d4.
Proof. split; [edges_nonzero|]. eexists. vm_compute. reflexivity. Qed.

Example small_ex_d4_loaded :
  load_d4 small_ex_d4 4 = Some (small_ex_d4_vector, 4%nat) /\ check_wf small_ex_d4_vector 4 = true /\
  root_count small_ex_d4_vector = Z.of_nat (length (d4_models small_ex_d4 4)) /\
  (0 < root_count small_ex_d4_vector).
Proof. repeat split; vm_compute; reflexivity. Qed.
Example mixed_d4_loaded :
  load_d4 mixed_d4 5 = Some (mixed_d4_vector, 5%nat) /\ check_wf mixed_d4_vector 5 = true /\
  root_count mixed_d4_vector = Z.of_nat (length (d4_models mixed_d4 5)) /\
  (0 < root_count mixed_d4_vector) /\
  eval_d4 mixed_d4 (asg_of [1; 2; -3; -4; -5]) = true /\ eval_d4 mixed_d4 (asg_of [-1; 2; 3; -4; 5]) = false.
Proof. repeat split; vm_compute; reflexivity. Qed.

(* Non-vacuity of C01_d4_loader_wf: tests/data/small_ex_d4.nnf, the mixed file above (smoothing,
   free feature, false edge, shared node), d4's tautology idiom, and a file with a node shared
   by two parents with different missing sets, a dead branch and a free feature all conform. *)
Example small_ex_d4_conforms : d4_conform small_ex_d4 4 = true.
Proof. exact small_ex_d4_conform. Qed.
Example mixed_d4_conforms : d4_conform mixed_d4 5 = true.
Proof. exact mixed_d4_conform. Qed.
Example tautology_conforms : d4_conform tautology_file 3 = true.
Proof. exact tautology_conform. Qed.
Example shared_d4_conforms : d4_conform shared_d4 5 = true /\
  exists C, load_d4 shared_d4 5 = Some (C, 5%nat) /\ check_wf C 5 = true /\ (0 < length C)%nat.
Proof. exact shared_d4_conform. Qed.
