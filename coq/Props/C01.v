(* C01: total model count = number of models.  Property theorems only. *)
From Coq Require Import List ZArith Bool Permutation.
From DD Require Import Model.Circuit Proofs.PassLemmas Proofs.Enum Proofs.Semantics Proofs.DetCert.
Import ListNotations.

(* The cached root count of every well-formed flattened circuit is the number of rows of the
   truth table over features 1..n that satisfy it (exact, unbounded Z). *)
Theorem C01_count_flat : forall C n, WF C n -> root_count C = MC C n.
Proof. exact count_is_MC. Qed.
Print Assumptions C01_count_flat.

(* Two circuits (whatever their shape or source format) denoting the same function report the
   same count. *)
Theorem C01_same_function_same_count : forall C1 C2 n,
  WF C1 n -> WF C2 n ->
  (forall s, eval_root s C1 = eval_root s C2) -> root_count C1 = root_count C2.
Proof. exact same_function_same_count. Qed.
Print Assumptions C01_same_function_same_count.

(* The executable checker that the correspondence run evaluates on every loaded circuit is sound:
   what it accepts is WF (so the hypothesis of the theorems above is discharged per input). *)
Theorem C01_check_wf_sound : forall C n, check_wf C n = true -> WF C n.
Proof. exact check_wf_sound. Qed.
Print Assumptions C01_check_wf_sound.

(* the enumeration is exactly the model set (used by C06/C07) *)
Theorem C01_models_enum : forall C n, WF C n ->
  Permutation (map (canon_cfg n) (enum_root C)) (Models C n).
Proof. exact models_enum_perm. Qed.
Print Assumptions C01_models_enum.

(* Non-vacuity: x1 <-> x2 as a smooth deterministic decomposable circuit, and the flattened
   tests/data/small_ex_c2d.nnf. *)
Definition ex_iff : circuit :=
  [Lit 1; Lit (-1); Lit 2; Lit (-2); And [0;2]%nat; And [1;3]%nat; Or [4;5]%nat].
Example ex_iff_wf : WF ex_iff 2 /\ root_count ex_iff = 2 /\ MC ex_iff 2 = 2.
Proof. split; [apply check_wf_sound; vm_compute; reflexivity|split; vm_compute; reflexivity]. Qed.
