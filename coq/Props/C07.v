(* C07: property theorems (see bin/propcfg/C07.py for the status). *)
From Coq Require Import List ZArith QArith Bool Permutation Lia.
From DD Require Import Model.Circuit Model.Query Model.Enumerate Proofs.Semantics Proofs.DetCert
     Proofs.CountsA Proofs.QueryDefs Proofs.Live
     Proofs.C07Defs Proofs.C07Valid Proofs.C07Urs Proofs.C07Indep
     Proofs.C07IdealDefs Proofs.C07Uniform Proofs.C07Align Proofs.C07Final
     Proofs.C07GeneralDefs Proofs.C07GeneralDist Proofs.C07GeneralAlign Proofs.C07GeneralUniform
     Proofs.C07GeneralFinal Proofs.C07GeneralMulti.
Import ListNotations.
Open Scope Z_scope.

(* The unbounded enumeration in the order enumerate_node produces it is exactly the model set:
   every model once, nothing else (all WF circuits). *)
Theorem C07_enum_is_model_set : forall C n, WF C n ->
  Permutation (map (canon_cfg n) (enum_root C)) (Models C n).
Proof. exact models_enum_perm. Qed.
Print Assumptions C07_enum_is_model_set.

(* Under assumptions A the configurations compatible with A are counted by countsA = MCA. *)
Theorem C07_compatible_count : forall C n A, WF C n -> in_range n A ->
  nth (root C) (countsA A C) 0 = MCA C n A.
Proof. exact countsA_MCA. Qed.
Print Assumptions C07_compatible_count.

(* ---------------------------------------------------------------------------------------------
   (1) The contract of the random primitives: choices_ok d ts fuel amount i chs  :=
       running sample_node_c (= sample_node plus one boolean) on the stream gives ok = true
       (the model's own flag: the stream has a Split where an Or asks for one, a Perm of the right
       length after every shuffle, and is not exhausted) and contract = true:
         every Split v consumed at an Or node with children cs and requested amount k has
           length v = length cs, all entries >= 0, zsum v = k, entry 0 at children with temp 0
           (split_ok);
         every Perm p consumed satisfies is_perm p.
       Nothing else is assumed about the stream.  The instrumented function is the model: *)
Theorem C07_contract_variant_is_sample_node : forall d ts fuel amount i chs,
  fst (sample_node_c d ts fuel amount i chs) = sample_node d ts fuel amount i chs.
Proof. exact sample_node_c_proj. Qed.
Print Assumptions C07_contract_variant_is_sample_node.

(* ---------------------------------------------------------------------------------------------
   (2) Validity of sample_node for EVERY choice stream that respects the contract: exactly
       `amount` samples; each one is, up to the order of its literals, a member of
       filter (okA A) (enum i): a partial configuration of node i compatible with A.
       temps_ok (what preprocess + execute_query leave in the temps: the count under A on every
       REACHABLE node - Reach = the root and the children of reachable nodes with a non-zero count,
       Proofs/Live.v; nothing is assumed about the temps of true nodes, and nothing about the temps
       inside dead branches, which may be stale since the core ignores dead branches, F22) is a
       hypothesis here.  The node-level theorems are about reachable nodes. *)
Theorem C07_sample_node_valid : forall (d : ddnnf) (A : cfg) (ts : list Z),
  idx_ok (circ d) = true -> temps_ok A (circ d) ts ->
  forall fuel amount i chs,
  (i < length (circ d))%nat -> (i < fuel)%nat -> 0 <= amount -> Reach (circ d) i ->
  amount = 0 \/ (nth i (circ d) FalseN <> TrueN /\ nth i ts 0 <> 0) ->
  choices_ok d ts fuel amount i chs ->
  exists l rest, sample_node d ts fuel amount i chs = (l, rest, true) /\
                 length l = Z.to_nat amount /\
                 Forall (fun s => exists c, In c (filter (okA A) (nth i (enums (circ d)) [])) /\
                                            Permutation s c) l.
Proof. exact sample_node_valid. Qed.
Print Assumptions C07_sample_node_valid.

(* ---------------------------------------------------------------------------------------------
   (3) uniform_random_sampling.  exec_ok C n A s (hypothesis; the subject of C02): after
       preprocess, execute_query returns MCA C n A and leaves temps_ok temps.
       urs_choices_okb = choices_okb for the call of sample_node made by uniform_random_sampling.
       Result: Some L with exactly `amount` elements, each a member of ModelsA C n A, i.e. a
       complete configuration over 1..n in feature order that is a model and contains A
       (C07_ModelsA_shape).  The hypothesis that the root is not a true node is necessary
       (C07_true_root_refuted) and follows from 0 < n (C07_root_not_true). *)
Theorem C07_valid : forall C n A s, WF C n -> exec_ok C n A s -> in_range n A ->
  nth (root C) C FalseN <> TrueN ->
  forall amount chs, 0 <= amount -> 0 < MCA C n A ->
  urs_choices_okb (build C n) A amount chs s = true ->
  exists L, snd (fst (uniform_random_sampling (build C n) A amount chs s)) = Some L /\
            length L = Z.to_nat amount /\
            Forall (fun m => In m (ModelsA C n A)) L.
Proof. exact uniform_random_sampling_valid. Qed.
Print Assumptions C07_valid.

Theorem C07_ModelsA_shape : forall C n A m, In m (ModelsA C n A) ->
  map Z.abs m = zseq 1 n /\ In m (Models C n) /\ (forall l, In l A -> In l m).
Proof. exact ModelsA_shape. Qed.
Print Assumptions C07_ModelsA_shape.

Theorem C07_root_not_true : forall C n, WF C n -> (0 < n)%nat -> nth (root C) C FalseN <> TrueN.
Proof. exact root_not_true. Qed.
Print Assumptions C07_root_not_true.

Theorem C07_true_root_refuted :
  check_wf [TrueN] 0 = true /\ MCA [TrueN] 0 [] = 1 /\
  snd (fst (uniform_random_sampling (build [TrueN] 0) [] 3 [] (fresh_scratch [TrueN]))) = Some [].
Proof. exact urs_true_root_refuted. Qed.
Print Assumptions C07_true_root_refuted.

(* None iff no model contains A or a literal is out of range (for every stream) *)
Theorem C07_unsat : forall C n A s, exec_ok C n A s -> forall amount chs,
  snd (fst (uniform_random_sampling (build C n) A amount chs s)) = None <->
  MCA C n A = 0 \/ (exists l, In l A /\ Z.of_nat n < Z.abs l).
Proof. exact uniform_random_sampling_none. Qed.
Print Assumptions C07_unsat.

(* ---------------------------------------------------------------------------------------------
   (4) The samples (and the ok flag) are a function of circuit, assumptions, amount and choice
       stream: they do not depend on the incoming temps / partial derivatives. *)
Theorem C07_function_of_choices : forall C n A amount chs s s', Clean C s -> Clean C s' ->
  snd (fst (uniform_random_sampling (build C n) A amount chs s)) =
  snd (fst (uniform_random_sampling (build C n) A amount chs s')) /\
  snd (uniform_random_sampling (build C n) A amount chs s) =
  snd (uniform_random_sampling (build C n) A amount chs s').
Proof. exact urs_function_of_choices. Qed.
Print Assumptions C07_function_of_choices.

Theorem C07_scratch_independent : forall d A amount chs s s',
  marks s = marks s' -> mdl s = mdl s' ->
  snd (fst (uniform_random_sampling d A amount chs s)) =
  snd (fst (uniform_random_sampling d A amount chs s')) /\
  snd (uniform_random_sampling d A amount chs s) = snd (uniform_random_sampling d A amount chs s').
Proof. exact urs_scratch_indep. Qed.
Print Assumptions C07_scratch_independent.

(* ---------------------------------------------------------------------------------------------
   (5) Uniformity, idealised, amount = 1 (PARTIAL by nature).
       joint1 (Proofs/C07IdealDefs.v) lists (choice stream, outcome, probability) for ideal
       primitives: at an Or node the single sample goes to child k with probability
       temp_k / temp_node (exact multinomial with one trial); every shuffle acts on <= 1 element
       (the uniform permutation is the identity with probability 1); And nodes draw their children
       independently.  law1 = (sort_abs outcome, probability) at the root.
       Pcg32, the f64 weights (BigRational -> f64, * amount) and rand_distr's Binomial /
       WeightedAliasIndex are OUTSIDE this model; they are only exercised by the chi-square run.
       Hypothesis or_no_true: no Or node has a true child (a true node is hidden from Or nodes
       by temp = 0 although it stands for one configuration, so uniformity fails otherwise). *)
Definition or_no_true (C : circuit) : Prop :=
  forall i cs c, (i < length C)%nat -> nth i C FalseN = Or cs -> In c cs -> nth c C FalseN <> TrueN.

(* the outcomes of the ideal law are exactly the models containing A, each listed once, each with
   probability 1 / MCA; stated as a law and as point masses *)
Theorem C07_uniform_ideal_single : forall C n A ts,
  WF C n -> in_range n A -> temps_ok A C ts -> or_no_true C -> 0 < MCA C n A ->
  Permutation (map fst (law1 (build C n) ts)) (ModelsA C n A) /\
  Forall (fun e => (snd e == 1 / inject_Z (MCA C n A))%Q) (law1 (build C n) ts) /\
  forall m, (In m (ModelsA C n A) -> (mass (law1 (build C n) ts) m == 1 / inject_Z (MCA C n A))%Q) /\
            (~ In m (ModelsA C n A) -> (mass (law1 (build C n) ts) m == 0)%Q).
Proof.
  intros C n A ts HWF HA Hts Hnt Hsat.
  destruct (law1_uniform C n A ts HWF HA Hts Hnt Hsat) as [H1 H2].
  split; [exact H1|]. split; [exact H2|]. intros m. exact (law1_mass C n A ts HWF HA Hts Hnt Hsat m).
Qed.
Print Assumptions C07_uniform_ideal_single.

(* the same at every node: outcomes = filter (okA A) (enum i) up to order, probability 1/countsA i *)
Theorem C07_uniform_ideal_single_node : forall d A ts,
  idx_ok (circ d) = true -> temps_ok A (circ d) ts -> or_no_true (circ d) ->
  forall i, (i < length (circ d))%nat -> forall f, (i < f)%nat -> Reach (circ d) i ->
  nth i (countsA A (circ d)) 0 <> 0 ->
  PermP (map e_out (joint1 d ts f i)) (filter (okA A) (nth i (enums (circ d)) [])) /\
  Forall (fun e => (e_pr e == 1 / inject_Z (nth i (countsA A (circ d)) 0%Z))%Q) (joint1 d ts f i).
Proof. exact joint1_uniform. Qed.
Print Assumptions C07_uniform_ideal_single_node.

(* the ideal law is a law about the MODEL's sample_node: each listed stream respects the contract,
   is consumed entirely, and makes sample_node (amount 1) return the listed outcome *)
Theorem C07_ideal_streams_run : forall d ts e,
  idx_ok (circ d) = true -> circ d <> [] -> nth (rootn d) (circ d) FalseN <> TrueN ->
  In e (joint1 d ts (length (circ d)) (rootn d)) ->
  sample_node d ts (length (circ d)) 1 (rootn d) (e_chs e) = ([e_out e], [], true) /\
  choices_ok d ts (length (circ d)) 1 (rootn d) (e_chs e).
Proof. exact joint1_runs. Qed.
Print Assumptions C07_ideal_streams_run.

(* ---------------------------------------------------------------------------------------------
   (6) Uniformity, idealised, EVERY amount k >= 1 and EVERY output position j < k  (FULL for ideal
       primitives; what "ideal" means is spelled out as definitions, Proofs/C07GeneralDefs.v):
       dist X = list (X * Q) with dret / dbind / expect (a finite probability monad over Q, executable).
       jointk d ts SL fuel a i : dist (choice stream * sample list)  is the law of sample_node at
       node i asked for a samples when
         - the split vector of an Or node i asked for a >= 1 samples is drawn from SL i a, ANY law with
           split_ideal ts cs temp_i a (SL i a):  weights >= 0 of total 1, every vector satisfies the
           contract split_ok (one entry per child, >= 0, sum a, 0 on zero-temp children), and
               E[ entry of live child c ] = a * temp_c / temp_i
           (nothing else: Binomial(a, w0/(w0+w1)) on two live children and a independent
            WeightedAliasIndex draws on >= 3 live children are instances; multi_split = the law of a
            independent categorical draws is PROVED to be one on every circuit, C07_multinomial_is_ideal);
         - every shuffle of m elements applies a permutation drawn from uperm m = all m! permutations
           with weight 1/m! each;
         - all draws are independent (dbind over consecutive parts of the stream).
       Proved: the law is a probability distribution on choice streams, EVERY stream of it satisfies
       choices_ok, is consumed entirely by the model's sample_node / uniform_random_sampling and
       yields the listed samples; and for every k >= 1 and every j < k the push-forward to the j-th
       returned configuration gives mass exactly 1 / MCA to every member of ModelsA and 0 to every
       other configuration.  Side condition or_no_true as in (5).
       Not claimed (and not part of C07): independence BETWEEN positions (false for expectation-only
       split laws).  Outside the model as before: Pcg32, f64 weights, rand_distr (chi-square run). *)

(* node level: total mass 1 and, for every position j < a and every test function g on
   configurations that does not depend on the order of literals,
   E[g (sample j)] = average of g over filter (okA A) (enum i)  (countsA i entries) *)
Theorem C07_uniform_ideal_marginal_node : forall d A ts SL,
  idx_ok (circ d) = true -> temps_ok A (circ d) ts -> or_no_true (circ d) ->
  splits_ideal (circ d) ts SL ->
  forall i, (i < length (circ d))%nat -> forall f, (i < f)%nat -> Reach (circ d) i -> forall a, 0 <= a ->
  nth i (countsA A (circ d)) 0 <> 0 ->
  (total (jointk d ts SL f a i) == 1)%Q /\
  forall j, (j < Z.to_nat a)%nat -> forall g, respects g ->
    (posE (jointk d ts SL f a i) j g
     == 1 / inject_Z (nth i (countsA A (circ d)) 0%Z)
        * qsumf g (filter (okA A) (nth i (enums (circ d)) [])))%Q.
Proof. exact jointk_good. Qed.
Print Assumptions C07_uniform_ideal_marginal_node.

(* node level: every entry of the law runs on the model (sample_node_c = sample_node + contract flag):
   the stream is consumed exactly, both flags are true, the listed samples are returned *)
Theorem C07_ideal_streams_run_general : forall d A ts SL,
  idx_ok (circ d) = true -> temps_ok A (circ d) ts -> splits_ideal (circ d) ts SL ->
  forall i, (i < length (circ d))%nat -> forall f, (i < f)%nat -> Reach (circ d) i -> forall a, 0 <= a ->
  a = 0 \/ nth i (countsA A (circ d)) 0 <> 0 ->
  forall r w, In (r, w) (jointk d ts SL f a i) ->
  forall rest, sample_node_c d ts f a i (fst r ++ rest) = (snd r, rest, true, true).
Proof. exact jointk_runs. Qed.
Print Assumptions C07_ideal_streams_run_general.

(* root level (temps as a hypothesis): lawk = jointk at the root with fuel = length C;
   margk j = law of sort_abs (sample j) *)
Theorem C07_uniform_ideal_marginal_root : forall C n A ts SL,
  WF C n -> in_range n A -> temps_ok A C ts -> or_no_true C -> 0 < MCA C n A ->
  splits_ideal C ts SL ->
  forall k j, 1 <= k -> (j < Z.to_nat k)%nat ->
  (total (lawk C n ts SL k) == 1)%Q /\
  forall m,
    (In m (ModelsA C n A) -> (mass (margk j (lawk C n ts SL k)) m == 1 / inject_Z (MCA C n A))%Q) /\
    (~ In m (ModelsA C n A) -> (mass (margk j (lawk C n ts SL k)) m == 0)%Q).
Proof. exact lawk_marginal. Qed.
Print Assumptions C07_uniform_ideal_marginal_root.

Theorem C07_ideal_law_runs_root : forall C n A ts SL,
  WF C n -> in_range n A -> temps_ok A C ts -> 0 < MCA C n A -> splits_ideal C ts SL ->
  forall k r w, 0 <= k -> In (r, w) (lawk C n ts SL k) ->
  (0 <= w)%Q /\
  sample_node (build C n) ts (length C) k (root C) (fst r) = (snd r, [], true) /\
  choices_ok (build C n) ts (length C) k (root C) (fst r).
Proof. exact lawk_runs. Qed.
Print Assumptions C07_ideal_law_runs_root.

(* FINAL form, uniform_random_sampling (exec_ok discharged as in C07_valid_final).
   urs_temps = the temps sample_node is called with; urs_stream_law = the ideal law on choice streams;
   urs_marginal .. j = its push-forward under  chs |-> configuration number j of the list
   uniform_random_sampling returns on chs. *)
Theorem C07_uniform_ideal_marginal : forall C n A s SL,
  WFQ C n -> (0 < n)%nat -> in_range n A -> Clean C s -> or_no_true C -> 0 < MCA C n A ->
  splits_ideal C (urs_temps (build C n) A s) SL ->
  forall k, 1 <= k ->
  (total (urs_stream_law (build C n) A SL k s) == 1)%Q /\
  (forall chs w, In (chs, w) (urs_stream_law (build C n) A SL k s) ->
     (0 <= w)%Q /\
     urs_choices_okb (build C n) A k chs s = true /\
     snd (uniform_random_sampling (build C n) A k chs s) = true /\
     exists L, snd (fst (uniform_random_sampling (build C n) A k chs s)) = Some L /\
               length L = Z.to_nat k) /\
  forall j, (j < Z.to_nat k)%nat -> forall m,
    (In m (ModelsA C n A) ->
     (mass (urs_marginal (build C n) A SL k s j) m == 1 / inject_Z (MCA C n A))%Q) /\
    (~ In m (ModelsA C n A) -> (mass (urs_marginal (build C n) A SL k s j) m == 0)%Q).
Proof. exact urs_uniform_marginal. Qed.
Print Assumptions C07_uniform_ideal_marginal.

(* the hypothesis splits_ideal is satisfiable on every circuit: a independent categorical draws *)
Theorem C07_multinomial_is_ideal : forall C A ts,
  idx_ok C = true -> temps_ok A C ts -> or_no_true C -> splits_ideal C ts (SL_multi C ts).
Proof. exact SL_multi_ideal. Qed.
Print Assumptions C07_multinomial_is_ideal.

(* ... so for that law nothing is assumed about the split law any more *)
Theorem C07_uniform_ideal_marginal_multinomial : forall C n A s,
  WFQ C n -> (0 < n)%nat -> in_range n A -> Clean C s -> or_no_true C -> 0 < MCA C n A ->
  forall k, 1 <= k ->
  let SL := SL_multi C (urs_temps (build C n) A s) in
  (total (urs_stream_law (build C n) A SL k s) == 1)%Q /\
  (forall chs w, In (chs, w) (urs_stream_law (build C n) A SL k s) ->
     (0 <= w)%Q /\
     urs_choices_okb (build C n) A k chs s = true /\
     snd (uniform_random_sampling (build C n) A k chs s) = true /\
     exists L, snd (fst (uniform_random_sampling (build C n) A k chs s)) = Some L /\
               length L = Z.to_nat k) /\
  forall j, (j < Z.to_nat k)%nat -> forall m,
    (In m (ModelsA C n A) ->
     (mass (urs_marginal (build C n) A SL k s j) m == 1 / inject_Z (MCA C n A))%Q) /\
    (~ In m (ModelsA C n A) -> (mass (urs_marginal (build C n) A SL k s j) m == 0)%Q).
Proof. exact urs_uniform_marginal_multi. Qed.
Print Assumptions C07_uniform_ideal_marginal_multinomial.

(* the uniform shuffle: weights >= 0 of total 1 on permutations of 0..m-1, and the element moved to
   any fixed position j is uniformly distributed *)
Theorem C07_uniform_shuffle : forall m,
  (total (uperm m) == 1)%Q /\
  (forall p w, In (p, w) (uperm m) ->
     length p = m /\ is_perm p = true /\ (forall x, In x p -> (x < m)%nat) /\ (0 <= w)%Q) /\
  forall (h : nat -> Q) j, (j < m)%nat ->
    (expect (uperm m) (fun p => h (nth j p 0%nat))
     == 1 / inject_Z (Z.of_nat m) * qsumf h (seq 0 m))%Q.
Proof. exact uperm_ideal. Qed.
Print Assumptions C07_uniform_shuffle.

(* ---------------- non-vacuity: the hypotheses are satisfiable, the conclusions are not trivial *)

(* (1 and 2) or (-1 and (2 or -2)), n = 2, assumption [2] *)
Example ex_wf : WF ex_circ 2.
Proof. apply check_wf_sound. vm_compute. reflexivity. Qed.

Definition ex_s0 := fresh_scratch ex_circ.
Definition ex_ts := [1; 1; 1; 1; 0; 1; 1; 2].

Example ex_temps_ok : temps_ok [2] ex_circ ex_ts.
Proof.
  intros i Hi _. do 8 (destruct i as [|i]; [vm_compute; reflexivity|]). cbn in Hi. lia.
Qed.

Example ex_exec_ok : exec_ok ex_circ 2 [2] ex_s0.
Proof.
  intros s1 H. vm_compute in H. injection H as <-. split; [vm_compute; reflexivity|].
  exact ex_temps_ok.
Qed.

Example ex_in_range : in_range 2 [2].
Proof. intros l [<-|[]]. cbn. lia. Qed.

Definition ex_chs : list choice :=
  [Split [1; 2]; Perm [0%nat]; Perm [0%nat]; Perm [1%nat; 0%nat]; Split [2; 0];
   Perm [1%nat; 0%nat]; Perm [0%nat; 1%nat]; Perm [2%nat; 0%nat; 1%nat]].

Example ex_contract : urs_choices_okb ex_d [2] 3 ex_chs ex_s0 = true /\ MCA ex_circ 2 [2] = 2.
Proof. vm_compute. split; reflexivity. Qed.

Example ex_valid_instance :
  snd (fst (uniform_random_sampling ex_d [2] 3 ex_chs ex_s0)) = Some [[-1; 2]; [1; 2]; [-1; 2]].
Proof. vm_compute. reflexivity. Qed.

(* a stream that violates the contract (the split sums to 2, 3 were requested) is accepted by the
   model's ok flag and yields an invalid (empty) configuration: the contract is needed *)
Example ex_contract_needed :
  let bad := [Split [1; 1]; Perm [0%nat]; Perm [0%nat]; Perm [0%nat]; Split [1; 0]; Perm [0%nat];
              Perm [0%nat]; Perm [2%nat; 0%nat; 1%nat]] in
  urs_choices_okb ex_d [2] 3 bad ex_s0 = false /\
  uniform_random_sampling ex_d [2] 3 bad ex_s0
  = (fst (fst (uniform_random_sampling ex_d [2] 3 bad ex_s0)), Some [[]; [1; 2]; [-1; 2]], true).
Proof. vm_compute. split; reflexivity. Qed.

Example ex_or_no_true : or_no_true ex_circ.
Proof.
  intros i cs c Hi E Hc.
  do 8 (destruct i as [|i];
        [cbn in E; try discriminate; injection E as <-; cbn in Hc;
         repeat (destruct Hc as [<-|Hc]; [cbn; discriminate|]); destruct Hc|]).
  cbn in Hi. lia.
Qed.

Example ex_law1 :
  map (fun e => (fst e, Qred (snd e))) (law1 ex_d ex_ts) = [([1; 2], (1 # 2)%Q); ([-1; 2], (1 # 2)%Q)] /\
  ModelsA ex_circ 2 [2] = [[1; 2]; [-1; 2]].
Proof. vm_compute. split; reflexivity. Qed.

(* all hypotheses of C07_valid / C07_uniform_ideal_single hold together on the example *)
Example ex_valid_applies :
  exists L, snd (fst (uniform_random_sampling (build ex_circ 2) [2] 3 ex_chs ex_s0)) = Some L /\
            length L = 3%nat /\ Forall (fun m => In m (ModelsA ex_circ 2 [2])) L.
Proof.
  apply (C07_valid ex_circ 2 [2] ex_s0 ex_wf ex_exec_ok ex_in_range).
  - cbn. discriminate.
  - lia.
  - vm_compute. reflexivity.
  - vm_compute. reflexivity.
Qed.

Example ex_uniform_applies :
  Permutation (map fst (law1 (build ex_circ 2) ex_ts)) (ModelsA ex_circ 2 [2]) /\
  Forall (fun e => (snd e == 1 / inject_Z (MCA ex_circ 2 [2%Z]))%Q) (law1 (build ex_circ 2) ex_ts).
Proof.
  destruct (C07_uniform_ideal_single ex_circ 2 [2] ex_ts ex_wf ex_in_range ex_temps_ok ex_or_no_true)
    as [H1 [H2 _]]; [vm_compute; reflexivity|]. split; assumption.
Qed.

(* Outside the theorems (C07_valid is vacuous there, no stream satisfies the contract): an Or node
   whose children with non-zero temp are all hidden true nodes, e.g. the check_wf-accepted circuit
   [Lit 1; TrueN; Or [1]; And [2; 0]] over 1 feature (c2d text "nnf 4 3 1 / L 1 / A 0 / O 0 1 1 /
   A 2 0 2").  MCA = 1, but the Rust builds an empty weight vector and panics in
   WeightedAliasIndex::new(..).unwrap(); sample_node has no Panic outcome for this. *)
Example ex_or_over_true :
  let c := [Lit 1; TrueN; Or [1%nat]; And [2%nat; 0%nat]] in
  check_wf c 1 = true /\ MCA c 1 [] = 1 /\
  urs_choices_okb (build c 1) [] 1 [Split [1]; Perm [0%nat]; Perm [0%nat]; Perm [0%nat]] (fresh_scratch c) = false /\
  urs_choices_okb (build c 1) [] 1 [Split [0]; Perm [0%nat]; Perm [0%nat]; Perm [0%nat]] (fresh_scratch c) = false.
Proof. vm_compute. repeat split. Qed.

Example ex_clean : Clean ex_circ ex_s0.
Proof. apply fresh_clean. Qed.

(* ---------------------------------------------------------------------------------------------
   FINAL forms of (3): the hypothesis exec_ok is a theorem (Proofs/ExecTemps.v, Proofs/C07Final.v)
   for every WFQ circuit (WF + unique leaves + all nodes reachable + non-zero literals; all
   established by check_wf: QueryDefs.check_wf_WFQ), every Clean scratch and every in-range A with
   0 < MCA C n A.  Without 0 < MCA the temps part of exec_ok is false (C07_exec_ok_unsat_refuted:
   the "unsatisfiable" core shortcut answers 0 without recomputing) and not needed: only the count
   is used then. *)
Theorem C07_exec_ok_holds : forall C n A s,
  WFQ C n -> in_range n A -> Clean C s -> 0 < MCA C n A -> exec_ok C n A s.
Proof. exact exec_ok_holds. Qed.
Print Assumptions C07_exec_ok_holds.

Theorem C07_exec_ok_unsat_refuted :
  check_wf ex_core7 3 = true /\ MCA ex_core7 3 [-1] = 0 /\
  exists s1, preprocess (build ex_core7 3) [-1] (fresh_scratch ex_core7) = Some s1 /\
    nth 9 (temps (fst (execute_query (build ex_core7 3) [-1] s1))) 0 = 2 /\
    nth 9 (countsA [-1] ex_core7) 0 = 0.
Proof. exact exec_ok_unsat_refuted. Qed.
Print Assumptions C07_exec_ok_unsat_refuted.

Theorem C07_valid_final : forall C n A s,
  WFQ C n -> (0 < n)%nat -> in_range n A -> Clean C s ->
  forall amount chs, 0 <= amount -> 0 < MCA C n A ->
  urs_choices_okb (build C n) A amount chs s = true ->
  exists L, snd (fst (uniform_random_sampling (build C n) A amount chs s)) = Some L /\
            length L = Z.to_nat amount /\
            Forall (fun m => In m (ModelsA C n A)) L.
Proof. exact uniform_random_sampling_valid_final. Qed.
Print Assumptions C07_valid_final.

(* None iff no model contains A or a literal is out of range (every stream, every list of non-zero
   literals; the literal 0 is accepted by preprocess and ignored by the count, so it must be
   excluded: C07_zero_literal_refuted) *)
Theorem C07_unsat_final : forall C n A s amount chs,
  WFQ C n -> (forall l, In l A -> l <> 0) -> Clean C s ->
  (snd (fst (uniform_random_sampling (build C n) A amount chs s)) = None <->
   MCA C n A = 0 \/ (exists l, In l A /\ Z.of_nat n < Z.abs l)).
Proof. exact uniform_random_sampling_none_final. Qed.
Print Assumptions C07_unsat_final.

Theorem C07_zero_literal_refuted :
  check_wf ex_circ 2 = true /\ MCA ex_circ 2 [0] = 0 /\
  snd (fst (uniform_random_sampling (build ex_circ 2) [0] 0 [] (fresh_scratch ex_circ))) = Some [].
Proof. vm_compute. repeat split. Qed.
Print Assumptions C07_zero_literal_refuted.

(* the call re-establishes the invariant of the scratch state *)
Theorem C07_keeps_clean : forall C n A s amount chs,
  WFQ C n -> (forall l, In l A -> l <> 0) -> Clean C s ->
  Clean C (fst (fst (uniform_random_sampling (build C n) A amount chs s))).
Proof. exact uniform_random_sampling_clean. Qed.
Print Assumptions C07_keeps_clean.

(* non-vacuity of the final forms *)
Example ex_final_applies :
  exists L, snd (fst (uniform_random_sampling (build ex_circ 2) [2] 3 ex_chs ex_s0)) = Some L /\
            length L = 3%nat /\ Forall (fun m => In m (ModelsA ex_circ 2 [2])) L.
Proof.
  apply (C07_valid_final ex_circ 2 [2] ex_s0).
  - apply check_wf_WFQ. vm_compute. reflexivity.
  - lia.
  - exact ex_in_range.
  - exact ex_clean.
  - lia.
  - vm_compute. reflexivity.
  - vm_compute. reflexivity.
Qed.

(* ---------------------------------------------------------------------------------------------
   non-vacuity of (6): ex_circ = (1 and 2) or (-1 and (2 or -2)), n = 2, no assumptions:
   Or root 7 with two live children (temps 1 and 2), And nodes 2 and 6, Or node 5 with two live
   children; MCA = 3.  The whole finite law is computed (amount 3: 11304 weighted streams). *)
Definition exk_ts : list Z := [1; 1; 1; 1; 1; 2; 2; 3].
Definition exk_SL := SL_multi ex_circ exk_ts.
Definition exk_third : list (cfg * Q) := [([1; 2], (1 # 3)%Q); ([-1; 2], (1 # 3)%Q); ([-1; -2], (1 # 3)%Q)].

Example exk_temps : urs_temps ex_d [] ex_s0 = exk_ts /\ MCA ex_circ 2 [] = 3 /\
                    ModelsA ex_circ 2 [] = [[1; 2]; [-1; 2]; [-1; -2]].
Proof. vm_compute. repeat split. Qed.

(* the split laws used are ideal (executable check), e.g. at the root for amounts 2 and 3 *)
Example exk_split_ideal :
  split_idealb exk_ts [2; 6]%nat 3 2 (exk_SL 7%nat 2) = true /\
  split_idealb exk_ts [2; 6]%nat 3 3 (exk_SL 7%nat 3) = true /\
  split_idealb exk_ts [1; 4]%nat 2 3 (exk_SL 5%nat 3) = true /\
  map (fun vw => (fst vw, Qred (snd vw))) (exk_SL 7%nat 2)
  = [([2; 0], (1 # 9)%Q); ([1; 1], (2 # 9)%Q); ([1; 1], (2 # 9)%Q); ([0; 2], (4 # 9)%Q)].
Proof. vm_compute. repeat split. Qed.

(* amount 2: both positions uniform; amount 3: all three positions uniform *)
Example exk_marginals_2 :
  Z.of_nat (length (lawk ex_circ 2 exk_ts exk_SL 2)) = 80 /\
  map (fun j => collect (margk j (lawk ex_circ 2 exk_ts exk_SL 2))) [0; 1]%nat = [exk_third; exk_third].
Proof. vm_compute. split; reflexivity. Qed.

Example exk_marginals_3 :
  Z.of_nat (length (lawk ex_circ 2 exk_ts exk_SL 3)) = 11304 /\
  map (fun j => collect (margk j (lawk ex_circ 2 exk_ts exk_SL 3))) [0; 1; 2]%nat
  = [exk_third; exk_third; exk_third].
Proof. vm_compute. split; reflexivity. Qed.

(* the same through uniform_random_sampling itself (push-forward of the stream law), every stream
   respecting the contract and being used up, total mass 1 *)
Example exk_urs_3 :
  let SL := SL_multi ex_circ (urs_temps ex_d [] ex_s0) in
  map (fun j => collect (urs_marginal ex_d [] SL 3 ex_s0 j)) [0; 1; 2]%nat = [exk_third; exk_third; exk_third] /\
  forallb (fun e => urs_choices_okb ex_d [] 3 (fst e) ex_s0 && snd (uniform_random_sampling ex_d [] 3 (fst e) ex_s0)
                    && Qle_bool 0 (snd e))
          (urs_stream_law ex_d [] SL 3 ex_s0) = true /\
  total_red (urs_stream_law ex_d [] SL 3 ex_s0) = 1%Q.
Proof. vm_compute. repeat split. Qed.

(* positions are NOT independent in general and that is not claimed: with amount 2 the pair of
   returned configurations is not the product law (mass of ([1;2],[1;2]) is 1/9 here because the
   multinomial split is the exact one; an expectation-only law may differ) *)

(* the Binomial law of rand_distr on two live children is another instance: explicit
   Binomial(a, p) weights C(a,k) p^k (1-p)^(a-k) on the vectors [k; a-k] *)
Definition exk_binom (a : nat) (p : Q) : dist (list Z) :=
  map (fun k => ([Z.of_nat k; Z.of_nat (a - k)],
                 (inject_Z (Z.of_nat (fact a / (fact k * fact (a - k)))) * p ^ Z.of_nat k
                  * (1 - p) ^ Z.of_nat (a - k))%Q))
      (seq 0 (S a)).
Definition exk_SLb (i : nat) (a : Z) : dist (list Z) :=
  if Nat.eqb i 7 then exk_binom (Z.to_nat a) (1 # 3) else exk_binom (Z.to_nat a) (1 # 2).

Example exk_binomial_ideal :
  forallb (fun a => split_idealb exk_ts [2; 6]%nat 3 a (exk_SLb 7%nat a)
                    && split_idealb exk_ts [1; 4]%nat 2 a (exk_SLb 5%nat a)) [1; 2; 3; 4; 5] = true /\
  map (fun vw => (fst vw, Qred (snd vw))) (exk_SLb 7%nat 3)
  = [([0; 3], (8 # 27)%Q); ([1; 2], (4 # 9)%Q); ([2; 1], (2 # 9)%Q); ([3; 0], (1 # 27)%Q)].
Proof. vm_compute. split; reflexivity. Qed.

Example exk_binomial_marginals_3 :
  map (fun j => collect (margk j (lawk ex_circ 2 exk_ts exk_SLb 3))) [0; 1; 2]%nat
  = [rev exk_third; rev exk_third; rev exk_third] /\
  forallb (fun e => choices_okb ex_d exk_ts 8 3 7 (fst (fst e))) (lawk ex_circ 2 exk_ts exk_SLb 3) = true.
Proof. vm_compute. split; reflexivity. Qed.

(* the final theorem applies to the example for EVERY amount (here k = 3, position 2) *)
Example exk_final_applies :
  let SL := SL_multi ex_circ (urs_temps (build ex_circ 2) [] ex_s0) in
  forall m, In m (ModelsA ex_circ 2 []) ->
    (mass (urs_marginal (build ex_circ 2) [] SL 3 ex_s0 2) m == 1 / inject_Z (MCA ex_circ 2 []))%Q.
Proof.
  intros SL m Hm.
  destruct (C07_uniform_ideal_marginal_multinomial ex_circ 2 [] ex_s0) with (k := 3) as [_ [_ H]].
  - apply check_wf_WFQ. vm_compute. reflexivity.
  - lia.
  - intros l [].
  - exact ex_clean.
  - exact ex_or_no_true.
  - vm_compute. reflexivity.
  - lia.
  - apply (H 2%nat); [cbn; lia|exact Hm].
Qed.
