(* C14: stream mode answers every accepted line, in input order, whatever the worker count and
   the interleaving.  Property theorems only; model = Model/StreamTS.v (transition system of
   Ddnnf::init_stream), `repaired = false` is the unchanged main thread, `repaired = true` the
   one with repo_patches/F3-stream-flush.patch.

   Carried by the theorems: every interleaving of the atomic actions of the stdin thread, the
   workers and the main thread, any number of workers, any input, any answer function.
   Not carried: that the OS scheduler eventually runs every runnable thread (fairness), the
   internals of std::sync::mpsc, workctl::WorkQueue and thread::park (assumed: FIFO queue,
   FIFO-per-sender channel, token semantics), u32/i32 wrap-around after 2^31 lines, panicking
   workers.  That `answer` is a function of the line alone (worker clones, no paging/editing
   request) is C16. *)
From Coq Require Import List Bool Arith ZArith String Permutation.
From DD Require Import Model.StreamTS Proofs.StreamStepf Proofs.StreamInv Proofs.StreamLive Proofs.StreamMain.
Import ListNotations.
Open Scope nat_scope.

(* The invariant of every reachable state (record StreamInv.Inv): |acc| = id; output_id <= id;
   the ids in the queue, at busy workers, in the channel, in the heap and the printed ones
   0..output_id-1 are a permutation of 0..id-1 (each accepted request is at exactly one place);
   whatever sits in the queue / at a worker is (i, i-th accepted line), whatever sits in the
   channel / heap is (i, answer of the i-th accepted line); printed = map answer (firstn
   output_id accepted); remaining = |queue| + |busy| + |channel|; the heap is sorted; after the
   flush nothing printable is left in the heap; after the drain loop remaining = 0. *)
Theorem C14_inv : forall answer repaired input n s,
  reachable answer repaired (init input n) s -> Inv answer repaired s.
Proof. exact main_inv. Qed.
Print Assumptions C14_inv.

(* the counters: remaining = id - |received|, heap ids lie in [output_id, id), no id twice *)
Theorem C14_counts : forall answer repaired input n s,
  reachable answer repaired (init input n) s ->
  remaining s = (Z.of_nat (next_id s) - Z.of_nat (List.length (heap s) + output_id s))%Z /\
  List.length (acc s) = next_id s /\
  (forall x, In x (heap s) -> output_id s <= fst x < next_id s) /\
  NoDup (ids s).
Proof. exact main_counts. Qed.
Print Assumptions C14_counts.

(* the i-th output line is the answer to the i-th accepted line, at every moment, in both
   versions of the main thread *)
Theorem C14_order : forall answer repaired input n s,
  reachable answer repaired (init input n) s ->
  printed s = firstn (output_id s) (map answer (acc s)) /\
  exists rest, map answer (acc s) = printed s ++ rest.
Proof. exact main_order. Qed.
Print Assumptions C14_order.

(* repaired main thread: when init_stream returns every accepted line has been answered *)
Theorem C14_all_answered : forall answer input n s,
  reachable answer true (init input n) s -> terminated s -> printed s = map answer (acc s).
Proof. exact main_all_answered. Qed.
Print Assumptions C14_all_answered.

(* the accepted lines are the input lines before the first "exit" (all of them at end of input) *)
Theorem C14_accepted : forall answer repaired input n s,
  reachable answer repaired (init input n) s -> in_loop (pc s) = false -> acc s = before_exit input.
Proof. exact accepted_spec. Qed.
Print Assumptions C14_accepted.

(* hence the output is a function of the input alone, the same for every worker count *)
Theorem C14_same_as_single_worker : forall answer input n s s1,
  reachable answer true (init input n) s -> terminated s ->
  reachable answer true (init input 1) s1 -> terminated s1 ->
  printed s = printed s1.
Proof. exact main_same_as_single_worker. Qed.
Print Assumptions C14_same_as_single_worker.

(* unchanged main thread: a run that terminates without having printed an accepted line (the
   last result is received in the iteration that sees end of input; witness StreamLive.lost_trace) *)
Theorem C14_refuted_lost_answer : forall answer,
  exists input n s,
    reachable answer false (init input n) s /\ terminated s /\ printed s <> map answer (acc s).
Proof. exact refuted_lost_answer. Qed.
Print Assumptions C14_refuted_lost_answer.

(* no lost wakeup (safety half of progress): whenever work is queued, some worker is neither
   stopped nor parked without a token, or the main thread is about to unpark worker 0 *)
Theorem C14_no_lost_wakeup : forall answer repaired input n s,
  1 <= n -> reachable answer repaired (init input n) s -> queue s <> [] ->
  Exists (fun k => runnable k = true) (ws s) \/ (pc s = MUnpark 0 /\ (0 < remaining s)%Z).
Proof. exact no_lost_wakeup. Qed.
Print Assumptions C14_no_lost_wakeup.

(* the executable transition function used on recorded logs is the relation, and an accepted
   log is a run *)
Theorem C14_stepf_is_step : forall answer repaired s e s',
  stepf answer repaired s e = Some s' <-> step answer repaired s e s'.
Proof. exact (fun a r s e s' => conj (stepf_sound a r s e s') (step_stepf a r s e s')). Qed.
Print Assumptions C14_stepf_is_step.

Theorem C14_valid_trace_reachable : forall answer repaired tr s0 s k s',
  reachable answer repaired s0 s -> valid_trace answer repaired s tr k = inl s' ->
  reachable answer repaired s0 s'.
Proof. exact valid_trace_reachable. Qed.
Print Assumptions C14_valid_trace_reachable.

(* Non-vacuity: terminated states are reachable (so C14_all_answered is not vacuous); a run in
   which the second request overtakes the first; the log H4 would record of it is accepted. *)
Example C14_ex_fixed : forall answer,
  exists s, reachable answer true (init lost_input 1) s /\ terminated s /\
            printed s = [answer "count"%string].
Proof. exact fixed_run. Qed.
Example C14_ex_overtake : forall answer,
  exists s, run answer true (init ex_input 2) ex_trace = Some s /\ terminated s /\
            printed s = [answer "a"; answer "b"]%string.
Proof. exact ex_run. Qed.
Example C14_ex_log : forall answer,
  exists s, valid_trace answer true (init ex_input 2) ex_log 0 = inl s /\ terminated s /\
            printed s = [answer "a"; answer "b"]%string.
Proof. exact ex_log_valid. Qed.
Example C14_ex_lost_log : forall answer,
  (exists s, valid_trace answer false (init lost_input 1) lost_log 0 = inl s /\ printed s = []) /\
  valid_trace answer true (init lost_input 1) lost_log 0 = inr 6.
Proof. exact lost_log_v0. Qed.
