
type __ = Obj.t

(** val negb : bool -> bool **)

let negb = function
| true -> false
| false -> true

type nat =
| O
| S of nat

(** val option_map : ('a1 -> 'a2) -> 'a1 option -> 'a2 option **)

let option_map f = function
| Some a -> Some (f a)
| None -> None

(** val length : 'a1 list -> nat **)

let rec length = function
| [] -> O
| _ :: l' -> S (length l')

(** val app : 'a1 list -> 'a1 list -> 'a1 list **)

let rec app l m =
  match l with
  | [] -> m
  | a :: l1 -> a :: (app l1 m)

type comparison =
| Eq
| Lt
| Gt

(** val compOpp : comparison -> comparison **)

let compOpp = function
| Eq -> Eq
| Lt -> Gt
| Gt -> Lt

(** val id : __ -> __ **)

let id x =
  x

type uint =
| Nil
| D0 of uint
| D1 of uint
| D2 of uint
| D3 of uint
| D4 of uint
| D5 of uint
| D6 of uint
| D7 of uint
| D8 of uint
| D9 of uint

type signed_int =
| Pos of uint
| Neg of uint

(** val revapp : uint -> uint -> uint **)

let rec revapp d d' =
  match d with
  | Nil -> d'
  | D0 d0 -> revapp d0 (D0 d')
  | D1 d0 -> revapp d0 (D1 d')
  | D2 d0 -> revapp d0 (D2 d')
  | D3 d0 -> revapp d0 (D3 d')
  | D4 d0 -> revapp d0 (D4 d')
  | D5 d0 -> revapp d0 (D5 d')
  | D6 d0 -> revapp d0 (D6 d')
  | D7 d0 -> revapp d0 (D7 d')
  | D8 d0 -> revapp d0 (D8 d')
  | D9 d0 -> revapp d0 (D9 d')

(** val rev : uint -> uint **)

let rev d =
  revapp d Nil

module Little =
 struct
  (** val double : uint -> uint **)

  let rec double = function
  | Nil -> Nil
  | D0 d0 -> D0 (double d0)
  | D1 d0 -> D2 (double d0)
  | D2 d0 -> D4 (double d0)
  | D3 d0 -> D6 (double d0)
  | D4 d0 -> D8 (double d0)
  | D5 d0 -> D0 (succ_double d0)
  | D6 d0 -> D2 (succ_double d0)
  | D7 d0 -> D4 (succ_double d0)
  | D8 d0 -> D6 (succ_double d0)
  | D9 d0 -> D8 (succ_double d0)

  (** val succ_double : uint -> uint **)

  and succ_double = function
  | Nil -> D1 Nil
  | D0 d0 -> D1 (double d0)
  | D1 d0 -> D3 (double d0)
  | D2 d0 -> D5 (double d0)
  | D3 d0 -> D7 (double d0)
  | D4 d0 -> D9 (double d0)
  | D5 d0 -> D1 (succ_double d0)
  | D6 d0 -> D3 (succ_double d0)
  | D7 d0 -> D5 (succ_double d0)
  | D8 d0 -> D7 (succ_double d0)
  | D9 d0 -> D9 (succ_double d0)
 end

(** val sub : nat -> nat -> nat **)

let rec sub n0 m =
  match n0 with
  | O -> n0
  | S k -> (match m with
            | O -> n0
            | S l -> sub k l)

(** val eqb : bool -> bool -> bool **)

let eqb b1 b2 =
  if b1 then b2 else if b2 then false else true

module Nat =
 struct
  (** val eqb : nat -> nat -> bool **)

  let rec eqb n0 m =
    match n0 with
    | O -> (match m with
            | O -> true
            | S _ -> false)
    | S n' -> (match m with
               | O -> false
               | S m' -> eqb n' m')

  (** val leb : nat -> nat -> bool **)

  let rec leb n0 m =
    match n0 with
    | O -> true
    | S n' -> (match m with
               | O -> false
               | S m' -> leb n' m')

  (** val ltb : nat -> nat -> bool **)

  let ltb n0 m =
    leb (S n0) m
 end

(** val nth : nat -> 'a1 list -> 'a1 -> 'a1 **)

let rec nth n0 l default =
  match n0 with
  | O -> (match l with
          | [] -> default
          | x :: _ -> x)
  | S m -> (match l with
            | [] -> default
            | _ :: t -> nth m t default)

(** val last : 'a1 list -> 'a1 -> 'a1 **)

let rec last l d =
  match l with
  | [] -> d
  | a :: l0 -> (match l0 with
                | [] -> a
                | _ :: _ -> last l0 d)

(** val rev0 : 'a1 list -> 'a1 list **)

let rec rev0 = function
| [] -> []
| x :: l' -> app (rev0 l') (x :: [])

(** val concat : 'a1 list list -> 'a1 list **)

let rec concat = function
| [] -> []
| x :: l0 -> app x (concat l0)

(** val map : ('a1 -> 'a2) -> 'a1 list -> 'a2 list **)

let rec map f = function
| [] -> []
| a :: t -> (f a) :: (map f t)

(** val flat_map : ('a1 -> 'a2 list) -> 'a1 list -> 'a2 list **)

let rec flat_map f = function
| [] -> []
| x :: t -> app (f x) (flat_map f t)

(** val fold_left : ('a1 -> 'a2 -> 'a1) -> 'a2 list -> 'a1 -> 'a1 **)

let rec fold_left f l a0 =
  match l with
  | [] -> a0
  | b :: t -> fold_left f t (f a0 b)

(** val fold_right : ('a2 -> 'a1 -> 'a1) -> 'a1 -> 'a2 list -> 'a1 **)

let rec fold_right f a0 = function
| [] -> a0
| b :: t -> f b (fold_right f a0 t)

(** val existsb : ('a1 -> bool) -> 'a1 list -> bool **)

let rec existsb f = function
| [] -> false
| a :: l0 -> (||) (f a) (existsb f l0)

(** val forallb : ('a1 -> bool) -> 'a1 list -> bool **)

let rec forallb f = function
| [] -> true
| a :: l0 -> (&&) (f a) (forallb f l0)

(** val filter : ('a1 -> bool) -> 'a1 list -> 'a1 list **)

let rec filter f = function
| [] -> []
| x :: l0 -> if f x then x :: (filter f l0) else filter f l0

(** val seq : nat -> nat -> nat list **)

let rec seq start = function
| O -> []
| S len0 -> start :: (seq (S start) len0)

type positive =
| XI of positive
| XO of positive
| XH

type n =
| N0
| Npos of positive

type z =
| Z0
| Zpos of positive
| Zneg of positive

module Pos =
 struct
  (** val succ : positive -> positive **)

  let rec succ = function
  | XI p -> XO (succ p)
  | XO p -> XI p
  | XH -> XO XH

  (** val add : positive -> positive -> positive **)

  let rec add x y =
    match x with
    | XI p ->
      (match y with
       | XI q -> XO (add_carry p q)
       | XO q -> XI (add p q)
       | XH -> XO (succ p))
    | XO p ->
      (match y with
       | XI q -> XI (add p q)
       | XO q -> XO (add p q)
       | XH -> XI p)
    | XH -> (match y with
             | XI q -> XO (succ q)
             | XO q -> XI q
             | XH -> XO XH)

  (** val add_carry : positive -> positive -> positive **)

  and add_carry x y =
    match x with
    | XI p ->
      (match y with
       | XI q -> XI (add_carry p q)
       | XO q -> XO (add_carry p q)
       | XH -> XI (succ p))
    | XO p ->
      (match y with
       | XI q -> XO (add_carry p q)
       | XO q -> XI (add p q)
       | XH -> XO (succ p))
    | XH ->
      (match y with
       | XI q -> XI (succ q)
       | XO q -> XO (succ q)
       | XH -> XI XH)

  (** val pred_double : positive -> positive **)

  let rec pred_double = function
  | XI p -> XI (XO p)
  | XO p -> XI (pred_double p)
  | XH -> XH

  (** val mul : positive -> positive -> positive **)

  let rec mul x y =
    match x with
    | XI p -> add y (XO (mul p y))
    | XO p -> XO (mul p y)
    | XH -> y

  (** val compare_cont : comparison -> positive -> positive -> comparison **)

  let rec compare_cont r x y =
    match x with
    | XI p ->
      (match y with
       | XI q -> compare_cont r p q
       | XO q -> compare_cont Gt p q
       | XH -> Gt)
    | XO p ->
      (match y with
       | XI q -> compare_cont Lt p q
       | XO q -> compare_cont r p q
       | XH -> Gt)
    | XH -> (match y with
             | XH -> r
             | _ -> Lt)

  (** val compare : positive -> positive -> comparison **)

  let compare =
    compare_cont Eq

  (** val eqb : positive -> positive -> bool **)

  let rec eqb p q =
    match p with
    | XI p0 -> (match q with
                | XI q0 -> eqb p0 q0
                | _ -> false)
    | XO p0 -> (match q with
                | XO q0 -> eqb p0 q0
                | _ -> false)
    | XH -> (match q with
             | XH -> true
             | _ -> false)

  (** val of_succ_nat : nat -> positive **)

  let rec of_succ_nat = function
  | O -> XH
  | S x -> succ (of_succ_nat x)

  (** val of_uint_acc : uint -> positive -> positive **)

  let rec of_uint_acc d acc =
    match d with
    | Nil -> acc
    | D0 l -> of_uint_acc l (mul (XO (XI (XO XH))) acc)
    | D1 l -> of_uint_acc l (add XH (mul (XO (XI (XO XH))) acc))
    | D2 l -> of_uint_acc l (add (XO XH) (mul (XO (XI (XO XH))) acc))
    | D3 l -> of_uint_acc l (add (XI XH) (mul (XO (XI (XO XH))) acc))
    | D4 l -> of_uint_acc l (add (XO (XO XH)) (mul (XO (XI (XO XH))) acc))
    | D5 l -> of_uint_acc l (add (XI (XO XH)) (mul (XO (XI (XO XH))) acc))
    | D6 l -> of_uint_acc l (add (XO (XI XH)) (mul (XO (XI (XO XH))) acc))
    | D7 l -> of_uint_acc l (add (XI (XI XH)) (mul (XO (XI (XO XH))) acc))
    | D8 l ->
      of_uint_acc l (add (XO (XO (XO XH))) (mul (XO (XI (XO XH))) acc))
    | D9 l ->
      of_uint_acc l (add (XI (XO (XO XH))) (mul (XO (XI (XO XH))) acc))

  (** val of_uint : uint -> n **)

  let rec of_uint = function
  | Nil -> N0
  | D0 l -> of_uint l
  | D1 l -> Npos (of_uint_acc l XH)
  | D2 l -> Npos (of_uint_acc l (XO XH))
  | D3 l -> Npos (of_uint_acc l (XI XH))
  | D4 l -> Npos (of_uint_acc l (XO (XO XH)))
  | D5 l -> Npos (of_uint_acc l (XI (XO XH)))
  | D6 l -> Npos (of_uint_acc l (XO (XI XH)))
  | D7 l -> Npos (of_uint_acc l (XI (XI XH)))
  | D8 l -> Npos (of_uint_acc l (XO (XO (XO XH))))
  | D9 l -> Npos (of_uint_acc l (XI (XO (XO XH))))

  (** val to_little_uint : positive -> uint **)

  let rec to_little_uint = function
  | XI p0 -> Little.succ_double (to_little_uint p0)
  | XO p0 -> Little.double (to_little_uint p0)
  | XH -> D1 Nil

  (** val to_uint : positive -> uint **)

  let to_uint p =
    rev (to_little_uint p)
 end

module Z =
 struct
  (** val double : z -> z **)

  let double = function
  | Z0 -> Z0
  | Zpos p -> Zpos (XO p)
  | Zneg p -> Zneg (XO p)

  (** val succ_double : z -> z **)

  let succ_double = function
  | Z0 -> Zpos XH
  | Zpos p -> Zpos (XI p)
  | Zneg p -> Zneg (Pos.pred_double p)

  (** val pred_double : z -> z **)

  let pred_double = function
  | Z0 -> Zneg XH
  | Zpos p -> Zpos (Pos.pred_double p)
  | Zneg p -> Zneg (XI p)

  (** val pos_sub : positive -> positive -> z **)

  let rec pos_sub x y =
    match x with
    | XI p ->
      (match y with
       | XI q -> double (pos_sub p q)
       | XO q -> succ_double (pos_sub p q)
       | XH -> Zpos (XO p))
    | XO p ->
      (match y with
       | XI q -> pred_double (pos_sub p q)
       | XO q -> double (pos_sub p q)
       | XH -> Zpos (Pos.pred_double p))
    | XH ->
      (match y with
       | XI q -> Zneg (XO q)
       | XO q -> Zneg (Pos.pred_double q)
       | XH -> Z0)

  (** val add : z -> z -> z **)

  let add x y =
    match x with
    | Z0 -> y
    | Zpos x' ->
      (match y with
       | Z0 -> x
       | Zpos y' -> Zpos (Pos.add x' y')
       | Zneg y' -> pos_sub x' y')
    | Zneg x' ->
      (match y with
       | Z0 -> x
       | Zpos y' -> pos_sub y' x'
       | Zneg y' -> Zneg (Pos.add x' y'))

  (** val opp : z -> z **)

  let opp = function
  | Z0 -> Z0
  | Zpos x0 -> Zneg x0
  | Zneg x0 -> Zpos x0

  (** val mul : z -> z -> z **)

  let mul x y =
    match x with
    | Z0 -> Z0
    | Zpos x' ->
      (match y with
       | Z0 -> Z0
       | Zpos y' -> Zpos (Pos.mul x' y')
       | Zneg y' -> Zneg (Pos.mul x' y'))
    | Zneg x' ->
      (match y with
       | Z0 -> Z0
       | Zpos y' -> Zneg (Pos.mul x' y')
       | Zneg y' -> Zpos (Pos.mul x' y'))

  (** val compare : z -> z -> comparison **)

  let compare x y =
    match x with
    | Z0 -> (match y with
             | Z0 -> Eq
             | Zpos _ -> Lt
             | Zneg _ -> Gt)
    | Zpos x' -> (match y with
                  | Zpos y' -> Pos.compare x' y'
                  | _ -> Gt)
    | Zneg x' ->
      (match y with
       | Zneg y' -> compOpp (Pos.compare x' y')
       | _ -> Lt)

  (** val ltb : z -> z -> bool **)

  let ltb x y =
    match compare x y with
    | Lt -> true
    | _ -> false

  (** val eqb : z -> z -> bool **)

  let eqb x y =
    match x with
    | Z0 -> (match y with
             | Z0 -> true
             | _ -> false)
    | Zpos p -> (match y with
                 | Zpos q -> Pos.eqb p q
                 | _ -> false)
    | Zneg p -> (match y with
                 | Zneg q -> Pos.eqb p q
                 | _ -> false)

  (** val abs : z -> z **)

  let abs = function
  | Zneg p -> Zpos p
  | x -> x

  (** val of_nat : nat -> z **)

  let of_nat = function
  | O -> Z0
  | S n1 -> Zpos (Pos.of_succ_nat n1)

  (** val of_N : n -> z **)

  let of_N = function
  | N0 -> Z0
  | Npos p -> Zpos p

  (** val of_uint : uint -> z **)

  let of_uint d =
    of_N (Pos.of_uint d)

  (** val of_int : signed_int -> z **)

  let of_int = function
  | Pos d0 -> of_uint d0
  | Neg d0 -> opp (of_uint d0)

  (** val to_int : z -> signed_int **)

  let to_int = function
  | Z0 -> Pos (D0 Nil)
  | Zpos p -> Pos (Pos.to_uint p)
  | Zneg p -> Neg (Pos.to_uint p)
 end

type ascii =
| Ascii of bool * bool * bool * bool * bool * bool * bool * bool

(** val eqb0 : ascii -> ascii -> bool **)

let eqb0 a b =
  let Ascii (a0, a1, a2, a3, a4, a5, a6, a7) = a in
  let Ascii (b0, b1, b2, b3, b4, b5, b6, b7) = b in
  if if if if if if if eqb a0 b0 then eqb a1 b1 else false
                 then eqb a2 b2
                 else false
              then eqb a3 b3
              else false
           then eqb a4 b4
           else false
        then eqb a5 b5
        else false
     then eqb a6 b6
     else false
  then eqb a7 b7
  else false

type string =
| EmptyString
| String of ascii * string

(** val uint_of_char : ascii -> uint option -> uint option **)

let uint_of_char a = function
| Some d0 ->
  let Ascii (b, b0, b1, b2, b3, b4, b5, b6) = a in
  if b
  then if b0
       then if b1
            then if b2
                 then None
                 else if b3
                      then if b4
                           then if b5
                                then None
                                else if b6 then None else Some (D7 d0)
                           else None
                      else None
            else if b2
                 then None
                 else if b3
                      then if b4
                           then if b5
                                then None
                                else if b6 then None else Some (D3 d0)
                           else None
                      else None
       else if b1
            then if b2
                 then None
                 else if b3
                      then if b4
                           then if b5
                                then None
                                else if b6 then None else Some (D5 d0)
                           else None
                      else None
            else if b2
                 then if b3
                      then if b4
                           then if b5
                                then None
                                else if b6 then None else Some (D9 d0)
                           else None
                      else None
                 else if b3
                      then if b4
                           then if b5
                                then None
                                else if b6 then None else Some (D1 d0)
                           else None
                      else None
  else if b0
       then if b1
            then if b2
                 then None
                 else if b3
                      then if b4
                           then if b5
                                then None
                                else if b6 then None else Some (D6 d0)
                           else None
                      else None
            else if b2
                 then None
                 else if b3
                      then if b4
                           then if b5
                                then None
                                else if b6 then None else Some (D2 d0)
                           else None
                      else None
       else if b1
            then if b2
                 then None
                 else if b3
                      then if b4
                           then if b5
                                then None
                                else if b6 then None else Some (D4 d0)
                           else None
                      else None
            else if b2
                 then if b3
                      then if b4
                           then if b5
                                then None
                                else if b6 then None else Some (D8 d0)
                           else None
                      else None
                 else if b3
                      then if b4
                           then if b5
                                then None
                                else if b6 then None else Some (D0 d0)
                           else None
                      else None
| None -> None

module NilEmpty =
 struct
  (** val string_of_uint : uint -> string **)

  let rec string_of_uint = function
  | Nil -> EmptyString
  | D0 d0 ->
    String ((Ascii (false, false, false, false, true, true, false, false)),
      (string_of_uint d0))
  | D1 d0 ->
    String ((Ascii (true, false, false, false, true, true, false, false)),
      (string_of_uint d0))
  | D2 d0 ->
    String ((Ascii (false, true, false, false, true, true, false, false)),
      (string_of_uint d0))
  | D3 d0 ->
    String ((Ascii (true, true, false, false, true, true, false, false)),
      (string_of_uint d0))
  | D4 d0 ->
    String ((Ascii (false, false, true, false, true, true, false, false)),
      (string_of_uint d0))
  | D5 d0 ->
    String ((Ascii (true, false, true, false, true, true, false, false)),
      (string_of_uint d0))
  | D6 d0 ->
    String ((Ascii (false, true, true, false, true, true, false, false)),
      (string_of_uint d0))
  | D7 d0 ->
    String ((Ascii (true, true, true, false, true, true, false, false)),
      (string_of_uint d0))
  | D8 d0 ->
    String ((Ascii (false, false, false, true, true, true, false, false)),
      (string_of_uint d0))
  | D9 d0 ->
    String ((Ascii (true, false, false, true, true, true, false, false)),
      (string_of_uint d0))

  (** val uint_of_string : string -> uint option **)

  let rec uint_of_string = function
  | EmptyString -> Some Nil
  | String (a, s0) -> uint_of_char a (uint_of_string s0)

  (** val string_of_int : signed_int -> string **)

  let string_of_int = function
  | Pos d0 -> string_of_uint d0
  | Neg d0 ->
    String ((Ascii (true, false, true, true, false, true, false, false)),
      (string_of_uint d0))

  (** val int_of_string : string -> signed_int option **)

  let int_of_string s = match s with
  | EmptyString -> Some (Pos Nil)
  | String (a, s') ->
    if eqb0 a (Ascii (true, false, true, true, false, true, false, false))
    then option_map (fun x -> Neg x) (uint_of_string s')
    else option_map (fun x -> Pos x) (uint_of_string s)
 end

type ntype =
| Lit of z
| And of nat list
| Or of nat list
| TrueN
| FalseN

(** val pass : ('a1 list -> ntype -> 'a1) -> ntype list -> 'a1 list **)

let pass f c =
  fold_left (fun acc nd -> app acc ((f acc nd) :: [])) c []

(** val zprod : z list -> z **)

let zprod l =
  fold_right Z.mul (Zpos XH) l

(** val zsum : z list -> z **)

let zsum l =
  fold_right Z.add Z0 l

(** val count_node : z list -> ntype -> z **)

let count_node acc = function
| And cs -> zprod (map (fun c -> nth c acc Z0) cs)
| Or cs -> zsum (map (fun c -> nth c acc Z0) cs)
| FalseN -> Z0
| _ -> Zpos XH

(** val counts : ntype list -> z list **)

let counts c =
  pass count_node c

(** val root_count : ntype list -> z **)

let root_count c =
  last (counts c) Z0

(** val lit_true : (z -> bool) -> z -> bool **)

let lit_true s l =
  if Z.ltb Z0 l then s l else negb (s (Z.opp l))

(** val eval_node : (z -> bool) -> bool list -> ntype -> bool **)

let eval_node s acc = function
| Lit l -> lit_true s l
| And cs -> forallb (Obj.magic id) (map (fun c -> nth c acc false) cs)
| Or cs -> existsb (Obj.magic id) (map (fun c -> nth c acc false) cs)
| TrueN -> true
| FalseN -> false

(** val evals : (z -> bool) -> ntype list -> bool list **)

let evals s c =
  pass (eval_node s) c

(** val eval_root : (z -> bool) -> ntype list -> bool **)

let eval_root s c =
  last (evals s c) false

(** val prod : z list list list -> z list list **)

let rec prod = function
| [] -> [] :: []
| l :: ls' -> flat_map (fun x -> map (fun r -> app x r) (prod ls')) l

(** val enum_node : z list list list -> ntype -> z list list **)

let enum_node acc = function
| Lit l -> (l :: []) :: []
| And cs -> prod (rev0 (map (fun c -> nth c acc []) cs))
| Or cs -> concat (map (fun c -> nth c acc []) cs)
| TrueN -> [] :: []
| FalseN -> []

(** val enums : ntype list -> z list list list **)

let enums c =
  pass enum_node c

(** val enum_root : ntype list -> z list list **)

let enum_root c =
  last (enums c) []

(** val vars_node : z list list -> ntype -> z list **)

let vars_node acc = function
| Lit l -> (Z.abs l) :: []
| And cs -> concat (map (fun c -> nth c acc []) cs)
| Or cs -> concat (map (fun c -> nth c acc []) cs)
| _ -> []

(** val varss : ntype list -> z list list **)

let varss c =
  pass vars_node c

(** val memZ : z -> z list -> bool **)

let memZ x l =
  existsb (Z.eqb x) l

(** val zseq : z -> nat -> z list **)

let rec zseq start = function
| O -> []
| S k -> start :: (zseq (Z.add start (Zpos XH)) k)

(** val all_cfgs_over : z list -> z list list **)

let rec all_cfgs_over = function
| [] -> [] :: []
| v :: vs' ->
  app (map (fun r -> v :: r) (all_cfgs_over vs'))
    (map (fun r -> (Z.opp v) :: r) (all_cfgs_over vs'))

(** val all_cfgs : nat -> z list list **)

let all_cfgs n0 =
  all_cfgs_over (zseq (Zpos XH) n0)

(** val asg_of : z list -> z -> bool **)

let asg_of m v =
  memZ v m

(** val canon : nat -> (z -> bool) -> z list **)

let canon n0 s =
  map (fun v -> if s v then v else Z.opp v) (zseq (Zpos XH) n0)

(** val canon_cfg : nat -> z list -> z list **)

let canon_cfg n0 c =
  canon n0 (asg_of c)

(** val models : ntype list -> nat -> z list list **)

let models c n0 =
  filter (fun m -> eval_root (asg_of m) c) (all_cfgs n0)

(** val mC : ntype list -> nat -> z **)

let mC c n0 =
  Z.of_nat (length (models c n0))

(** val contains_all : z list -> z list -> bool **)

let contains_all a m =
  forallb (fun l -> memZ l m) a

(** val modelsA : ntype list -> nat -> z list -> z list list **)

let modelsA c n0 a =
  filter (contains_all a) (models c n0)

(** val mCA : ntype list -> nat -> z list -> z **)

let mCA c n0 a =
  Z.of_nat (length (modelsA c n0 a))

(** val children : ntype -> nat list **)

let children = function
| And cs -> cs
| Or cs -> cs
| _ -> []

(** val idx_ok_from : nat -> ntype list -> bool **)

let rec idx_ok_from i = function
| [] -> true
| nd :: c' ->
  (&&) (forallb (fun c0 -> Nat.ltb c0 i) (children nd)) (idx_ok_from (S i) c')

(** val idx_ok : ntype list -> bool **)

let idx_ok c =
  idx_ok_from O c

(** val disjointb : z list -> z list -> bool **)

let disjointb l1 l2 =
  forallb (fun v -> negb (memZ v l2)) l1

(** val inclb : z list -> z list -> bool **)

let inclb l1 l2 =
  forallb (fun v -> memZ v l2) l1

(** val pairwise : ('a1 -> 'a1 -> bool) -> 'a1 list -> bool **)

let rec pairwise p = function
| [] -> true
| x :: l' -> (&&) (forallb (p x) l') (pairwise p l')

(** val decomposable_node : z list list -> ntype -> bool **)

let decomposable_node vs = function
| And cs -> pairwise disjointb (map (fun c -> nth c vs []) cs)
| _ -> true

(** val smooth_node : z list list -> ntype -> bool **)

let smooth_node vs = function
| Or cs ->
  let all = concat (map (fun c -> nth c vs []) cs) in
  forallb (fun c -> inclb all (nth c vs [])) cs
| _ -> true

(** val decomposable : ntype list -> bool **)

let decomposable c =
  forallb (decomposable_node (varss c)) c

(** val smooth : ntype list -> bool **)

let smooth c =
  forallb (smooth_node (varss c)) c

(** val complete : ntype list -> nat -> bool **)

let complete c n0 =
  let vr = last (varss c) [] in
  (&&) (inclb vr (zseq (Zpos XH) n0)) (inclb (zseq (Zpos XH) n0) vr)

(** val interZ : z list -> z list -> z list **)

let interZ l1 l2 =
  filter (fun x -> memZ x l2) l1

(** val forced_node : z list list -> ntype -> z list **)

let forced_node acc = function
| Lit l -> l :: []
| And cs -> concat (map (fun c -> nth c acc []) cs)
| Or cs ->
  (match cs with
   | [] -> []
   | c :: cs' ->
     fold_left (fun a c' -> interZ a (nth c' acc [])) cs' (nth c acc []))
| _ -> []

(** val forceds : ntype list -> z list list **)

let forceds c =
  pass forced_node c

(** val conflictb : z list -> z list -> bool **)

let conflictb l1 l2 =
  existsb (fun l -> (&&) (negb (Z.eqb l Z0)) (memZ (Z.opp l) l2)) l1

(** val det_cert_node : z list -> z list list -> ntype -> bool **)

let det_cert_node cnts fs = function
| Or cs ->
  pairwise (fun c1 c2 ->
    (||) ((||) (Z.eqb (nth c1 cnts Z0) Z0) (Z.eqb (nth c2 cnts Z0) Z0))
      (conflictb (nth c1 fs []) (nth c2 fs []))) cs
| _ -> true

(** val det_cert : ntype list -> bool **)

let det_cert c =
  forallb (det_cert_node (counts c) (forceds c)) c

(** val lits_of : ntype list -> z list **)

let lits_of c =
  flat_map (fun nd -> match nd with
                      | Lit l -> l :: []
                      | _ -> []) c

(** val nodupb : z list -> bool **)

let rec nodupb = function
| [] -> true
| x :: l' -> (&&) (negb (memZ x l')) (nodupb l')

(** val unique_leaves : ntype list -> bool **)

let unique_leaves c =
  nodupb (lits_of c)

(** val no_dead : ntype list -> bool **)

let no_dead c =
  forallb (fun c0 -> Z.ltb Z0 c0) (counts c)

(** val no_true_false : ntype list -> bool **)

let no_true_false c =
  forallb (fun nd ->
    match nd with
    | TrueN -> false
    | FalseN -> false
    | _ -> true) c

(** val lits_nonzero : ntype list -> bool **)

let lits_nonzero c =
  forallb (fun l -> negb (Z.eqb l Z0)) (lits_of c)

(** val has_parent : ntype list -> nat -> bool **)

let has_parent c i =
  existsb (fun nd -> existsb (Nat.eqb i) (children nd)) c

(** val all_reachable : ntype list -> bool **)

let all_reachable c =
  forallb (fun i -> has_parent c i) (seq O (sub (length c) (S O)))

(** val check_wf : ntype list -> nat -> bool **)

let check_wf c n0 =
  (&&)
    ((&&)
      ((&&)
        ((&&)
          ((&&)
            ((&&)
              ((&&) ((&&) (negb (Nat.eqb (length c) O)) (idx_ok c))
                (decomposable c)) (smooth c)) (complete c n0)) (det_cert c))
        (unique_leaves c)) (lits_nonzero c)) (all_reachable c)

(** val z_to_string : z -> string **)

let z_to_string z0 =
  NilEmpty.string_of_int (Z.to_int z0)

(** val z_of_string : string -> z option **)

let z_of_string s =
  option_map Z.of_int (NilEmpty.int_of_string s)
