(* M5: the stream line handler (ddnnf/stream.rs handle_stream_msg, get_numbers, check_boundary,
   get_floats, split_clauses, op_with_assumptions_and_vars,
   contains_input_duplicate_commands_or_params; util.rs format_vec / format_vec_vec).
   Character/token level over ASCII lines.  Executable definitions only.

   Scope of the model
   * A line is a Coq [string]; the tie to the Rust holds for lines whose characters are all < 128.
     Non-ASCII [char::is_alphabetic] / [char::is_whitespace] / multi-byte UTF-8 are NOT modelled
     (codes >= 128 are treated as ordinary non-alphabetic, non-blank, non-digit characters).
   * Every partial operation of the Rust (index, slice, Vec::remove, unwrap, pop().unwrap(), abs,
     unary minus, + on usize, to_usize().expect, BigInt %) is an explicit [RPanic]/[Panic] branch.
   * Two versions of the code are modelled by one set of definitions:
       V0 = /repo before the repair F2 (only used for the refuted witnesses),
       V1 = /repo with F2 (the version tied to the code by the correspondence).
     [dbg] = overflow checks on (debug profile) / off (release profile, wrapping arithmetic).
   * The library operations behind count / sat / core / enum / random are the models of
     Model/Query.v and Model/Enumerate.v.  atomic, t-wise, clause-update, undo-update, save-* and the
     clause cache are parameters ([extops]); their own properties (C08, C09, C12, C10) cover them.
   * f64: only the GRAMMAR of [str::parse::<f64>] is modelled ([is_f64]); fitness values are kept
     as their token text.
   * Memory/time is not modelled.  Finding K6 (ranges are expanded before the boundary check) is
     repaired by F18 (/repo 2026f7b): a limited range leaving the boundary contributes its two end
     points only.  [parse_range] below still expands; Proofs/C13F18.v defines the repaired parser
     and proves it returns the same result everywhere (C13_f18_same_result). *)
From Coq Require Import List ZArith Bool String Ascii DecimalString DecimalZ.
From DD Require Import Model.Circuit Model.Query Model.Enumerate.
Import ListNotations.
Open Scope Z_scope.

(* ---------------------------------------------------------------- outcomes *)
Inductive code := E1 | E2 | E3 | E4 | E5 | E6.
(* named soutcome / SOk / SErr / SPanic (not outcome / Ok / Err / Panic) because the extraction is
   flat and Model/ToCnf.v already owns those names *)
Inductive soutcome := SOk (out : string) | SErr (c : code) (text : string) | SPanic (site : string).
Inductive res (A : Type) := ROk (a : A) | RErr (c : code) (text : string) | RPanic (site : string).
Arguments ROk {A} a. Arguments RErr {A} c text. Arguments RPanic {A} site.
Inductive ares (A : Type) := AOk (a : A) | APanic (site : string).
Arguments AOk {A} a. Arguments APanic {A} site.

Definition rbind {A B} (r : res A) (f : A -> res B) : res B :=
  match r with ROk a => f a | RErr c t => RErr c t | RPanic p => RPanic p end.

Inductive version := V0 | V1.

Definition code_str (c : code) : string :=
  match c with E1 => "E1" | E2 => "E2" | E3 => "E3" | E4 => "E4" | E5 => "E5" | E6 => "E6" end%string.

(* ---------------------------------------------------------------- characters *)
Definition cn (c : ascii) : nat := nat_of_ascii c.
(* char::is_whitespace restricted to ASCII: U+0009..U+000D and U+0020 *)
Definition is_ws (c : ascii) : bool :=
  let n := cn c in (((9 <=? n) && (n <=? 13)) || (n =? 32))%nat.
Definition is_digit (c : ascii) : bool :=
  let n := cn c in ((48 <=? n) && (n <=? 57))%nat.
(* char::is_alphabetic restricted to ASCII *)
Definition is_alpha (c : ascii) : bool :=
  let n := cn c in (((65 <=? n) && (n <=? 90)) || ((97 <=? n) && (n <=? 122)))%nat.
Definition is_minus (c : ascii) : bool := (cn c =? 45)%nat.
Definition is_plus (c : ascii) : bool := (cn c =? 43)%nat.
Definition is_dot (c : ascii) : bool := (cn c =? 46)%nat.
Definition is_slash (c : ascii) : bool := (cn c =? 47)%nat.
Definition lower (c : ascii) : ascii :=
  let n := cn c in if ((65 <=? n) && (n <=? 90))%nat then ascii_of_nat (n + 32) else c.

Fixpoint sall (p : ascii -> bool) (s : string) : bool :=
  match s with EmptyString => true | String c r => p c && sall p r end.
Fixpoint sany (p : ascii -> bool) (s : string) : bool :=
  match s with EmptyString => false | String c r => p c || sany p r end.
Fixpoint smap (f : ascii -> ascii) (s : string) : string :=
  match s with EmptyString => EmptyString | String c r => String (f c) (smap f r) end.
Definition sempty (s : string) : bool := match s with EmptyString => true | _ => false end.

(* str::split_whitespace *)
Fixpoint split_ws (s : string) (cur : string) : list string :=
  match s with
  | EmptyString => if sempty cur then [] else [cur]
  | String c r =>
    if is_ws c then (if sempty cur then split_ws r EmptyString else cur :: split_ws r EmptyString)
    else split_ws r (cur ++ String c EmptyString)
  end.
Definition words (s : string) : list string := split_ws s EmptyString.

Fixpoint join (sep : string) (l : list string) : string :=
  match l with
  | [] => EmptyString
  | [x] => x
  | x :: r => x ++ sep ++ join sep r
  end.

(* ---------------------------------------------------------------- numbers as text *)
Definition zstr (z : Z) : string := NilEmpty.string_of_int (Z.to_int z).
Definition nstr (n : nat) : string := zstr (Z.of_nat n).
Definition bstr (b : bool) : string := if b then "true"%string else "false"%string.

Definition i32_min : Z := - 2147483648.
Definition i32_max : Z := 2147483647.
Definition u64_max : Z := 18446744073709551615.
(* `x as i32` for a u32 *)
Definition as_i32 (b : Z) : Z := if b <=? i32_max then b else b - 4294967296.

Definition digit_val (c : ascii) : Z := Z.of_nat (cn c - 48).
Fixpoint dec_from (acc : Z) (s : string) : Z :=
  match s with EmptyString => acc | String c r => dec_from (acc * 10 + digit_val c) r end.
(* longest prefix of ASCII digits (nom digit1 / dec2flt parse_digits) *)
Fixpoint take_digits (s : string) : string * string :=
  match s with
  | EmptyString => (EmptyString, EmptyString)
  | String c r => if is_digit c then let '(d, rest) := take_digits r in (String c d, rest)
                  else (EmptyString, s)
  end.

(* nom: recognize(pair(opt(char('-')), digit1)) -- prefix parser *)
Inductive lexres := LOk (num rest : string) | LFail (at_ : string).
Definition signed_number (s : string) : lexres :=
  let '(neg, s1) := match s with
                    | String c r => if is_minus c then (true, r) else (false, s)
                    | EmptyString => (false, s)
                    end in
  let '(ds, rest) := take_digits s1 in
  if sempty ds then LFail s1
  else LOk (if neg then String "-"%char ds else ds) rest.

(* value of a recognised [-]digits text; str::parse::<i32> fails exactly when it does not fit *)
Definition num_val (num : string) : Z :=
  match num with
  | String c r => if is_minus c then - dec_from 0 r else dec_from 0 num
  | EmptyString => 0
  end.
Definition parse_i32 (num : string) : option Z :=
  let v := num_val num in if (i32_min <=? v) && (v <=? i32_max) then Some v else None.

(* nom tag("..") *)
Definition strip_dotdot (s : string) : option string :=
  match s with
  | String c1 (String c2 r) => if is_dot c1 && is_dot c2 then Some r else None
  | _ => None
  end.

(* a..=b *)
Definition zrange (a b : Z) : list Z := if b <? a then [] else zseq a (Z.to_nat (b - a + 1)).

(* <str as Debug>::fmt for ASCII text *)
Definition hexd (n : nat) : ascii :=
  if (n <? 10)%nat then ascii_of_nat (48 + n) else ascii_of_nat (87 + n).
Definition hex_of (n : nat) : string :=
  if (n <? 16)%nat then String (hexd n) EmptyString
  else String (hexd (n / 16)) (String (hexd (n mod 16)) EmptyString).
Definition escape_char (c : ascii) : string :=
  let n := cn c in
  if (n =? 34)%nat then "\"""%string
  else if (n =? 92)%nat then "\\"%string
  else if (n =? 0)%nat then "\0"%string
  else if (n =? 9)%nat then "\t"%string
  else if (n =? 10)%nat then "\n"%string
  else if (n =? 13)%nat then "\r"%string
  else if ((n <? 32) || (127 <=? n))%nat then ("\u{" ++ hex_of n ++ "}")%string
  else String c EmptyString.
Fixpoint escape_str (s : string) : string :=
  match s with EmptyString => EmptyString | String c r => (escape_char c ++ escape_str r)%string end.
Definition debug_str (s : string) : string := ("""" ++ escape_str s ++ """")%string.

Inductive nomkind := KDigit | KMapRes.
Definition nom_err (k : nomkind) (input : string) : string :=
  ("E3 Parsing Error: Error { input: " ++ debug_str input ++ ", code: " ++
   match k with KDigit => "Digit" | KMapRes => "MapRes" end ++ " }")%string.

(* the nom `alt` of get_numbers: a..b | a.. | a ; each alternative is a PREFIX parser, trailing
   garbage is ignored; an alternative whose map_res closure fails (i32 overflow) falls through to
   the next one; the error reported is the one of the last alternative *)
Definition alt_single (tok : string) : list Z + string :=
  match signed_number tok with
  | LOk a _ => match parse_i32 a with Some x => inl [x] | None => inr (nom_err KMapRes tok) end
  | LFail at_ => inr (nom_err KDigit at_)
  end.
Definition alt_open (boundary : Z) (a tok : string) : list Z + string :=
  match parse_i32 a with
  | Some x => inl (zrange x (as_i32 boundary))
  | None => alt_single tok
  end.
Definition parse_range (boundary : Z) (tok : string) : list Z + string :=
  match signed_number tok with
  | LFail _ => alt_single tok
  | LOk a r1 =>
    match strip_dotdot r1 with
    | None => alt_single tok
    | Some r2 =>
      match signed_number r2 with
      | LOk b _ =>
        match parse_i32 a, parse_i32 b with
        | Some x, Some y => inl (zrange x y)
        | _, _ => alt_open boundary a tok
        end
      | LFail _ => alt_open boundary a tok
      end
    end
  end.

Definition nonzero (z : Z) : bool := negb (z =? 0).

(* ---------------------------------------------------------------- check_boundary / get_numbers *)
Definition boundary_text (dbg : bool) (b : Z) : res string :=
  let bi := as_i32 b in
  if (bi =? i32_min) && dbg then RPanic "check_boundary: -(boundary as i32) overflows"
  else
    let neg := if bi =? i32_min then i32_min else - bi in
    ROk ("E3 error: not all parameters are within the boundary of " ++ zstr neg ++ " to " ++ zstr bi)%string.

(* V0: numbers.iter().any(|v| v.abs() > boundary as i32), left to right, short-circuit *)
Fixpoint any_out_v0 (dbg : bool) (b : Z) (l : cfg) : res bool :=
  match l with
  | [] => ROk false
  | v :: r =>
    if v =? i32_min then
      (if dbg then RPanic "check_boundary: i32::abs overflows"
       else (* wraps to i32::MIN, which is never > boundary as i32 *)
         if as_i32 b <? i32_min then ROk true else any_out_v0 dbg b r)
    else if as_i32 b <? Z.abs v then ROk true else any_out_v0 dbg b r
  end.
(* V1: numbers.iter().any(|v| v.unsigned_abs() > boundary) *)
Definition any_out_v1 (b : Z) (l : cfg) : bool := existsb (fun v => b <? Z.abs v) l.

Definition check_boundary (ver : version) (dbg : bool) (numbers : cfg) (b : Z) : res unit :=
  rbind (match ver with V0 => any_out_v0 dbg b numbers | V1 => ROk (any_out_v1 b numbers) end)
        (fun out => if out then rbind (boundary_text dbg b) (fun t => RErr E3 t) else ROk tt).

Definition no_value : string := "E4 error: option used but there was no value supplied".

Fixpoint gn_loop (ver : version) (dbg : bool) (b : Z) (ps : list string) (numbers : cfg) (cnt : nat)
  : res (cfg * nat) :=
  match ps with
  | [] =>
    match numbers with
    | [] => RErr E4 no_value
    | _ => rbind (check_boundary ver dbg numbers b) (fun _ => ROk (numbers, cnt))
    end
  | p :: ps' =>
    if sany is_alpha p then
      (* the next keyword: V0 returns at once (no boundary check, no emptiness check);
         V1 (F2) checks the boundary first *)
      match ver with
      | V0 => ROk (numbers, cnt)
      | V1 => rbind (check_boundary ver dbg numbers b) (fun _ => ROk (numbers, cnt))
      end
    else
      match parse_range b p with
      | inl l => gn_loop ver dbg b ps' (numbers ++ filter nonzero l) (S cnt)
      | inr e => RErr E3 e
      end
  end.
Definition get_numbers (ver : version) (dbg : bool) (ps : list string) (b : Z) : res (cfg * nat) :=
  gn_loop ver dbg b ps [] 0.

(* ---------------------------------------------------------------- f64 grammar, get_floats, split_clauses *)
Definition strip_sign (s : string) : string :=
  match s with String c r => if is_plus c || is_minus c then r else s | EmptyString => s end.
(* core::num::dec2flt:  Sign? ( 'inf' | 'infinity' | 'nan' | Number ),  case-insensitive;
   Number ::= ( Digit+ | Digit+ '.' Digit* | Digit* '.' Digit+ ) ( [eE] Sign? Digit+ )? *)
Definition is_f64 (s : string) : bool :=
  let s1 := strip_sign s in
  if sempty s1 then false
  else
    let l := smap lower s1 in
    if String.eqb l "inf" || String.eqb l "infinity" || String.eqb l "nan" then true
    else
      let '(ip, r1) := take_digits s1 in
      let '(fp, r2) := match r1 with
                       | String c r => if is_dot c then take_digits r else (EmptyString, r1)
                       | EmptyString => (EmptyString, r1)
                       end in
      if sempty ip && sempty fp then false
      else
        match r2 with
        | EmptyString => true
        | String c r3 =>
          if (cn (lower c) =? 101)%nat then
            let '(ep, r5) := take_digits (strip_sign r3) in negb (sempty ep) && sempty r5
          else false
        end.

Definition bad_float : string := "E3 invalid float literal".
Fixpoint gf_loop (ps : list string) (acc : list string) (cnt : nat) : res (list string * nat) :=
  match ps with
  | [] => match acc with [] => RErr E4 no_value | _ => ROk (acc, cnt) end
  | p :: ps' =>
    if sany is_alpha p then ROk (acc, cnt)
    else if is_f64 p then gf_loop ps' (acc ++ [p]) (S cnt)
    else RErr E3 bad_float
  end.
Definition get_floats (ps : list string) : res (list string * nat) := gf_loop ps [] 0.

Definition is_zero_tok (s : string) : bool := String.eqb s "0".
Definition sc_finish (result : list (list string)) (sub : list string) : res (list (list string)) :=
  let result' := match sub with [] => result | _ => result ++ [sub] end in
  match result' with
  | [] => RErr E4 "E4 error: key word is missing arguments"
  | _ => ROk result'
  end.
Fixpoint sc_loop (ps : list string) (result : list (list string)) (sub : list string)
  : res (list (list string)) :=
  match ps with
  | [] => sc_finish result sub
  | p :: ps' =>
    if negb (is_f64 p) then sc_finish result sub
    else if is_zero_tok p then
      match sub with
      | [] => RErr E4 "E4 error: detected an unallowed empty clause"
      | _ => sc_loop ps' (result ++ [sub]) []
      end
    else sc_loop ps' result (sub ++ [p])
  end.
Definition split_clauses (ps : list string) : res (list (list string)) := sc_loop ps [] [].

(* ---------------------------------------------------------------- str::parse::<u64> / <usize> *)
Inductive pie := InvalidDigit | PosOverflow.
Definition pie_text (e : pie) : string :=
  match e with
  | InvalidDigit => "invalid digit found in string"
  | PosOverflow => "number too large to fit in target type"
  end.
Fixpoint pu_loop (max acc : Z) (s : string) : Z + pie :=
  match s with
  | EmptyString => inl acc
  | String c r =>
    if is_digit c then
      let a := acc * 10 + digit_val c in if max <? a then inr PosOverflow else pu_loop max a r
    else inr InvalidDigit
  end.
Definition parse_unsigned (max : Z) (s : string) : Z + pie :=
  let s1 := match s with String c r => if is_plus c then r else s | EmptyString => s end in
  if sempty s1 then inr InvalidDigit else pu_loop max 0 s1.

(* ---------------------------------------------------------------- duplicate keyword check *)
Definition is_text_word (w : string) : bool := negb (sall (fun c => is_digit c || is_minus c) w).
Definition smem (w : string) (l : list string) : bool := existsb (String.eqb w) l.
Fixpoint dup_scan (ws : list string) (seen : list string) : option string :=
  match ws with
  | [] => None
  | w :: r =>
    if is_text_word w then (if smem w seen then Some w else dup_scan r (w :: seen))
    else dup_scan r seen
  end.

(* ---------------------------------------------------------------- the parsed request *)
Record parsed := mkP {
  p_params : cfg;             (* a | assumptions *)
  p_values : cfg;             (* v | variables *)
  p_seed : Z;                 (* seed | s, default 42 *)
  p_limit : option Z;         (* limit | l *)
  p_fitness : list string;    (* f | fitness: the accepted tokens *)
  p_add : list cfg;           (* add: clauses as BTreeSets (ascending, duplicate-free) *)
  p_rmv : list cfg;
  p_path : string;            (* path | p, default "" *)
}.
Definition p_init : parsed :=
  {| p_params := []; p_values := []; p_seed := 42; p_limit := None; p_fitness := [];
     p_add := []; p_rmv := []; p_path := EmptyString |}.
Definition set_params (p : parsed) (x : cfg) : parsed :=
  {| p_params := x; p_values := p_values p; p_seed := p_seed p; p_limit := p_limit p;
     p_fitness := p_fitness p; p_add := p_add p; p_rmv := p_rmv p; p_path := p_path p |}.
Definition set_values (p : parsed) (x : cfg) : parsed :=
  {| p_params := p_params p; p_values := x; p_seed := p_seed p; p_limit := p_limit p;
     p_fitness := p_fitness p; p_add := p_add p; p_rmv := p_rmv p; p_path := p_path p |}.
Definition set_seed (p : parsed) (x : Z) : parsed :=
  {| p_params := p_params p; p_values := p_values p; p_seed := x; p_limit := p_limit p;
     p_fitness := p_fitness p; p_add := p_add p; p_rmv := p_rmv p; p_path := p_path p |}.
Definition set_limit (p : parsed) (x : Z) : parsed :=
  {| p_params := p_params p; p_values := p_values p; p_seed := p_seed p; p_limit := Some x;
     p_fitness := p_fitness p; p_add := p_add p; p_rmv := p_rmv p; p_path := p_path p |}.
Definition set_fitness (p : parsed) (x : list string) : parsed :=
  {| p_params := p_params p; p_values := p_values p; p_seed := p_seed p; p_limit := p_limit p;
     p_fitness := x; p_add := p_add p; p_rmv := p_rmv p; p_path := p_path p |}.
Definition set_path (p : parsed) (x : string) : parsed :=
  {| p_params := p_params p; p_values := p_values p; p_seed := p_seed p; p_limit := p_limit p;
     p_fitness := p_fitness p; p_add := p_add p; p_rmv := p_rmv p; p_path := x |}.
Definition push_clause (is_add : bool) (p : parsed) (c : cfg) : parsed :=
  {| p_params := p_params p; p_values := p_values p; p_seed := p_seed p; p_limit := p_limit p;
     p_fitness := p_fitness p;
     p_add := if is_add then p_add p ++ [c] else p_add p;
     p_rmv := if is_add then p_rmv p else p_rmv p ++ [c];
     p_path := p_path p |}.

(* BTreeSet<i32>::from_iter: ascending, duplicate-free *)
Fixpoint insert_set (x : Z) (l : cfg) : cfg :=
  match l with
  | [] => [x]
  | y :: l' => if x <? y then x :: l else if x =? y then l else y :: insert_set x l'
  end.
Definition to_set (l : cfg) : cfg := fold_right insert_set [] l.
(* Itertools::sorted on i32 *)
Fixpoint insert_z (x : Z) (l : cfg) : cfg :=
  match l with
  | [] => [x]
  | y :: l' => if x <=? y then x :: l else y :: insert_z x l'
  end.
Definition sort_z (l : cfg) : cfg := fold_right insert_z [] l.

(* ---------------------------------------------------------------- keyword loop *)
Definition kw_in (kw : string) (a b : string) : bool := String.eqb kw a || String.eqb kw b.
Definition slice_from {A} (l : list A) (i : nat) : option (list A) :=
  if (i <=? length l)%nat then Some (skipn i l) else None.

Definition quote (s : string) : string := ("""" ++ s ++ """")%string.

(* for s in split { get_numbers(&s); param_index += len; skip one "0"; push the clause } *)
Fixpoint clause_loop (ver : version) (dbg : bool) (tf : Z) (args : list string) (is_add : bool)
         (split : list (list string)) (i : nat) (acc : parsed) : res (nat * parsed) :=
  match split with
  | [] => ROk (i, acc)
  | s :: rest =>
    rbind (get_numbers ver dbg s tf) (fun '(nums, len) =>
      let i' := (i + len)%nat in
      rbind (if (i' <? length args)%nat then
               match nth_error args i' with
               | Some z => ROk (if is_zero_tok z then S i' else i')
               | None => RPanic "args[param_index] (clause separator)"
               end
             else ROk i')
            (fun i'' => clause_loop ver dbg tf args is_add rest i'' (push_clause is_add acc (to_set nums))))
  end.

(* while param_index < args.len() { param_index += 1; match args[param_index - 1] ... }
   [i] = param_index before the increment.  fuel: the index grows in every round. *)
Fixpoint kw_loop (ver : version) (dbg : bool) (tf : Z) (fuel : nat) (args : list string) (i : nat)
         (acc : parsed) : res parsed :=
  match fuel with
  | O => RPanic "keyword loop: out of fuel (would not terminate)"
  | S f =>
    if (length args <=? i)%nat then ROk acc
    else
      match nth_error args i with
      | None => RPanic "args[param_index - 1]"
      | Some kw =>
        let i1 := S i in
        if kw_in kw "a" "assumptions" then
          match slice_from args i1 with
          | None => RPanic "&args[param_index..] (assumptions)"
          | Some sl => rbind (get_numbers ver dbg sl tf) (fun '(nums, len) =>
                         kw_loop ver dbg tf f args (i1 + len)%nat (set_params acc nums))
          end
        else if kw_in kw "v" "variables" then
          match slice_from args i1 with
          | None => RPanic "&args[param_index..] (variables)"
          | Some sl => rbind (get_numbers ver dbg sl tf) (fun '(nums, len) =>
                         kw_loop ver dbg tf f args (i1 + len)%nat (set_values acc nums))
          end
        else if kw_in kw "f" "fitness" then
          match slice_from args i1 with
          | None => RPanic "&args[param_index..] (fitness)"
          | Some sl => rbind (get_floats sl) (fun '(fl, len) =>
                         kw_loop ver dbg tf f args (i1 + len)%nat (set_fitness acc fl))
          end
        else if kw_in kw "seed" "s" || kw_in kw "limit" "l" || kw_in kw "path" "p" then
          if (i1 <? length args)%nat then
            match nth_error args i1 with
            | None => RPanic "args[param_index]"
            | Some val =>
              if kw_in kw "seed" "s" then
                match parse_unsigned u64_max val with
                | inl x => kw_loop ver dbg tf f args (S i1) (set_seed acc x)
                | inr e => RErr E3 ("E3 error: " ++ pie_text e)
                end
              else if kw_in kw "limit" "l" then
                match parse_unsigned u64_max val with
                | inl x => kw_loop ver dbg tf f args (S i1) (set_limit acc x)
                | inr e => RErr E3 ("E3 error: " ++ pie_text e)
                end
              else kw_loop ver dbg tf f args (S i1) (set_path acc val)
            end
          else RErr E4 ("E4 error: param " ++ quote kw ++ " was used, but no value supplied")
        else if kw_in kw "add" "rmv" then
          match slice_from args i1 with
          | None => RPanic "&args[param_index..] (clauses)"
          | Some sl =>
            rbind (split_clauses sl) (fun split =>
            rbind (clause_loop ver dbg tf args (String.eqb kw "add") split i1 acc) (fun '(i2, acc') =>
              kw_loop ver dbg tf f args i2 acc'))
          end
        else RErr E4 ("E4 error: the option " ++ quote kw ++ " is not valid in this context")
      end
  end.

(* ---------------------------------------------------------------- total-features pre-pass *)
Definition is_t (s : string) : bool := kw_in s "total-features" "t".
Fixpoint position {A} (p : A -> bool) (l : list A) : option nat :=
  match l with
  | [] => None
  | x :: r => if p x then Some O else option_map S (position p r)
  end.
(* Vec::remove: None = index out of bounds (panic) *)
Fixpoint remove_at {A} (i : nat) (l : list A) : option (list A) :=
  match l, i with
  | [], _ => None
  | _ :: r, O => Some r
  | x :: r, S k => option_map (cons x) (remove_at k r)
  end.

Definition no_clauses : string :=
  "E5 error: clauses corresponding to the d-DNNF aren't available; the input file must be a CNF".
Definition conflict_text : string :=
  "E5 error: at least one clause is in conflict with the feature reduction; remove conflicting clauses".

(* [conflicting] = cached_state.contains_conflicting_clauses, None when there is no cached state.
   Result: the argument vector without "t <k>" and the boundary for the keyword loop. *)
Definition t_prepass (ver : version) (dbg : bool) (n : Z) (conflicting : option (Z -> ares bool))
           (args : list string) : res (list string * Z) :=
  match position is_t args with
  | None => ROk (args, n)
  | Some idx =>
    match args, nth_error args idx with
    | a0 :: _, Some tk =>
      if negb (String.eqb a0 "clause-update") then
        RErr E4 ("E4 error: " ++ debug_str tk ++ " can only be used in combination with ""clause-update""")
      else
        let fail := RErr E4 ("E4 error: " ++ debug_str tk ++ " must be set to a single positive number") in
        let accept (x : Z) (cf : Z -> ares bool) : res (list string * Z) :=
          match cf x with
          | APanic p => RPanic p
          | AOk true => RErr E5 conflict_text
          | AOk false =>
            match remove_at idx args with
            | Some a1 => match remove_at idx a1 with
                         | Some a2 => ROk (a2, x)
                         | None => RPanic "args.remove(index) (value)"
                         end
            | None => RPanic "args.remove(index)"
            end
          end in
        let body (cfo : option (Z -> ares bool)) : res (list string * Z) :=
          match slice_from args (S idx) with
          | None => RPanic "&args[index + 1..]"
          | Some sl =>
            match get_numbers ver dbg sl i32_max with
            | RPanic p => RPanic p
            | RErr _ _ => fail
            | ROk (numbers, len) =>
              if (len =? 1)%nat then
                match ver with
                | V0 =>
                  match numbers with
                  | [] => RPanic "numbers[0]"
                  | x :: _ =>
                    if 0 <? x then
                      match cfo with
                      | None => RPanic "cached_state.as_mut().unwrap()"
                      | Some cf => accept x cf
                      end
                    else fail
                  end
                | V1 =>
                  match numbers, cfo with
                  | [x], Some cf => if 0 <? x then accept x cf else fail
                  | _, _ => fail
                  end
                end
              else fail
            end
          end in
        match ver, conflicting with
        | V1, None => RErr E5 no_clauses   (* F2: answered before anything is parsed *)
        | _, cfo => body cfo
        end
    | _, _ => RPanic "args[0] / args[index]"
    end
  end.

(* ---------------------------------------------------------------- parse_line *)
Record request := mkR { r_cmd : string; r_total : Z; r_args : parsed }.

(* everything after the whitespace split *)
Definition parse_args (ver : version) (dbg : bool) (n : Z) (conflicting : option (Z -> ares bool))
           (args : list string) : res request :=
  match args with
  | [] => RErr E4 "E4 error: got an empty msg"
  | _ =>
    match dup_scan args [] with
    | Some d => RErr E4 ("E4 error: " ++ quote d ++ " occurs at least twice in the stream msg")
    | None =>
      rbind (t_prepass ver dbg n conflicting args) (fun '(args', tf) =>
      rbind (kw_loop ver dbg tf (S (length args')) args' 1 p_init) (fun p =>
        match args' with
        | cmd :: _ => ROk {| r_cmd := cmd; r_total := tf; r_args := p |}
        | [] => RPanic "args[0]"
        end))
    end
  end.

Definition parse_line (ver : version) (dbg : bool) (n : Z) (conflicting : option (Z -> ares bool))
           (line : string) : res request :=
  parse_args ver dbg n conflicting (words line).

(* ---------------------------------------------------------------- state and abstract operations *)
Record extops (CC : Type) := mkX {
  x_conflicting : CC -> Z -> ares bool;
  (* get_atomic_sets(candidates, assumptions, cross) rendered with format_vec_vec *)
  x_atomic : ddnnf -> bool -> option (list Z) -> cfg -> scratch -> ares (scratch * string);
  (* sample_t_wise(t) [with fitness].to_string() *)
  x_twise : ddnnf -> Z -> list string -> scratch -> ares (scratch * string);
  (* update_cached_state(Left(add, rmv), Some(total)) on an existing cached state *)
  x_update : ddnnf -> CC -> list cfg -> list cfg -> Z -> scratch -> ares (ddnnf * scratch * CC * bool);
  (* undo_on_cached_state on an existing cached state *)
  x_undo : ddnnf -> CC -> scratch -> ares (ddnnf * scratch * CC * bool);
  (* write_ddnnf_to_file / write_cnf_to_file: None = written, Some e = io error text *)
  x_save_ddnnf : ddnnf -> string -> ares (option string);
  x_save_cnf : CC -> Z -> string -> ares (option string);
}.
Arguments x_conflicting {CC}. Arguments x_atomic {CC}. Arguments x_twise {CC}.
Arguments x_update {CC}. Arguments x_undo {CC}. Arguments x_save_ddnnf {CC}. Arguments x_save_cnf {CC}.

Record sstate (CC : Type) := mkS {
  dd : ddnnf;            (* the loaded model (immutable part) *)
  sc : scratch;          (* temps / markers / partial derivatives / md *)
  cur : cursor;          (* Ddnnf.enumeration_cursor: belongs to this loaded model (repair F21;
                            before it ENUMERATION_CACHE, one map for the whole process, finding
                            K2); emptied when clause-update / undo-update replace the nodes *)
  cache : option CC;     (* Ddnnf.cached_state: only for CNF inputs *)
}.
Arguments dd {CC}. Arguments sc {CC}. Arguments cur {CC}. Arguments cache {CC}. Arguments mkS {CC}.

(* ---------------------------------------------------------------- rendering *)
Definition format_vec (l : cfg) : string := join " " (map zstr l).
Definition format_vec_vec (l : list cfg) : string := join ";" (map format_vec l).

(* ---------------------------------------------------------------- op_with_assumptions_and_vars *)
Definition lop := cfg -> bool -> scratch -> ares (scratch * option string).

Fixpoint vars_loop (op : lop) (a : cfg) (vs : cfg) (s : scratch) (outs : list string)
  : ares (scratch * list string) :=
  match vs with
  | [] => AOk (s, outs)
  | x :: vs' =>
    match op (a ++ [x]) true s with
    | APanic p => APanic p
    | AOk (s', r) => vars_loop op a vs' s' (match r with Some t => outs ++ [t] | None => outs end)
    end
  end.
Definition op_with (op : lop) (a v : cfg) (s : scratch) : ares (scratch * string) :=
  match v with
  | [] =>
    match op a false s with
    | APanic p => APanic p
    | AOk (s', Some r) => AOk (s', r)
    | AOk (s', None) => AOk (s', EmptyString)
    end
  | _ =>
    match vars_loop op a v s [] with
    | APanic p => APanic p
    | AOk (s', outs) => AOk (s', join ";" outs)
    end
  end.

Definition op_count (d : ddnnf) : lop :=
  fun a _ s => let '(s', r) := execute_query d a s in AOk (s', Some (zstr r)).
Definition op_sat (d : ddnnf) : lop :=
  fun a _ s => AOk (s, Some (bstr (sat d a))).
Definition op_core (d : ddnnf) : lop :=
  fun a vars s =>
    if vars then
      match rev a with
      | [] => APanic "assumptions.pop().unwrap()"
      | could :: rest_rev =>
        let '(s1, without) := execute_query d (rev rest_rev) s in
        let '(s2, with_) := execute_query d a s1 in
        AOk (s2, if with_ =? without then Some (zstr could) else None)
      end
    else
      let '(s1, c) := core_dead_with_assumptions d a s in
      AOk (s1, Some (format_vec (sort_z c))).

(* ---------------------------------------------------------------- enum with the usize arithmetic *)
(* last_stop + amount on usize *)
Definition add_usize (ver : version) (dbg : bool) (a b : Z) : option Z :=
  let s := a + b in
  match ver with
  | V1 => Some (Z.min s u64_max)                       (* F2: saturating_add *)
  | V0 => if s <=? u64_max then Some s
          else if dbg then None                         (* attempt to add with overflow *)
          else Some (s - (u64_max + 1))                 (* wraps *)
  end.

Definition root_is_inner (d : ddnnf) : bool :=
  match nth (rootn d) (circ d) FalseN with And _ | Or _ => true | _ => false end.

Inductive eres := EOk (r : scratch * cursor * option (list cfg)) | EPanic (site : string).

(* Ddnnf::enumerate; the result is Model/Enumerate.v [enumerate] whenever no partial operation
   fails.  enumerate_node returns early when range.1 = 0 or the node's temp is 0, and a literal
   root never subtracts.  NOT modelled: in the release profile `range.1 - range.0` wraps when the
   cursor is beyond a non-zero page end (reported as a panic in both profiles here).  That needs a
   cursor that does not belong to the model - before the repair F21 one left behind by ANOTHER
   model or by this model before a clause-update (finding K2); with the cursor per model and
   emptied on every update it is unreachable: Proofs/StreamMsgCursor.v, stream_inv. *)
Definition enumerate_chk (ver : version) (dbg : bool) (d : ddnnf) (A : cfg) (amount : Z)
           (c : cursor) (s : scratch) : eres :=
  if amount =? 0 then EOk (enumerate d A amount c s)
  else
    match preprocess d A s with
    | None => EOk (enumerate d A amount c s)
    | Some s1 =>
      let A' := enum_key A in
      let '(s2, r) := execute_query d A' s1 in
      if 0 <? r then
        let rtv := rt d s2 in
        let last_stop := cur_get c A' in
        match add_usize ver dbg last_stop amount with
        | None => EPanic "enumerate: last_stop + amount overflows usize"
        | Some sum =>
          let stop := Z.min rtv sum in
          if rtv =? 0 then EPanic "enumerate: stop % rt with rt = 0"
          else if (stop mod rtv <? 0) || (u64_max <? stop mod rtv) then
            EPanic "enumerate: (stop % rt).to_usize().expect"
          else if (last_stop <? 0) || (u64_max <? last_stop) || (stop <? 0) || (u64_max <? stop) then
            EPanic "enumerate_node: range.to_usize().expect"
          else if (stop <? last_stop) && negb (stop =? 0) && root_is_inner d then
            EPanic "enumerate_node: range.1 - range.0 underflows usize"
          else EOk (enumerate d A (sum - last_stop) c s)
        end
      else EOk (enumerate d A amount c s)
    end.

Definition unsat_text : string :=
  "E5 error: with the assumptions, the ddnnf is not satisfiable. Hence, there exist no valid sample configurations".

(* ---------------------------------------------------------------- dispatch *)
Section Exec.
Context {CC : Type} (X : extops CC).

Definition keep (st : sstate CC) (s : scratch) : sstate CC :=
  {| dd := dd st; sc := s; cur := cur st; cache := cache st |}.

Definition lib_answer (st : sstate CC) (r : ares (scratch * string)) : sstate CC * soutcome :=
  match r with
  | APanic p => (st, SPanic p)
  | AOk (s', out) => (keep st s', SOk out)
  end.

(* third component: the recorded choice stream fits the traversal (only `random` consumes it) *)
Definition exec (ver : version) (dbg : bool) (rq : request) (chs : list choice) (st : sstate CC)
  : sstate CC * soutcome * bool :=
  let d := dd st in
  let p := r_args rq in
  let cmd := r_cmd rq in
  if String.eqb cmd "core" then (lib_answer st (op_with (op_core d) (p_params p) (p_values p) (sc st)), true)
  else if String.eqb cmd "count" then (lib_answer st (op_with (op_count d) (p_params p) (p_values p) (sc st)), true)
  else if String.eqb cmd "sat" then (lib_answer st (op_with (op_sat d) (p_params p) (p_values p) (sc st)), true)
  else if String.eqb cmd "enum" then
    let lim := match p_limit p with
               | Some l => Some l
               | None => if 1000 <? rc d then Some 1000
                         else if (rc d <? 0) || (u64_max <? rc d) then None else Some (rc d)
               end in
    match lim with
    | None => (st, SPanic "rc().to_usize().expect", true)
    | Some l =>
      match enumerate_chk ver dbg d (p_params p) l (cur st) (sc st) with
      | EPanic site => (st, SPanic site, true)
      | EOk (s', c', Some cfgs) =>
        ({| dd := d; sc := s'; cur := c'; cache := cache st |}, SOk (format_vec_vec cfgs), true)
      | EOk (s', c', None) =>
        ({| dd := d; sc := s'; cur := c'; cache := cache st |}, SErr E5 unsat_text, true)
      end
    end
  else if String.eqb cmd "random" then
    let l := match p_limit p with Some l => l | None => 1 end in
    let '(s', r, fits) := uniform_random_sampling d (p_params p) l chs (sc st) in
    match r with
    | Some cfgs => (keep st s', SOk (format_vec_vec cfgs), fits)
    | None => (keep st s', SErr E5 unsat_text, fits)
    end
  else if String.eqb cmd "atomic" || String.eqb cmd "atomic-cross" then
    if existsb (fun f => f <? 0) (p_values p) then
      (st, SErr E5 "E5 error: candidates must be positive", true)
    else
      let cands := match p_values p with [] => None | vs => Some vs end in
      (lib_answer st (x_atomic X d (String.eqb cmd "atomic-cross") cands (p_params p) (sc st)), true)
  else if String.eqb cmd "t-wise" then
    let t := match p_limit p with Some l => l | None => 1 end in
    match p_fitness p with
    | [] => (lib_answer st (x_twise X d t [] (sc st)), true)
    | fs =>
      if (length fs =? nv d)%nat then (lib_answer st (x_twise X d t fs (sc st)), true)
      else (st, SErr E5 ("E5 error: Only " ++ nstr (length fs) ++
                        " fitness values were provided but d-DNNF contains " ++ nstr (nv d) ++
                        " variables."), true)
    end
  else if String.eqb cmd "clause-update" then
    match cache st with
    | None => (st, SErr E5 no_clauses, true)
    | Some cc =>
      match x_update X d cc (p_add p) (p_rmv p) (r_total rq) (sc st) with
      | APanic site => (st, SPanic site, true)
      | AOk (d', s', cc', true) =>
        (* F21: Ddnnf::swap empties the cursor of the model whose nodes it replaces *)
        ({| dd := d'; sc := s'; cur := []; cache := Some cc' |}, SOk EmptyString, true)
      | AOk (d', s', cc', false) =>
        ({| dd := d'; sc := s'; cur := cur st; cache := Some cc' |},
         SErr E5 "E5 error: could not update cached state", true)
      end
    end
  else if String.eqb cmd "undo-update" then
    let fail := "E5 error: could not perform undo; there does not exist any cached state1"%string in
    match cache st with
    | None => (st, SErr E5 fail, true)
    | Some cc =>
      match x_undo X d cc (sc st) with
      | APanic site => (st, SPanic site, true)
      | AOk (d', s', cc', true) =>
        (* F21: undo_on_cached_state ends in Ddnnf::swap, which empties the cursor *)
        ({| dd := d'; sc := s'; cur := []; cache := Some cc' |}, SOk EmptyString, true)
      | AOk (d', s', cc', false) =>
        ({| dd := d'; sc := s'; cur := cur st; cache := Some cc' |}, SErr E5 fail, true)
      end
    end
  else if String.eqb cmd "exit" then (st, SOk "exit", true)
  else if String.eqb cmd "save-cnf" || String.eqb cmd "save-ddnnf" then
    let path := p_path p in
    if sempty path then (st, SErr E6 "E6 error: no file path was supplied", true)
    else if negb (match path with String c _ => is_slash c | EmptyString => false end) then
      (st, SErr E6 "E6 error: file path is not absolute, but has to be", true)
    else if String.eqb cmd "save-ddnnf" then
      match x_save_ddnnf X d path with
      | APanic site => (st, SPanic site, true)
      | AOk None => (st, SOk EmptyString, true)
      | AOk (Some e) =>
        (st, SErr E6 ("E6 error: " ++ e ++ " while trying to write ddnnf to " ++ path), true)
      end
    else
      match cache st with
      | None => (st, SErr E5 "E5 error: cannot save as CNF because clauses are not available", true)
      | Some cc =>
        match x_save_cnf X cc (r_total rq) path with
        | APanic site => (st, SPanic site, true)
        | AOk None => (st, SOk EmptyString, true)
        | AOk (Some e) =>
          (st, SErr E6 ("E6 error: " ++ e ++ " while trying to write cnf to " ++ path), true)
        end
      end
  else (st, SErr E2 ("E2 error: the operation " ++ quote cmd ++ " is not supported"), true).

Definition parse_request (ver : version) (dbg : bool) (st : sstate CC) (line : string) : res request :=
  parse_line ver dbg (Z.of_nat (nv (dd st)))
             (option_map (fun cc => x_conflicting X cc) (cache st)) line.

(* handle_stream_msg = exec . parse_request: nothing is executed before the line is parsed
   completely, so a parse error leaves the state untouched by construction *)
Definition handle_full (ver : version) (dbg : bool) (st : sstate CC) (line : string)
           (chs : list choice) : sstate CC * soutcome * bool :=
  match parse_request ver dbg st line with
  | RErr c t => (st, SErr c t, true)
  | RPanic p => (st, SPanic p, true)
  | ROk rq => exec ver dbg rq chs st
  end.

Definition handle_stream_msg (ver : version) (dbg : bool) (st : sstate CC) (line : string)
           (chs : list choice) : sstate CC * soutcome :=
  fst (handle_full ver dbg st line chs).

End Exec.

(* the text the Rust returns *)
Definition outcome_text (o : soutcome) : string :=
  match o with SOk s => s | SErr _ t => t | SPanic p => ("PANIC " ++ p)%string end.

(* instance without a clause cache (models loaded from nnf files); atomic / t-wise answers are
   supplied by the caller (replayed from the implementation, like the choice stream) *)
Definition ext_nnf (atomic_answer twise_answer : string) (save_answer : option string) : extops unit :=
  {| x_conflicting := fun _ _ => AOk false;
     x_atomic := fun _ _ _ _ s => AOk (s, atomic_answer);
     x_twise := fun _ _ _ s => AOk (s, twise_answer);
     x_update := fun d cc _ _ _ s => AOk (d, s, cc, false);
     x_undo := fun d cc s => AOk (d, s, cc, false);
     x_save_ddnnf := fun _ _ => AOk save_answer;
     x_save_cnf := fun _ _ _ => AOk None |}.
