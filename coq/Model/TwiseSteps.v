(* C09 (partial part): the two elementary steps of the t-wise pipeline that touch the SAT oracle,
   over abstract lists of literals.  The pipeline itself (mergers, hash-set iteration order, thread
   RNG, trimming heuristics) is NOT modelled; every real run is judged by Spec/TwiseOk.v instead.

   covering_strategies.rs
     cover(sample, interaction): for config in partial_configs { if config.conflicts_with(interaction)
        { continue }  if SAT(config + interaction) { config.extend(interaction); return Some(index) } } None
     cover_with_caching(sample, interaction): if sample.covers(interaction) { return }
        if !SAT(interaction) { return }   if cover(..).is_none() { sample.add(Config::from(interaction)) }
   t_wise_sampler.rs
     complete_partial_configs: for var in 1..=n { if config has var or -var { continue }
        if SAT(config + [var]) { config.add(var) } else { config.add(-var) } }

   `ok` stands for the SAT call (is_sat_in_subgraph_cached on the configuration's cached state; that
   the cached call equals the fresh call on the union is Proofs/C09Pipeline.v cached_call_is_fresh).
   A configuration is the list of its decided literals; extend = append (no conflict => a set union). *)
From Coq Require Import List ZArith Bool.
From DD Require Import Model.Circuit.
Import ListNotations.
Open Scope Z_scope.

Section Steps.
  Variable ok : cfg -> bool.

  Definition conflicts (c I : cfg) : bool := existsb (fun l => memZ (- l) c) I.
  Definition covers (S : list cfg) (I : cfg) : bool := existsb (contains_all I) S.

  (* None = no partial configuration could take the interaction *)
  Fixpoint cover (P : list cfg) (I : cfg) : option (list cfg) :=
    match P with
    | [] => None
    | c :: P' =>
      if conflicts c I then option_map (cons c) (cover P' I)
      else if ok (c ++ I) then Some ((c ++ I) :: P')
      else option_map (cons c) (cover P' I)
    end.

  (* complete configurations Cs are never extended; partial ones P are *)
  Definition cover_with_caching (Cs P : list cfg) (I : cfg) : list cfg * list cfg :=
    if covers (Cs ++ P) I then (Cs, P)
    else if negb (ok I) then (Cs, P)
    else match cover P I with
         | Some P' => (Cs, P')
         | None => (Cs, P ++ [I])
         end.

  Definition has_var (c : cfg) (v : Z) : bool := memZ v c || memZ (- v) c.

  Fixpoint complete_cfg (vs : list Z) (c : cfg) : cfg :=
    match vs with
    | [] => c
    | v :: vs' =>
      if has_var c v then complete_cfg vs' c
      else if ok (c ++ [v]) then complete_cfg vs' (c ++ [v])
      else complete_cfg vs' (c ++ [- v])
    end.
End Steps.
