(* M3 (d4 lexer): parser/d4_lexer.rs  lex_line_d4, character level, built from the same nom 8
   combinators as Model/Lexer.v.  Executable definitions only.

   nom (complete, &str)                           here
   digit1 / neg_digit1 = recognize(pair('-', digit1))   digit1, neg prefix handled in signed_sp
   space1 (one or more of ' ' and TAB)            space1
   alt((pair(digit1, space1), pair(neg_digit1, space1)))     signed_sp : one number group + the
                                                  white space behind it
   many_m_n(2, usize::MAX, p)                     many0_signed, at least two groups; GREEDY: the
                                                  repetition stops at the first Error of p and is
                                                  never undone, so in "1 2 0 " the final "0 " is
                                                  taken as a group and tag("0") then fails
   terminated(recognize(..), tag("0"))            tag "0" on what is left (prefix match:
                                                  "1 2 3 05" is the edge 1 2 3)
   map(.., closure)                               out.split_whitespace() yields exactly the groups;
                                                  each is parsed with str::parse::<i32>, which
                                                  accepts leading zeros and "-0" and fails (panic,
                                                  unwrap_or_else) outside [-2^31, 2^31-1]
   value(Or, preceded(tag("o "), digit1))         tag then digit1; the rest of the line is ignored
   alt((lex_edge, lex_or, lex_and, lex_true, lex_false))   alt4: first alternative that is not Error

   The only caller (`lex_line_d4(line.as_ref()).unwrap().1` in build_d4_ddnnf) drops the
   remaining input and turns Err into a panic, so for the loader Error and Panic coincide
   (lex_line_d4 = None); the two are kept apart in d4lexres because alt continues after Error
   only.  Bytes >= 0x80 are neither digits nor blanks for nom nor here. *)
From Coq Require Import List ZArith NArith String Ascii Decimal DecimalString.
From DD Require Import Model.Lexer.
Import ListNotations.
Local Open Scope string_scope.

Inductive d4token :=
| DEdge (from to : Z) (features : list Z)
| DOr
| DAnd
| DTrue
| DFalse.

Inductive d4lexres :=
| D4Ok (t : d4token)
| D4Err            (* nom Err(Error): the alternative does not match *)
| D4Panic.         (* the closure of lex_edge panicked *)

Definition is_blank (c : ascii) : bool :=
  match c with
  | " "%char => true
  | "009"%char => true
  | _ => false
  end.

Fixpoint space0 (s : string) : string :=
  match s with
  | String c r => if is_blank c then space0 r else s
  | EmptyString => EmptyString
  end.

Definition space1 (s : string) : option string :=
  match s with
  | String c r => if is_blank c then Some (space0 r) else None
  | EmptyString => None
  end.

(* one group: (negative?, digits) and the input after the white space *)
Definition signed_sp (s : string) : option ((bool * uint) * string) :=
  match s with
  | String "-"%char r =>
    match digit1 r with
    | Some (d, r') => option_map (fun r'' => ((true, d), r'')) (space1 r')
    | None => None
    end
  | _ =>
    match digit1 s with
    | Some (d, r') => option_map (fun r'' => ((false, d), r'')) (space1 r')
    | None => None
    end
  end.

(* every successful signed_sp consumes at least two characters: fuel S (length s) never runs out *)
Fixpoint many0_signed (fuel : nat) (s : string) : list (bool * uint) * string :=
  match fuel with
  | O => ([], s)
  | S f =>
    match signed_sp s with
    | None => ([], s)
    | Some (g, r) => let (gs, r') := many0_signed f r in (g :: gs, r')
    end
  end.

(* str::parse::<i32> of one group *)
Definition parse_i32 (g : bool * uint) : option Z :=
  let (neg, d) := g in
  let v := N.of_uint d in
  if neg then (if (v <=? two31)%N then Some (- Z.of_N v)%Z else None)
  else (if (v <? two31)%N then Some (Z.of_N v) else None).

Fixpoint parse_groups (gs : list (bool * uint)) : option (list Z) :=
  match gs with
  | [] => Some []
  | g :: r =>
    match parse_i32 g, parse_groups r with
    | Some v, Some vs => Some (v :: vs)
    | _, _ => None
    end
  end.

Definition lex_edge (s : string) : d4lexres :=
  match many0_signed (S (String.length s)) s with
  | (g1 :: g2 :: gs, r) =>
    match tag "0" r with
    | None => D4Err
    | Some _ =>
      match parse_groups (g1 :: g2 :: gs) with
      | Some (from :: to :: feats) => D4Ok (DEdge from to feats)
      | _ => D4Panic
      end
    end
  | _ => D4Err                               (* fewer than two groups *)
  end.

Definition lex_decl (pre : string) (t : d4token) (s : string) : d4lexres :=
  match tag pre s with
  | None => D4Err
  | Some r => match digit1 r with Some _ => D4Ok t | None => D4Err end
  end.

Definition alt4 (a b : d4lexres) : d4lexres :=
  match a with D4Err => b | _ => a end.

Definition lex_line_d4_res (s : string) : d4lexres :=
  alt4 (lex_edge s)
  (alt4 (lex_decl "o " DOr s)
  (alt4 (lex_decl "a " DAnd s)
  (alt4 (lex_decl "t " DTrue s)
        (lex_decl "f " DFalse s)))).

Definition lex_line_d4 (s : string) : option d4token :=
  match lex_line_d4_res s with D4Ok t => Some t | _ => None end.
