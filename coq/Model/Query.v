(* M2: the query state and the counting / SAT / core / per-feature algorithms, written as the
   Rust is written (ddnnf.rs execute_query; counting/marking.rs; counting/default_count.rs;
   anomalies/core.rs; anomalies/sat.rs; counting/features.rs).  Executable definitions only. *)
From Coq Require Import List ZArith Bool.
From DD Require Import Model.Circuit.
Import ListNotations.
Open Scope Z_scope.

Fixpoint upd {A} (i : nat) (x : A) (l : list A) : list A :=
  match l, i with
  | [], _ => []
  | _ :: t, O => x :: t
  | h :: t, S k => h :: upd k x t
  end.

(* ---- immutable part, derived while flattening (intermediate_representation.rs rebuild) ---- *)

(* Ddnnf.literals: HashMap literal -> index; a later insert overwrites an earlier one *)
Fixpoint lit_idx_from (i : nat) (C : circuit) (l : Z) (acc : option nat) : option nat :=
  match C with
  | [] => acc
  | nd :: C' =>
    lit_idx_from (S i) C' l
      (match nd with Lit l' => if l' =? l then Some i else acc | _ => acc end)
  end.
Definition lit_idx (C : circuit) (l : Z) : option nat := lit_idx_from 0 C l None.
Definition has_lit (C : circuit) (l : Z) : bool :=
  match lit_idx C l with Some _ => true | None => false end.

(* Node.parents: parents are pushed when the parent node is created, children in order *)
Fixpoint parents_from (i : nat) (C : circuit) (c : nat) : list nat :=
  match C with
  | [] => []
  | nd :: C' => map (fun _ => i) (filter (Nat.eqb c) (children nd)) ++ parents_from (S i) C' c
  end.
Definition parents (C : circuit) : list (list nat) :=
  map (parents_from 0 C) (seq 0 (length C)).

Fixpoint true_nodes_from (i : nat) (C : circuit) : list nat :=
  match C with
  | [] => []
  | TrueN :: C' => i :: true_nodes_from (S i) C'
  | _ :: C' => true_nodes_from (S i) C'
  end.
Definition true_nodes (C : circuit) : list nat := true_nodes_from 0 C.

(* anomalies/core.rs calculate_core BEFORE the repair F22 (kept for the K7 / K4 witnesses):
   -n..=n, literal present and its complement absent *)
Definition calculate_core_v0 (C : circuit) (n : nat) : list Z :=
  filter (fun f => has_lit C f && negb (has_lit C (- f)))
         (zseq (- Z.of_nat n) (2 * n + 1)).

(* anomalies/core.rs live_literals (F22): one sweep from the root down (children have smaller
   indices).  A live node marks its children with a non-zero count; the literal of a live literal
   node is collected.  st = (live marks, collected literals - a HashSet in the Rust, used for
   membership only). *)
Definition live_step (C : circuit) (cnts : list Z) (st : list bool * list Z) (i : nat)
  : list bool * list Z :=
  if nth i (fst st) false then
    match nth i C FalseN with
    | And cs | Or cs =>
      (fold_left (fun lv c => if nth c cnts 0 =? 0 then lv else upd c true lv) cs (fst st), snd st)
    | Lit l => (fst st, l :: snd st)
    | _ => st
    end
  else st.

(* root count zero (or no node at all): there is no model, every literal of the `literals` map
   is kept - the answer of the code before F22 *)
Definition live_literals (C : circuit) (cnts : list Z) : list Z :=
  let len := length C in
  if nth (len - 1) cnts 0 =? 0 then lits_of C
  else snd (fold_left (live_step C cnts) (rev (seq 0 len))
                      (upd (len - 1) true (map (fun _ => false) C), [])).

(* anomalies/core.rs calculate_core: -n..=n, literal live and its complement not live
   (Node.count is filled by the flattening before calculate_core runs, in Ddnnf::new and in
   Ddnnf::rebuild) *)
Definition calculate_core (C : circuit) (n : nat) : list Z :=
  let ll := live_literals C (counts C) in
  filter (fun f => memZ f ll && negb (memZ (- f) ll))
         (zseq (- Z.of_nat n) (2 * n + 1)).

Record ddnnf := {
  circ : circuit;
  nv : nat;
  cnts : list Z;          (* Node.count *)
  pars : list (list nat); (* Node.parents *)
  core : list Z;          (* Ddnnf.core *)
}.
Definition build (C : circuit) (n : nat) : ddnnf :=
  {| circ := C; nv := n; cnts := counts C; pars := parents C; core := calculate_core C n |}.

Record scratch := {
  temps : list Z;     (* Node.temp *)
  marks : list bool;  (* Node.marker *)
  pds : list Z;       (* Node.partial_derivative *)
  mdl : list nat;     (* Ddnnf.md *)
}.
Definition fresh_scratch (C : circuit) : scratch :=
  {| temps := map (fun _ => 0) C; marks := map (fun _ => false) C;
     pds := map (fun _ => 0) C; mdl := [] |}.

Definition rootn (d : ddnnf) : nat := (length (circ d) - 1)%nat.
Definition rc (d : ddnnf) : Z := nth (rootn d) (cnts d) 0.
Definition rt (d : ddnnf) (s : scratch) : Z := nth (rootn d) (temps s) 0.

(* ---- core shortcuts ---- *)
Definition has_no_effect (d : ddnnf) (f : Z) : bool := negb (f =? 0) && memZ f (core d).
Definition makes_unsat (d : ddnnf) (f : Z) : bool := negb (f =? 0) && memZ (- f) (core d).
Definition reduce_query (d : ddnnf) (fs : cfg) : cfg := filter (fun f => negb (has_no_effect d f)) fs.
Definition query_is_not_sat (d : ddnnf) (fs : cfg) : bool := existsb (makes_unsat d) fs.

Fixpoint filter_map {A B} (f : A -> option B) (l : list A) : list B :=
  match l with
  | [] => []
  | x :: l' => match f x with Some y => y :: filter_map f l' | None => filter_map f l' end
  end.
Definition opposing_indexes (d : ddnnf) (fs : cfg) : list nat :=
  filter_map (fun f => lit_idx (circ d) (- f)) fs.

(* ---- marking (counting/marking.rs) ---- *)

(* mark_nodes: marker := true; md.push(i); recurse into unmarked parents.
   fuel bounds the recursion depth (a parent has a larger index, so depth <= #nodes). *)
Fixpoint mark_nodes (d : ddnnf) (fuel : nat) (i : nat) (st : list bool * list nat)
  : list bool * list nat :=
  match fuel with
  | O => st
  | S f =>
    let st1 := (upd i true (fst st), snd st ++ [i]) in
    fold_left (fun st' p => if nth p (fst st') false then st' else mark_nodes d f p st')
              (nth i (pars d) []) st1
  end.

Definition mark_nodes_start (d : ddnnf) (i : nat) (st : list bool * list nat)
  : list bool * list nat :=
  let st1 := (upd i true (fst st), snd st) in
  fold_left (fun st' p => if nth p (fst st') false then st'
                          else mark_nodes d (length (circ d)) p st')
            (nth i (pars d) []) st1.

Fixpoint insert_nat (x : nat) (l : list nat) : list nat :=
  match l with
  | [] => [x]
  | y :: l' => if Nat.leb x y then x :: l else y :: insert_nat x l'
  end.
Definition sort_nat (l : list nat) : list nat := fold_right insert_nat [] l.

Definition mark_assumptions (d : ddnnf) (indexes : list nat) (s : scratch) : scratch :=
  let '(ts, (ms, md)) :=
    fold_left (fun acc idx =>
                 let '(ts, st) := acc in
                 (upd idx 0 ts, mark_nodes_start d idx st))
              indexes (temps s, (marks s, mdl s)) in
  {| temps := ts; marks := ms; pds := pds s; mdl := sort_nat md |}.

(* calc_count_marked_node *)
Definition mixed (d : ddnnf) (s : scratch) (c : nat) : Z :=
  if nth c (marks s) false then nth c (temps s) 0 else nth c (cnts d) 0.

Definition calc_count_marked_node (d : ddnnf) (i : nat) (s : scratch) : scratch :=
  let v :=
    match nth i (circ d) FalseN with
    | And cs =>
      let marked := filter (fun c => nth c (marks s) false) cs in
      if Nat.leb (length marked) (Nat.div (length cs) 2) then
        fold_left (fun acc c =>
                     let acc' := if nth c (cnts d) 0 =? 0 then acc else acc / nth c (cnts d) 0 in
                     acc' * nth c (temps s) 0)
                  marked (nth i (cnts d) 0)
      else zprod (map (mixed d s) cs)
    | Or cs => zsum (map (mixed d s) cs)
    | FalseN => 0
    | _ => 1
    end in
  {| temps := upd i v (temps s); marks := marks s; pds := pds s; mdl := mdl s |}.

(* default_count.rs calc_count *)
Definition calc_count (d : ddnnf) (i : nat) (s : scratch) : scratch :=
  let v :=
    match nth i (circ d) FalseN with
    | And cs => zprod (map (fun c => nth c (temps s) 0) cs)
    | Or cs => zsum (map (fun c => nth c (temps s) 0) cs)
    | FalseN => 0
    | _ => 1
    end in
  {| temps := upd i v (temps s); marks := marks s; pds := pds s; mdl := mdl s |}.

Definition operate_on_marker (d : ddnnf) (indexes : list nat) (s : scratch) : scratch * Z :=
  let s1 := mark_assumptions d indexes s in
  let s2 := fold_left (fun s' j => calc_count_marked_node d j s') (mdl s1) s1 in
  let ms := fold_left (fun m j => upd j false m) (mdl s2) (marks s2) in
  let ms := fold_left (fun m j => upd j false m) indexes ms in
  let s3 := {| temps := temps s2; marks := ms; pds := pds s2; mdl := [] |} in
  (s3, rt d s3).

Definition card_of_feature_with_marker (d : ddnnf) (f : Z) (s : scratch) : scratch * Z :=
  if has_no_effect d f then (s, rc d)
  else if makes_unsat d f then (s, 0)
  else match lit_idx (circ d) (- f) with
       | Some i => operate_on_marker d [i] s
       | None => (s, rc d)
       end.

Definition operate_on_partial_config_marker (d : ddnnf) (fs : cfg) (s : scratch) : scratch * Z :=
  if query_is_not_sat d fs then (s, 0)
  else
    let fs' := reduce_query d fs in
    let idx := opposing_indexes d fs' in
    match idx with
    | [] => (s, rc d)
    | _ => operate_on_marker d idx s
    end.

Definition operate_on_partial_config_default (d : ddnnf) (fs : cfg) (s : scratch) : scratch * Z :=
  if query_is_not_sat d fs then (s, 0)
  else
    let fs' := reduce_query d fs in
    let s' :=
      fold_left (fun s' i =>
                   match nth i (circ d) FalseN with
                   | Lit l =>
                     if memZ (- l) fs'
                     then {| temps := upd i 0 (temps s'); marks := marks s'; pds := pds s'; mdl := mdl s' |}
                     else calc_count d i s'
                   | _ => calc_count d i s'
                   end)
                (seq 0 (length (circ d))) s in
    (s', rt d s').

(* ddnnf.rs execute_query: 0 -> rc, 1 -> single marker, 2..=20 -> marker, else default *)
Definition execute_query (d : ddnnf) (fs : cfg) (s : scratch) : scratch * Z :=
  match fs with
  | [] => (s, rc d)
  | [f] => card_of_feature_with_marker d f s
  | _ => if Nat.leb (length fs) 20 then operate_on_partial_config_marker d fs s
         else operate_on_partial_config_default d fs s
  end.

(* get_marked_nodes_clone *)
Definition get_marked_nodes_clone (d : ddnnf) (fs : cfg) (s : scratch) : scratch * list nat :=
  let idx := opposing_indexes d fs in
  let s1 := mark_assumptions d idx s in
  let md := sort_nat (mdl s1 ++ idx) in
  ({| temps := temps s1; marks := map (fun _ => false) (marks s1); pds := pds s1; mdl := [] |}, md).

(* ---- core / dead (anomalies/core.rs) ---- *)
Definition core_dead_with_assumptions (d : ddnnf) (A : cfg) (s : scratch) : scratch * cfg :=
  match A with
  | [] => (s, core d)   (* HashSet iteration order in the Rust: compared as a set *)
  | _ =>
    let '(s0, reference) := execute_query d A s in
    fold_left (fun acc i =>
                 let '(s', out) := acc in
                 let '(s'', inter) := execute_query d (A ++ [i]) s' in
                 let out1 := if reference =? inter then out ++ [i] else out in
                 let out2 := if inter =? 0 then out1 ++ [- i] else out1 in
                 (s'', out2))
              (zseq 1 (nv d)) (s0, [])
  end.

(* ---- SAT (anomalies/sat.rs) ---- *)
Fixpoint propagate_mark (d : ddnnf) (fuel : nat) (index : nat) (mark : list bool) : list bool :=
  match fuel with
  | O => mark
  | S f =>
    if nth index mark false then mark
    else
      let blocked :=
        match nth index (circ d) FalseN with
        | Or cs => negb (forallb (fun c => nth c mark false || (nth c (cnts d) 0 =? 0)) cs)
        | _ => false
        end in
      if blocked then mark
      else fold_left (fun m p => propagate_mark d f p m) (nth index (pars d) []) (upd index true mark)
  end.

Fixpoint sat_loop (d : ddnnf) (fs : cfg) (mark : list bool) (root_index : nat) : list bool * bool :=
  match fs with
  | [] => (mark, negb (nth root_index mark false))
  | f :: fs' =>
    match lit_idx (circ d) (- f) with
    | Some idx =>
      let mark' := propagate_mark d (S (length (circ d))) idx mark in
      if nth root_index mark' false then (mark', false) else sat_loop d fs' mark' root_index
    | None => sat_loop d fs' mark root_index
    end
  end.

Definition sat_propagate (d : ddnnf) (fs : cfg) (mark : list bool) (root_index : option nat)
  : list bool * bool :=
  let r := match root_index with Some r => r | None => rootn d end in
  if existsb (makes_unsat d) fs then (mark, false) else sat_loop d fs mark r.

Definition sat (d : ddnnf) (fs : cfg) : bool :=
  snd (sat_propagate d fs (map (fun _ => false) (circ d)) None).

(* ---- per-feature cardinalities (marking.rs annotate_partial_derivatives, features.rs) ---- *)
Definition annotate_single (d : ddnnf) (i : nat) (pd : list Z) : list Z :=
  match nth i (circ d) FalseN with
  | And cs =>
    fold_left (fun pd' child =>
                 let v := fold_left (fun acc other =>
                                       if Nat.eqb child other then acc else acc * nth other (cnts d) 0)
                                    cs (nth i pd' 0) in
                 upd child (nth child pd' 0 + v) pd')
              cs pd
  | Or cs =>
    let v := nth i pd 0 in
    fold_left (fun pd' child => upd child (nth child pd' 0 + v) pd') cs pd
  | _ => pd
  end.

Definition annotate_partial_derivatives (d : ddnnf) (s : scratch) : scratch :=
  let len := length (circ d) in
  let pd0 := upd (len - 1) 1 (map (fun _ => 0) (pds s)) in
  let pd := fold_left (fun pd i => annotate_single d i pd) (rev (seq 0 len)) pd0 in
  {| temps := temps s; marks := marks s; pds := pd; mdl := mdl s |}.

Definition card_of_feature_pd (d : ddnnf) (s : scratch) (f : Z) : Z :=
  match lit_idx (circ d) (- f) with
  | Some i => rc d - nth i (pds s) 0
  | None => rc d
  end.

Definition card_of_each_feature (d : ddnnf) (s : scratch) : scratch * list (Z * Z) :=
  let s' := annotate_partial_derivatives d s in
  (s', map (fun v => (v, card_of_feature_pd d s' v)) (zseq 1 (nv d))).

(* ---- specification-level count under assumptions (not used by the algorithms):
   bottom-up evaluation with every leaf whose complement is assumed set to 0 ---- *)
Definition countA_node (A : cfg) (acc : list Z) (nd : ntype) : Z :=
  match nd with
  | Lit l => if memZ (- l) A then 0 else 1
  | And cs => zprod (map (fun c => nth c acc 0) cs)
  | Or cs => zsum (map (fun c => nth c acc 0) cs)
  | TrueN => 1
  | FalseN => 0
  end.
Definition countsA (A : cfg) (C : circuit) : list Z := pass (countA_node A) C.
