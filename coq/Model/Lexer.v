(* M3 (lexer): parser/c2d_lexer.rs  lex_line_c2d, character level, with the nom 8 combinators
   it is built from.  Executable definitions only.

   nom (complete, &str)                      here
   tag(t)                                    tag t s        : option (remaining input)
   char(c)                                   tag (String c "") s
   digit1                                    digit1 s       : longest non-empty prefix of '0'..'9'
   pair(char(' '), digit1)                   sp_num
   recognize(many1(pair(char(' '), digit1))) many1_sp_num   (many1 stops at the first Error of the
     followed by split_numbers::<usize>      inner parser; the recognised text consists of spaces
                                             and digits only, so split_whitespace yields exactly
                                             the digit groups; each is parsed with
                                             str::parse::<usize>, which accepts leading zeros and
                                             fails (-> panic, unwrap_or_else) at 2^64)
   alt((p1, .., p7))                         alt : first alternative that does not return Error
   map(p, closure)                           the closure's panics (index out of bounds on nums[k],
                                             Vec::remove on an empty vector, parse::<i32>().unwrap())
                                             are the outcome LexPanic
   Every caller of lex_line_c2d drops the remaining input (`.unwrap().1`, `Ok((_, Header ..))`),
   so trailing characters after the recognised prefix are ignored; the model does not return
   the remainder.  Bytes >= 0x80 are neither digits nor spaces for nom (it works on chars) and
   neither here (we work on bytes), so UTF-8 text is lexed alike. *)
From Coq Require Import List ZArith NArith String Ascii Decimal DecimalString.
Import ListNotations.
Local Open Scope string_scope.

Inductive token :=
| THeader (nodes edges variables : N)
| TAnd (cs : list N)
| TOr (decision : N) (cs : list N)
| TLit (l : Z)
| TTrue
| TFalse.

Inductive lexres :=
| LexOk (t : token)
| LexErr           (* nom Err(Error): no alternative matched *)
| LexPanic.        (* a closure of the matching alternative panicked *)

Fixpoint tag (t s : string) : option string :=
  match t with
  | EmptyString => Some s
  | String a t' =>
    match s with
    | String b s' => if Ascii.eqb a b then tag t' s' else None
    | EmptyString => None
    end
  end.

Definition digit_of (c : ascii) : option (uint -> uint) :=
  match c with
  | "0"%char => Some D0 | "1"%char => Some D1 | "2"%char => Some D2 | "3"%char => Some D3
  | "4"%char => Some D4 | "5"%char => Some D5 | "6"%char => Some D6 | "7"%char => Some D7
  | "8"%char => Some D8 | "9"%char => Some D9
  | _ => None
  end.

(* longest (possibly empty) digit prefix, as a decimal numeral, and the rest *)
Fixpoint digit0 (s : string) : uint * string :=
  match s with
  | EmptyString => (Nil, EmptyString)
  | String c r =>
    match digit_of c with
    | Some mk => let (d, r') := digit0 r in (mk d, r')
    | None => (Nil, s)
    end
  end.

Definition digit1 (s : string) : option (uint * string) :=
  match digit0 s with
  | (Nil, _) => None
  | (d, r) => Some (d, r)
  end.

Definition sp_num (s : string) : option (uint * string) :=
  match s with
  | String " "%char r => digit1 r
  | _ => None
  end.

Fixpoint many0_sp_num (fuel : nat) (s : string) : list uint :=
  match fuel with
  | O => []
  | S f =>
    match sp_num s with
    | None => []
    | Some (d, r) => d :: many0_sp_num f r
    end
  end.

(* every successful sp_num consumes at least two characters, so the fuel never runs out *)
Definition many1_sp_num (s : string) : option (list uint) :=
  match many0_sp_num (S (String.length s)) s with
  | [] => None
  | ds => Some ds
  end.

Definition two64 : N := 18446744073709551616.
Definition two32 : N := 4294967296.
Definition two31 : N := 2147483648.

(* str::parse::<usize>() on a non-empty digit string (64-bit target) *)
Definition parse_usize (d : uint) : option N :=
  let v := N.of_uint d in if (v <? two64)%N then Some v else None.

(* split_numbers: None = panic *)
Fixpoint split_numbers (ds : list uint) : option (list N) :=
  match ds with
  | [] => Some []
  | d :: r =>
    match parse_usize d, split_numbers r with
    | Some v, Some vs => Some (v :: vs)
    | _, _ => None
    end
  end.

(* preceded(<prefix>, parse_alt_space1_number1) followed by split_numbers and a closure *)
Definition numbers_after (pre s : string) (k : list N -> lexres) : lexres :=
  match tag pre s with
  | None => LexErr
  | Some r =>
    match many1_sp_num r with
    | None => LexErr
    | Some ds =>
      match split_numbers ds with
      | None => LexPanic
      | Some nums => k nums
      end
    end
  end.

Definition lex_header (s : string) : lexres :=
  numbers_after "nnf" s (fun nums =>
    match nums with
    | a :: b :: c :: _ => LexOk (THeader a b c)
    | _ => LexPanic                         (* nums[1] / nums[2] out of bounds *)
    end).

Definition lex_true (s : string) : lexres :=
  match tag "A 0" s with Some _ => LexOk TTrue | None => LexErr end.

Definition lex_false (s : string) : lexres :=
  match tag "O 0 0" s with Some _ => LexOk TFalse | None => LexErr end.

Definition lex_and (s : string) : lexres :=
  numbers_after "A" s (fun nums =>
    match nums with
    | _ :: cs => LexOk (TAnd cs)            (* nums.remove(0): the child count is dropped *)
    | [] => LexPanic                        (* unreachable: many1 *)
    end).

Definition lex_or (s : string) : lexres :=
  numbers_after "O" s (fun nums =>
    match nums with
    | dec :: _ :: cs => LexOk (TOr (dec mod two32) cs)   (* `as u32`; child count dropped *)
    | _ => LexPanic                         (* second nums.remove(0) on an empty vector *)
    end).

(* recognize(digit1) then parse::<i32>().unwrap() *)
Definition lex_positive_literal (s : string) : lexres :=
  match tag "L " s with
  | None => LexErr
  | Some r =>
    match digit1 r with
    | None => LexErr
    | Some (d, _) =>
      let v := N.of_uint d in
      if (v <? two31)%N then LexOk (TLit (Z.of_N v)) else LexPanic
    end
  end.

(* recognize(pair(char('-'), digit1)) then parse::<i32>().unwrap() *)
Definition lex_negative_literal (s : string) : lexres :=
  match tag "L -" s with
  | None => LexErr
  | Some r =>
    match digit1 r with
    | None => LexErr
    | Some (d, _) =>
      let v := N.of_uint d in
      if (v <=? two31)%N then LexOk (TLit (- Z.of_N v)) else LexPanic
    end
  end.

Definition alt (a b : lexres) : lexres :=
  match a with LexErr => b | _ => a end.

Definition lex_line_c2d_res (s : string) : lexres :=
  alt (lex_header s)
  (alt (lex_true s)
  (alt (lex_false s)
  (alt (lex_and s)
  (alt (lex_or s)
  (alt (lex_positive_literal s)
       (lex_negative_literal s)))))).

Definition lex_line_c2d (s : string) : option token :=
  match lex_line_c2d_res s with LexOk t => Some t | _ => None end.

(* str::trim for the ASCII white space characters (U+0009..U+000D, U+0020); the other
   Unicode White_Space code points are not modelled *)
Definition is_ws (c : ascii) : bool :=
  let k := nat_of_ascii c in
  (Nat.eqb k 32 || (Nat.leb 9 k && Nat.leb k 13))%bool.

Fixpoint trim_start (s : string) : string :=
  match s with
  | String c r => if is_ws c then trim_start r else s
  | EmptyString => EmptyString
  end.

(* drops trailing white space: the result of the recursive call is empty iff the rest is all
   white space *)
Fixpoint trim_end (s : string) : string :=
  match s with
  | EmptyString => EmptyString
  | String c r =>
    match trim_end r with
    | EmptyString => if is_ws c then EmptyString else String c EmptyString
    | r' => String c r'
    end
  end.

Definition trim (s : string) : string := trim_end (trim_start s).
