(* C09 pipeline, part 2: the two mergers of the plain variant (sample_merger.rs,
   sample_merger/zipping_merger.rs, sample_merger/similarity_merger.rs), written as the Rust is written.
   Executable definitions only.

   ORDER ORACLES (every place where the Rust result depends on hash iteration order / sort ties):
     ord_int node phase step l   the iteration order of the HashSet<Vec<i32>> returned by
                                 ZippingMerger::interactions in the merge call number `step` of
                                 fold `phase` (0: the singles, 1: the sorted samples) at `node`;
                                 l = the duplicate-free list of the set's elements
     ord_sort node l             samples.sort_unstable() in ZippingMerger::merge_all orders by len()
                                 only; which of several samples of equal length comes first is up
                                 to the sort: the model applies ord_sort and then a STABLE insertion
                                 sort by length, so every tie order is some oracle's result
   Both must return a permutation of their argument (hypothesis of the theorems).
   NOT an oracle: Candidate::is_t_wise_covered_by shuffles the candidate's literals with the thread
   RNG before enumerating their t-subsets, but the result is a conjunction over ALL t-subsets and
   does not depend on the order (Proofs/TwiseShuffle.v sim_covered_perm); the model enumerates the
   subsets of the unshuffled list.  Iterator::max_by_key returns the LAST maximal element. *)
From Coq Require Import List ZArith Bool Arith.
From DD Require Import Model.Circuit Model.Query Model.TIter Model.TwiseCfg.
Import ListNotations.
Open Scope nat_scope.

Fixpoint indexed_from {A} (k : nat) (l : list A) : list (nat * A) :=
  match l with [] => [] | x :: r => (k, x) :: indexed_from (S k) r end.
Definition indexed {A} (l : list A) : list (nat * A) := indexed_from 0 l.

(* stable insertion sort by number of configurations *)
Fixpoint insert_len (x : sample) (l : list sample) : list sample :=
  match l with
  | [] => [x]
  | y :: l' => if s_len x <=? s_len y then x :: l else y :: insert_len x l'
  end.
Definition sort_len (l : list sample) : list sample := fold_right insert_len [] l.

(* ---------------- ZippingMerger ---------------- *)
(* generate_self_interactions: for k in 1..t the set of all min(len,k)-subsets of the configurations *)
Definition self_ints (S : sample) (t : nat) : list (list cfg) :=
  let cfgs := map c_decided (s_iter S) in
  map (fun k =>
         match nodup cfg_dec (flat_map (fun c => tints c (Nat.min (length c) k)) cfgs) with
         | [] => [[]]
         | s => s
         end) (seq 1 (t - 1)).

(* generate_interactions: level k of the left with level t-k of the right *)
Definition cross_ints (L R : sample) (t : nat) : list cfg :=
  nodup cfg_dec
    (flat_map (fun lr : list cfg * list cfg =>
                 flat_map (fun l => map (fun r => (l ++ r)%list) (snd lr)) (fst lr))
              (combine (self_ints L t) (rev (self_ints R t)))).

Definition iter_compl (S : sample) : list (config * bool) :=
  map (fun c => (c, true)) (s_comp S) ++ map (fun c => (c, false)) (s_part S).

Section Merge.
  Variable d : ddnnf.
  Variable n : nat.
  Variable t : nat.
  Variable ord_int : nat -> nat -> nat -> list cfg -> list cfg.
  Variable ord_sort : nat -> list sample -> list sample.

  (* zip_samples *)
  Definition zip_samples (L R : sample) : sample :=
    let S0 := s_new_from [L; R] in
    let S1 := fold_left (fun S (p : (config * bool) * (config * bool)) =>
                           let c := c_from_disjoint n (fst (fst p)) (fst (snd p)) in
                           if snd (fst p) && snd (snd p) then s_add_complete S c else s_add S c)
                        (combine (iter_compl L) (iter_compl R)) S0 in
    let rest := if s_len R <=? s_len L then skipn (s_len R) (s_iter L) else skipn (s_len L) (s_iter R) in
    fold_left s_add_partial rest S1.

  (* ZippingMerger::merge *)
  Definition and_merge (node phase step : nat) (L R : sample) : sample :=
    if s_is_empty L then R
    else if s_is_empty R then L
    else fold_left (cover_twise d node n) (ord_int node phase step (cross_ints L R t)) (zip_samples L R).

  (* ZippingMerger::merge_all *)
  Definition and_merge_all (node : nat) (Ss : list sample) : sample :=
    let singles := filter (fun S => s_len S <=? 1) Ss in
    let others := filter (fun S => negb (s_len S <=? 1)) Ss in
    let single := fold_left (fun acc (p : nat * sample) => and_merge node 0 (fst p) acc (snd p))
                            (indexed singles) s_default in
    let sorted := sort_len (ord_sort node (others ++ [single])) in
    fold_left (fun acc (p : nat * sample) => and_merge node 1 (fst p) acc (snd p)) (indexed sorted) s_default.

  (* ---------------- SimilarityMerger ---------------- *)
  Record cand := mkCand {
    cd_cfg : config;
    cd_lits : list Z;      (* HashSet<i32> of the decided literals *)
    cd_max : nat;
    cd_total : nat;
  }.
  Definition cd_new (c : config) : cand := mkCand c (c_decided c) 0 0.
  Definition cd_update (other : list Z) (c : cand) : cand :=
    let k := length (filter (fun l => memZ l other) (cd_lits c)) in
    mkCand (cd_cfg c) (cd_lits c) (Nat.max k (cd_max c)) (cd_total c + k).
  (* Ord for Candidate: a <= b *)
  Definition cd_le (a b : cand) : bool :=
    let ka := cd_total a * length (cd_lits a) in
    let kb := cd_total b * length (cd_lits b) in
    if ka =? kb then cd_max a * length (cd_lits a) <=? cd_max b * length (cd_lits b)
    else ka <? kb.
  (* candidates.iter().enumerate().max_by_key(snd): index of the last maximal element *)
  Fixpoint argmax_from (k : nat) (l : list cand) (best : option (nat * cand)) : option (nat * cand) :=
    match l with
    | [] => best
    | c :: l' =>
      argmax_from (S k) l'
        (match best with
         | None => Some (k, c)
         | Some (_, b) => if cd_le b c then Some (k, c) else best
         end)
    end.
  Definition argmax (l : list cand) : option nat := option_map fst (argmax_from 0 l None).

  (* is_t_wise_covered_by *)
  Definition cd_covered (c : cand) (S : sample) : bool :=
    let len := length (cd_lits c) in
    if cd_max c =? len then true
    else if (t <=? len) && (cd_max c <? t) then false
    else forallb (s_covers S) (tints (c_decided (cd_cfg c)) (Nat.min t len)).

  (* the while-let loop; fuel = number of candidates (each round removes one) *)
  Fixpoint sim_loop (fuel : nat) (cands : list cand) (Sm : sample) : sample :=
    match fuel with
    | O => Sm
    | S f =>
      match argmax cands with
      | None => Sm
      | Some idx =>
        match nth_error cands idx with
        | None => Sm
        | Some next =>
          let cands' := swap_remove idx cands in
          if cd_covered next Sm then sim_loop f cands' Sm
          else sim_loop f (map (cd_update (cd_lits next)) cands') (s_add Sm (cd_cfg next))
        end
      end
    end.

  (* SimilarityMerger::merge *)
  Definition or_merge (L R : sample) : sample :=
    if s_is_empty L then R
    else if s_is_empty R then L
    else
      let S0 := s_new_from [L; R] in
      let cands := map cd_new (s_iter L ++ s_iter R) in
      match rev cands with
      | [] => S0      (* expect: both samples are non-empty *)
      | next :: _ =>
        let rest := map (cd_update (cd_lits next)) (removelast cands) in
        sim_loop (length rest) rest (s_add S0 (cd_cfg next))
      end.

  (* SampleMerger::merge_all (default implementation) *)
  Definition or_merge_all (Ss : list sample) : sample := fold_left or_merge Ss s_default.
End Merge.
