(* M4: enumeration with a paging cursor and KUS-style sampling driven by a recorded choice
   stream (anomalies/config_creation.rs).  Executable definitions only. *)
From Coq Require Import List ZArith Bool.
From DD Require Import Model.Circuit Model.Query.
Import ListNotations.
Open Scope Z_scope.

(* preprocess_config_creation: None when a literal is out of range; otherwise temp := count,
   complementary leaves zeroed, true nodes hidden *)
Definition preprocess (d : ddnnf) (A : cfg) (s : scratch) : option scratch :=
  if existsb (fun f => Z.of_nat (nv d) <? Z.abs f) A then None
  else
    let t0 := cnts d in
    let t1 := fold_left (fun t l => match lit_idx (circ d) (- l) with
                                    | Some x => upd x 0 t
                                    | None => t
                                    end) A t0 in
    let t2 := fold_left (fun t i => upd i 0 t) (true_nodes (circ d)) t1 in
    Some {| temps := t2; marks := marks s; pds := pds s; mdl := mdl s |}.

Definition slice {A} (lo hi : Z) (l : list A) : list A :=
  firstn (Z.to_nat (hi - lo)) (skipn (Z.to_nat lo) l).

Definition is_true_node (d : ddnnf) (c : nat) : bool :=
  existsb (Nat.eqb c) (true_nodes (circ d)).

(* enumerate_node (range lo hi) index; fuel bounds the depth (children have smaller indices) *)
Fixpoint enumerate_node (d : ddnnf) (ts : list Z) (fuel : nat) (lo hi : Z) (i : nat) : list cfg :=
  match fuel with
  | O => []
  | S f =>
    if (hi =? 0) || (nth i ts 0 =? 0) then []
    else
      match nth i (circ d) FalseN with
      | And cs =>
        let '(lists, _) :=
          fold_left (fun (st : list (list cfg) * Z) c =>
                       let '(ls, acc) := st in
                       if is_true_node d c then (ls, acc)
                       else if acc <? hi then
                              let m := Z.min hi (nth c ts 0) in
                              (ls ++ [enumerate_node d ts f 0 m c], acc * m)
                            else (ls ++ [firstn 1 (enumerate_node d ts f 0 1 c)], acc))
                    cs ([], 1) in
        slice lo hi (prod (rev lists))
      | Or cs =>
        let '(l, _, _) :=
          fold_left (fun (st : list cfg * Z * bool) c =>
                       let '(l, acc, stop) := st in
                       if stop then st
                       else if nth c ts 0 =? 0 then st
                       else if acc <? hi then
                              let m := Z.min hi (nth c ts 0) in
                              (l ++ enumerate_node d ts f 0 m c, acc + m, false)
                            else (l, acc, true))
                    cs ([], 0, false) in
        slice lo hi l
      | Lit l => [[l]]
      | _ => []
      end
  end.

(* sort_unstable_by_key(|f| f.abs()) on a configuration (keys are distinct in a configuration) *)
Fixpoint insert_abs (x : Z) (l : cfg) : cfg :=
  match l with
  | [] => [x]
  | y :: l' => if Z.abs x <=? Z.abs y then x :: l else y :: insert_abs x l'
  end.
Definition sort_abs (l : cfg) : cfg := fold_right insert_abs [] l.

(* Vec::dedup: consecutive repeated elements are removed (the first of a run is kept) *)
Fixpoint dedup (l : cfg) : cfg :=
  match l with
  | [] => []
  | x :: l' =>
    match l' with
    | y :: _ => if x =? y then dedup l' else x :: dedup l'
    | [] => [x]
    end
  end.
(* the cursor key of an assumption list (repair F19 of finding K12):
   assumptions.sort_unstable_by_key(|f| f.abs()); assumptions.dedup();
   For a consistent list (no literal together with its complement) equal literals are adjacent
   after the sort, whatever the unstable sort does with equal keys, so the key is the SET of
   literals in feature order.  A list with a literal and its complement never reaches the cursor
   on a well-formed circuit (its count is 0); there the model's stable insertion sort need not be
   the order the Rust sort produces, and nothing depends on it. *)
Definition enum_key (A : cfg) : cfg := dedup (sort_abs A).

(* the cursor: Ddnnf.enumeration_cursor (a field of the loaded model since the repair F21, shared
   by its clones; before that the process-global ENUMERATION_CACHE), a map from the key of the
   assumption list to the next index *)
Notation cursor := (list (cfg * Z)).
Fixpoint cfg_eqb (a b : cfg) : bool :=
  match a, b with
  | [], [] => true
  | x :: a', y :: b' => (x =? y) && cfg_eqb a' b'
  | _, _ => false
  end.
Fixpoint cur_get (cur : cursor) (k : cfg) : Z :=
  match cur with
  | [] => 0
  | (k', v) :: cur' => if cfg_eqb k k' then v else cur_get cur' k
  end.
Fixpoint cur_set (cur : cursor) (k : cfg) (v : Z) : cursor :=
  match cur with
  | [] => [(k, v)]
  | (k', v') :: cur' => if cfg_eqb k k' then (k, v) :: cur' else (k', v') :: cur_set cur' k v
  end.

(* Ddnnf::enumerate (repaired code: F4 the page is reserved before it is computed; F19 the
   assumptions are sorted AND de-duplicated before they are counted and used as the cursor key) *)
Definition enumerate (d : ddnnf) (A : cfg) (amount : Z) (cur : cursor) (s : scratch)
  : scratch * cursor * option (list cfg) :=
  if amount =? 0 then (s, cur, Some [])
  else
    match preprocess d A s with
    | None => (s, cur, None)
    | Some s1 =>
      let A' := enum_key A in
      let '(s2, r) := execute_query d A' s1 in
      if 0 <? r then
        let rtv := rt d s2 in
        let last_stop := cur_get cur A' in
        let stop := Z.min rtv (last_stop + amount) in
        let cur' := cur_set cur A' (stop mod rtv) in
        let page := enumerate_node d (temps s2) (length (circ d)) last_stop stop (rootn d) in
        (s2, cur', Some (map sort_abs page))
      else (s2, cur, None)
    end.

(* ---- sampling with a recorded choice stream (sample_node) ---- *)
(* a choice is either the split vector of an Or node or the permutation a shuffle applied
   (perm[i] = old position of the element now at position i) *)
Inductive choice := Split (v : list Z) | Perm (p : list nat).

Definition apply_perm {A} (p : list nat) (l : list A) (dflt : A) : list A :=
  map (fun i => nth i l dflt) p.

Fixpoint repeat_n {A} (x : A) (n : nat) : list A :=
  match n with O => [] | S k => x :: repeat_n x k end.

Fixpoint stitch (acc : list cfg) (l : list cfg) : list cfg :=
  match acc, l with
  | a :: acc', x :: l' => (a ++ x) :: stitch acc' l'
  | _, _ => acc
  end.

Definition take_choice (chs : list choice) : option choice * list choice :=
  match chs with [] => (None, []) | c :: r => (Some c, r) end.

(* result: samples, remaining choices, ok flag (false when the stream does not fit) *)
Fixpoint sample_node (d : ddnnf) (ts : list Z) (fuel : nat) (amount : Z) (i : nat)
         (chs : list choice) : list cfg * list choice * bool :=
  match fuel with
  | O => ([], chs, false)
  | S f =>
    if amount =? 0 then ([], chs, true)
    else
      match nth i (circ d) FalseN with
      | And cs =>
        fold_left (fun (st : list cfg * list choice * bool) c =>
                     let '(acc, chs1, ok) := st in
                     let '(l, chs2, ok2) := sample_node d ts f amount c chs1 in
                     match take_choice chs2 with
                     | (Some (Perm p), chs3) =>
                       (stitch acc (apply_perm p l []), chs3,
                        ok && ok2 && Nat.eqb (length p) (length l))
                     | (_, chs3) => (acc, chs3, false)
                     end)
                  cs (repeat_n [] (Z.to_nat amount), chs, true)
      | Or cs =>
        match take_choice chs with
        | (Some (Split v), chs1) =>
          let '(l, chs2, ok, _) :=
            fold_left (fun (st : list cfg * list choice * bool * nat) c =>
                         let '(l, chs2, ok, k) := st in
                         if nth c ts 0 =? 0 then (l, chs2, ok, S k)
                         else
                           let '(l', chs3, ok3) := sample_node d ts f (nth k v 0) c chs2 in
                           (l ++ l', chs3, ok && ok3, S k))
                      cs ([], chs1, Nat.eqb (length v) (length cs), O) in
          let padded := l ++ repeat_n [] (Z.to_nat amount - length l) in
          match take_choice chs2 with
          | (Some (Perm p), chs3) =>
            (apply_perm p padded [], chs3, ok && Nat.eqb (length p) (length padded))
          | (_, chs3) => (padded, chs3, false)
          end
        | (_, chs1) => ([], chs1, false)
        end
      | Lit l => (repeat_n [l] (Z.to_nat amount), chs, true)
      | _ => ([], chs, true)
      end
  end.

Definition uniform_random_sampling (d : ddnnf) (A : cfg) (amount : Z) (chs : list choice)
           (s : scratch) : scratch * option (list cfg) * bool :=
  match preprocess d A s with
  | None => (s, None, true)
  | Some s1 =>
    let '(s2, r) := execute_query d A s1 in
    if 0 <? r then
      let '(l, rest, ok) := sample_node d (temps s2) (length (circ d)) amount (rootn d) chs in
      (s2, Some (map sort_abs l), ok && match rest with [] => true | _ => false end)
    else (s2, None, true)
  end.

(* contract of the random primitives, checked on every recorded stream:
   a split vector is non-negative, sums to the amount and is 0 on children with temp 0;
   a shuffle applies a permutation *)
Definition is_perm (p : list nat) : bool :=
  forallb (fun i => existsb (Nat.eqb i) p) (seq 0 (length p)).
