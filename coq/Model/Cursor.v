(* M4/M9 (abstract part): the enumeration cursor shared by concurrent `Ddnnf::enumerate` calls.
   Executable definitions only.

   Source anchor: /repo/ddnnife/src/ddnnf/anomalies/config_creation.rs
     Ddnnf.enumeration_cursor : Arc<Mutex<HashMap<Vec<i32>, usize>>> (the cursor map shared by
                                  the clones of ONE loaded model, i.e. by the stream workers; before
                                  the repair F21 the process-global static ENUMERATION_CACHE)
     Ddnnf::enumerate                                                   (one request)

   Abstraction: for an assumption key A (Enumerate.enum_key: the assumption list sorted by feature,
   repeated literals removed -- for consistent lists the SET of literals, Proofs/C17Key.v) the model has
   c = count(A) configurations in a fixed enumeration order (C06 models that order); here a
   configuration is its index 0..c-1 in that order.  `page start stop` is the list of indices
   [start, stop).  A request is (key, amount).

   Repaired protocol (HEAD of /repo), per request, two atomic steps:
     reserve : under ONE lock acquisition   start := cur[key]; stop := min(c, start+amount);
                                             cur[key] := stop mod c
     compute : without the lock              answer := page start stop
   Old protocol v0 (before 33d49b8), three atomic steps:
     read    : under the lock                start := cur[key]
     compute : without the lock              (the page [start, min(c, start+amount)) is computed)
     write   : under a SECOND acquisition    cur[key] := min(c, start+amount) mod c
                                             answer = page start (min(c, start+amount))        *)
From Coq Require Import List ZArith Bool Arith.
Import ListNotations.

Definition key := list Z.
Definition cursor := key -> nat.

Definition key_eqb (a b : key) : bool :=
  if list_eq_dec Z.eq_dec a b then true else false.

Definition upd (cur : cursor) (k : key) (v : nat) : cursor :=
  fun k' => if key_eqb k k' then v else cur k'.

(* the indices start, start+1, ..., stop-1 *)
Definition page (start stop : nat) : list nat := seq start (stop - start).

Record request := mkReq { rkey : key; ramount : nat }.
Definition answer := list nat.

Fixpoint set_nth {A} (i : nat) (x : A) (l : list A) : list A :=
  match l, i with
  | [], _ => []
  | _ :: t, O => x :: t
  | h :: t, S j => h :: set_nth j x t
  end.

Section Protocols.
  (* count(A) for every key; the theorems say where it has to be positive *)
  Variable cnt : key -> nat.

  Definition stop_of (k : key) (start amount : nat) : nat := Nat.min (cnt k) (start + amount).
  Definition next_cur (k : key) (start amount : nat) : nat := (stop_of k start amount) mod (cnt k).

  (* ---------- sequential specification ---------- *)
  Definition seq_step (cur : cursor) (r : request) : cursor * answer :=
    let s := cur (rkey r) in
    (upd cur (rkey r) (next_cur (rkey r) s (ramount r)), page s (stop_of (rkey r) s (ramount r))).

  Fixpoint seq_exec (cur : cursor) (rs : list request) : cursor * list answer :=
    match rs with
    | [] => (cur, [])
    | r :: t =>
      let '(c1, a) := seq_step cur r in
      let '(c2, l) := seq_exec c1 t in (c2, a :: l)
    end.

  Definition seq_run (cur : cursor) (rs : list request) : list answer := snd (seq_exec cur rs).
  Definition seq_cursor (cur : cursor) (rs : list request) : cursor := fst (seq_exec cur rs).

  (* ---------- repaired protocol: reserve ; compute ---------- *)
  Inductive rpc := RIdle | RReserved (start stop : nat) | RDone (start stop : nat).
  Record rstate := mkR { r_cur : cursor; r_pcs : list rpc }.
  Inductive revent := EReserve (i : nat) | ECompute (i : nat).

  Definition r_init (cur : cursor) (reqs : list request) : rstate :=
    mkR cur (map (fun _ => RIdle) reqs).

  Definition r_exec (reqs : list request) (st : rstate) (e : revent) : option rstate :=
    match e with
    | EReserve i =>
      match nth_error reqs i, nth_error (r_pcs st) i with
      | Some r, Some RIdle =>
        let s := r_cur st (rkey r) in
        let e := stop_of (rkey r) s (ramount r) in
        Some (mkR (upd (r_cur st) (rkey r) (e mod cnt (rkey r))) (set_nth i (RReserved s e) (r_pcs st)))
      | _, _ => None
      end
    | ECompute i =>
      match nth_error (r_pcs st) i with
      | Some (RReserved s e) => Some (mkR (r_cur st) (set_nth i (RDone s e) (r_pcs st)))
      | _ => None
      end
    end.

  Definition valid_event (reqs : list request) (st : rstate) (e : revent) : bool :=
    match r_exec reqs st e with Some _ => true | None => false end.

  Inductive r_step (reqs : list request) : rstate -> revent -> rstate -> Prop :=
  | RS_reserve : forall st i r,
      nth_error reqs i = Some r -> nth_error (r_pcs st) i = Some RIdle ->
      r_step reqs st (EReserve i)
        (mkR (upd (r_cur st) (rkey r) (next_cur (rkey r) (r_cur st (rkey r)) (ramount r)))
             (set_nth i (RReserved (r_cur st (rkey r)) (stop_of (rkey r) (r_cur st (rkey r)) (ramount r)))
                      (r_pcs st)))
  | RS_compute : forall st i s e,
      nth_error (r_pcs st) i = Some (RReserved s e) ->
      r_step reqs st (ECompute i) (mkR (r_cur st) (set_nth i (RDone s e) (r_pcs st))).

  Inductive r_run (reqs : list request) : rstate -> list revent -> rstate -> Prop :=
  | RR_nil : forall st, r_run reqs st [] st
  | RR_snoc : forall st es st1 e st2,
      r_run reqs st es st1 -> r_step reqs st1 e st2 -> r_run reqs st (es ++ [e]) st2.

  Fixpoint r_exec_all (reqs : list request) (st : rstate) (es : list revent) : option rstate :=
    match es with
    | [] => Some st
    | e :: t => match r_exec reqs st e with Some st1 => r_exec_all reqs st1 t | None => None end
    end.

  Definition rpc_done (p : rpc) : bool := match p with RDone _ _ => true | _ => false end.
  Definition r_complete (st : rstate) : bool := forallb rpc_done (r_pcs st).

  (* the page a request holds (reserved or already computed); [] before its reserve step *)
  Definition rpc_page (p : rpc) : answer :=
    match p with RIdle => [] | RReserved s e => page s e | RDone s e => page s e end.
  Definition r_answers (st : rstate) : list answer := map rpc_page (r_pcs st).

  (* the order in which the requests executed their reserve step *)
  Fixpoint reserve_order (es : list revent) : list nat :=
    match es with
    | [] => []
    | EReserve i :: t => i :: reserve_order t
    | ECompute _ :: t => reserve_order t
    end.

  (* ---------- old protocol v0: read ; compute ; write ---------- *)
  Inductive vpc := VIdle | VRead (start : nat) | VComputed (start : nat) | VDone (start stop : nat).
  Record vstate := mkV { v_cur : cursor; v_pcs : list vpc }.
  Inductive vevent := ERead (i : nat) | EComputeV (i : nat) | EWrite (i : nat).

  Definition v_init (cur : cursor) (reqs : list request) : vstate :=
    mkV cur (map (fun _ => VIdle) reqs).

  Definition v_exec (reqs : list request) (st : vstate) (e : vevent) : option vstate :=
    match e with
    | ERead i =>
      match nth_error reqs i, nth_error (v_pcs st) i with
      | Some r, Some VIdle => Some (mkV (v_cur st) (set_nth i (VRead (v_cur st (rkey r))) (v_pcs st)))
      | _, _ => None
      end
    | EComputeV i =>
      match nth_error (v_pcs st) i with
      | Some (VRead s) => Some (mkV (v_cur st) (set_nth i (VComputed s) (v_pcs st)))
      | _ => None
      end
    | EWrite i =>
      match nth_error reqs i, nth_error (v_pcs st) i with
      | Some r, Some (VComputed s) =>
        Some (mkV (upd (v_cur st) (rkey r) (next_cur (rkey r) s (ramount r)))
                  (set_nth i (VDone s (stop_of (rkey r) s (ramount r))) (v_pcs st)))
      | _, _ => None
      end
    end.

  Inductive v_step (reqs : list request) : vstate -> vevent -> vstate -> Prop :=
  | VS_read : forall st i r,
      nth_error reqs i = Some r -> nth_error (v_pcs st) i = Some VIdle ->
      v_step reqs st (ERead i) (mkV (v_cur st) (set_nth i (VRead (v_cur st (rkey r))) (v_pcs st)))
  | VS_compute : forall st i s,
      nth_error (v_pcs st) i = Some (VRead s) ->
      v_step reqs st (EComputeV i) (mkV (v_cur st) (set_nth i (VComputed s) (v_pcs st)))
  | VS_write : forall st i r s,
      nth_error reqs i = Some r -> nth_error (v_pcs st) i = Some (VComputed s) ->
      v_step reqs st (EWrite i)
        (mkV (upd (v_cur st) (rkey r) (next_cur (rkey r) s (ramount r)))
             (set_nth i (VDone s (stop_of (rkey r) s (ramount r))) (v_pcs st))).

  Inductive v_run (reqs : list request) : vstate -> list vevent -> vstate -> Prop :=
  | VR_nil : forall st, v_run reqs st [] st
  | VR_snoc : forall st es st1 e st2,
      v_run reqs st es st1 -> v_step reqs st1 e st2 -> v_run reqs st (es ++ [e]) st2.

  Fixpoint v_exec_all (reqs : list request) (st : vstate) (es : list vevent) : option vstate :=
    match es with
    | [] => Some st
    | e :: t => match v_exec reqs st e with Some st1 => v_exec_all reqs st1 t | None => None end
    end.

  Definition vpc_done (p : vpc) : bool := match p with VDone _ _ => true | _ => false end.
  Definition v_complete (st : vstate) : bool := forallb vpc_done (v_pcs st).
  Definition vpc_page (p : vpc) : answer := match p with VDone s e => page s e | _ => [] end.
  Definition v_answers (st : vstate) : list answer := map vpc_page (v_pcs st).
End Protocols.

(* select the elements of l at the positions idx (positions out of range select d) *)
Definition select {A} (d : A) (l : list A) (idx : list nat) : list A := map (fun i => nth i l d) idx.

(* the first T elements of 0,1,..,c-1,0,1,.. : what a paging client has seen after T
   configurations when nothing is handed out twice within a cycle *)
Definition cyc (c T : nat) : list nat := map (fun j => j mod c) (seq 0 T).

Definition dreq : request := mkReq [] 0.
