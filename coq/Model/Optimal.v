(* M2 (best / top-k): extended_ddnnf.rs, extended_ddnnf/optimal_configs.rs.
   Executable definitions only; proofs live in Proofs/Optimal*.v.

   Values are Z: the correspondence only feeds integer-valued f64 of small magnitude, so every
   f64 sum is exact, no -0.0 ever arises (0.0 + x, x + (-x) = +0.0, the values handed in are never
   -0.0) and f64::total_cmp coincides with the order of Z.

   An OptimalConfig {config, value, n_literals} is modelled as the pair (decided literals, value).
   Rust's Config is a vector indexed by variable, so the ORDER of the decided literals has no
   counterpart in the implementation; `unify_disjoint` (self.config.extend(other)) is modelled as
   putting the other literals in front (that makes the configuration of an And node literally an
   element of Circuit.enum_node's product).  n_literals is not modelled (never read by the
   queries). *)
From Coq Require Import List ZArith Bool.
From DD Require Import Model.Circuit.
Import ListNotations.
Open Scope Z_scope.

Notation oc := (cfg * Z)%type.

(* get_objective_fn_val_of_literals on one literal: deselected features count 0.
   (Rust indexes objective_fn_vals[var-1] and panics when out of range; with one value per
   feature and literals within 1..n that cannot happen.) *)
Definition valof (vals : list Z) (l : Z) : Z :=
  if 0 <? l then nth (Z.to_nat (l - 1)) vals 0 else 0.
Definition cval (vals : list Z) (c : cfg) : Z := zsum (map (valof vals) c).

(* OptimalConfig::from on the literals c *)
Definition tag (vals : list Z) (c : cfg) : oc := (c, cval vals c).
(* OptimalConfig::empty *)
Definition oc_empty : oc := ([], 0).
(* acc.unify_disjoint(next) *)
Definition uni (acc next : oc) : oc := (fst next ++ fst acc, snd acc + snd next).

(* ---------------- calc_best_config ---------------- *)

Definition is_none {A} (o : option A) : bool := match o with None => true | Some _ => false end.
Definition flat_some {A} (l : list (option A)) : list A :=
  flat_map (fun o => match o with Some x => [x] | None => [] end) l.

(* Iterator::max on OptimalConfig (Ord = value only): reduce keeping the LATER element unless the
   earlier one is strictly greater, i.e. the last maximal element. *)
Definition max_step (b : option oc) (x : oc) : option oc :=
  match b with
  | None => Some x
  | Some y => if snd x <? snd y then Some y else Some x
  end.
Definition max_last (l : list oc) : option oc := fold_left max_step l None.

(* calc_best_config_for_node_helper *)
Definition best_node (vals : list Z) (A : cfg) (acc : list (option oc)) (nd : ntype) : option oc :=
  match nd with
  | TrueN => Some oc_empty
  | FalseN => None
  | Lit l => if memZ (- l) A then None else Some (tag vals [l])
  | And cs =>
    let chs := map (fun c => nth c acc None) cs in
    if existsb is_none chs then None
    else Some (fold_left uni (flat_some chs) oc_empty)
  | Or cs => max_last (flat_some (map (fun c => nth c acc None) cs))
  end.
Definition bests (vals : list Z) (A : cfg) (C : circuit) : list (option oc) :=
  pass (best_node vals A) C.
(* calc_best_config: the entry of the root (last node) *)
Definition calc_best_config (vals : list Z) (A : cfg) (C : circuit) : option oc :=
  last (bests vals A C) None.

(* ---------------- calc_top_k_configs ---------------- *)

Inductive outcome (A : Type) :=
| Done (a : A)
| Panic.
Arguments Done {A} a.
Arguments Panic {A}.

Definition is_panic {A} (o : outcome A) : bool := match o with Panic => true | Done _ => false end.

(* -- merge_top_k_results_or: k-way merge.  The Rust keeps one index per list; the model keeps
   the remaining suffix of every list (list, i) |-> skipn i list.  Each round takes, among the
   lists that are not exhausted, the head that is maximal, the LAST such list on ties
   (Iterator::max_by), and advances that list. *)

(* index and value of the last maximal head *)
Fixpoint best_head (i : nat) (Ls : list (list oc)) (b : option (nat * oc)) : option (nat * oc) :=
  match Ls with
  | [] => b
  | L :: Ls' =>
    let b' := match L with
              | [] => b
              | x :: _ =>
                match b with
                | None => Some (i, x)
                | Some (j, y) => if snd x <? snd y then b else Some (i, x)
                end
              end in
    best_head (S i) Ls' b'
  end.

Fixpoint advance (j : nat) (Ls : list (list oc)) : list (list oc) :=
  match Ls, j with
  | [], _ => []
  | L :: Ls', O => tl L :: Ls'
  | L :: Ls', S j' => L :: advance j' Ls'
  end.

Fixpoint or_loop (fuel : nat) (Ls : list (list oc)) (out : list oc) : outcome (list oc) :=
  match fuel with
  | O => Done (rev out)
  | S f =>
    match best_head 0 Ls None with
    | None => Panic                                   (* expect("There must be an element left.") *)
    | Some (j, x) => or_loop f (advance j Ls) (x :: out)
    end
  end.

Definition zlen {A} (l : list A) : Z := Z.of_nat (length l).

(* max_result_amount = sum of the lengths (cannot overflow: the lists are in memory) *)
Definition merge_or (k : nat) (Ls : list (list oc)) : outcome (list oc) :=
  let amount := Z.min (Z.of_nat k) (zsum (map zlen Ls)) in
  or_loop (Z.to_nat amount) Ls [].

(* -- merge_top_k_results_and: best-first search over index tuples.
   candidates_heap + candidate_idx_mapping are modelled as the list of live candidates (index
   tuple, configuration) in insertion order plus the list `seen` of every tuple ever inserted
   (contains_right).  [The BiHashMap is keyed by configuration on the left; the model assumes that
   different tuples give different configurations, which holds when the lists are duplicate free
   and range over disjoint variables, as below an And of a decomposable circuit.]
   BinaryHeap::pop returns SOME candidate of maximal value; which one among equals depends on the
   heap's internal layout.  The model takes that choice as a parameter `pick` (any function of the
   lists, the tuples popped so far and the live candidates): the theorems hold for every pick, the
   correspondence compares VALUE sequences only (the configurations of a tie are not determined
   by the model). *)

Notation cand := (list nat * oc)%type.
Notation picker := (list (list oc) -> list (list nat) -> list cand -> nat).

Definition cand_val (x : cand) : Z := snd (snd x).
Definition is_max (H : list cand) (x : cand) : bool :=
  forallb (fun y => cand_val y <=? cand_val x) H.

Fixpoint find_idx {A} (p : A -> bool) (l : list A) : option nat :=
  match l with
  | [] => None
  | x :: l' => if p x then Some O else option_map S (find_idx p l')
  end.

Fixpoint remove_nth {A} (i : nat) (l : list A) : list A :=
  match l, i with
  | [], _ => []
  | _ :: l', O => l'
  | x :: l', S i' => x :: remove_nth i' l'
  end.

(* pop: the candidate pick points at when it is maximal, else the first maximal one *)
Definition pop_max (i : nat) (H : list cand) : option (cand * list cand) :=
  let use j := match nth_error H j with
               | Some x => Some (x, remove_nth j H)
               | None => None
               end in
  match nth_error H i with
  | Some x => if is_max H x then Some (x, remove_nth i H)
              else match find_idx (is_max H) H with Some j => use j | None => None end
  | None => match find_idx (is_max H) H with Some j => use j | None => None end
  end.

(* the configuration of an index tuple: fold of unify_disjoint over list[i] *)
Definition items (Ls : list (list oc)) (t : list nat) : list oc :=
  map (fun p => nth (snd p) (fst p) oc_empty) (combine Ls t).
Definition cand_of (Ls : list (list oc)) (t : list nat) : oc :=
  fold_left uni (items Ls t) oc_empty.

Fixpoint bump (t : list nat) (j : nat) : list nat :=
  match t, j with
  | [], _ => []
  | i :: t', O => S i :: t'
  | i :: t', S j' => i :: bump t' j'
  end.

Definition tuple_eqb (t u : list nat) : bool :=
  Nat.eqb (length t) (length u) && forallb (fun p => Nat.eqb (fst p) (snd p)) (combine t u).
Definition seen_mem (t : list nat) (seen : list (list nat)) : bool := existsb (tuple_eqb t) seen.

(* successors of t that are in range, in list order *)
Definition successors (Ls : list (list oc)) (t : list nat) : list (list nat) :=
  map (bump t)
      (filter (fun j => Nat.ltb (S (nth j t O)) (length (nth j Ls []))) (seq 0 (length Ls))).

(* insert the not yet seen ones (the filter runs before any insertion, as in the Rust) *)
Definition push_new (Ls : list (list oc)) (news : list (list nat))
           (H : list cand) (seen : list (list nat)) : list cand * list (list nat) :=
  (H ++ map (fun t => (t, cand_of Ls t)) news, seen ++ news).

Fixpoint and_loop (pick : picker) (Ls : list (list oc)) (fuel : nat)
         (H : list cand) (seen popped : list (list nat)) (out : list oc) : outcome (list oc) :=
  match fuel with
  | O => Done (rev out)
  | S f =>
    match pop_max (pick Ls (rev popped) H) H with
    | None => Panic                                   (* expect("There must be candidates left.") *)
    | Some ((t, x), H1) =>
      let news := filter (fun u => negb (seen_mem u seen)) (successors Ls t) in
      let (H2, seen2) := push_new Ls news H1 seen in
      and_loop pick Ls f H2 seen2 (t :: popped) (x :: out)
    end
  end.

(* max_result_amount.  A bound is a function of the list lengths; it may panic. *)
Notation bound := (list Z -> outcome Z).

(* repaired code (F6): fold(1, saturating_mul) on usize, umax = usize::MAX *)
Definition bound_sat (umax : Z) : bound :=
  fun lens => Done (fold_left (fun acc l => Z.min umax (acc * l)) lens 1).
(* unrepaired code, release profile: Iterator::product wraps modulo umax+1 *)
Definition bound_wrap_v0 (umax : Z) : bound :=
  fun lens => Done (fold_left (fun acc l => (acc * l) mod (umax + 1)) lens 1).
(* unrepaired code, debug profile (overflow checks): "attempt to multiply with overflow" *)
Definition bound_checked_v0 (umax : Z) : bound :=
  fun lens =>
    fold_left (fun acc l => match acc with
                            | Done a => if umax <? a * l then Panic else Done (a * l)
                            | Panic => Panic
                            end) lens (Done 1).

Definition merge_and (bd : bound) (pick : picker) (k : nat) (Ls : list (list oc)) : outcome (list oc) :=
  if existsb (fun L => Nat.eqb (length L) 0) Ls then Done []
  else
    match bd (map zlen Ls) with
    | Panic => Panic
    | Done mx =>
      let amount := Z.min (Z.of_nat k) mx in
      let start := map (fun _ => O) Ls in
      and_loop pick Ls (Z.to_nat amount) [(start, cand_of Ls start)] [start] [] []
    end.

(* all children present and finished?  (a missing entry is the Rust's
   "No partial configs for node .. present" panic) *)
Fixpoint all_done {A} (l : list (outcome A)) : option (list A) :=
  match l with
  | [] => Some []
  | Panic :: _ => None
  | Done a :: l' => option_map (cons a) (all_done l')
  end.

(* calc_top_k_configs_for_node_helper *)
Definition topk_node (bd : bound) (pick : picker) (vals : list Z) (A : cfg) (k : nat)
           (acc : list (outcome (list oc))) (nd : ntype) : outcome (list oc) :=
  match nd with
  | TrueN => Done [oc_empty]
  | FalseN => Done []
  | Lit l => if memZ (- l) A then Done [] else Done [tag vals [l]]
  | And cs =>
    match all_done (map (fun c => nth c acc Panic) cs) with
    | None => Panic
    | Some Ls =>
      if existsb (fun L => Nat.eqb (length L) 0) Ls then Done [] else merge_and bd pick k Ls
    end
  | Or cs =>
    match all_done (map (fun c => nth c acc Panic) cs) with
    | None => Panic
    | Some Ls => merge_or k Ls
    end
  end.

Definition topks (bd : bound) (pick : picker) (vals : list Z) (A : cfg) (k : nat) (C : circuit)
  : list (outcome (list oc)) :=
  pass (topk_node bd pick vals A k) C.

(* calc_top_k_configs: every node 0..=root is computed (a panic anywhere aborts the call), the
   answer is the root's list *)
Definition calc_top_k_gen (bd : bound) (pick : picker) (vals : list Z) (A : cfg) (k : nat) (C : circuit)
  : outcome (list oc) :=
  let r := topks bd pick vals A k C in
  if existsb is_panic r then Panic else last r Panic.

Definition usize_max : Z := 2 ^ 64 - 1.

(* the repaired code in /repo (after fix F6) *)
Definition calc_top_k_configs (pick : picker) := calc_top_k_gen (bound_sat usize_max) pick.
(* the unrepaired code, per build profile *)
Definition calc_top_k_configs_v0_release (pick : picker) := calc_top_k_gen (bound_wrap_v0 usize_max) pick.
Definition calc_top_k_configs_v0_debug (pick : picker) := calc_top_k_gen (bound_checked_v0 usize_max) pick.

(* the tie-breaking used by the extracted model: the first maximal candidate *)
Definition pick_first : picker := fun _ _ _ => O.

(* ---------------- verified result checkers (used by the correspondence oracle) ---------------- *)

Fixpoint sorted_desc (l : list Z) : bool :=
  match l with
  | [] => true
  | x :: l' => match l' with [] => true | y :: _ => (y <=? x) && sorted_desc l' end
  end.

Definition cfg_eqb (a b : cfg) : bool :=
  Nat.eqb (length a) (length b) && forallb (fun p => fst p =? snd p) (combine a b).
Definition mem_cfg (c : cfg) (l : list cfg) : bool := existsb (cfg_eqb c) l.
Fixpoint nodup_cfgs (l : list cfg) : bool :=
  match l with [] => true | c :: l' => negb (mem_cfg c l') && nodup_cfgs l' end.

(* is_topk vals k M R: R (configurations with their reported values) is a correct top-k answer
   for the model list M (the truth-table ModelsA). *)
Definition is_topk (vals : list Z) (k : nat) (M : list cfg) (R : list oc) : bool :=
  Nat.eqb (length R) (Nat.min k (length M))
  && forallb (fun r => mem_cfg (fst r) M && (snd r =? cval vals (fst r))) R
  && nodup_cfgs (map fst R)
  && sorted_desc (map snd R)
  && forallb (fun m => mem_cfg m (map fst R)
                       || forallb (fun r => cval vals m <=? snd r) R) M.

(* is_best vals M r *)
Definition is_best (vals : list Z) (M : list cfg) (r : option oc) : bool :=
  match r with
  | None => Nat.eqb (length M) 0
  | Some (c, v) => mem_cfg c M && (v =? cval vals c) && forallb (fun m => cval vals m <=? v) M
  end.
