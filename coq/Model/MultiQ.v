(* M9 / MultiQ: Ddnnf::operate_on_queries (ddnnife/src/ddnnf/multiple_queries.rs) and
   parser::parse_queries_file (ddnnife/src/parser.rs).  Executable definitions only; proofs live in
   Proofs/MultiQ*.v.

   queries_multi_thread as a transition system.  One constructor of [mq_step] per atomic action:
     pull        a worker takes the head of the shared WorkQueue (VecDeque::pop_front under its mutex)
     pull-none   a worker finds the queue empty and leaves its `while let` loop
     send        a worker computes `operation(&mut clone, &work)` and sends (index, work, result)
                 on the mpsc channel (one atomic step: the computation is thread-local)
     die         `operation` panics on the query ([panics q = true]): the worker thread ends, its
                 item is gone (nothing is sent); unwinding drops the worker's Sender
     recv        the main thread takes the head of the channel and pushes it on `results`
                 (only while its `for _ in 0..work.len()` loop has iterations left)
     closed      recv() = Err: the channel is empty and no Sender is left, i.e. every worker has
                 left its loop or died, and the main thread has dropped its own Sender
                 (`drop(results_tx)` after spawning the workers, repair F10): the main thread
                 panics with "All workers died unexpectedly."  Only with [drop_tx = true]; in the
                 unrepaired code (v0, [drop_tx = false]) the main thread keeps its Sender, recv()
                 never reports a closed channel and the action does not exist
     write       after the loop: results.sort_unstable(); one line per result is written
     join        handle.join().unwrap() of every worker, all of which left their loop normally
     join-dead   handle.join().unwrap() panics on the first worker that died (the handles before
                 it have been joined)
   Not modelled: the OS scheduler (every interleaving of the atomic actions is a run of the system,
   which is what the theorems quantify over), thread creation (all workers exist from the start, a
   superset of the real interleavings), I/O errors of the writer.
   After a panic of the main thread nothing of interest happens any more (in the CLI the process
   exits; the model lets workers that are still running go on, which no theorem looks at).
   The answer of a worker clone is the Section variable [answer] (a function of the query alone:
   history independence of clones is property C16).  The result type T : ToString + Ord of the Rust
   is the Section variable R with [rshow] and an ARBITRARY comparison [rcmp]. *)
From Coq Require Export List ZArith Bool String Ascii.
From Coq Require Import DecimalString DecimalZ.
Export ListNotations.

Notation mq_query := (list Z).
Notation mq_item := (nat * list Z)%type.         (* (line index, query) *)

(* ---------- text ---------- *)

(* i32::to_string *)
Definition mq_zshow (z : Z) : string := NilEmpty.string_of_int (Z.to_int z).

Definition mq_nl : string := String (ascii_of_nat 10) EmptyString.

(* String::pop *)
Fixpoint mq_str_pop (s : string) : string :=
  match s with
  | EmptyString => EmptyString
  | String c EmptyString => EmptyString
  | String c r => String c (mq_str_pop r)
  end.

(* work.iter().fold(String::new(), |acc, &num| acc + &num.to_string() + " "); features_str.pop(); *)
Definition mq_features_str (q : mq_query) : string :=
  mq_str_pop (fold_left (fun acc z => (acc ++ mq_zshow z ++ " ")%string) q EmptyString).

Fixpoint mq_concat (l : list string) : string :=
  match l with
  | [] => EmptyString
  | x :: r => (x ++ mq_concat r)%string
  end.

(* ---------- parse_queries_file ---------- *)

(* BufRead::lines(): pieces terminated by "\n" (a "\r" directly before it is removed); a last piece
   without "\n" is a line if it is non-empty (it keeps a trailing "\r"). *)
Fixpoint mq_srev_app (s acc : string) : string :=
  match s with
  | EmptyString => acc
  | String c r => mq_srev_app r (String c acc)
  end.
Definition mq_is_nl (c : ascii) : bool := Nat.eqb (nat_of_ascii c) 10.
Definition mq_is_cr (c : ascii) : bool := Nat.eqb (nat_of_ascii c) 13.
(* [cur] is the current line reversed *)
Definition mq_finish_nl (cur : string) : string :=
  match cur with
  | String c r => if mq_is_cr c then mq_srev_app r EmptyString else mq_srev_app cur EmptyString
  | EmptyString => EmptyString
  end.
Fixpoint mq_lines_aux (s cur : string) : list string :=
  match s with
  | EmptyString => match cur with EmptyString => [] | _ => [mq_srev_app cur EmptyString] end
  | String c r => if mq_is_nl c then mq_finish_nl cur :: mq_lines_aux r EmptyString
                  else mq_lines_aux r (String c cur)
  end.
Definition mq_file_lines (content : string) : list string := mq_lines_aux content EmptyString.

(* str::split_whitespace restricted to ASCII text (U+0009..U+000D and U+0020) *)
Definition mq_is_ws (c : ascii) : bool :=
  let n := nat_of_ascii c in (Nat.leb 9 n && Nat.leb n 13) || Nat.eqb n 32.
Fixpoint mq_tokens_aux (s cur : string) : list string :=
  match s with
  | EmptyString => match cur with EmptyString => [] | _ => [mq_srev_app cur EmptyString] end
  | String c r =>
    if mq_is_ws c then
      match cur with
      | EmptyString => mq_tokens_aux r EmptyString
      | _ => mq_srev_app cur EmptyString :: mq_tokens_aux r EmptyString
      end
    else mq_tokens_aux r (String c cur)
  end.
Definition mq_tokens (line : string) : list string := mq_tokens_aux line EmptyString.

(* <i32 as FromStr>::from_str: optional sign, at least one ASCII digit, Err on overflow *)
Definition mq_digit (c : ascii) : option Z :=
  let n := nat_of_ascii c in
  if Nat.leb 48 n && Nat.leb n 57 then Some (Z.of_nat (n - 48)) else None.
Fixpoint mq_digits (s : string) (acc : Z) : option Z :=
  match s with
  | EmptyString => Some acc
  | String c r => match mq_digit c with
                  | Some d => mq_digits r (acc * 10 + d)%Z
                  | None => None
                  end
  end.
Definition mq_parse_i32 (s : string) : option Z :=
  match s with
  | EmptyString => None
  | String c r =>
    let n := nat_of_ascii c in
    let neg := Nat.eqb n 45 in
    let body := if Nat.eqb n 45 || Nat.eqb n 43 then r else s in
    match body with
    | EmptyString => None
    | _ => match mq_digits body 0%Z with
           | Some v => let z := if neg then (- v)%Z else v in
                       if (Z.leb (-2147483648) z && Z.leb z 2147483647)%Z then Some z else None
           | None => None
           end
    end
  end.

Fixpoint mq_all_some {A : Type} (l : list (option A)) : option (list A) :=
  match l with
  | [] => Some []
  | Some x :: r => match mq_all_some r with Some r' => Some (x :: r') | None => None end
  | None :: _ => None
  end.

(* one line -> the query; None = the `panic!("Unable to parse ...")` *)
Definition mq_parse_line (line : string) : option mq_query :=
  mq_all_some (map mq_parse_i32 (mq_tokens line)).

(* lines.enumerate(): EVERY line (also an empty one: the query []) becomes a query whose index is
   its line number *)
Fixpoint mq_enumerate {A : Type} (k : nat) (l : list A) : list (nat * A) :=
  match l with
  | [] => []
  | x :: r => (k, x) :: mq_enumerate (S k) r
  end.
Definition mq_parse_lines (lines : list string) : option (list mq_item) :=
  match mq_all_some (map mq_parse_line lines) with
  | Some qs => Some (mq_enumerate 0 qs)
  | None => None
  end.
Definition mq_parse_file (content : string) : option (list mq_item) :=
  mq_parse_lines (mq_file_lines content).

(* ---------- the tuple order of (usize, Vec<i32>, T) ---------- *)

(* Vec<i32> : Ord is lexicographic *)
Fixpoint mq_lcmp (a b : mq_query) : comparison :=
  match a, b with
  | [], [] => Eq
  | [], _ :: _ => Lt
  | _ :: _, [] => Gt
  | x :: a', y :: b' => match Z.compare x y with Eq => mq_lcmp a' b' | c => c end
  end.

Section MultiQ.
  Variable R : Type.                       (* BigInt for count-queries, bool for sat *)
  Variable answer : mq_query -> R.         (* operation(&mut clone_of_ddnnf, query) *)
  Variable panics : mq_query -> bool.      (* operation(..) panics on this query *)
  Variable rcmp : R -> R -> comparison.    (* <T as Ord>::cmp; nothing is assumed about it *)
  Variable rshow : R -> string.            (* T::to_string *)
  (* true: the main thread drops its own Sender once the workers are spawned (the code after repair
     F10-multiquery-drop-sender); false: it keeps it until the function returns (v0, finding K13) *)
  Variable drop_tx : bool.

  Notation res := (nat * list Z * R)%type.

  Definition mq_idx (r : res) : nat := fst (fst r).

  Definition mq_tcmp (a b : res) : comparison :=
    let '(i1, q1, r1) := a in
    let '(i2, q2, r2) := b in
    match Nat.compare i1 i2 with
    | Eq => match mq_lcmp q1 q2 with Eq => rcmp r1 r2 | c => c end
    | c => c
    end.
  Definition mq_tle (a b : res) : bool :=
    match mq_tcmp a b with Gt => false | _ => true end.

  (* model of results.sort_unstable(): insertion sort with the tuple order.  (The Rust sort is a
     pattern-defeating quicksort; Proofs/MultiQSort.v shows that ANY sorted permutation of results
     with pairwise distinct indices is the same list, so the algorithm does not matter.) *)
  Fixpoint mq_insert (le : res -> res -> bool) (x : res) (l : list res) : list res :=
    match l with
    | [] => [x]
    | y :: r => if le x y then x :: y :: r else y :: mq_insert le x r
    end.
  Fixpoint mq_sort_by (le : res -> res -> bool) (l : list res) : list res :=
    match l with
    | [] => []
    | x :: r => mq_insert le x (mq_sort_by le r)
    end.
  Definition mq_sort (l : list res) : list res := mq_sort_by mq_tle l.

  (* format!("{},{}\n", features_str, result.to_string()) *)
  Definition mq_line (q : mq_query) (r : R) : string :=
    (mq_features_str q ++ "," ++ rshow r ++ mq_nl)%string.
  Definition mq_render (rs : list res) : string :=
    mq_concat (map (fun x : res => mq_line (snd (fst x)) (snd x)) rs).

  (* queries_single_thread: one line per work item in file order *)
  Definition mq_render_single (W : list mq_item) : string :=
    mq_concat (map (fun it : mq_item => mq_line (snd it) (answer (snd it))) W).

  (* queries_single_thread when `operation` may panic: the bytes written before the first
     panicking query, and whether the loop panicked *)
  Fixpoint mq_single (W : list mq_item) : string * bool :=
    match W with
    | [] => (EmptyString, false)
    | it :: r =>
      if panics (snd it) then (EmptyString, true)
      else let '(o, p) := mq_single r in ((mq_line (snd it) (answer (snd it)) ++ o)%string, p)
    end.

  Definition mq_result_of (it : mq_item) : res := (fst it, snd it, answer (snd it)).
  Definition mq_expected (W : list mq_item) : list res := map mq_result_of W.

  (* ---------- transition system ---------- *)

  Inductive mq_wst :=
  | WIdle                                   (* at the head of `while let Some(..) = pull_work()` *)
  | WBusy (i : nat) (q : mq_query)          (* holds (index, work), result not yet sent *)
  | WExited                                 (* left the loop; its Sender is dropped *)
  | WDied (i : nat) (q : mq_query).         (* `operation` panicked on (i, q): the thread is gone, its
                                               Sender is dropped, nothing was sent for (i, q) *)

  Inductive mq_pc :=
  | PCollect (remaining : nat)              (* iterations of `for _ in 0..work.len()` left *)
  | PWritten (out : string)                 (* sorted and written; joining *)
  | PJoined (out : string)                  (* returned Ok(()) *)
  | PPanicked (written : option string).    (* the main thread panicked: in the recv loop (nothing
                                               written) or in join().unwrap() after writing *)

  Record mq_state := MQState {
    mq_queue : list mq_item;
    mq_workers : list mq_wst;
    mq_chan : list res;                     (* FIFO, head = oldest *)
    mq_results : list res;                  (* arrival order *)
    mq_main : mq_pc
  }.

  Inductive mq_event :=
  | EPull (w i : nat)
  | EPullNone (w : nat)
  | ESend (w i : nat)
  | ERecv (i : nat)
  | EDie (w i : nat)
  | EWrite
  | EJoin
  | EClosed                                 (* recv() = Err -> panic!("All workers died unexpectedly.") *)
  | EJoinDead (w : nat).                    (* handle.join().unwrap() on the dead worker w *)

  Definition mq_init (W : list mq_item) (j : nat) : mq_state :=
    MQState W (repeat WIdle j) [] [] (PCollect (List.length W)).

  Fixpoint mq_upd (ws : list mq_wst) (w : nat) (x : mq_wst) : list mq_wst :=
    match ws, w with
    | [], _ => []
    | _ :: r, O => x :: r
    | y :: r, S w' => y :: mq_upd r w' x
    end.

  Definition mq_is_exited (x : mq_wst) : bool :=
    match x with WExited => true | _ => false end.
  (* the thread has ended (normally or by a panic): its clone of the Sender is dropped *)
  Definition mq_is_done (x : mq_wst) : bool :=
    match x with WExited | WDied _ _ => true | _ => false end.

  Inductive mq_step : mq_state -> mq_event -> mq_state -> Prop :=
  | step_pull : forall Q ws ch rs pc w i q,
      nth_error ws w = Some WIdle ->
      mq_step (MQState ((i, q) :: Q) ws ch rs pc) (EPull w i)
              (MQState Q (mq_upd ws w (WBusy i q)) ch rs pc)
  | step_pull_none : forall ws ch rs pc w,
      nth_error ws w = Some WIdle ->
      mq_step (MQState [] ws ch rs pc) (EPullNone w)
              (MQState [] (mq_upd ws w WExited) ch rs pc)
  | step_send : forall Q ws ch rs pc w i q,
      nth_error ws w = Some (WBusy i q) ->
      panics q = false ->
      mq_step (MQState Q ws ch rs pc) (ESend w i)
              (MQState Q (mq_upd ws w WIdle) (ch ++ [(i, q, answer q)]) rs pc)
  | step_die : forall Q ws ch rs pc w i q,
      nth_error ws w = Some (WBusy i q) ->
      panics q = true ->
      mq_step (MQState Q ws ch rs pc) (EDie w i)
              (MQState Q (mq_upd ws w (WDied i q)) ch rs pc)
  | step_recv : forall Q ws ch rs k i q r,
      mq_step (MQState Q ws ((i, q, r) :: ch) rs (PCollect (S k))) (ERecv i)
              (MQState Q ws ch (rs ++ [(i, q, r)]) (PCollect k))
  | step_write : forall Q ws ch rs,
      mq_step (MQState Q ws ch rs (PCollect 0)) EWrite
              (MQState Q ws ch rs (PWritten (mq_render (mq_sort rs))))
  | step_join : forall Q ws ch rs out,
      forallb mq_is_exited ws = true ->
      mq_step (MQState Q ws ch rs (PWritten out)) EJoin
              (MQState Q ws ch rs (PJoined out))
  | step_closed : forall Q ws rs k,
      drop_tx = true ->
      forallb mq_is_done ws = true ->
      mq_step (MQState Q ws [] rs (PCollect (S k))) EClosed
              (MQState Q ws [] rs (PPanicked None))
  | step_join_dead : forall Q ws ch rs out w i q,
      nth_error ws w = Some (WDied i q) ->
      forallb mq_is_exited (firstn w ws) = true ->
      mq_step (MQState Q ws ch rs (PWritten out)) (EJoinDead w)
              (MQState Q ws ch rs (PPanicked (Some out))).

  (* executable version: Some s' iff the event is enabled in s and leads to s' *)
  Definition mq_valid_event (s : mq_state) (e : mq_event) : option mq_state :=
    let '(MQState Q ws ch rs pc) := s in
    match e with
    | EPull w i =>
      match nth_error ws w, Q with
      | Some WIdle, (i', q) :: Q' =>
        if Nat.eqb i i' then Some (MQState Q' (mq_upd ws w (WBusy i' q)) ch rs pc) else None
      | _, _ => None
      end
    | EPullNone w =>
      match nth_error ws w, Q with
      | Some WIdle, [] => Some (MQState [] (mq_upd ws w WExited) ch rs pc)
      | _, _ => None
      end
    | ESend w i =>
      match nth_error ws w with
      | Some (WBusy i' q) =>
        if Nat.eqb i i' && negb (panics q)
        then Some (MQState Q (mq_upd ws w WIdle) (ch ++ [(i', q, answer q)]) rs pc)
        else None
      | _ => None
      end
    | EDie w i =>
      match nth_error ws w with
      | Some (WBusy i' q) =>
        if Nat.eqb i i' && panics q then Some (MQState Q (mq_upd ws w (WDied i' q)) ch rs pc) else None
      | _ => None
      end
    | ERecv i =>
      match ch, pc with
      | (i', q, r) :: ch', PCollect (S k) =>
        if Nat.eqb i i' then Some (MQState Q ws ch' (rs ++ [(i', q, r)]) (PCollect k)) else None
      | _, _ => None
      end
    | EWrite =>
      match pc with
      | PCollect O => Some (MQState Q ws ch rs (PWritten (mq_render (mq_sort rs))))
      | _ => None
      end
    | EJoin =>
      match pc with
      | PWritten out => if forallb mq_is_exited ws then Some (MQState Q ws ch rs (PJoined out)) else None
      | _ => None
      end
    | EClosed =>
      match ch, pc with
      | [], PCollect (S _) =>
        if drop_tx && forallb mq_is_done ws then Some (MQState Q ws [] rs (PPanicked None)) else None
      | _, _ => None
      end
    | EJoinDead w =>
      match pc, nth_error ws w with
      | PWritten out, Some (WDied _ _) =>
        if forallb mq_is_exited (firstn w ws) then Some (MQState Q ws ch rs (PPanicked (Some out))) else None
      | _, _ => None
      end
    end.

  (* replay of an event list; None = some event was not enabled *)
  Fixpoint mq_replay (s : mq_state) (tr : list mq_event) : option mq_state :=
    match tr with
    | [] => Some s
    | e :: r => match mq_valid_event s e with Some s' => mq_replay s' r | None => None end
    end.

  Inductive mq_run : mq_state -> list mq_event -> mq_state -> Prop :=
  | run_nil : forall s, mq_run s [] s
  | run_cons : forall s e s1 tr s2, mq_step s e s1 -> mq_run s1 tr s2 -> mq_run s (e :: tr) s2.

  Definition mq_output (s : mq_state) : option string :=
    match mq_main s with
    | PCollect _ => None
    | PWritten out => Some out
    | PJoined out => Some out
    | PPanicked written => written
    end.

  (* the main thread has returned or panicked *)
  Definition mq_final (s : mq_state) : bool :=
    match mq_main s with
    | PJoined _ | PPanicked _ => true
    | _ => false
    end.

  (* the canonical completion used by the correspondence after a logged prefix: every worker that
     is still in its loop finishes (send or die if busy, then sees the empty queue), the main thread
     drains the channel, then writes and joins, or panics when the channel is closed (a join that
     meets a dead worker panics, too).  [fuel] bounds the number of events. *)
  Fixpoint mq_find_worker (p : mq_wst -> bool) (ws : list mq_wst) (k : nat) : option nat :=
    match ws with
    | [] => None
    | x :: r => if p x then Some k else mq_find_worker p r (S k)
    end.
  Definition mq_is_busy (x : mq_wst) : bool := match x with WBusy _ _ => true | _ => false end.
  Definition mq_is_idle (x : mq_wst) : bool := match x with WIdle => true | _ => false end.
  Definition mq_is_died (x : mq_wst) : bool := match x with WDied _ _ => true | _ => false end.
  Definition mq_next_event (s : mq_state) : option mq_event :=
    match mq_main s, mq_chan s with
    | PCollect (S _), (i, _, _) :: _ => Some (ERecv i)
    | PCollect O, _ => Some EWrite
    | PJoined _, _ => None
    | PPanicked _, _ => None
    | _, _ =>
      match mq_find_worker mq_is_busy (mq_workers s) 0 with
      | Some w => match nth_error (mq_workers s) w with
                  | Some (WBusy i q) => Some (if panics q then EDie w i else ESend w i)
                  | _ => None
                  end
      | None =>
        match mq_find_worker mq_is_idle (mq_workers s) 0, mq_queue s with
        | Some w, (i, _) :: _ => Some (EPull w i)
        | Some w, [] => Some (EPullNone w)
        | None, _ =>
          match mq_main s with
          | PWritten _ => match mq_find_worker mq_is_died (mq_workers s) 0 with
                          | Some w => Some (EJoinDead w)
                          | None => Some EJoin
                          end
          | PCollect (S _) => if drop_tx then Some EClosed else None
          | _ => None
          end
        end
      end
    end.
  Fixpoint mq_complete (fuel : nat) (s : mq_state) : mq_state :=
    match fuel with
    | O => s
    | S f => match mq_next_event s with
             | Some e => match mq_valid_event s e with Some s' => mq_complete f s' | None => s end
             | None => s
             end
    end.

  (* bound on the number of events of any run from s (every step lowers it, all but `die` by
     exactly one) *)
  Definition mq_wweight (x : mq_wst) : nat :=
    match x with WIdle => 1 | WBusy _ _ => 3 | WExited => 0 | WDied _ _ => 0 end.
  Definition mq_pcweight (p : mq_pc) : nat :=
    match p with PCollect _ => 2 | PWritten _ => 1 | PJoined _ => 0 | PPanicked _ => 0 end.
  Definition mq_measure (s : mq_state) : nat :=
    3 * List.length (mq_queue s) + list_sum (map mq_wweight (mq_workers s))
    + List.length (mq_chan s) + mq_pcweight (mq_main s).
End MultiQ.


Arguments mq_idx {R} r.
Arguments mq_tcmp {R} rcmp a b.
Arguments mq_tle {R} rcmp a b.
Arguments mq_insert {R} le x l.
Arguments mq_sort_by {R} le l.
Arguments mq_sort {R} rcmp l.
Arguments mq_line {R} rshow q r.
Arguments mq_render {R} rshow rs.
Arguments mq_render_single {R} answer rshow W.
Arguments mq_result_of {R} answer it.
Arguments mq_expected {R} answer W.
Arguments MQState {R}.
Arguments mq_queue {R} m.
Arguments mq_workers {R} m.
Arguments mq_chan {R} m.
Arguments mq_results {R} m.
Arguments mq_main {R} m.
Arguments mq_output {R} s.
Arguments mq_final {R} s.
Arguments mq_measure {R} s.
