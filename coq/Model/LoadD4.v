(* M3 (d4 loader): parser.rs  build_d4_ddnnf  (+ distribute_building, Ddnnf::new,
   intermediate_representation.rs rebuild) on petgraph 0.7.1 StableGraph.
   Executable definitions only.  `None` = the Rust panics (or aborts).

   The StableGraph is modelled by
     sg_nodes : slot i = weight of NodeIndex(i), None = vacant (removed) slot
     sg_edges : ALL live edges, newest first.  StableGraph::add_edge links the new edge at the
                head of the source's outgoing list AND of the target's incoming list (also when
                the edge slot itself is recycled), remove_edge unlinks it, so
                  neighbors(a)                     = targets of the edges from a, newest first
                  neighbors_directed(b, Incoming)  = sources of the edges into b, newest first
                  find_edge(a, b)                  = the newest edge a -> b
     sg_free  : free list of node slots (remove_node pushes, add_node pops: LIFO), used when
                `recycle` is set.  Node indices are observable through NodeIndex::new(0) (= the
                node of the first declaration, the root), the or_triangles / literals_nx /
                literal_diff tables and the visit maps of DfsPostOrder; see the note at
                load_d4_gen for what the correspondence found about recycling.
   DfsPostOrder::next is LoadC2d.dfs_loop's step: top of the stack discovered for the first time
   -> push every undiscovered neighbour (the CURRENT neighbours: the graph is mutated between
   two calls of next) and keep it; otherwise pop and emit it unless finished.  Nodes created
   while a traversal runs hang below nodes that are already discovered, so the traversal never
   reaches them.

   Parameters of the Section: `recycle` (see above) and `ord`, the iteration order of the hash
   set in balance_or_children (applied to the ascending duplicate-free list of the missing
   features).  load_d4 (repaired code: the features are sorted) and load_d4_v0 (code before
   commit "fix: attach smoothing features in ascending order") are instances. *)
From Coq Require Import List ZArith NArith String Bool Arith.
From DD Require Import Model.Circuit Model.Query Model.Lexer Model.LexerD4 Model.LoadC2d.
Import ListNotations.
Local Open Scope nat_scope.

Record sgraph := mkSG {
  sg_nodes : list (option tid);
  sg_edges : list (nat * nat);
  sg_free : list nat
}.

Definition sg_empty : sgraph := mkSG [] [] [].

Definition sg_label (g : sgraph) (x : nat) : option tid := nth x (sg_nodes g) None.
Definition sg_alive (g : sgraph) (x : nat) : bool :=
  match sg_label g x with Some _ => true | None => false end.
Definition sg_out (g : sgraph) (x : nat) : list nat :=
  map snd (filter (fun e => Nat.eqb (fst e) x) (sg_edges g)).
Definition sg_in (g : sgraph) (x : nat) : list nat :=
  map fst (filter (fun e => Nat.eqb (snd e) x) (sg_edges g)).

Fixpoint set_nth {A} (i : nat) (x : A) (l : list A) : list A :=
  match l with
  | [] => []
  | y :: r => match i with O => x :: r | S j => y :: set_nth j x r end
  end.

(* StableGraph::add_edge: panics unless both nodes exist *)
Definition add_edge (a b : nat) (g : sgraph) : option sgraph :=
  if sg_alive g a && sg_alive g b
  then Some (mkSG (sg_nodes g) ((a, b) :: sg_edges g) (sg_free g))
  else None.

(* remove_edge(find_edge(a, b)): the newest edge a -> b *)
Fixpoint remove_first (a b : nat) (es : list (nat * nat)) : list (nat * nat) :=
  match es with
  | [] => []
  | e :: r => if Nat.eqb (fst e) a && Nat.eqb (snd e) b then r else e :: remove_first a b r
  end.
Definition remove_edge (a b : nat) (g : sgraph) : sgraph :=
  mkSG (sg_nodes g) (remove_first a b (sg_edges g)) (sg_free g).

(* remove_node: unlinks every incident edge, the slot goes to the head of the free list *)
Definition remove_node (x : nat) (g : sgraph) : sgraph :=
  mkSG (set_nth x None (sg_nodes g))
       (filter (fun e => negb (Nat.eqb (fst e) x) && negb (Nat.eqb (snd e) x)) (sg_edges g))
       (x :: sg_free g).

(* `graph[x] = t` on a live node, and the removal of every outgoing edge of x (the detached
   edge walker of repair F12; the order of the removals is not observable: all of them go) *)
Definition set_label (x : nat) (t : tid) (g : sgraph) : sgraph :=
  mkSG (set_nth x (Some t) (sg_nodes g)) (sg_edges g) (sg_free g).
Definition remove_out_edges (x : nat) (g : sgraph) : sgraph :=
  mkSG (sg_nodes g) (filter (fun e => negb (Nat.eqb (fst e) x)) (sg_edges g)) (sg_free g).

Definition is_label (g : sgraph) (t : tid) (x : nat) : bool :=
  match sg_label g x, t with
  | Some GAnd, GAnd | Some GOr, GOr | Some GTrue, GTrue | Some GFalse, GFalse => true
  | _, _ => false
  end.

Fixpoint lookupZ (m : list (Z * nat)) (k : Z) : option nat :=
  match m with
  | [] => None
  | (k', v) :: r => if Z.eqb k' k then Some v else lookupZ r k
  end.

Fixpoint union_nat (a b : list nat) : list nat :=
  match a with
  | [] => b
  | x :: r => if mem x b then union_nat r b else union_nat r (x :: b)
  end.

Fixpoint dedup_sorted (l : list nat) : list nat :=
  match l with
  | x :: ((y :: _) as r) => if Nat.eqb x y then dedup_sorted r else x :: dedup_sorted r
  | _ => l
  end.
(* a set of features as its ascending duplicate-free list *)
Definition canon_set (l : list nat) : list nat := dedup_sorted (sort_nat l).

(* the generic `while let Some(nx) = dfs.next(&graph) { body }` loop over a state S that
   contains the graph: `nb s x` = neighbors(x) in the current state, `body s nx` = None for a
   panic.  One unit of fuel per iteration of the loop inside DfsPostOrder::next. *)
Section DfsFold.
Context {St : Type}.
Variable nb : St -> nat -> list nat.
Variable body : St -> nat -> option St.

Fixpoint dfs_fold (fuel : nat) (s : St) (stack disc fin : list nat) : option St :=
  match fuel with
  | O => None
  | S f =>
    match stack with
    | [] => Some s
    | nx :: rest =>
      if negb (mem nx disc) then
        let disc' := nx :: disc in
        dfs_fold f s (push_undiscovered disc' stack (nb s nx)) disc' fin
      else if mem nx fin then dfs_fold f s rest disc fin
      else
        match body s nx with
        | None => None
        | Some s' => dfs_fold f s' rest disc (nx :: fin)
        end
    end
  end.
End DfsFold.

(* iterations <= discoveries + pops + 1 <= |V| + (|E| + 1) + 1 for the graph the traversal
   starts on: a node's neighbours are pushed when it is discovered, and the bodies below change
   the outgoing edges of a node only after it was discovered (pass 2 only removes edges) *)
Definition sg_fuel (g : sgraph) : nat := length (sg_nodes g) + length (sg_edges g) + 2.

Section Loader.
Variable recycle : bool.
Variable ord : list nat -> list nat.

(* StableGraph::add_node: pops the free list, else a new slot at the end *)
Definition add_node (t : tid) (g : sgraph) : nat * sgraph :=
  match (if recycle then sg_free g else []) with
  | f :: r => (f, mkSG (set_nth f (Some t) (sg_nodes g)) (sg_edges g) r)
  | [] => (length (sg_nodes g), mkSG (sg_nodes g ++ [Some t]) (sg_edges g) (sg_free g))
  end.

(* the tables that live next to the graph: literals_nx and or_triangles *)
Record lstate := mkLS {
  ls_g : sgraph;
  ls_lits : list (Z * nat);      (* literals_nx : HashMap<i32, NodeIndex> *)
  ls_tri : list (nat * nat)      (* or_triangles[f] = Some(node) *)
}.

(* get_literal_indices for one literal *)
Definition get_lit (l : Z) (s : lstate) : nat * lstate :=
  match lookupZ (ls_lits s) l with
  | Some x => (x, s)
  | None =>
    let (x, g') := add_node (GLit l) (ls_g s) in
    (x, mkLS g' ((l, x) :: ls_lits s) (ls_tri s))
  end.

Fixpoint get_lits (ls : list Z) (s : lstate) : list nat * lstate :=
  match ls with
  | [] => ([], s)
  | l :: r =>
    let (x, s1) := get_lit l s in
    let (xs, s2) := get_lits r s1 in
    (x :: xs, s2)
  end.

Definition with_g (s : lstate) (g : sgraph) : lstate := mkLS g (ls_lits s) (ls_tri s).
Definition ls_add_edge (a b : nat) (s : lstate) : option lstate :=
  option_map (with_g s) (add_edge a b (ls_g s)).

Fixpoint add_edges_to (a : nat) (bs : list nat) (s : lstate) : option lstate :=
  match bs with
  | [] => Some s
  | b :: r => match ls_add_edge a b s with Some s' => add_edges_to a r s' | None => None end
  end.

(* resolve_weighted_edge (the plain edge from -> to was added just before) *)
Definition resolve_weighted_edge (from to : nat) (weights : list Z) (s : lstate) : option lstate :=
  let (lns, s1) := get_lits weights s in
  match lns with
  | [] => Some s1
  | _ =>
    let (an, g2) := add_node GAnd (ls_g s1) in
    let s2 := with_g s1 (remove_edge from to g2) in
    match ls_add_edge from an s2 with
    | None => None
    | Some s3 =>
      match add_edges_to an lns s3 with
      | None => None
      | Some s4 => ls_add_edge an to s4
      end
    end
  end.

(* state of the line loop *)
Record bstate := mkBS {
  bs_ls : lstate;
  bs_idx : list nat;             (* indices : Vec<NodeIndex> *)
  bs_occ : list nat;             (* literal_occurences[f] = true *)
  bs_total : nat                 (* total_features *)
}.

(* indices[i as usize - 1] for an i32 *)
Definition idx_get (idx : list nat) (i : Z) : option nat :=
  if (0 <? i)%Z then nth_error idx (Z.to_nat i - 1) else None.

Definition decl (t : tid) (b : bstate) : bstate :=
  let (x, g') := add_node t (ls_g (bs_ls b)) in
  mkBS (with_g (bs_ls b) g') (bs_idx b ++ [x]) (bs_occ b) (bs_total b).

(* literal_occurences grows on demand (repair F11): no bound on the feature ids of an edge *)
Definition d4_line (b : bstate) (t : d4token) : option bstate :=
  match t with
  | DEdge from to feats =>
    let fs := map Z.abs_nat feats in
    match idx_get (bs_idx b) from, idx_get (bs_idx b) to with
    | Some a, Some c =>
      match ls_add_edge a c (bs_ls b) with
      | None => None
      | Some s1 =>
        match resolve_weighted_edge a c feats s1 with
        | None => None
        | Some s2 =>
          Some (mkBS s2 (bs_idx b) (fs ++ bs_occ b) (fold_left Nat.max fs (bs_total b)))
        end
      end
    | _, _ => None                          (* index out of bounds / subtraction overflow *)
    end
  | DAnd => Some (decl GAnd b)
  | DOr => Some (decl GOr b)
  | DTrue => Some (decl GTrue b)
  | DFalse => Some (decl GFalse b)
  end.

Fixpoint d4_lines (b : bstate) (toks : list d4token) : option bstate :=
  match toks with
  | [] => Some b
  | t :: r => match d4_line b t with Some b' => d4_lines b' r | None => None end
  end.

Fixpoint lookup_nat (m : list (nat * nat)) (k : nat) : option nat :=
  match m with
  | [] => None
  | (k', v) :: r => if Nat.eqb k' k then Some v else lookup_nat r k
  end.

(* add_literal_node: the or-triangle of feature f below `attach` *)
Definition add_literal_node (f attach : nat) (s : lstate) : option lstate :=
  match lookup_nat (ls_tri s) f with
  | Some o => ls_add_edge attach o s
  | None =>
    let (o, g1) := add_node GOr (ls_g s) in
    let s1 := mkLS g1 (ls_lits s) ((f, o) :: ls_tri s) in
    let (pos, s2) := get_lit (Z.of_nat f) s1 in
    let (neg, s3) := get_lit (- Z.of_nat f)%Z s2 in
    match ls_add_edge attach o s3 with
    | None => None
    | Some s4 =>
      match ls_add_edge o pos s4 with
      | None => None
      | Some s5 => ls_add_edge o neg s5
      end
    end
  end.

Fixpoint add_literal_nodes (fs : list nat) (attach : nat) (s : lstate) : option lstate :=
  match fs with
  | [] => Some s
  | f :: r =>
    match add_literal_node f attach s with
    | Some s' => add_literal_nodes r attach s'
    | None => None
    end
  end.

(* `for i in 1..=total_features { if !literal_occurences[i] { .. } }`; the root is node 0 until
   the first unmentioned feature creates the new And root above it *)
Fixpoint add_free (occ : list nat) (fs : list nat) (root : nat) (s : lstate) : option (nat * lstate) :=
  match fs with
  | [] => Some (root, s)
  | i :: r =>
    if mem i occ then add_free occ r root s
    else
      let new_root :=
        if Nat.eqb root 0 then
          let (x, g1) := add_node GAnd (ls_g s) in
          option_map (fun s1 => (x, s1)) (ls_add_edge x 0 (with_g s g1))
        else Some (root, s) in
      match new_root with
      | None => None
      | Some (root', s1) =>
        match add_literal_node i root' s1 with
        | None => None
        | Some s2 => add_free occ r root' s2
        end
      end
  end.

(* ---- second traversal: true / false elimination ---- *)

(* delete_parent_and_chain: `stk` = current_vec (head = top).  ddnnf_graph[current] panics on
   a vacant slot (a node that was pushed twice and already removed). *)
Fixpoint del_chain (fuel : nat) (g : sgraph) (cur : nat) (stk : list nat) : option sgraph :=
  match fuel with
  | O => None
  | S f =>
    match sg_label g cur with
    | None => None
    | Some t =>
      let (g', stk') :=
        match t with
        | GAnd => (remove_node cur g, rev (sg_in g cur) ++ stk)
        | _ => (g, stk)
        end in
      match stk' with
      | [] => Some g'
      | h :: r => del_chain f g' h r
      end
    end
  end.

(* the detached neighbour walker of nx (label t); `cs` = the targets it has not yielded yet.
   After delete_parent_and_chain the walker only runs over freed edges (targets
   NodeIndex::end(), skipped by contains_node).
   Repair F12 (fix: d4 loader keeps a true node below an or node): an or node with a true child
   becomes a true node itself, loses all its outgoing edges, and the walk ends (`break`), so that
   its parents - visited later in the post-order - drop it like any other true child.  walk2_v0
   below is the code before that repair ("should never happen": the true child stays). *)
Fixpoint walk2 (g : sgraph) (nx : nat) (t : tid) (cs : list nat) : option sgraph :=
  match cs with
  | [] => Some g
  | c :: r =>
    match sg_label g c with
    | Some GTrue =>
      match t with
      | GAnd => walk2 (remove_edge nx c g) nx t r
      | GOr => Some (remove_out_edges nx (set_label nx GTrue g))
      | _ => None                              (* process::exit(1) *)
      end
    | Some GFalse =>
      match t with
      | GOr => walk2 (remove_edge nx c g) nx t r
      | GAnd => del_chain (sg_fuel g) g nx []
      | _ => None                              (* process::exit(1) *)
      end
    | _ => walk2 g nx t r
    end
  end.

Definition pass2_body (g : sgraph) (nx : nat) : option sgraph :=
  match sg_label g nx with
  | None => Some g                             (* removed while on the stack: no neighbours *)
  | Some t => walk2 g nx t (sg_out g nx)
  end.

Definition pass2 (g : sgraph) (root : nat) : option sgraph :=
  dfs_fold sg_out pass2_body (sg_fuel g) g [root] [] [].

(* the second traversal before repair F12 *)
Fixpoint walk2_v0 (g : sgraph) (nx : nat) (t : tid) (cs : list nat) : option sgraph :=
  match cs with
  | [] => Some g
  | c :: r =>
    match sg_label g c with
    | Some GTrue =>
      match t with
      | GAnd => walk2_v0 (remove_edge nx c g) nx t r
      | GOr => walk2_v0 g nx t r               (* should never happen *)
      | _ => None
      end
    | Some GFalse =>
      match t with
      | GOr => walk2_v0 (remove_edge nx c g) nx t r
      | GAnd => del_chain (sg_fuel g) g nx []
      | _ => None
      end
    | _ => walk2_v0 g nx t r
    end
  end.
Definition pass2_body_v0 (g : sgraph) (nx : nat) : option sgraph :=
  match sg_label g nx with
  | None => Some g
  | Some t => walk2_v0 g nx t (sg_out g nx)
  end.
Definition pass2_v0 (g : sgraph) (root : nat) : option sgraph :=
  dfs_fold sg_out pass2_body_v0 (sg_fuel g) g [root] [] [].

(* ---- get_literal_diffs: literals below every node reachable from the root ---- *)
Fixpoint lookup_set (m : list (nat * list nat)) (k : nat) : option (list nat) :=
  match m with
  | [] => None
  | (k', v) :: r => if Nat.eqb k' k then Some v else lookup_set r k
  end.

(* only |literal| is used afterwards, so the sets are kept as feature sets.  A child that is
   not in the table yet would make get_literals recurse (only on cyclic graphs, where the
   recursion does not end): None *)
Fixpoint union_children (m : list (nat * list nat)) (cs : list nat) (acc : list nat)
  : option (list nat) :=
  match cs with
  | [] => Some acc
  | c :: r =>
    match lookup_set m c with
    | None => None
    | Some v => union_children m r (union_nat v acc)
    end
  end.

Definition lit_diffs_body (g : sgraph) (m : list (nat * list nat)) (nx : nat)
  : option (list (nat * list nat)) :=
  match sg_label g nx with
  | None => None                               (* di_graph[nx] on a removed root *)
  | Some (GLit l) => Some ((nx, [Z.abs_nat l]) :: m)
  | Some GAnd | Some GOr =>
    option_map (fun v => (nx, v) :: m) (union_children m (sg_out g nx) [])
  | Some _ => Some ((nx, []) :: m)
  end.

Definition get_literal_diffs (g : sgraph) (root : nat) : option (list (nat * list nat)) :=
  dfs_fold (fun _ x => sg_out g x) (lit_diffs_body g) (sg_fuel g) [] [root] [] [].

(* ---- third traversal: smoothing ---- *)

(* diff: for every child the features of the other children (by position) that it lacks *)
Fixpoint diff_go (pre post : list (nat * list nat)) : list (nat * list nat) :=
  match post with
  | [] => []
  | (c, s) :: r =>
    let others := concat (map snd (pre ++ r)) in
    let missing := canon_set (filter (fun f => negb (mem f s)) others) in
    match missing with
    | [] => diff_go (pre ++ [(c, s)]) r
    | _ => (c, missing) :: diff_go (pre ++ [(c, s)]) r
    end
  end.

Fixpoint children_diff (m : list (nat * list nat)) (cs : list nat) : option (list (nat * list nat)) :=
  match cs with
  | [] => Some []
  | c :: r =>
    match lookup_set m c, children_diff m r with
    | Some v, Some vs => Some ((c, v) :: vs)       (* literal_diff.get(&c).unwrap() *)
    | _, _ => None
    end
  end.

Fixpoint balance_or_children (from : nat) (children : list (nat * list nat)) (s : lstate)
  : option lstate :=
  match children with
  | [] => Some s
  | (child, missing) :: r =>
    let (an, g1) := add_node GAnd (ls_g s) in
    if negb (mem child (sg_out g1 from)) then None   (* find_edge(..).unwrap() *)
    else
      let s1 := with_g s (remove_edge from child g1) in
      match ls_add_edge from an s1 with
      | None => None
      | Some s2 =>
        match ls_add_edge an child s2 with
        | None => None
        | Some s3 =>
          match add_literal_nodes (ord missing) an s3 with
          | None => None
          | Some s4 => balance_or_children from r s4
          end
        end
      end
  end.

Definition pass3_body (m : list (nat * list nat)) (s : lstate) (nx : nat) : option lstate :=
  match sg_label (ls_g s) nx with
  | None => None                               (* ddnnf_graph[nx] *)
  | Some GOr =>
    match children_diff m (sg_out (ls_g s) nx) with
    | None => None
    | Some cd => balance_or_children nx (diff_go [] cd) s
    end
  | Some _ => Some s
  end.

Definition pass3 (s : lstate) (root : nat) : option lstate :=
  match get_literal_diffs (ls_g s) root with
  | None => None
  | Some m =>
    dfs_fold (fun s x => sg_out (ls_g s) x) (pass3_body m) (sg_fuel (ls_g s)) s [root] [] []
  end.

(* ---- the graph handed to IntermediateGraph::rebuild, in LoadC2d's representation ---- *)
Definition to_graph (g : sgraph) : graph :=
  map (fun x => (match sg_label g x with Some t => t | None => GFalse end, sg_out g x))
      (seq 0 (length (sg_nodes g))).

(* `p2` = the second traversal (pass2, or pass2_v0 for the witness of finding F12) *)
Definition build_d4_graph_with (p2 : sgraph -> nat -> option sgraph)
  (toks : list d4token) (n0 : nat) : option (sgraph * nat * nat) :=
  match d4_lines (mkBS (mkLS sg_empty [] []) [] [] n0) toks with
  | None => None
  | Some b =>
    if negb (sg_alive (ls_g (bs_ls b)) 0) then None   (* no declaration at all *)
    else
      match add_free (bs_occ b) (seq 1 (bs_total b)) 0 (bs_ls b) with
      | None => None
      | Some (root, s1) =>
        match p2 (ls_g s1) root with
        | None => None
        | Some g2 =>
          match pass3 (with_g s1 g2) root with
          | None => None
          | Some s3 => Some (ls_g s3, root, bs_total b)
          end
        end
      end
  end.

Definition build_d4_graph : list d4token -> nat -> option (sgraph * nat * nat) :=
  build_d4_graph_with pass2.

(* build_d4_ddnnf + Ddnnf::new: (Ddnnf.nodes as ntype vector, number_of_variables).

   What the exact correspondence (harness kind ld4) found about node-index recycling: it happens
   (pass 3 reuses the slots of the And nodes that pass 2 removed, in about 8 % of the loads of the
   quick tier and 19 % of the thorough tier) but load_d4_gen true and load_d4_gen false never
   differed, and both equal the implementation's vector: NodeIndex::new(0) is fixed before any
   removal, literals_nx / or_triangles / literal_diff never hold a removed index, the traversals
   never reach a node created while they run, and rebuild numbers by adjacency order only.
   Proofs/LoadD4Sem.v proves the semantics theorem for both settings of the flag.

   Fuel: `None` never means "out of fuel" for the traversals: see sg_fuel; del_chain pops one
   entry per iteration and pushes one entry per edge into a node it removes, so |E| + 1 iterations
   at most; the rebuild traversal is LoadC2d.dfs_post_order (C10Total.dfs_loop_total).  Not
   modelled: debug_assert!(!is_cyclic_directed(..)) for cycles the root does not reach (a cycle
   the root reaches makes get_literals recurse for ever in the Rust and is `None` here:
   union_children), u32 wrap-around of feature numbers >= 2^32, memory exhaustion
   (since repair F11 the occurrence table and or_triangles grow with the largest feature id). *)
Definition load_d4_gen_with (p2 : sgraph -> nat -> option sgraph)
  (toks : list d4token) (n0 : nat) : option (circuit * nat) :=
  match build_d4_graph_with p2 toks n0 with
  | None => None
  | Some (g, root, total) =>
    if negb (sg_alive g root) then None          (* self.graph[nx] in rebuild *)
    else
      let fg := to_graph g in
      match dfs_post_order fg root with
      | None => None
      | Some order => option_map (fun C => (C, total)) (flatten fg order [] [])
      end
  end.

Definition load_d4_gen : list d4token -> nat -> option (circuit * nat) := load_d4_gen_with pass2.

End Loader.

(* the loader in /repo now (missing features attached in ascending order) *)
Definition load_d4 (toks : list d4token) (n : nat) : option (circuit * nat) :=
  load_d4_gen true (fun l => l) toks n.

(* the repaired loader with the iteration order of the hash set made explicit:
   `child_literals.into_iter().collect()` then `sort_unstable()` *)
Definition load_d4_h (ord : list nat -> list nat) (toks : list d4token) (n : nat)
  : option (circuit * nat) :=
  load_d4_gen true (fun l => sort_nat (ord l)) toks n.

(* the loader before the repair: features attached in the hash set's iteration order *)
Definition load_d4_v0 (ord : list nat -> list nat) (toks : list d4token) (n : nat)
  : option (circuit * nat) :=
  load_d4_gen true ord toks n.

(* the loader before repair F12 (an or node keeps its true child) *)
Definition load_d4_f12_v0 (toks : list d4token) (n : nat) : option (circuit * nat) :=
  load_d4_gen_with true (fun l => l) pass2_v0 toks n.

(* the same without index recycling (fresh slot for every add_node): used by the
   correspondence to find out whether recycling is observable in the node vector *)
Definition load_d4_norecycle (toks : list d4token) (n : nat) : option (circuit * nat) :=
  load_d4_gen false (fun l => l) toks n.

(* distribute_building on text lines with total_features = Some(n): lines[0].trim() is tried
   as a c2d header first; every line is lexed with lex_line_d4(..).unwrap() *)
Definition lex_lines_d4 (lines : list string) : option (list d4token) := map_opt lex_line_d4 lines.

Definition load_lines (lines : list string) (n : nat) : option (circuit * nat) :=
  match lines with
  | [] => None                                   (* lines[0] *)
  | h :: _ =>
    match lex_line_c2d_res (trim h) with
    | LexOk (THeader _ _ _) => load_c2d_lines lines
    | LexPanic => None
    | _ =>
      match lex_lines_d4 lines with
      | Some toks => load_d4 toks n
      | None => None
      end
    end
  end.
