(* M9 (stream part): `Ddnnf::init_stream` (ddnnife/src/ddnnf/stream.rs, lines 29-166) as a
   transition system.  Executable definitions only (no proofs).

   Threads of the real program and their atomic actions (one constructor of `step` each):
     stdin thread   spawn_stdin_channel: forwards every line of stdin to an mpsc channel, drops
                    the sender at end of input                      (EInRead, EInClose)
     worker w       loop { load stop; pull_work; handle_stream_msg + send; park }
                                                                    (EWStopSeen, EWStopNot, EWPull,
                                                                     EWPullNone, EWSend, EWWake)
     main thread    loop { print_result; results_rx.try_recv; stdin try_recv (+ push_work);
                           unpark all if remaining > 0 }
                    [repaired tree only: print_result]              (pc MFlush)
                    while remaining != 0 { recv; print_result }     (pcs DCheck, DRecv, DPrint)
                    stop.store(true); for each worker { unpark; join }
   Shared objects: stdin channel `sch` (FIFO, single sender), work queue `queue` (workctl: a
   Mutex<VecDeque>, FIFO), result channel `chan` (std mpsc: the list is the order of the sends;
   a receive may take an entry only if no earlier entry of the same sender is still in the
   list = FIFO per sender, which is all that mpsc is assumed to give), `stop` flag, the park token
   of every worker.  Everything else (heap, output_id, id, remaining_answers) is local to the
   main thread; every step is one access to a shared object together with the local
   computation that follows it.

   `answer : line -> string` is the reply of `handle_stream_msg` on a worker's private clone
   (history independence of that function for non-paging, non-editing requests is C16).
   `repaired = false` is the unchanged tree (no flush after the main loop), `repaired = true`
   is the tree with repo_patches/F3-stream-flush.patch.

   Not modelled: the OS scheduler (every interleaving of enabled steps is a run), the internals
   of mpsc / workctl / park (trusted to implement the objects above), u32 wrap-around of `id`
   after 2^32 lines, i32 wrap-around of remaining_answers, a panicking worker (the
   `Disconnected` -> exit(1) branches), invalid UTF-8 on stdin. *)
From Coq Require Import List Bool Arith ZArith String.
Import ListNotations.
Open Scope nat_scope.

Definition line := string.
Definition exit_line : line := "exit"%string.

(* the lines stream mode accepts: everything before the first line that is exactly "exit" *)
Fixpoint before_exit (l : list line) : list line :=
  match l with
  | [] => []
  | x :: r => if String.eqb x exit_line then [] else x :: before_exit r
  end.

(* ---- workers ---- *)
Inductive wpc :=
| WTop                         (* top of the loop: about to load `stop` *)
| WPull                        (* about to call pull_work *)
| WBusy (id : nat) (l : line)  (* owns request (id, l): handle_stream_msg, then send *)
| WParked                      (* pull_work returned None: in / about to enter thread::park *)
| WStopped.                    (* left the loop *)

Record worker := mkw { w_pc : wpc; w_tok : bool (* park token *) }.

(* ---- main thread program counter ---- *)
Inductive mpc :=
| MPrint            (* main loop: inside print_result *)
| MRecv             (* main loop: results_rx.try_recv() *)
| MStdin            (* main loop: stdin_channel.try_recv() *)
| MPush (l : line)  (* main loop: got line l (not "exit"): queue.push_work((id, l)) *)
| MUnpark (k : nat) (* main loop: `if remaining > 0 { unpark all }`, next worker to unpark = k *)
| MFlush            (* repaired tree only: print_result after the main loop *)
| DCheck            (* drain loop condition `remaining_answers != 0` *)
| DRecv             (* drain loop: results_rx.recv() (blocking) *)
| DPrint            (* drain loop: inside print_result *)
| MStop             (* stop.store(true) *)
| MJoinU (k : nat)  (* join loop: unpark worker k *)
| MJoinW (k : nat)  (* join loop: join worker k *)
| MDone.            (* init_stream returned *)

Record state := mk {
  inp : list line;                    (* lines the stdin thread has not read yet *)
  sch : list line;                    (* stdin channel *)
  sclosed : bool;                     (* stdin thread finished (sender dropped) *)
  acc : list line;                    (* ghost: accepted lines = lines given to push_work, in order *)
  queue : list (nat * line);          (* work queue *)
  ws : list worker;
  chan : list (nat * (nat * string)); (* result channel: (sender, (id, answer)) in send order *)
  heap : list (nat * string);         (* BinaryHeap<Reverse<(id, answer)>>: kept sorted by id, peek = head *)
  output_id : nat;
  next_id : nat;                      (* `id` *)
  remaining : Z;                      (* `remaining_answers` *)
  printed : list string;              (* stdout, one entry per println *)
  pc : mpc;
  stop : bool
}.

Definition set_inp x s := mk x (sch s) (sclosed s) (acc s) (queue s) (ws s) (chan s) (heap s) (output_id s) (next_id s) (remaining s) (printed s) (pc s) (stop s).
Definition set_sch x s := mk (inp s) x (sclosed s) (acc s) (queue s) (ws s) (chan s) (heap s) (output_id s) (next_id s) (remaining s) (printed s) (pc s) (stop s).
Definition set_sclosed x s := mk (inp s) (sch s) x (acc s) (queue s) (ws s) (chan s) (heap s) (output_id s) (next_id s) (remaining s) (printed s) (pc s) (stop s).
Definition set_acc x s := mk (inp s) (sch s) (sclosed s) x (queue s) (ws s) (chan s) (heap s) (output_id s) (next_id s) (remaining s) (printed s) (pc s) (stop s).
Definition set_queue x s := mk (inp s) (sch s) (sclosed s) (acc s) x (ws s) (chan s) (heap s) (output_id s) (next_id s) (remaining s) (printed s) (pc s) (stop s).
Definition set_ws x s := mk (inp s) (sch s) (sclosed s) (acc s) (queue s) x (chan s) (heap s) (output_id s) (next_id s) (remaining s) (printed s) (pc s) (stop s).
Definition set_chan x s := mk (inp s) (sch s) (sclosed s) (acc s) (queue s) (ws s) x (heap s) (output_id s) (next_id s) (remaining s) (printed s) (pc s) (stop s).
Definition set_heap x s := mk (inp s) (sch s) (sclosed s) (acc s) (queue s) (ws s) (chan s) x (output_id s) (next_id s) (remaining s) (printed s) (pc s) (stop s).
Definition set_output_id x s := mk (inp s) (sch s) (sclosed s) (acc s) (queue s) (ws s) (chan s) (heap s) x (next_id s) (remaining s) (printed s) (pc s) (stop s).
Definition set_next_id x s := mk (inp s) (sch s) (sclosed s) (acc s) (queue s) (ws s) (chan s) (heap s) (output_id s) x (remaining s) (printed s) (pc s) (stop s).
Definition set_remaining x s := mk (inp s) (sch s) (sclosed s) (acc s) (queue s) (ws s) (chan s) (heap s) (output_id s) (next_id s) x (printed s) (pc s) (stop s).
Definition set_printed x s := mk (inp s) (sch s) (sclosed s) (acc s) (queue s) (ws s) (chan s) (heap s) (output_id s) (next_id s) (remaining s) x (pc s) (stop s).
Definition set_pc x s := mk (inp s) (sch s) (sclosed s) (acc s) (queue s) (ws s) (chan s) (heap s) (output_id s) (next_id s) (remaining s) (printed s) x (stop s).
Definition set_stop x s := mk (inp s) (sch s) (sclosed s) (acc s) (queue s) (ws s) (chan s) (heap s) (output_id s) (next_id s) (remaining s) (printed s) (pc s) x.

(* ---- events = labels of the atomic actions ---- *)
Inductive event :=
| EInRead                      (* stdin thread: tx.send(line) *)
| EInClose                     (* stdin thread: end of input, sender dropped *)
| EWStopSeen (w : nat)         (* worker: stop.load() = true, break *)
| EWStopNot (w : nat)          (* worker: stop.load() = false *)
| EWPull (w id : nat)          (* worker: pull_work() = Some((id, _)) *)
| EWPullNone (w : nat)         (* worker: pull_work() = None *)
| EWSend (w id : nat)          (* worker: results_tx.send((id, handle_stream_msg(line))) *)
| EWWake (w : nat)             (* worker: thread::park() returns (token or spurious) *)
| EMPrint (id : nat)           (* print_result: peek has id = output_id: println, pop, output_id += 1 *)
| EMPrintDone                  (* print_result: heap empty or peek id <> output_id: return *)
| EMRecv (id : nat)            (* main loop try_recv() = Ok((id, _)): push on the heap, remaining -= 1 *)
| EMRecvNone                   (* main loop try_recv() = Err(Empty) *)
| EMStdin (l : line)           (* stdin try_recv() = Ok(l), l <> "exit" *)
| EMExit                       (* stdin try_recv() = Ok("exit"): break *)
| EMEof                        (* stdin try_recv() = Err(Disconnected): break *)
| EMStdinNone                  (* stdin try_recv() = Err(Empty) *)
| EMPush (id : nat)            (* push_work((id, l)); id += 1; remaining += 1 *)
| EMUnpark (k : nat)           (* remaining > 0: worker k .unpark() *)
| EMUnparkDone                 (* remaining <= 0 or all workers unparked: next iteration *)
| EMDrainMore                  (* drain loop: remaining != 0 *)
| EMDrainDone                  (* drain loop: remaining == 0 *)
| EMDrainRecv (id : nat)       (* drain loop: recv() = Ok((id, _)) *)
| EMStop                       (* stop.store(true) *)
| EMJoinUnpark (k : nat)       (* join loop: worker k .unpark() *)
| EMJoin (k : nat)             (* join loop: worker k has terminated, join returns *)
| EMFinish.                    (* join loop over: init_stream returns *)

(* ---- helpers ---- *)
Fixpoint upd {A} (l : list A) (n : nat) (x : A) : list A :=
  match l, n with
  | [], _ => []
  | _ :: t, O => x :: t
  | h :: t, S k => h :: upd t k x
  end.

(* the heap, observably: push keeps the list sorted by id, peek/pop work on the head *)
Fixpoint hinsert (x : nat * string) (h : list (nat * string)) : list (nat * string) :=
  match h with
  | [] => [x]
  | y :: t => if fst x <=? fst y then x :: h else y :: hinsert x t
  end.

(* print_result's loop exit test *)
Definition flushed (h : list (nat * string)) (o : nat) : bool :=
  match h with
  | [] => true
  | (i, _) :: _ => negb (i =? o)
  end.

(* receive the message with id i: it is taken out of the channel provided no earlier message of
   the same sender is still in the channel (`seen` = senders of the messages passed over) *)
Fixpoint chan_take (i : nat) (seen : list nat) (c : list (nat * (nat * string)))
  : option (string * list (nat * (nat * string))) :=
  match c with
  | [] => None
  | (w, (j, a)) :: t =>
    if j =? i then (if existsb (Nat.eqb w) seen then None else Some (a, t))
    else match chan_take i (w :: seen) t with
         | Some (a', t') => Some (a', (w, (j, a)) :: t')
         | None => None
         end
  end.

Definition print_pc (p : mpc) : bool :=
  match p with MPrint | MFlush | DPrint => true | _ => false end.
Definition after_print (p : mpc) : mpc :=
  match p with MPrint => MRecv | _ => DCheck end.

Definition set_worker (w : nat) (k : worker) (s : state) : state := set_ws (upd (ws s) w k) s.

Section TS.
Variable answer : line -> string.
Variable repaired : bool.

Definition after_loop : mpc := if repaired then MFlush else DCheck.

Definition init (input : list line) (nworkers : nat) : state :=
  mk input [] false [] [] (repeat (mkw WTop false) nworkers) [] [] 0 0 0%Z [] MPrint false.

Definition terminated (s : state) : Prop := pc s = MDone.

(* ---- the transition relation: one constructor per atomic action ---- *)
Inductive step : state -> event -> state -> Prop :=
| S_in_read : forall s l r,
    inp s = l :: r -> sclosed s = false ->
    step s EInRead (set_sch (sch s ++ [l]) (set_inp r s))
| S_in_close : forall s,
    inp s = [] -> sclosed s = false ->
    step s EInClose (set_sclosed true s)
| S_w_stop_seen : forall s w k,
    nth_error (ws s) w = Some k -> w_pc k = WTop -> stop s = true ->
    step s (EWStopSeen w) (set_worker w (mkw WStopped (w_tok k)) s)
| S_w_stop_not : forall s w k,
    nth_error (ws s) w = Some k -> w_pc k = WTop -> stop s = false ->
    step s (EWStopNot w) (set_worker w (mkw WPull (w_tok k)) s)
| S_w_pull : forall s w k i l q,
    nth_error (ws s) w = Some k -> w_pc k = WPull -> queue s = (i, l) :: q ->
    step s (EWPull w i) (set_worker w (mkw (WBusy i l) (w_tok k)) (set_queue q s))
| S_w_pull_none : forall s w k,
    nth_error (ws s) w = Some k -> w_pc k = WPull -> queue s = [] ->
    step s (EWPullNone w) (set_worker w (mkw WParked (w_tok k)) s)
| S_w_send : forall s w k i l,
    nth_error (ws s) w = Some k -> w_pc k = WBusy i l ->
    step s (EWSend w i) (set_worker w (mkw WTop (w_tok k)) (set_chan (chan s ++ [(w, (i, answer l))]) s))
| S_w_wake : forall s w k,
    nth_error (ws s) w = Some k -> w_pc k = WParked ->
    step s (EWWake w) (set_worker w (mkw WTop false) s)
| S_m_print : forall s i a h,
    print_pc (pc s) = true -> heap s = (i, a) :: h -> i = output_id s ->
    step s (EMPrint i)
         (set_output_id (S (output_id s)) (set_heap h (set_printed (printed s ++ [a]) s)))
| S_m_print_done : forall s,
    print_pc (pc s) = true -> flushed (heap s) (output_id s) = true ->
    step s EMPrintDone (set_pc (after_print (pc s)) s)
| S_m_recv : forall s i a c,
    pc s = MRecv -> chan_take i [] (chan s) = Some (a, c) ->
    step s (EMRecv i)
         (set_pc MStdin (set_remaining (remaining s - 1)%Z (set_heap (hinsert (i, a) (heap s)) (set_chan c s))))
| S_m_recv_none : forall s,
    pc s = MRecv ->
    step s EMRecvNone (set_pc MStdin s)
| S_m_stdin : forall s l r,
    pc s = MStdin -> sch s = l :: r -> String.eqb l exit_line = false ->
    step s (EMStdin l) (set_pc (MPush l) (set_sch r s))
| S_m_exit : forall s l r,
    pc s = MStdin -> sch s = l :: r -> String.eqb l exit_line = true ->
    step s EMExit (set_pc after_loop (set_sch r s))
| S_m_eof : forall s,
    pc s = MStdin -> sch s = [] -> sclosed s = true ->
    step s EMEof (set_pc after_loop s)
| S_m_stdin_none : forall s,
    pc s = MStdin -> sch s = [] -> sclosed s = false ->
    step s EMStdinNone (set_pc (MUnpark 0) s)
| S_m_push : forall s l i,
    pc s = MPush l -> i = next_id s ->
    step s (EMPush i)
         (set_pc (MUnpark 0) (set_remaining (remaining s + 1)%Z (set_next_id (S (next_id s))
            (set_acc (acc s ++ [l]) (set_queue (queue s ++ [(next_id s, l)]) s)))))
| S_m_unpark : forall s k wk,
    pc s = MUnpark k -> (0 < remaining s)%Z -> nth_error (ws s) k = Some wk ->
    step s (EMUnpark k) (set_pc (MUnpark (S k)) (set_worker k (mkw (w_pc wk) true) s))
| S_m_unpark_done : forall s k,
    pc s = MUnpark k -> ((remaining s <= 0)%Z \/ List.length (ws s) <= k) ->
    step s EMUnparkDone (set_pc MPrint s)
| S_m_drain_more : forall s,
    pc s = DCheck -> remaining s <> 0%Z ->
    step s EMDrainMore (set_pc DRecv s)
| S_m_drain_done : forall s,
    pc s = DCheck -> remaining s = 0%Z ->
    step s EMDrainDone (set_pc MStop s)
| S_m_drain_recv : forall s i a c,
    pc s = DRecv -> chan_take i [] (chan s) = Some (a, c) ->
    step s (EMDrainRecv i)
         (set_pc DPrint (set_remaining (remaining s - 1)%Z (set_heap (hinsert (i, a) (heap s)) (set_chan c s))))
| S_m_stop : forall s,
    pc s = MStop ->
    step s EMStop (set_pc (MJoinU 0) (set_stop true s))
| S_m_join_unpark : forall s k wk,
    pc s = MJoinU k -> nth_error (ws s) k = Some wk ->
    step s (EMJoinUnpark k) (set_pc (MJoinW k) (set_worker k (mkw (w_pc wk) true) s))
| S_m_join : forall s k wk,
    pc s = MJoinW k -> nth_error (ws s) k = Some wk -> w_pc wk = WStopped ->
    step s (EMJoin k) (set_pc (MJoinU (S k)) s)
| S_m_finish : forall s k,
    pc s = MJoinU k -> List.length (ws s) <= k ->
    step s EMFinish (set_pc MDone s).

Inductive reachable (s0 : state) : state -> Prop :=
| R_init : reachable s0 s0
| R_step : forall s e s', reachable s0 s -> step s e s' -> reachable s0 s'.

(* ---- the same transitions as a function (used to validate recorded traces) ---- *)
Definition is_wtop (p : wpc) := match p with WTop => true | _ => false end.
Definition is_wpull (p : wpc) := match p with WPull => true | _ => false end.
Definition is_wparked (p : wpc) := match p with WParked => true | _ => false end.
Definition is_wstopped (p : wpc) := match p with WStopped => true | _ => false end.

Definition recv_to (p : mpc) (i : nat) (s : state) : option state :=
  match chan_take i [] (chan s) with
  | Some (a, c) =>
    Some (set_pc p (set_remaining (remaining s - 1)%Z (set_heap (hinsert (i, a) (heap s)) (set_chan c s))))
  | None => None
  end.

Definition stepf (s : state) (e : event) : option state :=
  match e with
  | EInRead =>
    match inp s, sclosed s with
    | l :: r, false => Some (set_sch (sch s ++ [l]) (set_inp r s))
    | _, _ => None
    end
  | EInClose =>
    match inp s, sclosed s with
    | [], false => Some (set_sclosed true s)
    | _, _ => None
    end
  | EWStopSeen w =>
    match nth_error (ws s) w with
    | Some k => if is_wtop (w_pc k) && stop s then Some (set_worker w (mkw WStopped (w_tok k)) s) else None
    | None => None
    end
  | EWStopNot w =>
    match nth_error (ws s) w with
    | Some k => if is_wtop (w_pc k) && negb (stop s) then Some (set_worker w (mkw WPull (w_tok k)) s) else None
    | None => None
    end
  | EWPull w i =>
    match nth_error (ws s) w, queue s with
    | Some k, (j, l) :: q =>
      if is_wpull (w_pc k) && (j =? i) then Some (set_worker w (mkw (WBusy j l) (w_tok k)) (set_queue q s)) else None
    | _, _ => None
    end
  | EWPullNone w =>
    match nth_error (ws s) w, queue s with
    | Some k, [] => if is_wpull (w_pc k) then Some (set_worker w (mkw WParked (w_tok k)) s) else None
    | _, _ => None
    end
  | EWSend w i =>
    match nth_error (ws s) w with
    | Some k =>
      match w_pc k with
      | WBusy j l =>
        if j =? i then Some (set_worker w (mkw WTop (w_tok k)) (set_chan (chan s ++ [(w, (j, answer l))]) s)) else None
      | _ => None
      end
    | None => None
    end
  | EWWake w =>
    match nth_error (ws s) w with
    | Some k => if is_wparked (w_pc k) then Some (set_worker w (mkw WTop false) s) else None
    | None => None
    end
  | EMPrint i =>
    match heap s with
    | (j, a) :: h =>
      if print_pc (pc s) && (j =? output_id s) && (j =? i)
      then Some (set_output_id (S (output_id s)) (set_heap h (set_printed (printed s ++ [a]) s)))
      else None
    | [] => None
    end
  | EMPrintDone =>
    if print_pc (pc s) && flushed (heap s) (output_id s) then Some (set_pc (after_print (pc s)) s) else None
  | EMRecv i => match pc s with MRecv => recv_to MStdin i s | _ => None end
  | EMRecvNone => match pc s with MRecv => Some (set_pc MStdin s) | _ => None end
  | EMStdin l =>
    match pc s, sch s with
    | MStdin, l' :: r =>
      if String.eqb l' l && negb (String.eqb l' exit_line) then Some (set_pc (MPush l') (set_sch r s)) else None
    | _, _ => None
    end
  | EMExit =>
    match pc s, sch s with
    | MStdin, l' :: r => if String.eqb l' exit_line then Some (set_pc after_loop (set_sch r s)) else None
    | _, _ => None
    end
  | EMEof =>
    match pc s, sch s with
    | MStdin, [] => if sclosed s then Some (set_pc after_loop s) else None
    | _, _ => None
    end
  | EMStdinNone =>
    match pc s, sch s with
    | MStdin, [] => if sclosed s then None else Some (set_pc (MUnpark 0) s)
    | _, _ => None
    end
  | EMPush i =>
    match pc s with
    | MPush l =>
      if i =? next_id s
      then Some (set_pc (MUnpark 0) (set_remaining (remaining s + 1)%Z (set_next_id (S (next_id s))
                  (set_acc (acc s ++ [l]) (set_queue (queue s ++ [(next_id s, l)]) s)))))
      else None
    | _ => None
    end
  | EMUnpark k =>
    match pc s, nth_error (ws s) k with
    | MUnpark k', Some wk =>
      if (k' =? k) && (0 <? remaining s)%Z
      then Some (set_pc (MUnpark (S k)) (set_worker k (mkw (w_pc wk) true) s)) else None
    | _, _ => None
    end
  | EMUnparkDone =>
    match pc s with
    | MUnpark k => if (remaining s <=? 0)%Z || (List.length (ws s) <=? k) then Some (set_pc MPrint s) else None
    | _ => None
    end
  | EMDrainMore =>
    match pc s with DCheck => if (remaining s =? 0)%Z then None else Some (set_pc DRecv s) | _ => None end
  | EMDrainDone =>
    match pc s with DCheck => if (remaining s =? 0)%Z then Some (set_pc MStop s) else None | _ => None end
  | EMDrainRecv i => match pc s with DRecv => recv_to DPrint i s | _ => None end
  | EMStop => match pc s with MStop => Some (set_pc (MJoinU 0) (set_stop true s)) | _ => None end
  | EMJoinUnpark k =>
    match pc s, nth_error (ws s) k with
    | MJoinU k', Some wk =>
      if k' =? k then Some (set_pc (MJoinW k) (set_worker k (mkw (w_pc wk) true) s)) else None
    | _, _ => None
    end
  | EMJoin k =>
    match pc s, nth_error (ws s) k with
    | MJoinW k', Some wk =>
      if (k' =? k) && is_wstopped (w_pc wk) then Some (set_pc (MJoinU (S k)) s) else None
    | _, _ => None
    end
  | EMFinish =>
    match pc s with
    | MJoinU k => if List.length (ws s) <=? k then Some (set_pc MDone s) else None
    | _ => None
    end
  end.

Fixpoint run (s : state) (es : list event) : option state :=
  match es with
  | [] => Some s
  | e :: r => match stepf s e with Some s' => run s' r | None => None end
  end.

(* ---- validation of a recorded event log ----
   The hook H4 records the events that have an effect (see `visible`); the remaining ones
   (a fruitless try_recv, the print_result exit test, unpark, park/wake, the stdin thread ...)
   happen millions of times in the busy-waiting loops and are not recorded.  `plan s e` proposes
   the unrecorded steps that must have happened before the recorded event e; `valid_event`
   executes proposal + e with `stepf`, so whatever `plan` proposes, an accepted log is a run of
   `step` (Proofs/StreamStepf.v: valid_trace_reachable). *)
Definition silent_main (s : state) : option event :=
  match pc s with
  | MPrint | MFlush | DPrint => Some EMPrintDone
  | MRecv => Some EMRecvNone
  | MStdin => Some EMStdinNone
  | MUnpark k => if (k <? List.length (ws s)) && (0 <? remaining s)%Z then Some (EMUnpark k) else Some EMUnparkDone
  | DCheck => if (remaining s =? 0)%Z then Some EMDrainDone else Some EMDrainMore
  | MJoinU k => if k <? List.length (ws s) then Some (EMJoinUnpark k) else None
  | MJoinW k => Some (EMJoin k)
  | _ => None
  end.

(* is pc p a place where the main-thread event e can fire? *)
Definition at_pc (e : event) (p : mpc) : bool :=
  match e, p with
  | EMPrint _, (MPrint | MFlush | DPrint) => true
  | EMRecv _, MRecv => true
  | (EMStdin _ | EMExit | EMEof), MStdin => true
  | EMPush _, MPush _ => true
  | EMDrainRecv _, DRecv => true
  | EMStop, MStop => true
  | EMFinish, MJoinU _ => true
  | _, _ => false
  end.

Fixpoint plan_main (fuel : nat) (s : state) (e : event) : list event :=
  match fuel with
  | O => []
  | S f =>
    if at_pc e (pc s) && (match e, pc s with
                          | EMFinish, MJoinU k => List.length (ws s) <=? k
                          | EMPrint _, _ => negb (flushed (heap s) (output_id s))
                          | _, _ => true end)
    then []
    else match silent_main s with
         | Some e' => match stepf s e' with
                      | Some s' => e' :: plan_main f s' e
                      | None => []
                      end
         | None => []
         end
  end.

Definition plan_stdin (s : state) (e : event) : list event :=
  match e with
  | EMStdin _ | EMExit => match sch s with [] => [EInRead] | _ => [] end
  | EMEof => match sch s, inp s with [], [] => if sclosed s then [] else [EInClose] | _, _ => [] end
  | _ => []
  end.

Definition silent_worker (s : state) (w : nat) : option event :=
  match nth_error (ws s) w with
  | Some k => match w_pc k with
              | WParked => Some (EWWake w)
              | WTop => Some (EWStopNot w)
              | WPull => Some (EWPullNone w)
              | _ => None
              end
  | None => None
  end.

Fixpoint plan_worker (fuel : nat) (s : state) (w : nat) (e : event) : list event :=
  match fuel with
  | O => []
  | S f =>
    match stepf s e with
    | Some _ => []
    | None => match silent_worker s w with
              | Some e' => match stepf s e' with
                           | Some s' => e' :: plan_worker f s' w e
                           | None => []
                           end
              | None => []
              end
    end
  end.

Definition plan (s : state) (e : event) : list event :=
  match e with
  | EWPull w _ | EWSend w _ | EWStopSeen w | EWPullNone w => plan_worker 4 s w e
  | EMPrint _ | EMRecv _ | EMStdin _ | EMExit | EMEof | EMPush _ | EMDrainRecv _ | EMStop | EMFinish =>
    let p := plan_main (2 * List.length (ws s) + 12) s e in
    match run s p with
    | Some s' => p ++ plan_stdin s' e
    | None => p
    end
  | _ => []
  end.

Definition valid_event (s : state) (e : event) : option state := run s (plan s e ++ [e]).

(* folds valid_event over a log; on rejection returns the index of the offending event *)
Fixpoint valid_trace (s : state) (tr : list event) (k : nat) : state + nat :=
  match tr with
  | [] => inl s
  | e :: r => match valid_event s e with Some s' => valid_trace s' r (S k) | None => inr k end
  end.

End TS.
