(* C09 pipeline, part 1: Config, Sample, the SatWrapper calls and the covering strategies, written as
   the Rust is written (anomalies/t_wise_sampling/{config,sample,sat_wrapper,covering_strategies}.rs).
   Executable definitions only; proofs in Proofs/Twise*.v.

   Config { literals: Vec<i32> (one slot per feature, 0 = undecided), sat_state: Option<Vec<bool>>,
            sat_state_complete: bool, n_decided_literals: usize }
     The pair (sat_state, sat_state_complete) is modelled by ONE field  c_st : option (marks * flag):
     the flag is set to true only by set_sat_state, which stores Some(_), and every other writer
     sets it to false, so (None, true) is not a reachable value of the Rust pair; all `expect`s on
     the state after update_sat_state are therefore total here.
     Slot accesses literals[|l| - 1] are Vec index operations in the Rust (out of range = panic);
     here nth/upd with default 0 / no-op.  The pipeline invariant (Proofs/TwiseInv.v, CfgOK) keeps
     every literal of every configuration inside 1..n, so the defaults are never taken.
     debug_assert!s (dev profile) are not modelled; each of them is implied by that invariant.
   Sample { complete_configs, partial_configs: Vec<Config>, vars: HashSet<u32>, literals: Vec<i32> }
     vars is only ever united, tested for emptiness and measured (len): modelled by a duplicate-free
     list.  literals is a sorted duplicate-free Vec.
   SatWrapper: new_state = all false; is_sat_in_subgraph_cached = Ddnnf::sat_propagate (Model/Query.v)
     with root_index = Some(root) on the caller's mark vector.
   TInteractionIter::new(lits, t) for t <= len(lits) is `tints lits t`: Proofs/TIterProof.v
     tinter_correct (C09_tinter) / titer_t0 show the iterator model of Model/TIter.v yields exactly
     this list (Proofs/TwiseBase.v tints_is_iterator). *)
From Coq Require Import List ZArith Bool Arith.
From DD Require Import Model.Circuit Model.Query Model.TIter.
Import ListNotations.
Open Scope Z_scope.

Definition tints (lits : list Z) (t : nat) : list cfg :=
  map (map (fun i => nth i lits 0)) (dec_tuples (length lits) t 0).

Definition cfg_dec : forall a b : cfg, {a = b} + {a <> b} := list_eq_dec Z.eq_dec.

(* ---------------- Config ---------------- *)
Record config := mkCfg {
  c_lits : list Z;
  c_st : option (list bool * bool);
  c_ndec : nat;
}.

Definition lidx (l : Z) : nat := (Z.to_nat (Z.abs l) - 1)%nat.

Definition st_incomplete (s : option (list bool * bool)) : option (list bool * bool) :=
  match s with Some (m, _) => Some (m, false) | None => None end.

Definition c_contains (c : config) (l : Z) : bool := nth (lidx l) (c_lits c) 0 =? l.

(* Config::add *)
Definition c_add (c : config) (l : Z) : config :=
  if l =? 0 then c
  else mkCfg (upd (lidx l) l (c_lits c)) (st_incomplete (c_st c))
             (if nth (lidx l) (c_lits c) 0 =? 0 then S (c_ndec c) else c_ndec c).

(* impl Extend<i32> for Config *)
Definition c_extend (c : config) (ls : list Z) : config :=
  fold_left c_add ls (mkCfg (c_lits c) (st_incomplete (c_st c)) (c_ndec c)).

(* get_decided_literals: slot order *)
Definition c_decided (c : config) : list Z := filter (fun l => negb (l =? 0)) (c_lits c).

Definition c_empty (n : nat) (st : option (list bool * bool)) : config := mkCfg (repeat 0 n) st 0%nat.

(* Config::from *)
Definition c_from (n : nat) (ls : list Z) : config := c_extend (c_empty n None) ls.

(* Config::from_disjoint: the state of the larger side (left on ties), never complete *)
Definition c_from_disjoint (n : nat) (l r : config) : config :=
  let st := match c_st l, c_st r with
            | Some (sl, _), Some (sr, _) => if (c_ndec r <=? c_ndec l)%nat then Some (sl, false) else Some (sr, false)
            | Some (s, _), None | None, Some (s, _) => Some (s, false)
            | None, None => None
            end in
  c_extend (c_extend (c_empty n st) (c_decided l)) (c_decided r).

(* set_sat_state *)
Definition c_set_state (c : config) (m : list bool) : config := mkCfg (c_lits c) (Some (m, true)) (c_ndec c).

Definition c_conflicts (c : config) (I : cfg) : bool :=
  existsb (fun l => negb (l =? 0) && c_contains c (- l)) I.
Definition c_covers (c : config) (I : cfg) : bool :=
  forallb (fun l => (l =? 0) || c_contains c l) I.

(* ---------------- SatWrapper ---------------- *)
Definition new_state (d : ddnnf) : list bool := map (fun _ => false) (circ d).

(* Config::update_sat_state.  With an existing, incomplete state the literals are propagated on it
   and the flag STAYS false (set_sat_state is only called when there was no state). *)
Definition c_update (d : ddnnf) (r : nat) (c : config) : config :=
  match c_st c with
  | Some (_, true) => c
  | Some (m, false) =>
    mkCfg (c_lits c) (Some (fst (sat_propagate d (c_decided c) m (Some r)), false)) (c_ndec c)
  | None =>
    mkCfg (c_lits c) (Some (fst (sat_propagate d (c_decided c) (new_state d) (Some r)), true)) (c_ndec c)
  end.

(* get_sat_state().cloned().expect(..) after update_sat_state *)
Definition c_state_of (d : ddnnf) (c : config) : list bool :=
  match c_st c with Some (m, _) => m | None => new_state d end.

(* ---------------- Sample ---------------- *)
Record sample := mkS {
  s_comp : list config;
  s_part : list config;
  s_vars : list Z;
  s_lits : list Z;
}.

Definition s_default : sample := mkS [] [] [] [].
Definition s_iter (S : sample) : list config := s_comp S ++ s_part S.
Definition s_len (S : sample) : nat := (length (s_comp S) + length (s_part S))%nat.
Definition s_is_empty (S : sample) : bool :=
  match s_comp S, s_part S with [], [] => true | _, _ => false end.
Definition s_is_complete (S : sample) (c : config) : bool := (c_ndec c =? length (s_vars S))%nat.
Definition s_add_complete (S : sample) (c : config) : sample :=
  mkS (s_comp S ++ [c]) (s_part S) (s_vars S) (s_lits S).
Definition s_add_partial (S : sample) (c : config) : sample :=
  mkS (s_comp S) (s_part S ++ [c]) (s_vars S) (s_lits S).
Definition s_add (S : sample) (c : config) : sample :=
  if s_is_complete S c then s_add_complete S c else s_add_partial S c.
Definition s_covers (S : sample) (I : cfg) : bool := existsb (fun c => c_covers c I) (s_iter S).

(* set union of duplicate-free lists *)
Definition zunion (a b : list Z) : list Z := a ++ filter (fun x => negb (memZ x a)) b.

Fixpoint insert_Z (x : Z) (l : list Z) : list Z :=
  match l with
  | [] => [x]
  | y :: l' => if x <=? y then x :: l else y :: insert_Z x l'
  end.
Definition sort_Z (l : list Z) : list Z := fold_right insert_Z [] l.

(* Sample::new_from_samples: no configurations yet *)
Definition s_new_from (Ss : list sample) : sample :=
  mkS [] [] (fold_left (fun acc S => zunion acc (s_vars S)) Ss [])
      (sort_Z (nodup Z.eq_dec (flat_map s_lits Ss))).

(* Sample::from_literal *)
Definition s_from_literal (n : nat) (l : Z) : sample :=
  mkS [c_from n [l]] [] [Z.abs l] [l].

(* ---------------- covering strategies ---------------- *)
(* Vec::swap_remove *)
Definition swap_remove {A} (i : nat) (l : list A) : list A :=
  match rev l with
  | [] => l
  | x :: _ => let l' := removelast l in if (i =? length l')%nat then l' else upd i x l'
  end.

Section Cover.
  Variable d : ddnnf.
  Variable r : nat.      (* node_id *)
  Variable n : nat.      (* number_of_variables *)

  (* cover(): the first partial configuration without an obvious conflict whose cached state,
     brought up to date, still admits the interaction.  Visited configurations keep their updated
     state.  k = index of the head of P in partial_configs. *)
  Fixpoint cover (P : list config) (I : cfg) (k : nat) : list config * option nat :=
    match P with
    | [] => ([], None)
    | c :: P' =>
      if c_conflicts c I then
        let (P'', res) := cover P' I (S k) in (c :: P'', res)
      else
        let c1 := c_update d r c in
        let (m', b) := sat_propagate d I (c_state_of d c1) (Some r) in
        if b then (c_set_state (c_extend c1 I) m' :: P', Some k)
        else let (P'', res) := cover P' I (S k) in (c1 :: P'', res)
    end.

  (* after cover() returned Some(index): move the configuration to complete_configs if complete *)
  Definition after_cover (S : sample) (P' : list config) (idx : nat) : sample :=
    match nth_error P' idx with
    | Some c =>
      if s_is_complete S c
      then mkS (s_comp S ++ [c]) (swap_remove idx P') (s_vars S) (s_lits S)
      else mkS (s_comp S) P' (s_vars S) (s_lits S)
    | None => mkS (s_comp S) P' (s_vars S) (s_lits S)   (* cover returns an index into P' *)
    end.

  (* cover_with_caching_twise (and-merge): no satisfiability test of the bare interaction *)
  Definition cover_twise (S : sample) (I : cfg) : sample :=
    if s_covers S I then S
    else
      let (P', res) := cover (s_part S) I 0%nat in
      match res with
      | Some idx => after_cover S P' idx
      | None =>
        let m := fst (sat_propagate d I (new_state d) (Some r)) in
        s_add (mkS (s_comp S) P' (s_vars S) (s_lits S)) (c_set_state (c_from n I) m)
      end.

  (* cover_with_caching (trim_and_resample) *)
  Definition cover_caching (S : sample) (I : cfg) : sample :=
    if s_covers S I then S
    else
      let (m, b) := sat_propagate d I (new_state d) (Some r) in
      if negb b then S
      else
        let (P', res) := cover (s_part S) I 0%nat in
        match res with
        | Some idx => after_cover S P' idx
        | None => s_add (mkS (s_comp S) P' (s_vars S) (s_lits S)) (c_set_state (c_from n I) m)
        end.
End Cover.
