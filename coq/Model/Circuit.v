(* M0/M1: the flattened d-DNNF node vector (ddnnf/node.rs, Ddnnf.nodes) and the
   bottom-up passes that the Rust computes while flattening
   (intermediate_representation.rs rebuild; parser.rs calc_and_count / calc_or_count).
   Executable definitions only; proofs live in Proofs/. *)
From Coq Require Export List ZArith Bool.
Export ListNotations.
Open Scope Z_scope.

Inductive ntype :=
| Lit (l : Z)
| And (cs : list nat)
| Or (cs : list nat)
| TrueN
| FalseN.

Notation circuit := (list ntype).
Notation cfg := (list Z).

(* Generic bottom-up pass: value of node i is computed from the values of the
   earlier nodes (children always have smaller indices in the post-order vector). *)
Definition pass {A : Type} (f : list A -> ntype -> A) (C : circuit) : list A :=
  fold_left (fun acc nd => acc ++ [f acc nd]) C [].

Definition zprod (l : list Z) : Z := fold_right Z.mul 1 l.
Definition zsum (l : list Z) : Z := fold_right Z.add 0 l.

(* Node.count *)
Definition count_node (acc : list Z) (nd : ntype) : Z :=
  match nd with
  | Lit _ => 1
  | And cs => zprod (map (fun c => nth c acc 0) cs)
  | Or cs => zsum (map (fun c => nth c acc 0) cs)
  | TrueN => 1
  | FalseN => 0
  end.
Definition counts (C : circuit) : list Z := pass count_node C.
Definition root_count (C : circuit) : Z := last (counts C) 0.

(* Assignments: total functions on variables (positive numbers). *)
Notation asg := (Z -> bool).
Definition lit_true (s : asg) (l : Z) : bool :=
  if 0 <? l then s l else negb (s (- l)).

Definition eval_node (s : asg) (acc : list bool) (nd : ntype) : bool :=
  match nd with
  | Lit l => lit_true s l
  | And cs => forallb id (map (fun c => nth c acc false) cs)
  | Or cs => existsb id (map (fun c => nth c acc false) cs)
  | TrueN => true
  | FalseN => false
  end.
Definition evals (s : asg) (C : circuit) : list bool := pass (eval_node s) C.
Definition eval_root (s : asg) (C : circuit) : bool := last (evals s C) false.

(* Cartesian concatenation; leftmost factor slowest, rightmost fastest
   (itertools multi_cartesian_product order). *)
Fixpoint prod (Ls : list (list cfg)) : list cfg :=
  match Ls with
  | [] => [[]]
  | L :: Ls' => flat_map (fun x => map (fun r => x ++ r) (prod Ls')) L
  end.

(* Unbounded enumeration of the partial configurations a node stands for, in
   the order enumerate_node produces them (And: children reversed). *)
Definition enum_node (acc : list (list cfg)) (nd : ntype) : list cfg :=
  match nd with
  | Lit l => [[l]]
  | And cs => prod (rev (map (fun c => nth c acc []) cs))
  | Or cs => concat (map (fun c => nth c acc []) cs)
  | TrueN => [[]]
  | FalseN => []
  end.
Definition enums (C : circuit) : list (list cfg) := pass enum_node C.
Definition enum_root (C : circuit) : list cfg := last (enums C) [].

(* Variables below a node (as a list used as a set). *)
Definition vars_node (acc : list (list Z)) (nd : ntype) : list Z :=
  match nd with
  | Lit l => [Z.abs l]
  | And cs | Or cs => concat (map (fun c => nth c acc []) cs)
  | TrueN | FalseN => []
  end.
Definition varss (C : circuit) : list (list Z) := pass vars_node C.

Definition memZ (x : Z) (l : list Z) : bool := existsb (Z.eqb x) l.

(* ---- Truth-table semantics (the oracle; never used by the algorithms) ---- *)

Fixpoint zseq (start : Z) (len : nat) : list Z :=
  match len with
  | O => []
  | S k => start :: zseq (start + 1) k
  end.

(* all complete configurations over the variables vs, first variable slowest *)
Fixpoint all_cfgs_over (vs : list Z) : list cfg :=
  match vs with
  | [] => [[]]
  | v :: vs' =>
    map (fun r => v :: r) (all_cfgs_over vs') ++ map (fun r => (- v) :: r) (all_cfgs_over vs')
  end.
Definition all_cfgs (n : nat) : list cfg := all_cfgs_over (zseq 1 n).

Definition asg_of (m : cfg) : asg := fun v => memZ v m.
Definition canon (n : nat) (s : asg) : cfg :=
  map (fun v => if s v then v else - v) (zseq 1 n).
Definition canon_cfg (n : nat) (c : cfg) : cfg := canon n (asg_of c).

Definition Models (C : circuit) (n : nat) : list cfg :=
  filter (fun m => eval_root (asg_of m) C) (all_cfgs n).
Definition MC (C : circuit) (n : nat) : Z := Z.of_nat (length (Models C n)).

Definition contains_all (A : cfg) (m : cfg) : bool := forallb (fun l => memZ l m) A.
Definition ModelsA (C : circuit) (n : nat) (A : cfg) : list cfg :=
  filter (contains_all A) (Models C n).
Definition MCA (C : circuit) (n : nat) (A : cfg) : Z := Z.of_nat (length (ModelsA C n A)).

(* ---- Well-formedness, boolean checkers ---- *)

Definition children (nd : ntype) : list nat :=
  match nd with And cs | Or cs => cs | _ => [] end.

(* children refer to earlier positions *)
Fixpoint idx_ok_from (i : nat) (C : circuit) : bool :=
  match C with
  | [] => true
  | nd :: C' => forallb (fun c => Nat.ltb c i) (children nd) && idx_ok_from (S i) C'
  end.
Definition idx_ok (C : circuit) : bool := idx_ok_from 0 C.

Definition disjointb (l1 l2 : list Z) : bool := forallb (fun v => negb (memZ v l2)) l1.
Definition inclb (l1 l2 : list Z) : bool := forallb (fun v => memZ v l2) l1.

Fixpoint pairwise {A} (p : A -> A -> bool) (l : list A) : bool :=
  match l with
  | [] => true
  | x :: l' => forallb (p x) l' && pairwise p l'
  end.

Definition decomposable_node (vs : list (list Z)) (nd : ntype) : bool :=
  match nd with
  | And cs => pairwise disjointb (map (fun c => nth c vs []) cs)
  | _ => true
  end.
Definition smooth_node (vs : list (list Z)) (nd : ntype) : bool :=
  match nd with
  | Or cs =>
    let all := concat (map (fun c => nth c vs []) cs) in
    forallb (fun c => inclb all (nth c vs [])) cs
  | _ => true
  end.
Definition decomposable (C : circuit) : bool :=
  forallb (decomposable_node (varss C)) C.
Definition smooth (C : circuit) : bool :=
  forallb (smooth_node (varss C)) C.
Definition complete (C : circuit) (n : nat) : bool :=
  let vr := last (varss C) [] in
  inclb vr (zseq 1 n) && inclb (zseq 1 n) vr.

(* syntactic determinism certificate: forced literals *)
Definition interZ (l1 l2 : list Z) : list Z := filter (fun x => memZ x l2) l1.
Definition forced_node (acc : list (list Z)) (nd : ntype) : list Z :=
  match nd with
  | Lit l => [l]
  | And cs => concat (map (fun c => nth c acc []) cs)
  | Or cs =>
    match cs with
    | [] => []
    | c :: cs' => fold_left (fun a c' => interZ a (nth c' acc [])) cs' (nth c acc [])
    end
  | TrueN | FalseN => []
  end.
Definition forceds (C : circuit) : list (list Z) := pass forced_node C.
Definition conflictb (l1 l2 : list Z) : bool :=
  existsb (fun l => negb (l =? 0) && memZ (- l) l2) l1.
Definition det_cert_node (cnts : list Z) (fs : list (list Z)) (nd : ntype) : bool :=
  match nd with
  | Or cs =>
    (* children that can never be true (count 0) are exempt *)
    pairwise (fun c1 c2 => (nth c1 cnts 0 =? 0) || (nth c2 cnts 0 =? 0)
                           || conflictb (nth c1 fs []) (nth c2 fs [])) cs
  | _ => true
  end.
Definition det_cert (C : circuit) : bool :=
  forallb (det_cert_node (counts C) (forceds C)) C.

Definition is_lit (nd : ntype) : bool := match nd with Lit _ => true | _ => false end.
Definition lits_of (C : circuit) : list Z :=
  flat_map (fun nd => match nd with Lit l => [l] | _ => [] end) C.
Fixpoint nodupb (l : list Z) : bool :=
  match l with [] => true | x :: l' => negb (memZ x l') && nodupb l' end.
Definition unique_leaves (C : circuit) : bool := nodupb (lits_of C).
Definition no_dead (C : circuit) : bool := forallb (fun c => 0 <? c) (counts C).
Definition no_true_false (C : circuit) : bool :=
  forallb (fun nd => match nd with TrueN | FalseN => false | _ => true end) C.
Definition lits_nonzero (C : circuit) : bool := forallb (fun l => negb (l =? 0)) (lits_of C).

(* every non-root node has a parent (the vector is what is reachable from the root) *)
Definition has_parent (C : circuit) (i : nat) : bool :=
  existsb (fun nd => existsb (Nat.eqb i) (children nd)) C.
Definition all_reachable (C : circuit) : bool :=
  forallb (fun i => has_parent C i) (seq 0 (length C - 1)).

Definition check_wf (C : circuit) (n : nat) : bool :=
  negb (Nat.eqb (length C) 0) && idx_ok C && decomposable C && smooth C && complete C n
  && det_cert C && unique_leaves C && lits_nonzero C && all_reachable C.
