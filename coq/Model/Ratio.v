(* C04, the ratio column.  features.rs card_of_each_feature:
     let ratio = BigRational::from((cardinality.clone(), rc.clone())).to_f64().unwrap();
   BigRational::from((n, d)) is Ratio::new(n, d): it panics ("denominator == 0") when d = 0 and
   otherwise reduces the fraction by the gcd and makes the denominator positive (num-rational
   Ratio::reduce).  The iterator is lazy, the panic happens at the first row; a model without
   features has no row and no panic.  The conversion of the exact rational to f64 and its
   "{:.10e}" text are glue (compared numerically by the correspondence check). *)
From Coq Require Import List ZArith Bool.
From DD Require Import Model.Circuit Model.Query.
Import ListNotations.
Open Scope Z_scope.

Definition ratio_new (num den : Z) : option (Z * Z) :=
  if den =? 0 then None
  else
    let g := Z.gcd num den in
    let a := num / g in
    let b := den / g in
    Some (if b <? 0 then (- a, - b) else (a, b)).

Definition ratio_rows (total : Z) (rows : list (Z * Z)) : option (list (Z * Z * (Z * Z))) :=
  fold_right (fun (vc : Z * Z) acc =>
                match ratio_new (snd vc) total, acc with
                | Some r, Some l => Some ((fst vc, snd vc, r) :: l)
                | _, _ => None
                end) (Some []) rows.

(* None = the call panics *)
Definition card_of_each_feature_ratio (d : ddnnf) (s : scratch)
  : scratch * option (list (Z * Z * (Z * Z))) :=
  let sr := card_of_each_feature d s in
  (fst sr, ratio_rows (rc d) (snd sr)).
