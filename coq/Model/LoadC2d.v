(* M3 (c2d loader): parser.rs  distribute_building / build_c2d_ddnnf  and
   intermediate_representation.rs  rebuild  (petgraph 0.7.1 StableGraph + DfsPostOrder).
   Executable definitions only.  `None` = the Rust panics (or, for load_c2d_lines, the first
   line is not a c2d header and the file is handed to the d4 loader).

   Facts about petgraph the model relies on (re-validated by the correspondence on every run):
   * every line after the header adds exactly one graph node, so node_indices[i] is the node
     created for line i; the model uses the line number as node id;
   * StableGraph::add_edge prepends to the source's outgoing list: `neighbors(a)` yields the
     targets in REVERSE order of insertion (parallel edges are kept);
   * DfsPostOrder::next: look at the top of the stack; if it is discovered for the first time,
     push every not-yet-discovered neighbour (in `neighbors` order) and keep it; otherwise pop
     it and emit it if it was not finished yet;
   * rebuild numbers the nodes in emission order; a node's children are its `neighbors`
     mapped through that numbering (`nd_to_usize.get(&n).unwrap()`). *)
From Coq Require Import List ZArith NArith String Bool.
From DD Require Import Model.Circuit Model.Lexer.
Import ListNotations.

Inductive tid := GLit (l : Z) | GAnd | GOr | GTrue | GFalse.   (* c2d_lexer::TokenIdentifier *)

(* node id = position; (label, neighbors in petgraph's iteration order) *)
Notation graph := (list (tid * list nat)).

(* `for child in children { add_edge(from, node_indices[child]) }`:
   node_indices[child] panics unless child < number of lines read so far *)
Fixpoint add_edges (have : nat) (adj : list nat) (cs : list N) : option (list nat) :=
  match cs with
  | [] => Some adj
  | c :: r =>
    if (c <? N.of_nat have)%N then add_edges have (N.to_nat c :: adj) r else None
  end.

Definition graph_node (have : nat) (t : token) : option (tid * list nat) :=
  match t with
  | TAnd cs => option_map (fun adj => (GAnd, adj)) (add_edges have [] cs)
  | TOr _ cs => option_map (fun adj => (GOr, adj)) (add_edges have [] cs)
  | TLit l => Some (GLit l, [])
  | TTrue => Some (GTrue, [])
  | TFalse => Some (GFalse, [])
  | THeader _ _ _ => None     (* "Tried to parse the header of the .nnf at the wrong time" *)
  end.

Fixpoint build_graph (g : graph) (toks : list token) : option graph :=
  match toks with
  | [] => Some g
  | t :: r =>
    match graph_node (length g) t with
    | Some gn => build_graph (g ++ [gn]) r
    | None => None
    end
  end.

Definition neighbors (g : graph) (x : nat) : list nat := snd (nth x g (GFalse, [])).
Definition label (g : graph) (x : nat) : tid := fst (nth x g (GFalse, [])).

(* visit maps (FixedBitSet) as lists of the ids that are set *)
Definition mem (x : nat) (l : list nat) : bool := existsb (Nat.eqb x) l.

Definition push_undiscovered (disc : list nat) (stack : list nat) (succs : list nat) : list nat :=
  fold_left (fun st succ => if mem succ disc then st else succ :: st) succs stack.

(* the `while let Some(nx) = dfs.next(..)` loop; head of `stack` = top; `out` = emitted ids,
   newest first.  One unit of fuel per iteration of DfsPostOrder::next's inner loop. *)
Fixpoint dfs_loop (fuel : nat) (g : graph) (stack disc fin out : list nat) : option (list nat) :=
  match fuel with
  | O => None
  | S f =>
    match stack with
    | [] => Some (rev out)
    | nx :: rest =>
      if negb (mem nx disc) then
        let disc' := nx :: disc in
        dfs_loop f g (push_undiscovered disc' stack (neighbors g nx)) disc' fin out
      else if mem nx fin then dfs_loop f g rest disc fin out
      else dfs_loop f g rest disc (nx :: fin) (nx :: out)
    end
  end.

Definition edge_count (g : graph) : nat :=
  fold_right (fun x acc => (length (neighbors g x) + acc)%nat) 0%nat (seq 0 (length g)).

(* iterations <= discoveries + pops + 1 <= |V| + (|E| + 1) + 1; sufficiency is proved in
   Proofs/C10Total.v (dfs_loop_total), so `None` from dfs_loop never means "out of fuel" *)
Definition dfs_fuel (g : graph) : nat := (length g + edge_count g + 2)%nat.

Definition dfs_post_order (g : graph) (root : nat) : option (list nat) :=
  dfs_loop (dfs_fuel g) g [root] [] [] [].

(* nd_to_usize as an association list *)
Fixpoint lookup (num : list (nat * nat)) (x : nat) : option nat :=
  match num with
  | [] => None
  | (k, v) :: r => if Nat.eqb k x then Some v else lookup r x
  end.

Fixpoint map_opt {A B} (f : A -> option B) (l : list A) : option (list B) :=
  match l with
  | [] => Some []
  | x :: r =>
    match f x, map_opt f r with
    | Some y, Some ys => Some (y :: ys)
    | _, _ => None
    end
  end.

Definition flat_node (t : tid) (neighs : list nat) : ntype :=
  match t with
  | GLit l => Lit l
  | GAnd => And neighs
  | GOr => Or neighs
  | GTrue => TrueN
  | GFalse => FalseN
  end.

(* body of the rebuild loop for the emitted ids in order *)
Fixpoint flatten (g : graph) (order : list nat) (num : list (nat * nat)) (acc : circuit)
  : option circuit :=
  match order with
  | [] => Some acc
  | nx :: r =>
    let num' := (nx, length acc) :: num in
    match map_opt (lookup num') (neighbors g nx) with
    | None => None                                   (* nd_to_usize.get(&n).unwrap() *)
    | Some neighs => flatten g r num' (acc ++ [flat_node (label g nx) neighs])
    end
  end.

(* build_c2d_ddnnf on the lines after the header: (Ddnnf.nodes as ntype vector) *)
Definition load_c2d_body (toks : list token) : option circuit :=
  match build_graph [] toks with
  | None => None
  | Some g =>
    match g with
    | [] => None                      (* node_indices[node_indices.len() - 1] on an empty vector *)
    | _ =>
      match dfs_post_order g (length g - 1) with
      | None => None
      | Some order => flatten g order [] []
      end
    end
  end.

(* distribute_building after lexing: header first (`variables as u32`), then the body *)
Definition load_c2d (toks : list token) : option (circuit * nat) :=
  match toks with
  | THeader _ _ variables :: body =>
    option_map (fun C => (C, N.to_nat (variables mod two32))) (load_c2d_body body)
  | _ => None
  end.

(* the same from text lines: lines[0].trim() decides the format, the other lines are lexed
   untrimmed with `.unwrap()` *)
Definition lex_lines (lines : list string) : option (list token) :=
  match lines with
  | [] => None                        (* lines[0] *)
  | h :: body =>
    match lex_line_c2d (trim h), map_opt lex_line_c2d body with
    | Some th, Some tb => Some (th :: tb)
    | _, _ => None
    end
  end.

Definition load_c2d_lines (lines : list string) : option (circuit * nat) :=
  match lex_lines lines with
  | Some toks => load_c2d toks
  | None => None
  end.

(* ---- the file read as a circuit without re-flattening (spec side): line i+1 = node i,
   children in file order.  Used to say what a c2d file denotes. ---- *)
Definition node_of_token (t : token) : option ntype :=
  match t with
  | TAnd cs => Some (And (map N.to_nat cs))
  | TOr _ cs => Some (Or (map N.to_nat cs))
  | TLit l => Some (Lit l)
  | TTrue => Some TrueN
  | TFalse => Some FalseN
  | THeader _ _ _ => None
  end.

Definition read_c2d (toks : list token) : option (circuit * nat) :=
  match toks with
  | THeader _ _ variables :: body =>
    option_map (fun C => (C, N.to_nat variables)) (map_opt node_of_token body)
  | _ => None
  end.
