(* M7: incremental clause edits.
   Rust anchors:
     parser/from_cnf.rs        reduce_clause, simplify_clauses, apply_decisions
     ddnnf.rs                  prepare_and_apply_incremental_edit, rebuild
     parser/intermediate_representation.rs
                               apply_incremental_edit (the dispatch CONDITIONS only), the cache
                               predicate of find_and_remove and the cache KEYS, adjust_intern_cnf,
                               add_unit_clause, rebuild (DfsPostOrder re-flattening)
   The definitions follow the code AFTER the repairs F14-F17 of /repo (K23, K25, K26, K34); the
   `_v0` variants are the code before them and exist only for the refutation witnesses.
   NOT modelled: closest_unsplitable_bridge / find_bridges / divide_bridge /
   transform_to_cnf_from_starting_cnf / switch_sub_dag / recompile_everything (their required effect
   is the specification edit_spec below; checked by correspondence against the truth table only).
   Executable definitions only; proofs live in Proofs/Edit*.v. *)
From Coq Require Import List ZArith Bool.
From DD Require Import Model.Circuit.
Import ListNotations.
Open Scope Z_scope.

Notation clause := (list Z).
Notation cnf := (list (list Z)).

(* ------------------------------------------------------------------------------------------ *)
(* (a) reduce_clause.  The Rust collects into a HashSet (the order of the result is the hash
   order); the model keeps the order of first occurrence.  Result encoding as in the Rust:
   Some [] = "satisfied / nothing to add" (empty input, tautology, or a decided literal),
   None = every literal is falsified by the decisions, Some c = the remaining literals. *)
Fixpoint reduce_go (decisions acc : list Z) (c : clause) : option clause :=
  match c with
  | [] => match acc with [] => None | _ => Some acc end
  | e :: r =>
    if memZ (- e) acc || memZ e decisions then Some []
    else if negb (memZ (- e) decisions)
         then reduce_go decisions (if memZ e acc then acc else acc ++ [e]) r
         else reduce_go decisions acc r
  end.
Definition reduce_clause (c : clause) (decisions : list Z) : option clause :=
  match c with [] => Some [] | _ => reduce_go decisions [] c end.

(* prepare_and_apply_incremental_edit: every clause is reduced with NO decisions; empty results are
   skipped (tautologies, empty clauses); None would panic ("dDNNF becomes UNSAT") - unreachable
   without decisions (Proofs: reduce_clause_nil_decisions_some). *)
Inductive application := AddC | RemoveC.
Definition edit := list (clause * application).

Inductive prepared :=
| Prepared (op_add op_rmv : cnf)
| PreparePanic.
Fixpoint prepare_go (e : edit) (adds rmvs : cnf) : prepared :=
  match e with
  | [] => Prepared adds rmvs
  | (c, app) :: r =>
    match reduce_clause c [] with
    | None => PreparePanic
    | Some [] => prepare_go r adds rmvs
    | Some rc => match app with
                 | AddC => prepare_go r (adds ++ [rc]) rmvs
                 | RemoveC => prepare_go r adds (rmvs ++ [rc])
                 end
    end
  end.
Definition prepare (e : edit) : prepared := prepare_go e [] [].

(* ------------------------------------------------------------------------------------------ *)
(* the dispatch of apply_incremental_edit *)
Inductive strategy :=
  StTautology | StUnitClause | StSubDAGReplacement | StRecompile | StUndo
| StError.   (* the edit is refused, nothing changes (since repair F28) *)

(* what the conditions read besides the edit itself *)
Record facts := {
  cache_hit : bool;         (* cache.find_and_remove found an entry (see cache_matches) *)
  ig_nvars : Z;             (* IntermediateGraph.number_of_variables *)
  stored_cnf_empty : bool;  (* IntermediateGraph.cnf_clauses.is_empty() *)
  root_is_node0 : bool;     (* self.root == NodeIndex::new(0) (read by dispatch_v1 only) *)
  from_cnf : bool;          (* IntermediateGraph.from_cnf: the d-DNNF was compiled from a CNF file *)
}.

Inductive decision :=
| Decided (s : strategy)
| GraphDependent.  (* SubDAGReplacement / Recompile / Tautology, chosen by the bridge computation *)

Definition max_var (cs : cnf) : Z :=
  fold_right (fun c m => fold_right (fun l m' => Z.max (Z.abs l) m') m c) 0 cs.

Definition is_nil {A} (l : list A) : bool := match l with [] => true | _ => false end.

(* apply_incremental_edit after the repairs F16, F24, F27, F28:
   - the unit path: exactly one added clause of one literal and NOTHING to remove (F16), over an
     existing OR A NEW variable (F27: add_unit_clause conjoins the literal - and one optional
     feature per skipped number - at an And root; before, new-variable unit clauses took the
     general path: findings K3, K20, K29);
   - every other edit needs the source clauses: a d-DNNF that was not compiled from a CNF refuses
     it with Error and changes nothing (F28; before: Tautology / a recompilation of the edit's
     clauses alone / garbage / panics: K3, K20, K21, K35);
   - an empty clause list of a CNF-compiled d-DNNF is complete: the edited CNF is compiled as a
     whole (F24; before: Tautology, K27). *)
Definition dispatch (f : facts) (op_add op_rmv : cnf) : decision :=
  if is_nil op_add && is_nil op_rmv then Decided StTautology
  else if cache_hit f then Decided StUndo
  else
    let general :=
      if negb (from_cnf f) then Decided StError
      else if stored_cnf_empty f then Decided StRecompile
      else GraphDependent in
    match op_add with
    | [[_]] => if is_nil op_rmv then Decided StUnitClause else general
    | _ => general
    end.

(* the dispatch after F16 and BEFORE F24 / F27 / F28 (kept only as the subject of the `_v1`
   statements: K3, K20, K27, K29) *)
Definition dispatch_v1 (f : facts) (op_add op_rmv : cnf) : decision :=
  if is_nil op_add && is_nil op_rmv then Decided StTautology
  else if cache_hit f then Decided StUndo
  else
    let adds_new_feature := negb (is_nil op_add) && (ig_nvars f <? max_var op_add) in
    let general :=
      if stored_cnf_empty f
      then (if root_is_node0 f then Decided StRecompile else Decided StTautology)
      else GraphDependent in
    match op_add with
    | [[_]] => if is_nil op_rmv && negb adds_new_feature then Decided StUnitClause else general
    | _ => general
    end.

(* the dispatch BEFORE repair F16 (kept only as the subject of C11_dispatch_unit_drops_removal_v0):
   `op_add.len() == 1 && !adds_new_feature && op_add[0].len() == 1`, whatever op_rmv holds *)
Definition dispatch_v0 (f : facts) (op_add op_rmv : cnf) : decision :=
  if is_nil op_add && is_nil op_rmv then Decided StTautology
  else if cache_hit f then Decided StUndo
  else
    let adds_new_feature := negb (is_nil op_add) && (ig_nvars f <? max_var op_add) in
    let general :=
      if stored_cnf_empty f
      then (if root_is_node0 f then Decided StRecompile else Decided StTautology)
      else GraphDependent in
    match op_add with
    | [[_]] => if negb adds_new_feature then Decided StUnitClause else general
    | _ => general
    end.

(* the predicate of cache.find_and_remove: equal literal sets and, crosswise, the clause lists of
   the request and of the entry are equal AS SETS OF SETS: every clause of the one occurs (as a
   set) among the clauses of the other, in both directions (since repair F15). *)
Definition subsetZ (a b : list Z) : bool := forallb (fun x => memZ x b) a.
Definition set_eqZ (a b : list Z) : bool := subsetZ a b && subsetZ b a.
Definition vec_value_eq (fst_ snd_ : cnf) : bool :=
  forallb (fun c => existsb (fun d => set_eqZ c d) snd_) fst_.
Definition edit_lits (op_add op_rmv : cnf) : list Z := concat op_add ++ concat op_rmv.
Definition cache_matches (entry_add entry_rmv op_add op_rmv : cnf) : bool :=
  set_eqZ (edit_lits entry_add entry_rmv) (edit_lits op_add op_rmv)
  && (vec_value_eq op_add entry_rmv && vec_value_eq entry_rmv op_add
      && vec_value_eq op_rmv entry_add && vec_value_eq entry_add op_rmv).

(* the predicate BEFORE repair F15: inclusion in one direction only (finding K25; kept only as the
   subject of C11_cache_matches_partial_refuted_v0) *)
Definition cache_matches_v0 (entry_add entry_rmv op_add op_rmv : cnf) : bool :=
  set_eqZ (edit_lits entry_add entry_rmv) (edit_lits op_add op_rmv)
  && vec_value_eq op_add entry_rmv && vec_value_eq op_rmv entry_add.

(* The KEYS of the undo cache (FixedFifo<CachedSubDag>, oldest first; the cached sub-DAGs / graphs
   themselves are not modelled): (entry_add, entry_rmv) of every entry.
   find_and_remove takes the first entry (from the front) whose key matches.
   add_unit_clause re-creates the cache (since repair F17: the unit clause changes graph and clause
   list without leaving an entry of its own, everything cached describes a formula without it);
   before the repair it left the cache alone (finding K34, cache_after_unit_v0).
   What retain_push keeps when an entry is pushed depends on the cached GRAPHS (the conflict
   function compares their literal nodes) and is not modelled. *)
Definition cache_keys := list (cnf * cnf).
Definition cache_find (keys : cache_keys) (op_add op_rmv : cnf) : option (cnf * cnf) :=
  find (fun e => cache_matches (fst e) (snd e) op_add op_rmv) keys.
Definition cache_after_unit (keys : cache_keys) : cache_keys := [].
Definition cache_after_unit_v0 (keys : cache_keys) : cache_keys := keys.

(* ------------------------------------------------------------------------------------------ *)
(* the stored clause list: simplify_clauses / apply_decisions / adjust_intern_cnf (as sets; the
   Rust iterates HashSets, the model keeps list order) *)
Fixpoint dedup (c : clause) : clause :=
  match c with
  | [] => []
  | x :: r => if memZ x r then dedup r else x :: dedup r
  end.
Definition is_taut (c : clause) : bool := existsb (fun e => memZ (- e) c) c.

Definition add_set (x : Z) (l : list Z) : list Z := if memZ x l then l else l ++ [x].
Definition union_set (a b : list Z) : list Z := fold_left (fun acc x => add_set x acc) b a.

(* one round of the while loop: (reduced clauses, new decisions) *)
Fixpoint apply_round (decisions : list Z) (cs : cnf) : cnf * list Z :=
  match cs with
  | [] => ([], [])
  | c :: r =>
    let '(red, nd) := apply_round decisions r in
    if existsb (fun v => memZ v decisions) c then (red, nd)
    else
      let c' := filter (fun v => negb (memZ (- v) decisions)) c in
      match c' with
      | [] => (red, nd)
      | [u] => (c' :: red, add_set u nd)
      | _ => (c' :: red, nd)
      end
  end.
Fixpoint apply_decisions_go (fuel : nat) (cs : cnf) (acc decisions : list Z) : cnf * list Z :=
  match fuel with
  | O => (cs, acc)
  | S f =>
    match decisions with
    | [] => (cs, acc)
    | _ => let '(red, nd) := apply_round decisions cs in
           apply_decisions_go f red (union_set acc decisions) nd
    end
  end.
Definition apply_decisions (cs : cnf) (acc : list Z) : cnf * list Z :=
  apply_decisions_go (S (S (length cs))) cs acc acc.

Definition simplify_clauses (cs : cnf) : cnf :=
  let cs1 := filter (fun c => negb (is_taut c)) (map dedup cs) in
  let units := fold_left (fun acc c => match c with [u] => add_set u acc | _ => acc end) cs1 [] in
  let '(red, dec) := apply_decisions cs1 units in
  red ++ map (fun d => [d]) dec.

(* adjust_intern_cnf.  The retain step (since repair F14): a stored clause is kept unless it
   equals (as a set) ONE OF the clauses to remove:
     retain(|c| !rmv.iter().any(|r| set(c) == set(r)))          (only when rmv is not empty) *)
Definition retain_clauses (stored op_rmv : cnf) : cnf :=
  match op_rmv with
  | [] => stored
  | _ => filter (fun c => negb (existsb (fun r => set_eqZ c r) op_rmv)) stored
  end.
Definition adjust_intern_cnf (stored op_add op_rmv : cnf) : cnf :=
  simplify_clauses (retain_clauses stored op_rmv ++ op_add).

(* BEFORE repair F14: retain(|c| rmv.iter().any(|r| set(c) != set(r))): a stored clause was dropped
   only when it equals EVERY removed clause (finding K23; kept only as the subject of
   C11_multi_removal_refuted_v0) *)
Definition retain_clauses_v0 (stored op_rmv : cnf) : cnf :=
  match op_rmv with
  | [] => stored
  | _ => filter (fun c => existsb (fun r => negb (set_eqZ c r)) op_rmv) stored
  end.
Definition adjust_intern_cnf_v0 (stored op_add op_rmv : cnf) : cnf :=
  simplify_clauses (retain_clauses_v0 stored op_rmv ++ op_add).

(* The stored clause list after an edit answered Recompile (= the CNF that recompile_everything
   writes for the compiler): the edit is applied to the list exactly once (since repair F23:
   recompile_everything skips adjust_intern_cnf when transform_to_cnf_from_starting_cnf has
   applied it already). *)
Definition recompile_stored (stored op_add op_rmv : cnf) : cnf :=
  adjust_intern_cnf stored op_add op_rmv.

(* BEFORE repair F23: transform_to_cnf_from_starting_cnf adjusted the list (unless it was empty:
   early return) and recompile_everything adjusted it AGAIN with the same edit.  Between the two
   rounds simplify_clauses has unit-propagated the added clauses through the list, so the second
   round could remove a clause that was SHORTENED to one of the clauses to remove (finding K38). *)
Definition recompile_stored_v0 (stored op_add op_rmv : cnf) : cnf :=
  let s1 := if is_nil stored then stored else adjust_intern_cnf stored op_add op_rmv in
  adjust_intern_cnf s1 op_add op_rmv.

(* ------------------------------------------------------------------------------------------ *)
(* (b) the unit-clause edit on the flattened vector: add_unit_clause + rebuild.
   add_unit_clause removes the leaf of the complementary literal; every And parent of a removed
   node is removed as well (repeatedly); Or parents only lose the edge.  rebuild re-flattens what
   is reachable from the root with petgraph's DfsPostOrder (the neighbour pushed LAST is finished
   first, i.e. children are explored in reverse order of the child list). *)
Definition removed_node (l : Z) (acc : list bool) (nd : ntype) : bool :=
  match nd with
  | Lit x => x =? - l
  | And cs => existsb (fun c => nth c acc false) cs
  | _ => false
  end.
Definition removeds (C : circuit) (l : Z) : list bool := pass (removed_node l) C.

Definition prune_node (rm : list bool) (nd : ntype) : ntype :=
  match nd with
  | Or cs => Or (filter (fun c => negb (nth c rm false)) cs)
  | _ => nd
  end.
Definition prune (rm : list bool) (C : circuit) : circuit := map (prune_node rm) C.

Definition memN (x : nat) (l : list nat) : bool := existsb (Nat.eqb x) l.

(* post-order DFS; `done` = the nodes finished so far, in finishing order *)
Fixpoint dfs (fuel : nat) (C : circuit) (i : nat) (done : list nat) : list nat :=
  match fuel with
  | O => done
  | S f =>
    if memN i done then done
    else fold_left (fun acc c => dfs f C c acc) (rev (children (nth i C FalseN))) done ++ [i]
  end.
Definition post_order (C : circuit) : list nat := dfs (length C) C (length C - 1) [].

Fixpoint index_of (x : nat) (l : list nat) : nat :=
  match l with
  | [] => O
  | y :: r => if Nat.eqb x y then O else S (index_of x r)
  end.
Definition rename (r : nat -> nat) (nd : ntype) : ntype :=
  match nd with
  | And cs => And (map r cs)
  | Or cs => Or (map r cs)
  | _ => nd
  end.
Definition renumber (ord : list nat) (C : circuit) : circuit :=
  map (fun old => rename (fun c => index_of c ord) (nth old C FalseN)) ord.
Definition reflatten (C : circuit) : circuit := renumber (post_order C) C.

(* [] = the root itself is removed (the formula became unsatisfiable; the Rust re-flattening
   then starts at a removed node - outside the property's input space) *)
Definition unit_edit (C : circuit) (l : Z) : circuit :=
  let rm := removeds C l in
  if last rm false then [] else reflatten (prune rm C).

(* add_unit_clause for a NEW variable (n < |l|; since repair F27) + rebuild.  The root has to be
   an And node (a fresh And above the old root otherwise); it gets, as further children, one
   or-triangle (v | -v) for every number n < v < |l| and the literal l.  petgraph lists the edge
   added last first, so the new children come newest first, before the old ones.  In the vector
   handed to the re-flattening an old And root is left behind as an unreachable TrueN. *)
Definition unit_edit_new (C : circuit) (n : nat) (l : Z) : circuit :=
  let k := length C in
  let r := last C FalseN in
  let m := (Z.to_nat (Z.abs l) - S n)%nat in
  let tri := flat_map (fun i => let v := Z.of_nat (S n + i) in
                                [Lit v; Lit (- v); Or [k + 3 * i + 1; k + 3 * i]%nat]) (seq 0 m) in
  let ors := map (fun i => (k + 3 * i + 2)%nat) (seq 0 m) in
  let newkids := (k + 3 * m)%nat :: rev ors in
  let '(slot, root') := match r with
                        | And cs => (TrueN, And (newkids ++ cs))
                        | _ => (r, And (newkids ++ [(k - 1)%nat]))
                        end in
  reflatten (removelast C ++ [slot] ++ tri ++ [Lit l; root']).

(* dead-branch elimination used by the checker to classify circuits that are well-formed up to
   zero-count children of Or nodes (finding K4): drop the dead children, re-flatten *)
Definition dead_flags (C : circuit) : list bool := map (fun c => c =? 0) (counts C).
Definition strip_dead (C : circuit) : circuit := reflatten (prune (dead_flags C) C).

(* ------------------------------------------------------------------------------------------ *)
(* (c) the specification of an edit on the source clause set (independent of everything above) *)
Definition norm_clause (c : clause) : option clause :=
  if is_nil c || is_taut c then None else Some (dedup c).

Fixpoint filter_map' {A B} (f : A -> option B) (l : list A) : list B :=
  match l with
  | [] => []
  | x :: r => match f x with Some y => y :: filter_map' f r | None => filter_map' f r end
  end.

Definition mem_clause (c : clause) (F : cnf) : bool := existsb (set_eqZ c) F.

(* clause removal, then conjunction with the added clauses; n' = max n (largest variable added) *)
Definition edit_spec (F : cnf) (n : nat) (adds rmvs : cnf) : cnf * nat :=
  let adds' := filter_map' norm_clause adds in
  let rmvs' := filter_map' norm_clause rmvs in
  let kept := filter (fun c => negb (mem_clause c rmvs')) F in
  let F' := fold_left (fun acc c => if mem_clause c acc then acc else acc ++ [c]) adds' kept in
  (F', Nat.max n (Z.to_nat (max_var adds'))).

Definition clause_true (s : asg) (c : clause) : bool := existsb (lit_true s) c.
Definition cnf_true (s : asg) (F : cnf) : bool := forallb (clause_true s) F.
(* truth table of a clause set over n features *)
Definition cnf_models_n (F : cnf) (n : nat) : list cfg :=
  filter (fun m => cnf_true (asg_of m) F) (all_cfgs n).
