(* C09 pipeline, part 3: TWiseSampler (t_wise_sampler.rs) and Ddnnf::sample_t_wise
   (t_wise_sampling.rs) of the PLAIN variant (ZippingMerger + SimilarityMerger).
   Executable definitions only.  `None` = the Rust panics (an `expect` on a missing partial sample).

   ORACLES in addition to ord_int / ord_sort of Model/TwiseMerge.v:
     trim_pick cfgs    trim_and_resample ranks every configuration by
                         unique_coverage[i] as f64 / (n_decided_literals.pow(t) as f64)
                       and removes those strictly below the f64 average.  The ranks are NOT modelled
                       (f64 rounding decides ties with the average, usize::pow may wrap); instead the
                       oracle says WHICH configurations are removed: entry i of the returned list is
                       true iff configuration i (complete ones first) is removed.  Any answer is
                       allowed (missing entries = keep): coverage is proved for every choice.
     ord_shuf lits     literals_to_resample.shuffle(&mut rng()) applied to the sorted literal list;
                       must return a permutation.
   partial_samples: HashMap<usize, SamplingResult> is the list `ps` (slot i = entry of node i). *)
From Coq Require Import List ZArith Bool Arith.
From DD Require Import Model.Circuit Model.Query Model.TIter Model.TwiseCfg Model.TwiseMerge.
Import ListNotations.
Open Scope nat_scope.

Inductive sres := Void | Empty | WithSample (S : sample).

(* impl From<Sample> for SamplingResult *)
Definition sres_of (S : sample) : sres := if s_is_empty S then Empty else WithSample S.
Definition is_void (r : sres) : bool := match r with Void => true | _ => false end.
Definition samples_of (rs : list sres) : list sample :=
  flat_map (fun r => match r with WithSample sm => [sm] | _ => [] end) rs.

(* Iterator::unique: the first occurrence of every element, in order *)
Fixpoint uniq_nat (l : list nat) : list nat :=
  match l with
  | [] => []
  | x :: r => x :: filter (fun y => negb (Nat.eqb x y)) (uniq_nat r)
  end.

(* no node lists the same child twice (before the repair F13 remove_unneeded removed a child's sample
   once per occurrence: a repeated child made the second `expect("Sample does not exist!")` fail) *)
Fixpoint nodup_nat (l : list nat) : bool :=
  match l with [] => true | x :: r => negb (existsb (Nat.eqb x) r) && nodup_nat r end.
Definition nodup_children (C : circuit) : bool := forallb (fun nd => nodup_nat (children nd)) C.

Section Sampler.
  Variable d : ddnnf.
  Variable t : nat.
  Variable ord_int : nat -> nat -> nat -> list cfg -> list cfg.
  Variable ord_sort : nat -> list sample -> list sample.
  Variable trim_pick : list (list Z) -> list bool.
  Variable ord_shuf : list Z -> list Z.

  Let n := nv d.

  (* the children's results; None = "Samples of child node not present!" *)
  Definition lookup (ps : list (option sres)) (cs : list nat) : option (list sres) :=
    fold_right (fun c acc =>
                  match nth c ps None, acc with
                  | Some r, Some l => Some (r :: l)
                  | _, _ => None
                  end) (Some []) cs.

  (* remove_unneeded BEFORE the repair F13 (fix: t-wise sampling panics when a node lists the same child
     twice): one removal per OCCURRENCE of a child; None = "Sample does not exist!" *)
  Definition remove_unneeded_v0 (i : nat) (cs : list nat) (ps : list (option sres))
    : option (list (option sres)) :=
    fold_left (fun acc c =>
                 match acc with
                 | None => None
                 | Some ps' =>
                   if forallb (fun p => p <=? i) (nth c (pars d) [])
                   then match nth c ps' None with
                        | Some _ => Some (upd c None ps')
                        | None => None
                        end
                   else Some ps'
                 end) cs (Some ps).

  (* remove_unneeded: children.iter().unique() (itertools: first occurrences, in order) *)
  Definition remove_unneeded (i : nat) (cs : list nat) (ps : list (option sres))
    : option (list (option sres)) := remove_unneeded_v0 i (uniq_nat cs) ps.

  (* partial_sample = sample_node + remove_unneeded; rm = which remove_unneeded *)
  Definition partial_sample_g (rm : nat -> list nat -> list (option sres) -> option (list (option sres)))
    (i : nat) (ps : list (option sres)) : option (sres * list (option sres)) :=
    match nth i (circ d) FalseN with
    | Lit l => Some (WithSample (s_from_literal n l), ps)
    | And cs =>
      match lookup ps cs with
      | None => None
      | Some rs =>
        let res := if existsb is_void rs then Void
                   else sres_of (and_merge_all d n t ord_int ord_sort i (samples_of rs)) in
        option_map (fun ps' => (res, ps')) (rm i cs ps)
      end
    | Or cs =>
      match lookup ps cs with
      | None => None
      | Some rs =>
        let res := if forallb is_void rs then Void
                   else sres_of (or_merge_all t (samples_of rs)) in
        option_map (fun ps' => (res, ps')) (rm i cs ps)
      end
    | TrueN => Some (Empty, ps)
    | FalseN => Some (Void, ps)
    end.

  Definition sampler_step_g rm (st : option (list (option sres))) (i : nat) : option (list (option sres)) :=
    match st with
    | None => None
    | Some ps =>
      match partial_sample_g rm i ps with
      | None => None
      | Some (res, ps') => Some (upd i (Some res) ps')
      end
    end.

  Definition partial_samples_g rm : option (list (option sres)) :=
    fold_left (sampler_step_g rm) (seq 0 (length (circ d))) (Some (map (fun _ => None) (circ d))).

  Definition partial_sample := partial_sample_g remove_unneeded.
  Definition sampler_step := sampler_step_g remove_unneeded.
  Definition partial_samples := partial_samples_g remove_unneeded.

  (* trim_sample + the resampling loop of trim_and_resample *)
  Fixpoint trim_split (cs : list config) (mask : list bool) (k : nat) : list config * list config :=
    match cs with
    | [] => ([], [])
    | c :: cs' =>
      let (kept, gone) := trim_split cs' mask (S k) in
      if nth k mask false then (kept, c :: gone) else (c :: kept, gone)
    end.

  Definition trim_and_resample (node : nat) (S : sample) : sample :=
    if s_is_empty S then S
    else
      let t' := Nat.min (length (s_vars S)) t in
      let mask := trim_pick (map c_lits (s_iter S)) in
      let (keptc, gonec) := trim_split (s_comp S) mask 0 in
      let (keptp, gonep) := trim_split (s_part S) mask (length (s_comp S)) in
      let S0 := s_new_from [S] in
      let new := mkS keptc keptp (s_vars S0) (s_lits S0) in
      let lits := ord_shuf (sort_Z (nodup Z.eq_dec (flat_map c_decided (gonec ++ gonep)))) in
      let new' := fold_left (cover_caching d node n) (tints lits (Nat.min t' (length lits))) new in
      if s_len new' <? s_len S then new' else S.

  (* complete_partial_configs *)
  Fixpoint complete_cfg (root : nat) (vs : list Z) (c : config) : config :=
    match vs with
    | [] => c
    | v :: vs' =>
      if c_contains c v || c_contains c (- v) then complete_cfg root vs' c
      else
        let c1 := c_update d root c in
        let b := snd (sat_propagate d [v] (c_state_of d c1) (Some (length (circ d) - 1))) in
        complete_cfg root vs' (c_add c1 (if b then v else (- v)%Z))
    end.

  Definition complete_partial (root : nat) (S : sample) : sample :=
    mkS (s_comp S) (map (complete_cfg root (zseq 1 n)) (s_part S)) (s_vars S) (s_lits S).

  (* TWiseSampler::sample via Ddnnf::sample_t_wise *)
  Definition sample_t_wise_g rm : option sres :=
    match partial_samples_g rm with
    | None => None
    | Some ps =>
      let root := length (circ d) - 1 in
      match nth root ps None with
      | None => None                       (* "Root sample does not exist!" *)
      | Some (WithSample sm) =>
        Some (sres_of (complete_partial root (trim_and_resample root sm)))
      | Some r => Some r
      end
    end.
  Definition sample_t_wise : option sres := sample_t_wise_g remove_unneeded.
  (* the pipeline before the repair F13 (witness of finding K36) *)
  Definition sample_t_wise_v0 : option sres := sample_t_wise_g remove_unneeded_v0.

  (* what is printed / returned to the caller: Sample::iter() of the literal vectors *)
  Definition sres_configs (r : sres) : list cfg :=
    match r with WithSample sm => map c_lits (s_iter sm) | _ => [] end.
End Sampler.
