(* M8: CNF export.  ddnnife/src/cnf/into.rs (`impl From<&Ddnnf> for Cnf`, transform_operation,
   `impl From<Biconditional> for Clauses`) and ddnnife_cnf/src/cnf.rs (FromIterator, Display /
   cnf/header.rs).  Executable definitions only; proofs live in Proofs/ToCnf*.v.

   The Rust walks `ddnnf.nodes` once from index 0 (a post-order: children first), keeps
     tseitin_index   next fresh variable, starts at number_of_variables + 1
     biconditionals  Vec<Biconditional>, pushed in allocation order
     node_literals   vec![0; len], entry `index` written after node `index` is handled
     cache           HashMap<Operation{op_type, literals}, usize>  (keyed on kind AND the literal
                     vector, compared with ==; only get/insert are used, so an association list
                     with first-match lookup is an exact model: iteration order is never observed)
   and finally flat-maps the biconditionals to clauses and pushes the unit clause
   [tseitin_index - 1].  Clause order and literal order are Vec orders, modelled exactly.

   `to_cnf` is the code AFTER the repair F20 (repo_patches/F20-to-cnf-constants.patch): a constant
   is an operation without operands (True = And [], False = Or []), and transform_operation
   treats an empty literal list like any list of length <> 1 (cache lookup, else a fresh variable).
   `to_cnf_v0` at the end of the file is the code BEFORE the repair (unreachable!() on True/False,
   panic on an empty operation); it is kept only for the witness theorems K5/K10. *)
From Coq Require Import List ZArith Bool.
From DD Require Import Model.Circuit.
Import ListNotations.
Open Scope Z_scope.

Inductive optype := OpAnd | OpOr.

Definition optype_eqb (a b : optype) : bool :=
  match a, b with OpAnd, OpAnd | OpOr, OpOr => true | _, _ => false end.

Record bicond := mkBic { b_index : Z; b_op : optype; b_lits : list Z }.

(* where `Cnf::from` can panic; the first three only before the repair F20 (to_cnf_v0) *)
Inductive panic :=
| PanicTrue        (* v0: NodeType::True  => unreachable!() *)
| PanicFalse       (* v0: NodeType::False => unreachable!() *)
| PanicEmptyOp     (* v0: transform_operation: "Attempt to transform empty operation." *)
| PanicIndex.      (* nodes_to_literals: node_literals[*node] with *node >= nodes.len() *)

Inductive res (A : Type) :=
| Done (a : A)
| Fail (p : panic).
Arguments Done {A} a.
Arguments Fail {A} p.

Fixpoint list_eqb (l1 l2 : list Z) : bool :=
  match l1, l2 with
  | [], [] => true
  | x :: l1', y :: l2' => (x =? y) && list_eqb l1' l2'
  | _, _ => false
  end.

Definition cache_t := list (optype * list Z * Z).

(* HashMap::get *)
Fixpoint cache_get (cache : cache_t) (op : optype) (lits : list Z) : option Z :=
  match cache with
  | [] => None
  | (op', lits', v) :: rest =>
    if optype_eqb op op' && list_eqb lits lits' then Some v else cache_get rest op lits
  end.

Record tstate := mkTs {
  ts_idx : Z;                 (* tseitin_index *)
  ts_bics : list bicond;      (* biconditionals, in push order *)
  ts_lits : list Z;           (* node_literals[0..index) *)
  ts_cache : cache_t;
}.

Definition init_state (n : nat) : tstate := mkTs (Z.of_nat n + 1) [] [] [].

(* transform_operation: returns the literal standing for the operation and the new
   (tseitin_index, biconditionals, cache).  `operation.len() == 1` returns the only literal; every
   other length (0 included: a constant) is looked up in the cache or gets a fresh variable. *)
Definition transform_operation (op : optype) (lits : list Z) (st : tstate)
  : res (Z * tstate) :=
  match lits with
  | [l] => Done (l, st)
  | _ =>
    match cache_get (ts_cache st) op lits with
    | Some v => Done (v, st)
    | None =>
      let cur := ts_idx st in
      Done (cur, mkTs (cur + 1)
                      (ts_bics st ++ [mkBic cur op lits])
                      (ts_lits st)
                      (ts_cache st ++ [(op, lits, cur)]))
    end
  end.

(* nodes_to_literals: node_literals is vec![0; len]; positions not yet written read 0 *)
Definition nodes_to_literals (len : nat) (cs : list nat) (node_literals : list Z)
  : res (list Z) :=
  if forallb (fun c => Nat.ltb c len) cs
  then Done (map (fun c => nth c node_literals 0) cs)
  else Fail PanicIndex.

Definition set_literal (l : Z) (st : tstate) : tstate :=
  mkTs (ts_idx st) (ts_bics st) (ts_lits st ++ [l]) (ts_cache st).

(* `let literal = transform_operation(Operation { op, lits }, ..); node_literals[index] = literal` *)
Definition step_lits (op : optype) (lits : list Z) (st : tstate) : res tstate :=
  match transform_operation op lits st with
  | Fail p => Fail p
  | Done (l, st') => Done (set_literal l st')
  end.

Definition step_op (len : nat) (op : optype) (cs : list nat) (st : tstate) : res tstate :=
  match nodes_to_literals len cs (ts_lits st) with
  | Fail p => Fail p
  | Done lits => step_lits op lits st
  end.

(* the body of `ddnnf.nodes.iter().enumerate().for_each(..)` *)
Definition step (len : nat) (st : tstate) (nd : ntype) : res tstate :=
  match nd with
  | And cs => step_op len OpAnd cs st
  | Or cs => step_op len OpOr cs st
  | Lit l => Done (set_literal l st)
  | TrueN => step_lits OpAnd [] st      (* Operation { And, Vec::new() } *)
  | FalseN => step_lits OpOr [] st      (* Operation { Or, Vec::new() } *)
  end.

Fixpoint run (len : nat) (C : circuit) (st : tstate) : res tstate :=
  match C with
  | [] => Done st
  | nd :: C' =>
    match step len st nd with
    | Fail p => Fail p
    | Done st' => run len C' st'
    end
  end.

(* impl From<Biconditional> for Clauses *)
Definition clauses_of (b : bicond) : list (list Z) :=
  let x := b_index b in
  match b_op b with
  | OpAnd => (x :: map Z.opp (b_lits b)) :: map (fun l => [- x; l]) (b_lits b)
  | OpOr => ((- x) :: b_lits b) :: map (fun l => [x; - l]) (b_lits b)
  end.

Record cnf := mkCnf { num_variables : nat; clauses : list (list Z) }.

(* FromIterator<Clause> for Cnf: num_variables = size of the BTreeSet of |literal| *)
Definition cnf_of_clauses (cls : list (list Z)) : cnf :=
  mkCnf (length (nodup Z.eq_dec (map Z.abs (concat cls)))) cls.

(* Display: the header line is "p cnf <num_variables> <clauses.len()>" *)
Definition header_of (F : cnf) : nat * nat := (num_variables F, length (clauses F)).

Inductive outcome :=
| Ok (F : cnf)
| Panic (p : panic).

Definition to_cnf (C : circuit) (n : nat) : outcome :=
  match run (length C) C (init_state n) with
  | Fail p => Panic p
  | Done st =>
    (* "In case only literals were processed, return an empty CNF." (Cnf::default()) *)
    if ts_idx st =? Z.of_nat n + 1 then Ok (mkCnf 0 [])
    else Ok (cnf_of_clauses (flat_map clauses_of (ts_bics st) ++ [[ts_idx st - 1]]))
  end.

(* ---- the code before the repair F20 (only for the witness theorems K5 / K10) ---- *)

Definition transform_operation_v0 (op : optype) (lits : list Z) (st : tstate)
  : res (Z * tstate) :=
  match lits with
  | [] => Fail PanicEmptyOp
  | _ => transform_operation op lits st
  end.

Definition step_op_v0 (len : nat) (op : optype) (cs : list nat) (st : tstate) : res tstate :=
  match nodes_to_literals len cs (ts_lits st) with
  | Fail p => Fail p
  | Done lits =>
    match transform_operation_v0 op lits st with
    | Fail p => Fail p
    | Done (l, st') => Done (set_literal l st')
    end
  end.

Definition step_v0 (len : nat) (st : tstate) (nd : ntype) : res tstate :=
  match nd with
  | And cs => step_op_v0 len OpAnd cs st
  | Or cs => step_op_v0 len OpOr cs st
  | Lit l => Done (set_literal l st)
  | TrueN => Fail PanicTrue
  | FalseN => Fail PanicFalse
  end.

Fixpoint run_v0 (len : nat) (C : circuit) (st : tstate) : res tstate :=
  match C with
  | [] => Done st
  | nd :: C' =>
    match step_v0 len st nd with
    | Fail p => Fail p
    | Done st' => run_v0 len C' st'
    end
  end.

Definition to_cnf_v0 (C : circuit) (n : nat) : outcome :=
  match run_v0 (length C) C (init_state n) with
  | Fail p => Panic p
  | Done st =>
    if ts_idx st =? Z.of_nat n + 1 then Ok (mkCnf 0 [])
    else Ok (cnf_of_clauses (flat_map clauses_of (ts_bics st) ++ [[ts_idx st - 1]]))
  end.

(* ---- specification side: satisfaction of a clause list, truth table of a CNF ---- *)

Definition clause_sat (b : asg) (c : list Z) : bool := existsb (lit_true b) c.
Definition cnf_sat (b : asg) (F : cnf) : bool := forallb (clause_sat b) (clauses F).

(* the models of F over its declared variables 1..num_variables *)
Definition cnf_models (F : cnf) : list cfg :=
  filter (fun m => cnf_sat (asg_of m) F) (all_cfgs (num_variables F)).
