(* C09: the t-wise index iterator of anomalies/t_wise_sampling/t_iterator.rs, written as the
   Rust is written.  Executable definitions only; proofs in Proofs/TIterProof.v.

     struct TIndicesIter { number_of_vars, t, first, tuple: Vec<usize> }      (tuple has t+1 entries,
                                                                               tuple[t] is the stop flag)
     new(m, t):   tuple = (0..t).rev().chain(once(0))      = [t-1; ...; 1; 0; 0]
     advance():   if first { first = false; return }
                  tuple[0] += 1;
                  if tuple[0] >= m {
                      p = 0;
                      while tuple[p] >= m - p && tuple[t] == 0 { tuple[p] = 0; p += 1; tuple[p] += 1 }
                      if let Some(bound) = t.checked_sub(2) {
                          for j in (0..=bound).rev() { if tuple[j] < tuple[j+1] { tuple[j] = tuple[j+1] + 1 } } } }
     get():       if tuple[t] == 0 { Some(&tuple[..t]) } else { None }
     next() = advance(); get()       (streaming_iterator)

   Every Vec index is a checked access (nth_error / setn, None = the Rust panics with "index out of
   bounds").  `m - p` is a usize subtraction: with overflow checks (dev profile, dbg = true) it
   panics when p > m; without (release profile of the harness, dbg = false) it wraps to
   2^64 - (p - m), which is larger than every tuple entry (entries are bounded by max m t + 1), so
   the comparison `tuple[p] >= m - p` is false.  `+= 1` cannot overflow for the same reason. *)
From Coq Require Import List Arith Bool ZArith.
Import ListNotations.

(* Vec<usize> write access tuple[i] = v ; None = index out of bounds *)
Fixpoint setn (l : list nat) (i v : nat) : option (list nat) :=
  match l, i with
  | [], _ => None
  | _ :: r, O => Some (v :: r)
  | x :: r, S i' => match setn r i' v with Some r' => Some (x :: r') | None => None end
  end.

(* x >= m - p on usize; None = "attempt to subtract with overflow" *)
Definition ge_sub (dbg : bool) (x m p : nat) : option bool :=
  if p <=? m then Some (m - p <=? x) else if dbg then None else Some false.

Record titer := mk_titer {
  ti_m : nat;            (* number_of_vars *)
  ti_t : nat;            (* t *)
  ti_first : bool;       (* first *)
  ti_tuple : list nat;   (* tuple *)
}.

Definition titer_new (m t : nat) : titer :=
  mk_titer m t true (rev (seq 0 t) ++ [0]).

(* the carry loop; the loop variable p only grows and the body needs tuple[p+1], so t + 2 rounds of
   fuel are never used up (running out is reported as None like a panic; TIterProof.carry_fuel_ok
   shows it does not happen for 1 <= t <= m) *)
Fixpoint carry (dbg : bool) (fuel m t p : nat) (tup : list nat) : option (list nat) :=
  match fuel with
  | O => None
  | S f =>
    match nth_error tup p with
    | None => None
    | Some x =>
      match ge_sub dbg x m p with
      | None => None
      | Some false => Some tup
      | Some true =>
        (* && is short-circuit: tuple[t] is read only now *)
        match nth_error tup t with
        | None => None
        | Some s =>
          if s =? 0 then
            match setn tup p 0 with
            | None => None
            | Some tup1 =>
              match nth_error tup1 (S p) with
              | None => None
              | Some y =>
                match setn tup1 (S p) (S y) with
                | None => None
                | Some tup2 => carry dbg f m t (S p) tup2
                end
              end
            end
          else Some tup
        end
      end
    end
  end.

(* for j in (0..k).rev(): repair k handles j = k-1, ..., 0 ; called with k = t - 1
   (t.checked_sub(2) = Some(t-2), range 0..=t-2; for t < 2 the loop is skipped, k = 0) *)
Fixpoint repair (k : nat) (tup : list nat) : option (list nat) :=
  match k with
  | O => Some tup
  | S j =>
    match nth_error tup j, nth_error tup (S j) with
    | Some a, Some b =>
      if a <? b then
        match setn tup j (S b) with
        | Some tup' => repair j tup'
        | None => None
        end
      else repair j tup
    | _, _ => None
    end
  end.

Definition advance (dbg : bool) (s : titer) : option titer :=
  if ti_first s then Some (mk_titer (ti_m s) (ti_t s) false (ti_tuple s))
  else
    match nth_error (ti_tuple s) 0 with
    | None => None
    | Some x0 =>
      match setn (ti_tuple s) 0 (S x0) with
      | None => None
      | Some tup1 =>
        if ti_m s <=? S x0 then
          match carry dbg (S (S (ti_t s))) (ti_m s) (ti_t s) 0 tup1 with
          | None => None
          | Some tup2 =>
            match repair (ti_t s - 1) tup2 with
            | None => None
            | Some tup3 => Some (mk_titer (ti_m s) (ti_t s) false tup3)
            end
          end
        else Some (mk_titer (ti_m s) (ti_t s) false tup1)
      end
    end.

(* outer None = panic; Some None = the iterator is exhausted *)
Definition get (s : titer) : option (option (list nat)) :=
  match nth_error (ti_tuple s) (ti_t s) with
  | None => None
  | Some z => if z =? 0 then Some (Some (firstn (ti_t s) (ti_tuple s))) else Some None
  end.

Inductive tstop := TDone | TPanic | TFuel.

(* while let Some(x) = it.next() { push x }: the outputs up to the first None / panic.
   fuel bounds the number of next() calls (the theorem gives the exact number). *)
Fixpoint titer_run (dbg : bool) (fuel : nat) (s : titer) : list (list nat) * tstop :=
  match fuel with
  | O => ([], TFuel)
  | S f =>
    match advance dbg s with
    | None => ([], TPanic)
    | Some s' =>
      match get s' with
      | None => ([], TPanic)
      | Some None => ([], TDone)
      | Some (Some o) => let (os, st) := titer_run dbg f s' in (o :: os, st)
      end
    end
  end.

Definition t_indices (dbg : bool) (fuel m t : nat) : list (list nat) * tstop :=
  titer_run dbg fuel (titer_new m t).

(* ---- TInteractionIter: interaction[i] = literals[indices[i]] ----
   new(): debug_assert!(literals.len() >= t); debug_assert!(!literals.contains(&0))  (dev profile only).
   advance(): indices_iter.advance(); if let Some(ix) = indices_iter.get() { for (v, i) in
   interaction.iter_mut().zip(ix) { *v = literals[*i] } }       literals[*i] is a checked access *)
Fixpoint map_lits (lits : list Z) (idx : list nat) : option (list Z) :=
  match idx with
  | [] => Some []
  | i :: r =>
    match nth_error lits i with
    | None => None
    | Some l => match map_lits lits r with Some r' => Some (l :: r') | None => None end
    end
  end.

Fixpoint tinter_outs (lits : list Z) (idxs : list (list nat)) (st : tstop) : list (list Z) * tstop :=
  match idxs with
  | [] => ([], st)
  | ix :: r =>
    match map_lits lits ix with
    | None => ([], TPanic)
    | Some o => let (os, st') := tinter_outs lits r st in (o :: os, st')
    end
  end.

Definition t_interactions (dbg : bool) (fuel : nat) (lits : list Z) (t : nat) : list (list Z) * tstop :=
  if dbg && ((length lits <? t) || existsb (Z.eqb 0) lits) then ([], TPanic)
  else let (idxs, st) := t_indices dbg fuel (length lits) t in tinter_outs lits idxs st.

(* ---- specification side (no algorithm): all strictly decreasing k-tuples over [lo, m) in the
   order the iterator is supposed to produce them: last (smallest) entry slowest, ascending ---- *)
Fixpoint dec_tuples (m k lo : nat) : list (list nat) :=
  match k with
  | O => [[]]
  | S k' =>
    flat_map (fun a => map (fun pre => pre ++ [a]) (dec_tuples m k' (S a))) (seq lo (m - lo))
  end.
