(* C09 pipeline, fitness-guided variant: ExtendedDdnnf::sample_t_wise (t_wise_sampling.rs) with
   AttributeZippingMerger, AttributeSimilarityMerger, cover_with_caching_sorted and
   complete_partial_configs_optimal, written as the Rust is written.  Executable definitions only.

   Objective values are Z (as in Model/Optimal.v): the correspondence only feeds integer-valued f64
   of small magnitude, every f64 sum is exact, and the AVERAGE of a configuration (sum / number of
   decided literals, an f64 division) is only ever compared with another average: for such small
   numerators / denominators f64 division is correctly rounded and distinct quotients stay
   distinct, so  a/na >= b/nb  is modelled by  a*nb >= b*na  (na, nb > 0; a configuration without a
   decided literal would give 0/0 = NaN in the Rust - the invariant excludes it).

   ExtendedDdnnf::insert_config_sorted pushes the configuration and then compares its value with
   sorted_configs[curr_idx] - the element it has just pushed - so the loop body never runs:
   insert_config_sorted is `push` (the configurations are NOT kept sorted by the Rust; this does
   not matter for coverage; reported in DESIGN.md).
   Everything is deterministic (Vec, stable sorts) except trim_and_resample (f64 ranks, shuffle):
   the oracles trim_pick / ord_shuf of Model/TwisePipeline.v. *)
From Coq Require Import List ZArith Bool Arith.
From DD Require Import Model.Circuit Model.Query Model.TIter Model.Optimal Model.TwiseCfg Model.TwiseMerge
  Model.TwisePipeline.
Import ListNotations.
Open Scope Z_scope.

Section Fit.
  Variable d : ddnnf.
  Variable t : nat.
  Variable vals : list Z.        (* objective_fn_vals, one per feature *)
  Variable trim_pick : list (list Z) -> list bool.
  Variable ord_shuf : list Z -> list Z.

  Let n := nv d.

  (* get_objective_fn_val_of_config / number of decided literals *)
  Definition c_sum (c : config) : Z := cval vals (c_decided c).
  Definition c_cnt (c : config) : Z := Z.of_nat (length (c_decided c)).
  (* average(a) >= average(b), average(a) > average(b), average(a) < average(b) *)
  Definition avg_ge (a b : config) : bool := c_sum b * c_cnt a <=? c_sum a * c_cnt b.
  Definition avg_gt (a b : config) : bool := c_sum b * c_cnt a <? c_sum a * c_cnt b.
  Definition avg_lt (a b : config) : bool := c_sum a * c_cnt b <? c_sum b * c_cnt a.

  (* merge_sorted_configs *)
  Fixpoint merge_sorted (l : list config) : list config -> list config :=
    fix aux (r : list config) : list config :=
      match l, r with
      | [], _ => r
      | _, [] => l
      | a :: l', b :: r' => if avg_ge a b then a :: merge_sorted l' r else b :: aux r'
      end.

  (* insert_config_sorted: see the header *)
  Definition insert_sorted (c : config) (l : list config) : list config := (l ++ [c])%list.

  Definition s_insert (S : sample) (c : config) : sample :=
    if s_is_complete S c then mkS (insert_sorted c (s_comp S)) (s_part S) (s_vars S) (s_lits S)
    else mkS (s_comp S) (insert_sorted c (s_part S)) (s_vars S) (s_lits S).

  (* Vec::swap *)
  Definition swap_at (i j : nat) (l : list config) : list config :=
    match nth_error l i, nth_error l j with
    | Some a, Some b => upd j a (upd i b l)
    | _, _ => l
    end.

  (* the two shifting loops of cover_with_caching_sorted; `c` = the configuration being moved *)
  Fixpoint shift_up (c : config) (idx : nat) (l : list config) : nat * list config :=
    match idx with
    | O => (O, l)
    | S i =>
      match nth_error l i with
      | Some b => if avg_gt c b then shift_up c i (swap_at (S i) i l) else (idx, l)
      | None => (idx, l)
      end
    end.
  Fixpoint shift_down (fuel : nat) (c : config) (idx : nat) (l : list config) : list config :=
    match fuel with
    | O => l
    | S f =>
      if (S idx <? length l)%nat then
        match nth_error l (S idx) with
        | Some b => if avg_lt c b then shift_down f c (S idx) (swap_at idx (S idx) l) else l
        | None => l
        end
      else l
    end.

  Fixpoint remove_at {A} (i : nat) (l : list A) : list A :=
    match l, i with
    | [], _ => []
    | _ :: r, O => r
    | x :: r, S j => x :: remove_at j r
    end.

  (* cover_with_caching_sorted *)
  Definition cover_sorted (r : nat) (S : sample) (I : cfg) : sample :=
    if s_covers S I then S
    else
      let (m, b) := sat_propagate d I (new_state d) (Some r) in
      if negb b then S
      else
        let (P', res) := cover d r (s_part S) I 0%nat in
        match res with
        | Some idx =>
          match nth_error P' idx with
          | Some c =>
            if s_is_complete S c
            then mkS (insert_sorted c (s_comp S)) (remove_at idx P') (s_vars S) (s_lits S)
            else
              let (i1, P1) := shift_up c idx P' in
              mkS (s_comp S) (shift_down (length P1) c i1 P1) (s_vars S) (s_lits S)
          | None => mkS (s_comp S) P' (s_vars S) (s_lits S)
          end
        | None => s_insert (mkS (s_comp S) P' (s_vars S) (s_lits S)) (c_set_state (c_from n I) m)
        end.

  (* ---------------- AttributeZippingMerger ---------------- *)
  Definition zip_fit (L R : sample) : sample :=
    let S0 := s_new_from [L; R] in
    let ls := merge_sorted (s_part L) (s_comp L) in
    let rs := merge_sorted (s_part R) (s_comp R) in
    let S1 := fold_left (fun S (p : config * config) => s_insert S (c_from_disjoint n (fst p) (snd p)))
                        (combine ls rs) S0 in
    let rest := if (s_len R <=? s_len L)%nat then skipn (s_len R) ls else skipn (s_len L) rs in
    fold_left s_insert rest S1.

  (* stable insertion sort by key, ascending (sorted_by_cached_key) *)
  Fixpoint insert_key (x : Z * cfg) (l : list (Z * cfg)) : list (Z * cfg) :=
    match l with
    | [] => [x]
    | y :: l' => if fst x <=? fst y then x :: l else y :: insert_key x l'
    end.
  Definition sort_key (l : list (Z * cfg)) : list (Z * cfg) := fold_right insert_key [] l.

  (* the interactions with one part from the LITERAL list of each side that the zipped sample does
     not cover, k = 1 .. t-1, in generation order *)
  Definition fit_candidates (L R Z0 : sample) : list cfg :=
    flat_map (fun k =>
                flat_map (fun lp =>
                            flat_map (fun rp => let X := (lp ++ rp)%list in
                                                if s_covers Z0 X then [] else [X])
                                     (tints (s_lits R) (Nat.min (length (s_lits R)) (t - k))))
                         (tints (s_lits L) (Nat.min (length (s_lits L)) k)))
             (seq 1 (t - 1)).

  Definition and_merge_fit (node : nat) (L R : sample) : sample :=
    if s_is_empty L then R
    else if s_is_empty R then L
    else
      let Z0 := zip_fit L R in
      let todo := fit_candidates L R Z0 in
      (* sorted_by_cached_key(objective value).rev() *)
      let ordered := rev (map snd (sort_key (map (fun X => (cval vals X, X)) todo))) in
      fold_left (cover_sorted node) ordered Z0.

  (* merge_all: samples.iter().sorted() (stable, by len) *)
  Definition and_merge_all_fit (node : nat) (Ss : list sample) : sample :=
    fold_left (and_merge_fit node) (sort_len Ss) s_default.

  (* ---------------- AttributeSimilarityMerger ---------------- *)
  (* Sample::is_t_wise_covered *)
  Definition s_twise_covered (S : sample) (c : config) : bool :=
    let lits := c_decided c in
    forallb (s_covers S) (tints lits (Nat.min t (length lits))).

  Definition or_merge_fit (L R : sample) : sample :=
    if s_is_empty L then R
    else if s_is_empty R then L
    else
      let S0 := s_new_from [L; R] in
      let cands := merge_sorted (merge_sorted (s_part L) (s_comp L)) (merge_sorted (s_part R) (s_comp R)) in
      fold_left (fun S c => if s_twise_covered S c then S else s_add S c) cands S0.

  Definition or_merge_all_fit (Ss : list sample) : sample := fold_left or_merge_fit Ss s_default.

  (* ---------------- the sampler ---------------- *)
  Definition partial_sample_fit (i : nat) (ps : list (option sres)) : option (sres * list (option sres)) :=
    match nth i (circ d) FalseN with
    | Lit l => Some (WithSample (s_from_literal n l), ps)
    | And cs =>
      match lookup ps cs with
      | None => None
      | Some rs =>
        let res := if existsb is_void rs then Void
                   else sres_of (and_merge_all_fit i (samples_of rs)) in
        option_map (fun ps' => (res, ps')) (remove_unneeded d i cs ps)
      end
    | Or cs =>
      match lookup ps cs with
      | None => None
      | Some rs =>
        let res := if forallb is_void rs then Void
                   else sres_of (or_merge_all_fit (samples_of rs)) in
        option_map (fun ps' => (res, ps')) (remove_unneeded d i cs ps)
      end
    | TrueN => Some (Empty, ps)
    | FalseN => Some (Void, ps)
    end.

  Definition sampler_step_fit (st : option (list (option sres))) (i : nat) : option (list (option sres)) :=
    match st with
    | None => None
    | Some ps =>
      match partial_sample_fit i ps with
      | None => None
      | Some (res, ps') => Some (upd i (Some res) ps')
      end
    end.

  Definition partial_samples_fit : option (list (option sres)) :=
    fold_left sampler_step_fit (seq 0 (length (circ d))) (Some (map (fun _ => None) (circ d))).

  (* complete_partial_configs_optimal: pop from the back, calc_best_config under the decided
     literals, add the result (a complete configuration without cached state); None = expect fails *)
  Fixpoint complete_optimal (parts : list config) (S : sample) : option sample :=
    match parts with
    | [] => Some S
    | c :: rest =>
      match calc_best_config vals (c_decided c) (circ d) with
      | None => None
      | Some oc => complete_optimal rest (s_add S (c_from n (fst oc)))
      end
    end.

  Definition sample_t_wise_fit : option sres :=
    match partial_samples_fit with
    | None => None
    | Some ps =>
      let root := (length (circ d) - 1)%nat in
      match nth root ps None with
      | None => None
      | Some (WithSample sm) =>
        let S1 := trim_and_resample d t trim_pick ord_shuf root sm in
        match complete_optimal (rev (s_part S1)) (mkS (s_comp S1) [] (s_vars S1) (s_lits S1)) with
        | None => None
        | Some S2 => Some (WithSample S2)
        end
      | Some r => Some r
      end
    end.
End Fit.
