(* M3 (writer): parser/persisting.rs  write_ddnnf_to_file / deconstruct_node /
   deconstruct_children, character level.  Executable definitions only.

   Rust                                   here
   usize::to_string, u32 Display          print_N (decimal, no leading zeros, "0" for 0)
   i32 Display ("{}")                     print_Z ("-" followed by the magnitude)
   deconstruct_children(prefix, cs)       print_children prefix cs
   deconstruct_node(node) (without '\n')  print_node nd
   write_ddnnf_to_file                    write_c2d C n  (one string per line; every line is
                                          terminated by '\n' in the file: file_text)
   The header is  "nnf <number of nodes> 0 <number_of_variables>" : the edge count written by
   the Rust is the constant 0. *)
From Coq Require Import List ZArith NArith String Ascii Decimal DecimalString.
From DD Require Import Model.Circuit.
Import ListNotations.
Local Open Scope string_scope.

Definition print_N (k : N) : string := NilEmpty.string_of_uint (N.to_uint k).
Definition print_nat (k : nat) : string := print_N (N.of_nat k).
Definition print_Z (z : Z) : string :=
  match z with
  | Z0 => print_N 0
  | Zpos p => print_N (Npos p)
  | Zneg p => String "-" (print_N (Npos p))
  end.

(* children separated by one space, no trailing space
   (`if n != children.len() - 1 { str.push(' ') }`) *)
Fixpoint join_sp (l : list string) : string :=
  match l with
  | [] => ""
  | [x] => x
  | x :: r => x ++ " " ++ join_sp r
  end.

(* str.push_str(len); str.push(' '); children...   -- for an empty child list the line ends
   with the space after the 0 *)
Definition print_children (pre : string) (cs : list nat) : string :=
  pre ++ print_nat (length cs) ++ " " ++ join_sp (map print_nat cs).

Definition print_node (nd : ntype) : string :=
  match nd with
  | And cs => print_children "A " cs
  | Or cs => print_children "O 0 " cs
  | Lit l => "L " ++ print_Z l
  | TrueN => "A 0"
  | FalseN => "O 0 0"
  end.

Definition print_header (nodes n : nat) : string :=
  "nnf " ++ print_nat nodes ++ " 0 " ++ print_nat n.

Definition write_c2d (C : circuit) (n : nat) : list string :=
  print_header (length C) n :: map print_node C.

(* the bytes of the file *)
Definition nl : string := String (ascii_of_nat 10) "".
Definition file_text (lines : list string) : string :=
  fold_right (fun l acc => l ++ nl ++ acc) "" lines.
