(* M6: the clause cache behind clause-update / undo-update / save-cnf.
   Rust anchors: ddnnf/clause_cache.rs (ClauseCache: initialize, setup_for_edit with rollback,
   setup_for_undo, apply_edits_and_replace, contains_conflicting_clauses), ddnnf.rs
   (Ddnnf::new initialising the cache, update_cached_state, swap, undo_on_cached_state),
   ddnnf/stream.rs (handle_stream_msg: the `t N` pre-pass with the conflict check, add / rmv
   parsing with check_boundary, dispatch of clause-update / undo-update / save-cnf),
   parser/from_cnf.rs (simplify_clauses, apply_decisions), parser/persisting.rs
   (write_cnf_to_file, printed by Spec.CnfMachine.print_cnf).

   clause      = BTreeSet<i32>            = strictly ascending list of Z
   clause_set  = BTreeSet<BTreeSet<i32>>  = list of clauses strictly ascending in clause_cmp
                 (the order matters: save-cnf prints the set in iteration order)
   The live d-DNNF (nodes, literals, core, number_of_variables: the fields Ddnnf::swap
   exchanges) is abstracted to what it was compiled from: the clause list written to the
   temporary CNF and the feature count of its header.
   Executable definitions only. *)
From Coq Require Export List ZArith Bool String.
From DD Require Export Model.Circuit Spec.CnfMachine.
Export ListNotations.
Open Scope Z_scope.

Notation clause_set := (list clause).

(* BTreeSet::insert -> true iff the value was not present *)
Fixpoint cs_insert (c : clause) (s : clause_set) : clause_set * bool :=
  match s with
  | [] => ([c], true)
  | d :: r => match clause_cmp c d with
              | Lt => (c :: s, true)
              | Eq => (s, false)
              | Gt => let '(r', b) := cs_insert c r in (d :: r', b)
              end
  end.
(* BTreeSet::remove -> true iff the value was present *)
Fixpoint cs_remove (c : clause) (s : clause_set) : clause_set * bool :=
  match s with
  | [] => ([], false)
  | d :: r => match clause_cmp c d with
              | Lt => (s, false)
              | Eq => (r, true)
              | Gt => let '(r', b) := cs_remove c r in (d :: r', b)
              end
  end.
(* .collect::<BTreeSet<BTreeSet<i32>>>() *)
Definition cs_of_list (l : list clause) : clause_set :=
  fold_left (fun s c => fst (cs_insert c s)) l [].

(* what a live model was compiled from: (clause list of the CNF file, feature count) *)
Notation live := (clause_set * nat)%type.

Record cache := mkCache {
  cclauses : clause_set;          (* ClauseCache.clauses *)
  edit_add : list clause;        (* clauses to add to get back to the parent state *)
  edit_rmv : list clause;        (* clauses to remove to get back to the parent state *)
  total : option nat;            (* total_features: Option<u32> *)
  old_total : option nat;        (* old_total_features *)
  old : option live;             (* old_state: Option<Box<Ddnnf>> *)
}.

Definition set_old (c : cache) (o : option live) : cache :=
  mkCache (cclauses c) (edit_add c) (edit_rmv c) (total c) (old_total c) o.

(* ClauseCache::default() + initialize *)
Definition initialize (cs : clause_set) (n : nat) : cache :=
  mkCache cs [] [] (Some n) (Some n) None.

(* for clause in rmv { if !self.clauses.remove(clause) { rollback; return false } } *)
Fixpoint remove_all (rmv : list clause) (s : clause_set) : option clause_set :=
  match rmv with
  | [] => Some s
  | c :: r => let '(s', ok) := cs_remove c s in if ok then remove_all r s' else None
  end.
(* for clause in add { if self.clauses.insert(clause.clone()) { added.push(clause) } } *)
Fixpoint insert_all (add : list clause) (s : clause_set) : clause_set * list clause :=
  match add with
  | [] => (s, [])
  | c :: r => let '(s1, fresh) := cs_insert c s in
              let '(s2, added) := insert_all r s1 in
              (s2, if fresh then c :: added else added)
  end.

Section Versions.
(* record_all = true: the code before the repair F8 (edit_add := the whole add list);
   record_all = false: HEAD (only the clauses actually inserted are recorded) *)
Variable record_all : bool.
(* does loading the recompiled d-DNNF succeed?  (build_ddnnf panics on the d4 text `f 1 0`
   that d4 emits for an unsatisfiable formula: finding K9) *)
Variable loadable : clause_set -> nat -> bool.

(* fn setup_for_edit(&mut self, add, rmv, total) -> bool ; (self', result) *)
Definition setup_for_edit (c : cache) (add rmv : list clause) (tot : option nat) : cache * bool :=
  match remove_all rmv (cclauses c) with
  | None => (c, false)                      (* self.clauses = old_set_clauses; return false *)
  | Some s1 =>
    let '(s2, added) := insert_all add s1 in
    (mkCache s2 (if record_all then add else added) rmv tot (total c) (old c), true)
  end.

(* setup_for_edit(self.edit_rmv.clone(), self.edit_add.clone(), self.old_total_features) *)
Definition setup_for_undo (c : cache) : cache * bool :=
  setup_for_edit c (edit_rmv c) (edit_add c) (old_total c).

Inductive cc_res := UTrue | UFalse | UPanic.

(* apply_edits_and_replace: edit the set, write it with the new total to a temporary CNF,
   compile + load it into old_state.  A panic while loading leaves the edited cache behind. *)
Definition apply_edits_and_replace (c : cache) (add rmv : list clause) (tot : nat) : cache * cc_res :=
  match total c with
  | None => (c, UFalse)
  | Some _ =>
    let '(c1, ok) := setup_for_edit c add rmv (Some tot) in
    if ok then
      (* write_cnf_to_file(&self.clauses, self.total_features.unwrap(), temp); the unwrap
         cannot fail: setup_for_edit has just stored Some tot *)
      if loadable (cclauses c1) tot then (set_old c1 (Some (cclauses c1, tot)), UTrue)
      else (c1, UPanic)
    else (c1, UFalse)
  end.

(* fn contains_conflicting_clauses(&mut self, total_features) *)
Definition contains_conflicting_clauses (c : cache) (t : nat) : bool :=
  uses_above t (cclauses c).

(* ---- Ddnnf level ---- *)
Record dstate := mkD {
  live_of : live;                 (* nodes / literals / core / number_of_variables *)
  cached : option cache;          (* cached_state *)
}.

(* Ddnnf::swap: exchanges the live fields with old_state's, if there is one *)
Definition do_swap (d : dstate) : dstate :=
  match cached d with
  | Some c => match old c with
              | Some o => mkD o (Some (set_old c (Some (live_of d))))
              | None => d
              end
  | None => d
  end.

(* update_cached_state(Either::Left((add, rmv)), Some(total)) *)
Definition cc_update (d : dstate) (add rmv : list clause) (tot : nat) : dstate * cc_res :=
  match cached d with
  | Some c =>
    let '(c', r) := apply_edits_and_replace c add rmv tot in
    match r with
    | UTrue => (do_swap (mkD (live_of d) (Some c')), UTrue)
    | _ => (mkD (live_of d) (Some c'), r)
    end
  | None => (d, UFalse)
  end.

(* undo_on_cached_state: the result of setup_for_undo is ignored *)
Definition cc_undo (d : dstate) : dstate * bool :=
  match cached d with
  | Some c => (do_swap (mkD (live_of d) (Some (fst (setup_for_undo c)))), true)
  | None => (d, false)
  end.

(* ---- stream level (handle_stream_msg) ---- *)
Inductive cc_err :=
| E3_boundary      (* "E3 error: not all parameters are within the boundary of .." *)
| E4_total         (* "E4 error: \"t\" must be set to a single positive number" *)
| E5_conflict      (* "E5 error: at least one clause is in conflict with the feature reduction.." *)
| E5_update        (* "E5 error: could not update cached state" *)
| E5_no_clauses    (* "E5 error: clauses corresponding to the d-DNNF aren't available.." *)
| E5_no_undo       (* "E5 error: could not perform undo; there does not exist any cached state1" *)
| E5_no_save.      (* "E5 error: cannot save as CNF because clauses are not available" *)

Inductive cc_answer :=
| AOk                              (* "" *)
| AErr (e : cc_err)
| ASaved (text : list string)      (* "" and the lines written to the file *)
| APanic.

(* the total_features local of handle_stream_msg starts as self.number_of_variables *)
Definition live_n (d : dstate) : nat := snd (live_of d).

(* the part of clause-update after the `t` pre-pass: add / rmv are parsed against the boundary
   tot (get_numbers -> check_boundary), then update_cached_state + swap *)
Definition cu_continue (d : dstate) (tot : nat) (add rmv : list (list Z)) : dstate * cc_answer :=
  if uses_above tot (add ++ rmv) then (d, AErr E3_boundary)
  else match cached d with            (* can_save_state *)
       | None => (d, AErr E5_no_clauses)
       | Some _ =>
         let '(d', r) := cc_update d (map mk_clause add) (map mk_clause rmv) tot in
         match r with
         | UTrue => (d', AOk)
         | UFalse => (d', AErr E5_update)
         | UPanic => (d', APanic)
         end
       end.

(* clause-update [t tv] [add ..] [rmv ..]; the literal lists as typed (non-empty, no 0) *)
Definition clause_update (d : dstate) (t : option Z) (add rmv : list (list Z)) : dstate * cc_answer :=
  match t with
  | Some tv =>
    (* since fix 1bbe455 the pre-pass answers E5 when there is no clause cache
       (before: self.cached_state.as_mut().unwrap() panicked) *)
    match cached d with
    | None => (d, AErr E5_no_clauses)
    | Some c =>
      if 0 <? tv then
        if contains_conflicting_clauses c (Z.to_nat tv) then (d, AErr E5_conflict)
        else cu_continue d (Z.to_nat tv) add rmv
      else (d, AErr E4_total)
    end
  | None => cu_continue d (live_n d) add rmv
  end.

Definition undo_update (d : dstate) : dstate * cc_answer :=
  let '(d', ok) := cc_undo d in (d', if ok then AOk else AErr E5_no_undo).

(* save-cnf: write_cnf_to_file(&cached_state.clauses, total_features = number_of_variables, path) *)
Definition save_cnf (d : dstate) : cc_answer :=
  match cached d with
  | None => AErr E5_no_save
  | Some c => ASaved (print_cnf (live_n d) (cclauses c))
  end.

Definition cc_step (d : dstate) (c : cc_cmd) : dstate * cc_answer :=
  match c with
  | CUpdate t add rmv => clause_update d t add rmv
  | CUndo => undo_update d
  | CSave => (d, save_cnf d)
  end.

(* a history; it ends at the first panic (the state after a caught panic is what the panic
   left behind) *)
Fixpoint cc_run (d : dstate) (cs : list cc_cmd) : dstate * list cc_answer :=
  match cs with
  | [] => (d, [])
  | c :: r =>
    let '(d', a) := cc_step d c in
    match a with
    | APanic => (d', [a])
    | _ => let '(d'', l) := cc_run d' r in (d'', a :: l)
    end
  end.

End Versions.

(* ---- loading a CNF ---- *)

(* from_cnf.rs simplify_clauses.  The Rust works on Vec<HashSet<i32>> / HashSet<i32>; its result
   is collected into a BTreeSet<BTreeSet<i32>> by Ddnnf::new, so only the set of sets matters and
   lists stand for the hash sets. *)
Definition tautology (c : list Z) : bool := existsb (fun l => memZ (- l) c) c.

(* one pass of the while loop of apply_decisions over relevant_clauses:
   (reduced_clauses, new_decisions) *)
Fixpoint reduce_round (relevant : list clause) (decisions : list Z) : list clause * list Z :=
  match relevant with
  | [] => ([], [])
  | c :: r =>
    let '(red, newd) := reduce_round r decisions in
    if existsb (fun v => memZ v decisions) c then (red, newd)       (* already satisfied *)
    else
      let c' := filter (fun v => negb (memZ (- v) decisions)) c in    (* clause.retain(..) *)
      match c' with
      | [] => (red, newd)                                             (* dropped *)
      | [u] => (c' :: red, u :: newd)
      | _ => (c' :: red, newd)
      end
  end.

Fixpoint apply_decisions (fuel : nat) (relevant : list clause) (acc decisions : list Z)
  : list clause * list Z :=
  match decisions with
  | [] => (relevant, acc)
  | _ =>
    match fuel with
    | O => (relevant, acc ++ decisions)
    | S k => let '(red, newd) := reduce_round relevant decisions in
             apply_decisions k red (acc ++ decisions) newd
    end
  end.

Definition units_of (cs : list clause) : list Z :=
  flat_map (fun c => match c with [u] => [u] | _ => [] end) cs.

(* every round with new decisions drops at least the clauses that produced them *)
Definition simplify_clauses (raw : list (list Z)) : list clause :=
  let cs := filter (fun c => negb (tautology c)) (map mk_clause raw) in
  let dec := units_of cs in
  let '(rel, acc) := apply_decisions (S (List.length cs)) cs [] dec in
  rel ++ map (fun d => [d]) acc.

(* the clause set Ddnnf::new stores: cnf_clauses (simplified) collected into the BTreeSet *)
Definition stored_set (raw : list (list Z)) : clause_set :=
  cs_of_list (map mk_clause (simplify_clauses raw)).

(* build_ddnnf on a .cnf file with header n and clause lines raw: the model is compiled from the
   file as written and Ddnnf::new attaches the clause cache, initialised with the stored set, to
   EVERY model built from a CNF file - also when the stored set is empty (a CNF without clauses or
   with tautologies only): `if ddnnf.inter_graph.from_cnf || !clauses.is_empty()`, repair F9.
   None = loading panics *)
Definition load_cnf (loadable : clause_set -> nat -> bool)
           (raw : list (list Z)) (n : nat) : option dstate :=
  if loadable raw n then Some (mkD (raw, n) (Some (initialize (stored_set raw) n))) else None.

(* Ddnnf::new BEFORE repair F9: `if !clauses.is_empty()` - no cache for an empty stored set
   (finding K14); kept only as the subject of C12_refuted_empty_cnf_v0 *)
Definition load_cnf_v0 (loadable : clause_set -> nat -> bool)
           (raw : list (list Z)) (n : nat) : option dstate :=
  if loadable raw n then
    Some (mkD (raw, n)
              (match stored_set raw with
               | [] => None
               | cs => Some (initialize cs n)
               end))
  else None.

(* the two versions *)
Definition step_fixed := cc_step false.
Definition step_v0 := cc_step true.
Definition run_fixed := cc_run false.
Definition run_v0 := cc_run true.
Definition setup_for_edit_v0 := setup_for_edit true.
