(* C09 oracle: the executable RESULT CHECKER for a t-wise sample.  It is independent of the
   sampling algorithm: only the truth table `Models` of the dumped circuit is used.
   `twise_ok C n t S` = every configuration of S is a member of Models C n (i.e. a complete
   configuration [+-1; +-2; ...; +-n] in feature order that satisfies the formula) and every
   set of min t n literals over distinct features that some model contains is contained in some
   configuration of S.  Soundness and completeness against the semantic statement:
   Proofs/TwiseOkProof.v twise_ok_sound_complete. *)
From Coq Require Import List ZArith Bool.
From DD Require Import Model.Circuit.
Import ListNotations.
Open Scope Z_scope.

Fixpoint cfg_eqb (a b : cfg) : bool :=
  match a, b with
  | [], [] => true
  | x :: a', y :: b' => (x =? y) && cfg_eqb a' b'
  | _, _ => false
  end.

Definition is_model (Ms : list cfg) (c : cfg) : bool := existsb (cfg_eqb c) Ms.

(* all choices of t of the features vs (in the order of vs), each with either sign *)
Fixpoint ints_over (vs : list Z) (t : nat) : list cfg :=
  match vs with
  | [] => match t with O => [[]] | S _ => [] end
  | v :: vs' =>
    match t with
    | O => [[]]
    | S t' =>
      map (cons v) (ints_over vs' t') ++ map (cons (- v)) (ints_over vs' t') ++ ints_over vs' (S t')
    end
  end.

Definition twise_ok_models (Ms : list cfg) (n t : nat) (S : list cfg) : bool :=
  forallb (is_model Ms) S &&
  forallb (fun I => negb (existsb (contains_all I) Ms) || existsb (contains_all I) S)
          (ints_over (zseq 1 n) (Nat.min t n)).

Definition twise_ok (C : circuit) (n t : nat) (S : list cfg) : bool :=
  twise_ok_models (Models C n) n t S.

(* the semantic notion: a set of min t n literals over distinct features of 1..n that is contained
   in at least one model (any order of the literals) *)
Definition valid_interaction (C : circuit) (n t : nat) (I : cfg) : Prop :=
  NoDup (map Z.abs I) /\
  (forall l, In l I -> 1 <= Z.abs l <= Z.of_nat n) /\
  length I = Nat.min t n /\
  exists m, In m (Models C n) /\ incl I m.

(* first uncovered valid interaction, for the checker's message *)
Definition twise_first_uncovered (C : circuit) (n t : nat) (S : list cfg) : option cfg :=
  let Ms := Models C n in
  find (fun I => existsb (contains_all I) Ms && negb (existsb (contains_all I) S))
       (ints_over (zseq 1 n) (Nat.min t n)).
