(* Spec for C12: the abstract clause-set machine of the property text, the DIMACS text of a
   clause set and the truth-table semantics of a CNF.  Nothing here follows the Rust algorithms:
   the clause set is an unordered list used as a finite set, an update is
   (set \ rmv) ++ add, undo swaps current and previous.  Executable definitions only. *)
From Coq Require Export List ZArith Bool String.
From Coq Require Import DecimalString.
From DD Require Import Model.Circuit.
Export ListNotations.
Open Scope Z_scope.

(* ---- clauses: finite sets of literals, represented as strictly ascending lists of Z
        (this is also what BTreeSet<i32> iterates) ---- *)
Notation clause := (list Z).

Fixpoint zinsert (x : Z) (l : list Z) : list Z :=
  match l with
  | [] => [x]
  | y :: r => if x <? y then x :: l else if x =? y then l else y :: zinsert x r
  end.
(* the set of the literals of a typed clause:  numbers.into_iter().collect::<BTreeSet<i32>>() *)
Definition mk_clause (lits : list Z) : clause := fold_left (fun acc x => zinsert x acc) lits [].

(* the order of BTreeSet<BTreeSet<i32>>: lexicographic on the ascending literal sequences,
   a proper prefix first *)
Fixpoint clause_cmp (a b : clause) : comparison :=
  match a, b with
  | [], [] => Eq
  | [], _ :: _ => Lt
  | _ :: _, [] => Gt
  | x :: a', y :: b' => match x ?= y with Eq => clause_cmp a' b' | c => c end
  end.
Definition clause_eqb (a b : clause) : bool :=
  match clause_cmp a b with Eq => true | _ => false end.
Definition mem_clause (c : clause) (s : list clause) : bool := existsb (clause_eqb c) s.

(* ---- truth-table semantics of a clause list over the features 1..n ---- *)
Definition clause_holds (s : asg) (c : clause) : bool := existsb (lit_true s) c.
Definition cs_sat (s : asg) (cs : list clause) : bool := forallb (clause_holds s) cs.
Definition cs_models (cs : list clause) (n : nat) : list cfg :=
  filter (fun m => cs_sat (asg_of m) cs) (all_cfgs n).
Definition cnf_satisfiable (cs : list clause) (n : nat) : bool :=
  match cs_models cs n with [] => false | _ => true end.
(* number of models that contain all literals of A: what `count a A` has to answer *)
Definition cnf_count (cs : list clause) (n : nat) (A : cfg) : Z :=
  Z.of_nat (List.length (filter (contains_all A) (cs_models cs n))).

(* ---- the text write_cnf_to_file prints (persisting.rs) ---- *)
Definition dec_of_nat (n : nat) : string := NilEmpty.string_of_uint (Nat.to_uint n).
Definition dec_of_Z (z : Z) : string := NilEmpty.string_of_int (Z.to_int z).
Definition clause_line (c : clause) : string :=
  (String.concat " " (map dec_of_Z c) ++ " 0")%string.
Definition header_line (n k : nat) : string :=
  ("p cnf " ++ dec_of_nat n ++ " " ++ dec_of_nat k)%string.
(* the clause lines in the order given *)
Definition print_cnf (n : nat) (cs : list clause) : list string :=
  header_line n (List.length cs) :: map clause_line cs.

(* canonical listing of a finite set of clauses: ascending in clause_cmp, no repetition
   (insertion sort) *)
Fixpoint canon_insert (c : clause) (s : list clause) : list clause :=
  match s with
  | [] => [c]
  | d :: r => match clause_cmp c d with
              | Lt => c :: s
              | Eq => s
              | Gt => d :: canon_insert c r
              end
  end.
Definition canon_set (s : list clause) : list clause := fold_right canon_insert [] s.

(* ---- the abstract machine ---- *)
Record mstate := mkM {
  m_cs : list clause;                       (* current clause set (as a finite set) *)
  m_n : nat;                                (* current feature count *)
  m_prev : option (list clause * nat);      (* the state before the latest accepted update *)
}.
Definition m_init (cs : list clause) (n : nat) : mstate := mkM cs n None.

(* some literal of some clause mentions a variable above t *)
Definition uses_above (t : nat) (s : list (list Z)) : bool :=
  existsb (existsb (fun l => Z.of_nat t <? Z.abs l)) s.
Fixpoint nodup_clauses (l : list clause) : bool :=
  match l with [] => true | c :: r => negb (mem_clause c r) && nodup_clauses r end.

(* the feature count an update asks for: `t N` if given, else unchanged *)
Definition m_target (m : mstate) (t : option Z) : nat :=
  match t with Some tv => Z.to_nat tv | None => m_n m end.

(* An update is accepted iff
   - a given t is positive and not below a variable used by the CURRENT clause set,
   - every typed clause stays within the requested feature count,
   - the removed clauses are distinct members of the current set. *)
Definition m_accepts (m : mstate) (t : option Z) (add rmv : list (list Z)) : bool :=
  match t with
  | Some tv => (0 <? tv) && negb (uses_above (Z.to_nat tv) (m_cs m))
  | None => true
  end
  && negb (uses_above (m_target m t) (add ++ rmv))
  && forallb (fun c => mem_clause c (m_cs m)) (map mk_clause rmv)
  && nodup_clauses (map mk_clause rmv).

Definition m_update (m : mstate) (t : option Z) (add rmv : list (list Z)) : mstate :=
  if m_accepts m t add rmv then
    mkM (filter (fun c => negb (mem_clause c (map mk_clause rmv))) (m_cs m) ++ map mk_clause add)
        (m_target m t)
        (Some (m_cs m, m_n m))
  else m.

Definition m_undo (m : mstate) : mstate :=
  match m_prev m with
  | Some (pcs, pn) => mkM pcs pn (Some (m_cs m, m_n m))
  | None => m
  end.

Definition m_save (m : mstate) : list string := print_cnf (m_n m) (canon_set (m_cs m)).

(* commands of a history *)
Inductive cc_cmd :=
| CUpdate (t : option Z) (add rmv : list (list Z))   (* clause-update [t N] [add c1 0 c2 ..] [rmv ..] *)
| CUndo                                              (* undo-update *)
| CSave.                                             (* save-cnf p <path> *)

Definition m_step (m : mstate) (c : cc_cmd) : mstate :=
  match c with
  | CUpdate t add rmv => m_update m t add rmv
  | CUndo => m_undo m
  | CSave => m
  end.
Definition m_run (m : mstate) (cs : list cc_cmd) : mstate := fold_left m_step cs m.
