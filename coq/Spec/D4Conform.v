(* d4's conventions as a decidable predicate on the token list (spec side, independent of the
   loader model): what C01 means by "a d-DNNF file in d4 format".

   Node i (1-based) = i-th declaration.  The predicate computes five tables by K rounds of local
   updates (K = number of nodes) and then CHECKS local conditions on them; the theorems use only
   the checked conditions (the tables are certificates), never how they were computed.
     H  height (< number of nodes)     every edge goes to a node of smaller height (DAG)
     T  upper bound of the features mentioned below a node
     D  dead: an f node, or an and node with an edge into a dead node (the loader deletes exactly
        these and nodes: delete_parent_and_chain)
     TR becomes a true node: a t node, or an or node with an unlabelled edge into such a node
        (repair F12)
     L  lower bound of the features that stay below a node when dead branches are gone
   Conditions:
     edges join declared nodes; no literal 0;
     or node: either one unlabelled edge and nothing else (d4's root idiom), or every edge
       carries literals and any two edges carry a complementary pair (decision / multiway
       decision; an edge into f needs only the decision literal); unlabelled edges into an f node
       are tolerated besides (they vanish), to pairwise distinct f nodes;
     every edge: its literals are over pairwise distinct features, none of which is mentioned
       below the target (the And that replaces the edge is decomposable);
     and node: the edges (literals + what is below the target) are over pairwise disjoint feature
       sets;
     every mentioned feature stays mentioned below node 1 when the dead branches are removed
       (otherwise the loader neither treats it as free nor keeps it: C01_d4_loader_wf_refuted). *)
From Coq Require Import List ZArith Bool Arith.
From DD Require Import Model.Circuit Model.LexerD4 Spec.D4Sem.
Import ListNotations.
Local Open Scope nat_scope.

Definition memn (x : nat) (l : list nat) : bool := existsb (Nat.eqb x) l.
Definition incln (a b : list nat) : bool := forallb (fun x => memn x b) a.
Definition disjn (a b : list nat) : bool := forallb (fun x => negb (memn x b)) a.
Fixpoint nodupn (l : list nat) : bool :=
  match l with [] => true | x :: r => negb (memn x r) && nodupn r end.
Fixpoint addn (a b : list nat) : list nat :=       (* b plus the elements of a it lacks *)
  match a with
  | [] => b
  | x :: r => if memn x b then addn r b else addn r (x :: b)
  end.
Fixpoint pairwiseb {A} (p : A -> A -> bool) (l : list A) : bool :=
  match l with [] => true | x :: r => forallb (p x) r && pairwiseb p r end.

Definition lit_vars (ls : list Z) : list nat := map Z.abs_nat ls.
Definition get {A} (tbl : list A) (i : nat) (d : A) : A := nth (i - 1) tbl d.

Fixpoint iter {A} (k : nat) (f : A -> A) (x : A) : A :=
  match k with O => x | S k' => iter k' f (f x) end.

Section Tables.
Variable toks : list d4token.

Definition nk : nat := length (d4_decls toks).
Definition kind (i : nat) : option d4kind := nth_error (d4_decls toks) (i - 1).
Definition edges (i : nat) : list (list Z * nat) := d4_edges_from toks i.
Definition nodes : list nat := seq 1 nk.

Definition is_kind (i : nat) (k : d4kind) : bool :=
  match kind i, k with
  | Some KOr, KOr | Some KAnd, KAnd | Some KTrue, KTrue | Some KFalse, KFalse => true
  | _, _ => false
  end.

(* ---- one round of each table ---- *)
Definition stepH (H : list nat) (i : nat) : nat :=
  fold_right Nat.max 0 (map (fun e => S (get H (snd e) 0)) (edges i)).
Definition stepT (T : list (list nat)) (i : nat) : list nat :=
  fold_right (fun e acc => addn (lit_vars (fst e)) (addn (get T (snd e) []) acc)) [] (edges i).
Definition stepD (D : list bool) (i : nat) : bool :=
  is_kind i KFalse || (is_kind i KAnd && existsb (fun e => get D (snd e) false) (edges i)).
Definition stepTR (R : list bool) (i : nat) : bool :=
  is_kind i KTrue ||
  (is_kind i KOr && existsb (fun e => match fst e with [] => get R (snd e) false | _ => false end) (edges i)).
Definition stepL (D R : list bool) (L : list (list nat)) (i : nat) : list nat :=
  if get D i false || get R i false then []
  else if is_kind i KAnd || is_kind i KOr then
    fold_right (fun e acc =>
      if get D (snd e) false then acc
      else addn (lit_vars (fst e)) (addn (get L (snd e) []) acc)) [] (edges i)
  else [].

Definition round {A} (step : list A -> nat -> A) (tbl : list A) : list A := map (step tbl) nodes.

Definition tabH : list nat := iter (S nk) (round stepH) (repeat 0 nk).
Definition tabT : list (list nat) := iter nk (round stepT) (repeat [] nk).
Definition tabD : list bool := iter nk (round stepD) (repeat false nk).
Definition tabR : list bool := iter nk (round stepTR) (repeat false nk).
Definition tabL : list (list nat) := iter nk (round (stepL tabD tabR)) (repeat [] nk).

(* ---- the local conditions ---- *)
Definition all_mentioned : list nat :=
  fold_right (fun t acc => match t with DEdge _ _ fs => addn (lit_vars fs) acc | _ => acc end) [] toks.

Definition edge_in_range (t : d4token) : bool :=
  match t with
  | DEdge from to fs =>
    (0 <? from)%Z && (Z.to_nat from <=? nk) && (0 <? to)%Z && (Z.to_nat to <=? nk)
    && forallb (fun l => negb (l =? 0)%Z) fs
  | _ => true
  end.

Definition conflict (a b : list Z) : bool := existsb (fun l => existsb (Z.eqb (- l)) b) a.

Definition or_ok (i : nat) : bool :=
  match edges i with
  | [([], _)] => true                                         (* root idiom *)
  | es =>
    let es' := filter (fun e => negb (match fst e with [] => is_kind (snd e) KFalse | _ => false end)) es in
    forallb (fun e => match fst e with [] => false | _ => true end) es'
    && pairwiseb (fun a b => conflict (fst a) (fst b)) es'
    && nodupn (map snd (filter (fun e => match fst e with [] => true | _ => false end) es))
  end.

Definition edge_ok (T : list (list nat)) (e : list Z * nat) : bool :=
  nodupn (lit_vars (fst e)) && disjn (lit_vars (fst e)) (get T (snd e) []).

Definition edge_set (T : list (list nat)) (e : list Z * nat) : list nat :=
  lit_vars (fst e) ++ get T (snd e) [].

Definition and_ok (T : list (list nat)) (i : nat) : bool :=
  pairwiseb (fun a b => disjn (edge_set T a) (edge_set T b)) (edges i).

Definition node_ok (H : list nat) (T : list (list nat)) (D R : list bool) (L : list (list nat))
  (i : nat) : bool :=
  (get H i 0 <? nk) &&
  forallb (fun e => (get H (snd e) 0 <? get H i 0)
                    && incln (lit_vars (fst e)) (get T i []) && incln (get T (snd e) []) (get T i [])
                    && edge_ok T e) (edges i)
  && Bool.eqb (get D i false) (stepD D i)
  && Bool.eqb (get R i false) (stepTR R i)
  && incln (get L i []) (stepL D R L i)
  && (if is_kind i KOr then or_ok i else true)
  && (if is_kind i KAnd then and_ok T i else true)
  && (if is_kind i KTrue || is_kind i KFalse then match edges i with [] => true | _ => false end else true).

Definition d4_conform_tables (H : list nat) (T : list (list nat)) (D R : list bool)
  (L : list (list nat)) : bool :=
  (1 <=? nk) && forallb edge_in_range toks && forallb (node_ok H T D R L) nodes
  && incln all_mentioned (get L 1 []).

End Tables.

(* `n` (the total_features argument) plays no role: the loader takes max(n, largest mentioned) *)
Definition d4_conform (toks : list d4token) (n : nat) : bool :=
  d4_conform_tables toks (tabH toks) (tabT toks) (tabD toks) (tabR toks) (tabL toks).
