(* File semantics of the d4 format (spec side; independent of the loader model).
   Node i (1-based) is the i-th declaration line - the loader ignores the written id, and so does
   d4's own reader order.  `t`/`f` are constants, an `o` node is true when SOME outgoing edge has
   all its literals true and a true target, an `a` node when ALL its edges do.  A feature that
   no literal mentions does not constrain the assignment.  The value of the file is the value of
   node 1.  Evaluation is fuelled and not short-circuit, so that running out of fuel does not
   depend on the assignment; a DAG with k nodes needs fuel at most k. *)
From Coq Require Import List ZArith Bool Arith.
From DD Require Import Model.Circuit Model.LexerD4.
Import ListNotations.
Local Open Scope nat_scope.

Inductive d4kind := KOr | KAnd | KTrue | KFalse.

Definition d4_kind (t : d4token) : list d4kind :=
  match t with
  | DOr => [KOr] | DAnd => [KAnd] | DTrue => [KTrue] | DFalse => [KFalse]
  | DEdge _ _ _ => []
  end.
Definition d4_decls (toks : list d4token) : list d4kind := flat_map d4_kind toks.

(* the edges leaving node i, in file order: (literals, target) *)
Definition d4_edge_of (i : nat) (t : d4token) : list (list Z * nat) :=
  match t with
  | DEdge from to fs => if Z.eqb from (Z.of_nat i) then [(fs, Z.to_nat to)] else []
  | _ => []
  end.
Definition d4_edges_from (toks : list d4token) (i : nat) : list (list Z * nat) :=
  flat_map (d4_edge_of i) toks.

Fixpoint opt_all {A B} (f : A -> option B) (l : list A) : option (list B) :=
  match l with
  | [] => Some []
  | x :: r =>
    match f x, opt_all f r with
    | Some y, Some ys => Some (y :: ys)
    | _, _ => None
    end
  end.

Fixpoint eval_d4_opt (fuel : nat) (toks : list d4token) (s : asg) (i : nat) : option bool :=
  match fuel with
  | O => None
  | S f =>
    match i with
    | O => None
    | S i' =>
      let edge e := option_map (fun b => forallb (lit_true s) (fst e) && b) (eval_d4_opt f toks s (snd e)) in
      match nth_error (d4_decls toks) i' with
      | None => None
      | Some KTrue => Some true
      | Some KFalse => Some false
      | Some KOr => option_map (existsb id) (opt_all edge (d4_edges_from toks i))
      | Some KAnd => option_map (forallb id) (opt_all edge (d4_edges_from toks i))
      end
    end
  end.

Definition d4_fuel (toks : list d4token) : nat := S (length toks).

Definition eval_d4 (toks : list d4token) (s : asg) : bool :=
  match eval_d4_opt (d4_fuel toks) toks s 1 with Some b => b | None => false end.

(* truth table of the file's function over features 1..n *)
Definition d4_models (toks : list d4token) (n : nat) : list cfg :=
  filter (fun m => eval_d4 toks (asg_of m)) (all_cfgs n).

(* largest feature an edge mentions *)
Definition d4_token_max (t : d4token) : nat :=
  match t with DEdge _ _ fs => fold_right Nat.max 0 (map Z.abs_nat fs) | _ => 0 end.
Definition d4_maxvar (toks : list d4token) : nat := fold_right Nat.max 0 (map d4_token_max toks).

(* well-formedness needed for the semantics theorem: no literal 0, and the part of the file
   below node 1 is a DAG (the evaluation does not run out of fuel).  Declarations before use,
   edge indices within range and "node 1 exists" need not be assumed: the loader panics
   otherwise, and the theorem speaks about files that load. *)
Definition d4_lits_nonzero (toks : list d4token) : Prop :=
  forall from to fs, In (DEdge from to fs) toks -> Forall (fun l => l <> 0%Z) fs.
Definition d4_terminates (toks : list d4token) : Prop :=
  exists b, eval_d4_opt (d4_fuel toks) toks (fun _ => true) 1 = Some b.
Definition d4_ok (toks : list d4token) : Prop := d4_lits_nonzero toks /\ d4_terminates toks.
