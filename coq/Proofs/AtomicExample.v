(* C08 non-vacuity: a concrete circuit (x1 <-> x2, x3 free), a concrete choice stream for the
   internal 512-sample call, and the hypotheses of the C08 theorems checked on them. *)
From Coq Require Import List ZArith Bool Lia.
From DD Require Import Model.Circuit Model.Query Model.Enumerate Model.Atomic
  Proofs.Semantics Proofs.CountsA Proofs.QueryDefs Proofs.AtomicMain Proofs.AtomicFinal.
Import ListNotations.
Open Scope Z_scope.

Definition ex_c08 : circuit :=
  [Lit 1; Lit (-1); Lit 2; Lit (-2); And [0;2]%nat; And [1;3]%nat; Or [4;5]%nat;
   Lit 3; Lit (-3); Or [7;8]%nat; And [6;9]%nat].

(* the choices of one run of sample_node 512 on ex_c08: splits 200/312 and 500/12, shuffles that
   reverse the list or leave it as it is *)
Definition ex_c08_choices : list choice :=
  [Split [200; 312];
   Perm (rev (seq 0 200)); Perm (seq 0 200); Perm (seq 0 312); Perm (rev (seq 0 312));
   Perm (rev (seq 0 512)); Perm (seq 0 512);
   Split [500; 12]; Perm (rev (seq 0 512)); Perm (seq 0 512)].

Lemma cfg_eqb_eq (a b : cfg) : cfg_eqb a b = true -> a = b.
Proof.
  revert b. induction a as [|x a IH]; intros [|y b]; cbn [cfg_eqb]; try discriminate; [reflexivity|].
  intros H. apply andb_true_iff in H. destruct H as [H1 H2]. apply Z.eqb_eq in H1. subst y.
  f_equal. now apply IH.
Qed.

Lemma all_in_by_bool (M L : list cfg) :
  forallb (fun m => existsb (cfg_eqb m) M) L = true -> Forall (fun m => In m M) L.
Proof.
  intros H. rewrite forallb_forall in H. apply Forall_forall. intros m Hm.
  specialize (H m Hm). apply existsb_exists in H. destruct H as [m' [Hm' E]].
  apply cfg_eqb_eq in E. now subst m'.
Qed.

Lemma all_false_repeat (ms : list bool) (k : nat) :
  Forall (fun b => b = false) ms -> length ms = k -> ms = repeat false k.
Proof.
  intros H <-. induction H as [|b ms Hb _ IH]; [reflexivity|]. cbn. now rewrite Hb, <- IH.
Qed.

Lemma ex_c08_samples_valid : samples_valid ex_c08 3 [] ex_c08_choices.
Proof.
  intros s Hcl. destruct Hcl as [H1 H2 H3 H4 H5]. destruct s as [t m p md]. cbn [temps marks pds mdl] in *.
  subst md. rewrite (all_false_repeat m _ H4 H2).
  unfold uniform_random_sampling, preprocess. cbn [existsb fold_left].
  cbn [execute_query]. replace (0 <? rc (build ex_c08 3)) with true by (vm_compute; reflexivity).
  cbn [temps].
  match goal with |- context [sample_node ?d ?ts ?f ?k ?i ?c] =>
    set (r := sample_node d ts f k i c) end.
  assert (E : exists l, r = (l, [], true) /\ length l = SAMPLE_AMOUNT /\
                        forallb (fun m => existsb (cfg_eqb m) (ModelsA ex_c08 3 [])) (map sort_abs l) = true).
  { eexists. split; [vm_compute; reflexivity|]. split; vm_compute; reflexivity. }
  destruct E as [l [-> [E1 E2]]]. split; [now rewrite map_length|now apply all_in_by_bool].
Qed.

Lemma ex_c08_hyps :
  WFQ ex_c08 3 /\ in_range 3 [] /\ 0 < MCA ex_c08 3 [] /\ Z.of_nat 3 <= 32767 /\
  cands_ok 3 None /\ cands_ok 3 (Some [3; 1; 2]) /\
  samples_valid ex_c08 3 [] ex_c08_choices /\ Clean ex_c08 (fresh_scratch ex_c08).
Proof.
  split; [apply check_wf_WFQ; vm_compute; reflexivity|]. split; [intros l []|].
  split; [vm_compute; reflexivity|]. split; [cbn; lia|]. split; [exact I|]. split.
  { split; [repeat constructor; cbn; intuition lia|]. intros f [<-|[<-|[<-|[]]]]; cbn; lia. }
  split; [exact ex_c08_samples_valid|apply fresh_clean].
Qed.

(* what the model answers on the example (plain and cross), and the specification *)
Lemma ex_c08_values :
  snd (fst (get_atomic_sets (build ex_c08 3) None [] false ex_c08_choices (fresh_scratch ex_c08)))
    = Some [[1; 2]] /\
  snd (fst (get_atomic_sets (build ex_c08 3) (Some [3; 1; 2]) [] true ex_c08_choices (fresh_scratch ex_c08)))
    = Some [[-1; -2]] /\
  classes_spec (eqvb ex_c08 3 []) [1; 2; 3] = [[1; 2]] /\
  cross_spec (eqvb ex_c08 3 []) [3; 1; 2] = [[-1; -2]].
Proof. repeat split; vm_compute; reflexivity. Qed.
