(* A conforming d4 file (Spec/D4Conform.v) that loads gives a vector accepted by check_wf:
   the pipeline with all structural facts, and the conjuncts of check_wf one by one. *)
From Coq Require Import List ZArith Bool Lia Arith.
From DD Require Import Model.Circuit Model.LexerD4 Model.LoadC2d Model.LoadD4 Spec.D4Sem Spec.D4Conform
  Proofs.PassLemmas Proofs.Renum Proofs.LoadD4Graph Proofs.LoadD4Ops Proofs.LoadD4Fold Proofs.LoadD4Flat Proofs.LoadD4Iso
  Proofs.LoadD4Pass2 Proofs.LoadD4Pass2S Proofs.LoadD4Struct Proofs.LoadD4Pass3 Proofs.LoadD4Free
  Proofs.LoadD4Parse Proofs.LoadD4Sem Proofs.LoadD4Conf Proofs.LoadD4Det Proofs.LoadD4Vars Proofs.LoadD4Dec Proofs.LoadD4Smooth Proofs.LoadD4Complete.
Import ListNotations.
Local Open Scope nat_scope.

(* what is known about every literal leaf: not 0, within the feature range *)
Definition litP (N : nat) (l : Z) : Prop := l <> 0%Z /\ Z.abs_nat l <= N.
Lemma litP_nz N l : litP N l -> l <> 0%Z.
Proof. now intros [H _]. Qed.
Lemma litP_sym N l : litP N l -> litP N (- l)%Z.
Proof. unfold litP. lia. Qed.

Lemma gval_GDef g s : forall f x b, gval f g s x = Some b -> gfold hunit f g x = Some tt.
Proof.
  induction f as [|f IH]; intros x b H; [discriminate|]. cbn [gval gfold] in *.
  destruct (sg_label g x) as [[l| | | |]|]; cbn [is_gate]; try reflexivity; try discriminate.
  - destruct (map_opt (gval f g s) (sg_out g x)) as [bs|] eqn:E; [|discriminate].
    apply map_opt_Forall2_iff in E.
    assert (E' : map_opt (gfold hunit f g) (sg_out g x) = Some (map (fun _ => tt) bs)).
    { apply map_opt_Forall2_iff. clear H. induction E as [|c bc l bs Hc _ IHE]; cbn [map]; constructor; eauto. }
    now rewrite E'.
  - destruct (map_opt (gval f g s) (sg_out g x)) as [bs|] eqn:E; [|discriminate].
    apply map_opt_Forall2_iff in E.
    assert (E' : map_opt (gfold hunit f g) (sg_out g x) = Some (map (fun _ => tt) bs)).
    { apply map_opt_Forall2_iff. clear H. induction E as [|c bc l bs Hc _ IHE]; cbn [map]; constructor; eauto. }
    now rewrite E'.
Qed.

Lemma GV_GDef g s x b : GV g s x b -> GDef g x.
Proof. intros [f Hf]. exists f. exact (gval_GDef g s f x b Hf). Qed.

Section Pipeline.
Variables (rc : bool) (ord : list nat -> list nat).
Hypothesis Hperm : forall l f, In f (ord l) <-> In f l.
Hypothesis Hndp : forall l, NoDup l -> NoDup (ord l).
Let Hord : forall l f, In f (ord l) -> In f l := fun l f => proj1 (Hperm l f).
Variables (toks : list d4token) (n0 : nat) (C : circuit) (n' : nat).
Hypothesis Hconf : d4_conform toks n0 = true.
Hypothesis Hload : load_d4_gen rc ord toks n0 = Some (C, n').

Definition NN : nat := Nat.max n0 (d4_maxvar toks).
Notation P := (litP NN).

(* everything the conjuncts need about the run of the loader *)
Record run_facts (b : bstate) (root1 : nat) (s1 : lstate) (g2 : sgraph) (s3 : lstate)
  (order : list nat) : Prop := {
  rf_n : n' = NN;
  rf_rep : rep P true n0 toks b;
  rf_free : free_result (bs_ls b) root1 s1;
  rf_prov1 : lprov (bs_ls b) s1 [root1];
  rf_alive0 : sg_alive (ls_g (bs_ls b)) 0 = true;
  rf_feats : free_feats (bs_occ b) (seq 1 NN) root1 s1;
  rf_root0 : root1 = 0 -> forall f, In f (seq 1 NN) -> mem f (bs_occ b) = true;
  rf_ok1 : tables_ok P true s1;
  rf_pass2 : pass2 (ls_g s1) root1 = Some g2;
  rf_step2 : step_ok (ls_g s1) g2;
  rf_ok2 : tables_ok P true (with_g s1 g2);
  rf_root2 : sg_alive g2 root1 = true;
  rf_pass3 : pass3 rc ord (with_g s1 g2) root1 = Some s3;
  rf_ok3 : tables_ok P true s3;
  rf_grow : grow g2 (ls_g s3);
  rf_iso : iso (ls_g s3) root1 order C
}.

Lemma seq_le n : Forall (fun f => 1 <= f /\ @PF (litP n) f) (seq 1 n).
Proof. apply Forall_forall. intros f Hf. apply in_seq in Hf. unfold PF, litP. lia. Qed.

Theorem run : exists b root1 s1 g2 s3 order, run_facts b root1 s1 g2 s3 order.
Proof.
  destruct (load_stages rc ord toks n0 C n' Hload) as [b [root1 [s1 [g2 [s3 [order [El [H0 [Efree [E2 [E3 [Hroot [Ed [Ef En]]]]]]]]]]]]]].
  exists b, root1, s1, g2, s3, order.
  pose proof (cf_d4_ok toks n0 Hconf) as [Hnz [b0 Hterm]].
  assert (HR : rep P true n0 toks b).
  { apply (rep_lines (P := P) (st := true) rc toks n0 toks [] _ b (rep_init n0) eq_refl); [|exact El].
    intros from to fs Hin. split.
    - apply Forall_forall. intros l Hl. split.
      + pose proof (Hnz from to fs Hin) as Hf. rewrite Forall_forall in Hf. now apply Hf.
      + pose proof (lit_le_maxvar toks from to fs l Hin Hl). unfold NN. lia.
    - intros _. exact (cf_gate_kind toks n0 Hconf from to fs Hin). }
  assert (Htot : bs_total b = NN) by exact (rp_total _ _ _ _ _ HR).
  assert (Hok0 : tables_ok P true (bs_ls b)).
  { split; [exact (rp_core _ _ _ _ _ HR)|]. intros f o Hfo. rewrite (rp_tri _ _ _ _ _ HR) in Hfo. discriminate. }
  rewrite Htot in Efree.
  destruct (add_free_spec rc _ _ _ _ _ Hok0 H0 (seq_le NN) Efree) as [Hok1 [Hfree [Hprov1 [_ Hff]]]].
  pose proof (pass2_struct _ _ _ (co_inv _ _ _ (proj1 Hok1)) (co_src _ _ _ (proj1 Hok1) eq_refl) E2) as Hst2.
  pose proof (tables_ok_shrink _ _ s1 g2 Hok1 (so_inv _ _ Hst2) (fun _ => so_src _ _ Hst2) (so_sh _ _ Hst2)) as Hok2.
  assert (Hr2 : sg_alive g2 root1 = true).
  { pose proof E3 as E3'. unfold pass3 in E3'. cbn [with_g ls_g] in E3'.
    destruct (get_literal_diffs g2 root1) as [m|] eqn:Em; [|discriminate].
    exact (get_literal_diffs_root g2 root1 m (so_inv _ _ Hst2) Em). }
  destruct (pass3_grow rc ord Hord (P := P) (st := true) (litP_nz NN) (litP_sym NN) _ _ _ Hok2 E3) as [Hok3 Hg3].
  cbn [with_g ls_g] in Hg3.
  (* the root has a value, hence rebuild is an isomorphism *)
  set (a0 := fun _ : Z => true).
  destruct (rep_sem _ _ n0 toks b a0 HR _ _ _ Hterm) as [x [_ [Hx Hv0]]]. cbn [Nat.sub] in Hx.
  rewrite (rp_first _ _ _ _ _ HR x Hx) in Hv0.
  pose proof (free_result_val _ _ _ a0 b0 Hfree Hv0) as Hv1.
  pose proof (sh_val _ _ (so_sh _ _ Hst2) a0 root1 b0 Hr2 Hv1) as Hv2.
  pose proof (gr_val _ _ Hg3 a0 root1 b0 Hv2) as Hv3.
  pose proof (rebuild_iso (ls_g s3) root1 order C (co_inv _ _ _ (proj1 Hok3)) (co_src _ _ _ (proj1 Hok3) eq_refl)
                (GV_GDef _ _ _ _ Hv3) Ed Ef) as Hiso.
  constructor; auto; [now rewrite En|].
  intros E f Hf. subst root1.
  exact (add_free_root0 rc (bs_occ b) (seq 1 NN) (bs_ls b) s1 (co_inv _ _ _ (proj1 Hok0)) H0 Efree f Hf).
Qed.

(* ---------- the easy conjuncts ---------- *)
Section Conjuncts.
Variables (b : bstate) (root1 : nat) (s1 : lstate) (g2 : sgraph) (s3 : lstate) (order : list nat).
Hypothesis RF : run_facts b root1 s1 g2 s3 order.
Let g3 := ls_g s3.
Let HI := rf_iso _ _ _ _ _ _ RF.

Lemma wf_nonempty : negb (Nat.eqb (length C) 0) = true.
Proof.
  pose proof (iso_nonempty _ _ _ _ HI) as H. destruct (length C) eqn:E; [|reflexivity].
  apply length_zero_iff_nil in E. contradiction.
Qed.

Lemma wf_idx_ok : idx_ok C = true.
Proof. exact (iso_idx_ok _ _ _ _ HI). Qed.

Lemma wf_all_reachable : all_reachable C = true.
Proof. exact (iso_all_reachable _ _ _ _ HI). Qed.

(* a literal of the vector labels the emitted node at that position *)
Lemma lit_at j l : j < length C -> nth j C FalseN = Lit l -> sg_label g3 (nth j order 0) = Some (GLit l).
Proof.
  intros Hj E. destruct (is_node _ _ _ _ HI j Hj) as [t [cs [Hl [E' _]]]]. fold g3 in Hl.
  rewrite E in E'. destruct t; cbn [flat_node] in E'; try discriminate. now injection E' as <-.
Qed.

Lemma lits_of_In (D : circuit) l : In l (lits_of D) -> exists j, j < length D /\ nth j D FalseN = Lit l.
Proof.
  unfold lits_of. rewrite in_flat_map. intros [nd [Hnd Hl]].
  destruct nd as [l'|cs|cs| |]; try (destruct Hl; fail). destruct Hl as [<-|[]].
  destruct (In_nth _ _ FalseN Hnd) as [j [Hj Ej]]. now exists j.
Qed.

Lemma wf_lits_nonzero : lits_nonzero C = true.
Proof.
  unfold lits_nonzero. apply forallb_forall. intros l Hl.
  destruct (lits_of_In C l Hl) as [j [Hj Ej]].
  pose proof (co_pos _ _ _ (proj1 (rf_ok3 _ _ _ _ _ _ RF)) _ l (lit_at j l Hj Ej)) as [Hnz _].
  apply negb_true_iff, Z.eqb_neq. exact Hnz.
Qed.

Lemma nodupb_NoDup l : NoDup l -> nodupb l = true.
Proof.
  induction 1 as [|x l Hx _ IH]; [reflexivity|]. cbn [nodupb]. rewrite IH, andb_true_r.
  apply negb_true_iff. destruct (memZ x l) eqn:E; [|reflexivity]. exfalso. apply Hx.
  unfold memZ in E. apply existsb_exists in E. destruct E as [y [Hy Ey]]. apply Z.eqb_eq in Ey. now subst.
Qed.

Lemma lits_of_NoDup (D : circuit) :
  (forall i j l, i < length D -> j < length D -> nth i D FalseN = Lit l -> nth j D FalseN = Lit l -> i = j) ->
  NoDup (lits_of D).
Proof.
  induction D as [|nd D IH]; intros H; [constructor|].
  assert (HD : NoDup (lits_of D)).
  { apply IH. intros i j l Hi Hj Ei Ej. assert (S i = S j) by (apply (H (S i) (S j) l); cbn [length nth]; auto; lia). lia. }
  unfold lits_of in *. cbn [flat_map]. destruct nd; cbn [app]; try exact HD.
  constructor; [|exact HD]. intros Hin.
  destruct (lits_of_In D l Hin) as [j [Hj Ej]].
  assert (0 = S j) by (apply (H 0 (S j) l); cbn [length nth]; auto; lia). lia.
Qed.

Lemma wf_unique_leaves : unique_leaves C = true.
Proof.
  unfold unique_leaves. apply nodupb_NoDup, lits_of_NoDup. intros i j l Hi Hj Ei Ej.
  pose proof (co_inj _ _ _ (proj1 (rf_ok3 _ _ _ _ _ _ RF)) _ l (lit_at i l Hi Ei)) as H1.
  pose proof (co_inj _ _ _ (proj1 (rf_ok3 _ _ _ _ _ _ RF)) _ l (lit_at j l Hj Ej)) as H2.
  pose proof (is_len _ _ _ _ HI) as HL.
  apply (nth_order_inj _ _ _ _ HI); [lia|lia|congruence].
Qed.

(* the determinism certificate *)
Lemma wf_det_ok : det_ok g3.
Proof.
  pose proof (det_ok_rep toks n0 n0 b (litP_nz NN) Hconf (rf_rep _ _ _ _ _ _ RF)) as D0.
  pose proof (det_ok_free _ _ _ (rf_free _ _ _ _ _ _ RF) (rf_prov1 _ _ _ _ _ _ RF) (rf_ok1 _ _ _ _ _ _ RF) D0) as D1.
  pose proof (det_ok_shrink _ _ (rf_step2 _ _ _ _ _ _ RF) D1) as D2.
  apply (pass3_invariant rc ord Hord (litP_nz NN) (litP_sym NN) (fun s => det_ok (ls_g s))
           _ _ _ (rf_ok2 _ _ _ _ _ _ RF) (rf_pass3 _ _ _ _ _ _ RF)); [exact D2|].
  intros m sa sb nx _ Hoka _ Hda Hst. exact (det_ok_step ord m sa sb nx Hoka Hst Hda).
Qed.

Lemma wf_det_cert : det_cert C = true.
Proof. exact (iso_det_cert _ _ _ _ HI wf_det_ok). Qed.

(* decomposability *)
Lemma wf_vars2 : all_def g2 /\ dec_ok g2.
Proof.
  pose proof (rf_rep _ _ _ _ _ _ RF) as HR.
  pose proof (all_def_rep toks n0 n0 b Hconf HR) as A0.
  pose proof (dec_ok_rep toks n0 n0 b Hconf HR) as D0.
  assert (Hlits : forall y l, sg_label (ls_g (bs_ls b)) y = Some (GLit l) -> In (Z.abs_nat l) (bs_occ b)).
  { intros y l Hy. exact (rp_lits _ _ _ _ _ HR l y (co_inj _ _ _ (rp_core _ _ _ _ _ HR) y l Hy)). }
  pose proof (free_all_def _ _ _ _ _ (rf_free _ _ _ _ _ _ RF) (rf_feats _ _ _ _ _ _ RF) (rf_ok1 _ _ _ _ _ _ RF)
                (rf_prov1 _ _ _ _ _ _ RF) A0 (rf_alive0 _ _ _ _ _ _ RF)) as A1.
  pose proof (free_dec_ok _ _ _ _ _ (rf_free _ _ _ _ _ _ RF) (rf_feats _ _ _ _ _ _ RF) (rf_ok1 _ _ _ _ _ _ RF)
                (rf_prov1 _ _ _ _ _ _ RF) A0 D0 (rf_alive0 _ _ _ _ _ _ RF) (seq_NoDup _ 1) Hlits) as D1.
  split; [exact (shrink_all_def _ _ (rf_step2 _ _ _ _ _ _ RF) A1)|exact (dec_ok_shrink _ _ (rf_step2 _ _ _ _ _ _ RF) A1 D1)].
Qed.

Lemma wf_vars_inv : exists m, vars_inv m s3.
Proof.
  destruct wf_vars2 as [A2 D2].
  destruct (pass3_invariant_m rc ord Hord (litP_nz NN) (litP_sym NN) (fun m s => vars_inv m s)
              _ _ _ (rf_ok2 _ _ _ _ _ _ RF) (rf_pass3 _ _ _ _ _ _ RF)) as [m [_ Hm]].
  - intros m Em. split; [exact A2|]. split; [exact D2|]. exact (get_literal_diffs_exact _ _ _ Em).
  - intros m sa sb nx _ Hoka _ Hia Hst. exact (vars_inv_step ord Hperm Hndp m sa sb nx Hoka Hst Hia).
  - now exists m.
Qed.

Lemma wf_decomposable : decomposable C = true.
Proof. destruct wf_vars_inv as [m [_ [Hd _]]]. exact (iso_decomposable _ _ _ _ HI Hd). Qed.

(* smoothness *)
Lemma wf_or_nodup : or_nodup g2.
Proof.
  apply (or_nodup_shrink _ _ (rf_step2 _ _ _ _ _ _ RF)).
  apply (or_nodup_free _ _ _ (rf_free _ _ _ _ _ _ RF) (rf_prov1 _ _ _ _ _ _ RF) (rf_ok1 _ _ _ _ _ _ RF)).
  exact (or_nodup_rep toks n0 n0 b Hconf (rf_rep _ _ _ _ _ _ RF)).
Qed.

Lemma wf_smooth : smooth C = true.
Proof.
  destruct wf_vars2 as [A2 D2].
  destruct (pass3_cover rc ord Hperm Hndp g2 root1 (so_inv _ _ (rf_step2 _ _ _ _ _ _ RF)) wf_or_nodup
              (litP_nz NN) (litP_sym NN) (with_g s1 g2) s3 eq_refl (rf_ok2 _ _ _ _ _ _ RF) (rf_root2 _ _ _ _ _ _ RF)
              A2 D2 (rf_pass3 _ _ _ _ _ _ RF)) as [S [Sr [Scl Ssm]]].
  apply (iso_smooth _ _ _ _ HI). intros x Hx Hl. apply Ssm; [|exact Hl].
  exact (iso_closed _ _ _ _ S HI Sr Scl x Hx).
Qed.

(* completeness *)
Lemma wf_root2 : exists v, GVs g2 root1 v /\ forall f, 1 <= f <= NN -> In (Z.of_nat f) v.
Proof.
  destruct wf_vars2 as [A2 _].
  pose proof (rf_rep _ _ _ _ _ _ RF) as HR. pose proof (rf_step2 _ _ _ _ _ _ RF) as Hst.
  pose proof (rf_root2 _ _ _ _ _ _ RF) as Hr2.
  destruct (GDef_vars g2 root1 (A2 root1 Hr2)) as [v Hv]. exists v. split; [exact Hv|]. intros f Hf.
  destruct (decl_facts_free toks n0 b root1 s1 HR (rf_free _ _ _ _ _ _ RF)) as [Hd1 He1].
  (* the label of a new root *)
  assert (Hroot : root1 <> 0 -> sg_label g2 root1 = Some GAnd /\
                    exists tris, sg_out (ls_g s1) root1 = tris ++ [0]).
  { intros Hne. destruct (rf_free _ _ _ _ _ _ RF) as [[E _]|[_ [Hl [_ [tris [Ho _]]]]]]; [contradiction|].
    split; [|now exists tris].
    destruct (sh_label _ _ (so_sh _ _ Hst) root1 Hr2) as [E|[E _]]; congruence. }
  destruct (mem f (bs_occ b)) eqn:Em.
  - (* a mentioned feature: below node 0 *)
    apply mem_true_In in Em. apply (rp_occ _ _ _ _ _ HR) in Em. destruct Em as [from [to [fs [Hin Hfs]]]].
    assert (Hment : In f (all_mentioned toks)) by (apply all_mentioned_In; now exists from, to, fs).
    assert (Hx0 : nth_error (bs_idx b) 0 = Some 0).
    { destruct (nth_error (bs_idx b) 0) as [x|] eqn:E; [now rewrite (rp_first _ _ _ _ _ HR x E)|].
      apply nth_error_None in E. pose proof (Forall2_len _ _ _ (rp_decl _ _ _ _ _ HR)) as HL.
      destruct (cf_split toks n0 Hconf) as [H1 _]. unfold nk in H1. lia. }
    destruct (mentioned_root toks n0 Hconf (bs_idx b) (ls_g s1) g2 Hd1 He1 Hst A2 0 f Hx0 Hment) as [v0 [Hv0 [Hin0 Hnt]]].
    destruct (Nat.eq_dec root1 0) as [E|Hne]; [rewrite E in Hv; now rewrite (GF_det hvars g2 0 v v0 Hv Hv0)|].
    destruct (Hroot Hne) as [Hl2 [tris Ho]].
    assert (H01 : In 0 (sg_out (ls_g s1) root1)) by (rewrite Ho; apply in_or_app; right; now left).
    destruct (s2_and _ _ (so_s2 _ _ Hst) root1 0 Hl2 H01) as [H02|H02]; [|contradiction].
    exact (gate_has g2 root1 GAnd v 0 v0 _ Hl2 eq_refl Hv H02 Hv0 Hin0).
  - (* an unmentioned feature: a triangle below the new root *)
    assert (Hne : root1 <> 0).
    { intros E. rewrite (rf_root0 _ _ _ _ _ _ RF E f) in Em; [discriminate|]. apply in_seq. lia. }
    destruct (Hroot Hne) as [Hl2 _].
    destruct (rf_feats _ _ _ _ _ _ RF) as [E|[tris [Ho Htr]]]; [contradiction|].
    assert (Hff : In f (rev (filter (fun i => negb (mem i (bs_occ b))) (seq 1 NN)))).
    { apply -> in_rev. apply filter_In. split; [apply in_seq; lia|now rewrite Em]. }
    destruct (Forall2_In_l _ _ _ _ Htr Hff) as [o [Ho' Hlk]].
    pose proof (proj2 (rf_ok2 _ _ _ _ _ _ RF) f o Hlk) as Htn. cbn [with_g ls_g] in Htn.
    assert (Ho1 : In o (sg_out (ls_g s1) root1)) by (rewrite Ho; apply in_or_app; now left).
    destruct (s2_and _ _ (so_s2 _ _ Hst) root1 o Hl2 Ho1) as [Ho2|Ho2].
    + apply (gate_has g2 root1 GAnd v o _ _ Hl2 eq_refl Hv Ho2 (tri_vars g2 f o Htn)). now left.
    + destruct Htn as [_ [Hlo _]]. congruence.
Qed.

Lemma wf_complete : complete C n' = true.
Proof.
  destruct wf_vars2 as [A2 D2]. destruct wf_root2 as [v2 [Hv2 Hall]].
  destruct (pass3_invariant_m rc ord Hord (litP_nz NN) (litP_sym NN)
              (fun m s => vars_inv m s /\ exists v, GVs (ls_g s) root1 v /\ seteq v v2)
              _ _ _ (rf_ok2 _ _ _ _ _ _ RF) (rf_pass3 _ _ _ _ _ _ RF)) as [m [_ [_ [v3 [Hv3 Hs3]]]]].
  - intros m Em. split; [split; [exact A2|split; [exact D2|exact (get_literal_diffs_exact _ _ _ Em)]]|].
    exists v2. split; [exact Hv2|apply seteq_refl].
  - intros m sa sb nx _ Hoka _ [Hia [va [Hva Hsa]]] Hst. split; [exact (vars_inv_step ord Hperm Hndp m sa sb nx Hoka Hst Hia)|].
    destruct (vars_step ord Hperm m sa sb nx root1 va Hoka Hst (proj2 (proj2 Hia)) Hva) as [vb [Hvb Hsb]].
    exists vb. split; [exact Hvb|exact (seteq_trans _ _ _ Hsb Hsa)].
  - rewrite (rf_n _ _ _ _ _ _ RF). apply (iso_complete _ _ _ _ NN v3 HI Hv3).
    + intros y l Hl. exact (co_pos _ _ _ (proj1 (rf_ok3 _ _ _ _ _ _ RF)) y l Hl).
    + intros f Hf. apply Hs3. now apply Hall.
Qed.

(* ---------- the whole check ---------- *)
Theorem wf_all : check_wf C n' = true.
Proof.
  unfold check_wf. rewrite wf_nonempty, wf_idx_ok, wf_decomposable, wf_smooth, wf_complete, wf_det_cert,
    wf_unique_leaves, wf_lits_nonzero, wf_all_reachable. reflexivity.
Qed.
End Conjuncts.

Theorem load_d4_gen_wf : check_wf C n' = true.
Proof. destruct run as [b [root1 [s1 [g2 [s3 [order RF]]]]]]. exact (wf_all b root1 s1 g2 s3 order RF). Qed.
End Pipeline.
