(* C06: sort_abs (sort_unstable_by_key(|f| f.abs()) on lists with distinct keys) and the cursor map. *)
From Coq Require Import List ZArith Bool Lia Permutation Sorted.
From DD Require Import Model.Circuit Model.Query Model.Enumerate
     Proofs.PassLemmas Proofs.Enum Proofs.Semantics Proofs.CountsA.
Import ListNotations.
Open Scope Z_scope.

(* ---------- sort_abs is a permutation and sorts ---------- *)
Definition abs_le (a b : Z) : Prop := Z.abs a <= Z.abs b.
Notation AbsSorted := (StronglySorted abs_le).

Lemma insert_abs_perm x l : Permutation (insert_abs x l) (x :: l).
Proof.
  induction l as [|y l IH]; [reflexivity|]. cbn [insert_abs].
  destruct (Z.abs x <=? Z.abs y); [reflexivity|].
  rewrite IH. apply perm_swap.
Qed.

Lemma sort_abs_perm l : Permutation (sort_abs l) l.
Proof.
  induction l as [|x l IH]; [reflexivity|]. unfold sort_abs in *. cbn [fold_right].
  rewrite insert_abs_perm. now constructor.
Qed.

Lemma insert_abs_sorted x l : AbsSorted l -> AbsSorted (insert_abs x l).
Proof.
  induction l as [|y l IH]; intros Hs; [repeat constructor|].
  apply StronglySorted_inv in Hs. destruct Hs as [Hs Hy]. cbn [insert_abs].
  destruct (Z.abs x <=? Z.abs y) eqn:E.
  - apply Z.leb_le in E. constructor; [now constructor|].
    constructor; [exact E|]. eapply Forall_impl; [|exact Hy].
    intros z Hz. unfold abs_le in *. lia.
  - apply Z.leb_gt in E. constructor; [now apply IH|].
    eapply Permutation_Forall; [symmetry; apply insert_abs_perm|].
    constructor; [unfold abs_le; lia|exact Hy].
Qed.

Lemma sort_abs_sorted l : AbsSorted (sort_abs l).
Proof.
  induction l as [|x l IH]; [constructor|]. unfold sort_abs in *. cbn [fold_right].
  now apply insert_abs_sorted.
Qed.

(* two sorted permutations of a list with pairwise distinct keys are equal *)
Lemma abs_sorted_unique l1 : forall l2,
  AbsSorted l1 -> AbsSorted l2 -> Permutation l1 l2 -> NoDup (map Z.abs l1) -> l1 = l2.
Proof.
  induction l1 as [|x l1 IH]; intros l2 H1 H2 HP HN.
  - apply Permutation_nil in HP. now subst.
  - destruct l2 as [|y l2]; [apply Permutation_sym, Permutation_nil in HP; discriminate|].
    apply StronglySorted_inv in H1. destruct H1 as [H1 Hx].
    apply StronglySorted_inv in H2. destruct H2 as [H2 Hy].
    cbn [map] in HN. apply NoDup_cons_iff in HN. destruct HN as [HN1 HN2].
    rewrite Forall_forall in Hx, Hy.
    assert (Hxy : x = y).
    { assert (Hyin : In y (x :: l1)) by (eapply Permutation_in; [symmetry; exact HP|now left]).
      assert (Hxin : In x (y :: l2)) by (eapply Permutation_in; [exact HP|now left]).
      destruct Hyin as [Hyx|Hyin]; [exact Hyx|].
      destruct Hxin as [Hxy|Hxin]; [now symmetry|].
      exfalso. apply HN1.
      specialize (Hx y Hyin). specialize (Hy x Hxin). unfold abs_le in *.
      replace (Z.abs x) with (Z.abs y) by lia. now apply in_map. }
    subst y. f_equal. apply IH; auto. now apply Permutation_cons_inv in HP.
Qed.

(* permuting a duplicate-free (by feature) literal list does not change the cursor key *)
Theorem sort_abs_perm_eq l l' :
  Permutation l l' -> NoDup (map Z.abs l) -> sort_abs l = sort_abs l'.
Proof.
  intros HP HN. apply abs_sorted_unique; try apply sort_abs_sorted.
  - rewrite sort_abs_perm, HP. symmetry. apply sort_abs_perm.
  - eapply Permutation_NoDup; [|exact HN]. apply Permutation_map. symmetry. apply sort_abs_perm.
Qed.

Lemma sort_abs_id l : AbsSorted l -> NoDup (map Z.abs l) -> sort_abs l = l.
Proof.
  intros Hs HN. apply abs_sorted_unique; [apply sort_abs_sorted|exact Hs|apply sort_abs_perm|].
  eapply Permutation_NoDup; [|exact HN]. apply Permutation_map. symmetry. apply sort_abs_perm.
Qed.

(* membership / okA / contains_all do not see the order *)
Lemma memZ_perm x l l' : Permutation l l' -> memZ x l = memZ x l'.
Proof.
  intros HP. apply eq_true_iff_eq. rewrite !memZ_In.
  split; apply Permutation_in; [exact HP|now symmetry].
Qed.

Lemma okA_perm A A' c : Permutation A A' -> okA A c = okA A' c.
Proof.
  intros HP. unfold okA. induction c as [|l c IH]; [reflexivity|]. cbn [forallb].
  now rewrite IH, (memZ_perm (- l) A A' HP).
Qed.

Lemma contains_all_perm A A' m : Permutation A A' -> contains_all A m = contains_all A' m.
Proof.
  intros HP. unfold contains_all. apply eq_true_iff_eq. rewrite !forallb_forall.
  split; intros H x Hx; apply H; eapply Permutation_in; try exact Hx; [now symmetry|exact HP].
Qed.

Lemma ModelsA_perm C n A A' : Permutation A A' -> ModelsA C n A = ModelsA C n A'.
Proof. intros HP. unfold ModelsA. apply filter_ext. intros m. now apply contains_all_perm. Qed.

Lemma MCA_perm C n A A' : Permutation A A' -> MCA C n A = MCA C n A'.
Proof. intros HP. unfold MCA. now rewrite (ModelsA_perm C n A A' HP). Qed.

Lemma in_range_perm n A A' : Permutation A A' -> in_range n A -> in_range n A'.
Proof. intros HP H l Hl. apply H. eapply Permutation_in; [symmetry; exact HP|exact Hl]. Qed.

(* ---------- a sorted complete configuration is the canonical one ---------- *)
Lemma zseq_abs_sorted (f : Z -> Z) start len :
  0 < start -> (forall v, Z.abs (f v) = Z.abs v) ->
  AbsSorted (map f (zseq start len)) /\ NoDup (map Z.abs (map f (zseq start len))).
Proof.
  intros Hs Hf. revert start Hs. induction len as [|len IH]; intros start Hs.
  - cbn. split; constructor.
  - cbn [zseq map]. destruct (IH (start + 1) ltac:(lia)) as [IH1 IH2]. split.
    + constructor; [exact IH1|]. apply Forall_forall. intros z Hz.
      apply in_map_iff in Hz. destruct Hz as (v & <- & Hv). apply zseq_In in Hv.
      unfold abs_le. rewrite !Hf. lia.
    + constructor; [|exact IH2]. intros Hin. rewrite map_map in Hin.
      apply in_map_iff in Hin. destruct Hin as (v & Hv1 & Hv). apply zseq_In in Hv.
      rewrite !Hf in Hv1. lia.
Qed.

Lemma canon_sorted n s : AbsSorted (canon n s) /\ NoDup (map Z.abs (canon n s)).
Proof.
  unfold canon. apply zseq_abs_sorted; [lia|]. intros v. destruct (s v); [reflexivity|apply Z.abs_opp].
Qed.

Lemma good_perm_canon n c V : Good c V -> range_set n V -> Permutation c (canon_cfg n c).
Proof.
  intros HG HV. destruct (good_range_lits n c V HG HV) as [Hr H0].
  destruct HG as [Hnd Hcov].
  apply NoDup_Permutation.
  - eapply NoDup_map_inv. exact Hnd.
  - eapply NoDup_map_inv. apply (canon_sorted n (asg_of c)).
  - intros x. unfold canon_cfg, canon. rewrite in_map_iff. split.
    + intros Hx. exists (Z.abs x). split; [|apply zseq_In; specialize (Hr x Hx); lia].
      assert (x <> 0) by (intros ->; contradiction).
      unfold asg_of. destruct (memZ (Z.abs x) c) eqn:Em.
      * apply memZ_In in Em.
        apply (NoDup_map_inj_in Z.abs c (Z.abs x) x Hnd Em Hx). now rewrite Z.abs_involutive.
      * apply memZ_false in Em. destruct (Z.abs_spec x) as [[? He]|[? He]]; [|lia].
        rewrite He in Em. contradiction.
    + intros (v & Hv & Hin). apply zseq_In in Hin. unfold asg_of in Hv.
      destruct (memZ v c) eqn:Em.
      * apply memZ_In in Em. now subst.
      * apply memZ_false in Em.
        assert (Hinv : In v (map Z.abs c)) by (apply Hcov, HV; lia).
        apply in_map_iff in Hinv. destruct Hinv as (y & Hy & Hyc).
        assert (y = - v) by (destruct (Z.abs_spec y) as [[? He]|[? He]]; [subst; congruence|lia]).
        rewrite <- Hv, <- H. exact Hyc.
Qed.

(* (4): every returned configuration is the truth-table row of the configuration *)
Theorem sort_abs_canon n c V : Good c V -> range_set n V -> sort_abs c = canon_cfg n c.
Proof.
  intros HG HV. pose proof (good_perm_canon n c V HG HV) as HP.
  rewrite (sort_abs_perm_eq c (canon_cfg n c) HP (proj1 HG)).
  apply sort_abs_id; apply canon_sorted.
Qed.

(* ---------- the cursor map ---------- *)
Lemma cfg_eqb_eq a : forall b, cfg_eqb a b = true <-> a = b.
Proof.
  induction a as [|x a IH]; intros [|y b]; cbn [cfg_eqb]; try (split; congruence).
  rewrite andb_true_iff, Z.eqb_eq, IH. split; [intros [-> ->]; reflexivity|intros H; now inversion H].
Qed.

Lemma cfg_eqb_refl a : cfg_eqb a a = true.
Proof. now apply cfg_eqb_eq. Qed.

Lemma cur_get_set_same cur k v : cur_get (cur_set cur k v) k = v.
Proof.
  induction cur as [|[k' v'] cur IH]; cbn [cur_set cur_get]; [now rewrite cfg_eqb_refl|].
  destruct (cfg_eqb k k') eqn:E; cbn [cur_get]; [now rewrite cfg_eqb_refl|].
  now rewrite E.
Qed.

Lemma cur_get_set_other cur k v k' : k' <> k -> cur_get (cur_set cur k v) k' = cur_get cur k'.
Proof.
  intros Hne. assert (Hf : cfg_eqb k' k = false).
  { destruct (cfg_eqb k' k) eqn:E; [apply cfg_eqb_eq in E; contradiction|reflexivity]. }
  induction cur as [|[k0 v0] cur IH]; cbn [cur_set cur_get]; [now rewrite Hf|].
  destruct (cfg_eqb k k0) eqn:E; cbn [cur_get].
  - apply cfg_eqb_eq in E. subst k0. now rewrite Hf.
  - now rewrite IH.
Qed.
