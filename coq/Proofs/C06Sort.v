(* C06: sort_abs (sort_unstable_by_key(|f| f.abs()) on lists with distinct keys) and the cursor map. *)
From Coq Require Import List ZArith Bool Lia Permutation Sorted.
From DD Require Import Model.Circuit Model.Query Model.Enumerate
     Proofs.PassLemmas Proofs.Enum Proofs.Semantics Proofs.CountsA.
Import ListNotations.
Open Scope Z_scope.

(* ---------- sort_abs is a permutation and sorts ---------- *)
Definition abs_le (a b : Z) : Prop := Z.abs a <= Z.abs b.
Notation AbsSorted := (StronglySorted abs_le).

Lemma insert_abs_perm x l : Permutation (insert_abs x l) (x :: l).
Proof.
  induction l as [|y l IH]; [reflexivity|]. cbn [insert_abs].
  destruct (Z.abs x <=? Z.abs y); [reflexivity|].
  rewrite IH. apply perm_swap.
Qed.

Lemma sort_abs_perm l : Permutation (sort_abs l) l.
Proof.
  induction l as [|x l IH]; [reflexivity|]. unfold sort_abs in *. cbn [fold_right].
  rewrite insert_abs_perm. now constructor.
Qed.

Lemma insert_abs_sorted x l : AbsSorted l -> AbsSorted (insert_abs x l).
Proof.
  induction l as [|y l IH]; intros Hs; [repeat constructor|].
  apply StronglySorted_inv in Hs. destruct Hs as [Hs Hy]. cbn [insert_abs].
  destruct (Z.abs x <=? Z.abs y) eqn:E.
  - apply Z.leb_le in E. constructor; [now constructor|].
    constructor; [exact E|]. eapply Forall_impl; [|exact Hy].
    intros z Hz. unfold abs_le in *. lia.
  - apply Z.leb_gt in E. constructor; [now apply IH|].
    eapply Permutation_Forall; [symmetry; apply insert_abs_perm|].
    constructor; [unfold abs_le; lia|exact Hy].
Qed.

Lemma sort_abs_sorted l : AbsSorted (sort_abs l).
Proof.
  induction l as [|x l IH]; [constructor|]. unfold sort_abs in *. cbn [fold_right].
  now apply insert_abs_sorted.
Qed.

(* two sorted permutations of a list with pairwise distinct keys are equal *)
Lemma abs_sorted_unique l1 : forall l2,
  AbsSorted l1 -> AbsSorted l2 -> Permutation l1 l2 -> NoDup (map Z.abs l1) -> l1 = l2.
Proof.
  induction l1 as [|x l1 IH]; intros l2 H1 H2 HP HN.
  - apply Permutation_nil in HP. now subst.
  - destruct l2 as [|y l2]; [apply Permutation_sym, Permutation_nil in HP; discriminate|].
    apply StronglySorted_inv in H1. destruct H1 as [H1 Hx].
    apply StronglySorted_inv in H2. destruct H2 as [H2 Hy].
    cbn [map] in HN. apply NoDup_cons_iff in HN. destruct HN as [HN1 HN2].
    rewrite Forall_forall in Hx, Hy.
    assert (Hxy : x = y).
    { assert (Hyin : In y (x :: l1)) by (eapply Permutation_in; [symmetry; exact HP|now left]).
      assert (Hxin : In x (y :: l2)) by (eapply Permutation_in; [exact HP|now left]).
      destruct Hyin as [Hyx|Hyin]; [exact Hyx|].
      destruct Hxin as [Hxy|Hxin]; [now symmetry|].
      exfalso. apply HN1.
      specialize (Hx y Hyin). specialize (Hy x Hxin). unfold abs_le in *.
      replace (Z.abs x) with (Z.abs y) by lia. now apply in_map. }
    subst y. f_equal. apply IH; auto. now apply Permutation_cons_inv in HP.
Qed.

(* permuting a duplicate-free (by feature) literal list does not change the cursor key *)
Theorem sort_abs_perm_eq l l' :
  Permutation l l' -> NoDup (map Z.abs l) -> sort_abs l = sort_abs l'.
Proof.
  intros HP HN. apply abs_sorted_unique; try apply sort_abs_sorted.
  - rewrite sort_abs_perm, HP. symmetry. apply sort_abs_perm.
  - eapply Permutation_NoDup; [|exact HN]. apply Permutation_map. symmetry. apply sort_abs_perm.
Qed.

Lemma sort_abs_id l : AbsSorted l -> NoDup (map Z.abs l) -> sort_abs l = l.
Proof.
  intros Hs HN. apply abs_sorted_unique; [apply sort_abs_sorted|exact Hs|apply sort_abs_perm|].
  eapply Permutation_NoDup; [|exact HN]. apply Permutation_map. symmetry. apply sort_abs_perm.
Qed.

(* membership / okA / contains_all do not see the order *)
Lemma memZ_perm x l l' : Permutation l l' -> memZ x l = memZ x l'.
Proof.
  intros HP. apply eq_true_iff_eq. rewrite !memZ_In.
  split; apply Permutation_in; [exact HP|now symmetry].
Qed.

Lemma okA_perm A A' c : Permutation A A' -> okA A c = okA A' c.
Proof.
  intros HP. unfold okA. induction c as [|l c IH]; [reflexivity|]. cbn [forallb].
  now rewrite IH, (memZ_perm (- l) A A' HP).
Qed.

Lemma contains_all_perm A A' m : Permutation A A' -> contains_all A m = contains_all A' m.
Proof.
  intros HP. unfold contains_all. apply eq_true_iff_eq. rewrite !forallb_forall.
  split; intros H x Hx; apply H; eapply Permutation_in; try exact Hx; [now symmetry|exact HP].
Qed.

Lemma ModelsA_perm C n A A' : Permutation A A' -> ModelsA C n A = ModelsA C n A'.
Proof. intros HP. unfold ModelsA. apply filter_ext. intros m. now apply contains_all_perm. Qed.

Lemma MCA_perm C n A A' : Permutation A A' -> MCA C n A = MCA C n A'.
Proof. intros HP. unfold MCA. now rewrite (ModelsA_perm C n A A' HP). Qed.

Lemma in_range_perm n A A' : Permutation A A' -> in_range n A -> in_range n A'.
Proof. intros HP H l Hl. apply H. eapply Permutation_in; [symmetry; exact HP|exact Hl]. Qed.

(* ---------- the same for lists with the same SET of literals (F19: the cursor key) ---------- *)
Definition same_set (A A' : cfg) : Prop := forall l, In l A <-> In l A'.
(* no literal together with its complement (and at most one spelling of 0) *)
Definition consistent (A : cfg) : Prop :=
  forall x y, In x A -> In y A -> Z.abs x = Z.abs y -> x = y.

Lemma same_set_refl A : same_set A A.
Proof. intros l. reflexivity. Qed.
Lemma same_set_sym A A' : same_set A A' -> same_set A' A.
Proof. intros H l. symmetry. apply H. Qed.
Lemma same_set_trans A A' A'' : same_set A A' -> same_set A' A'' -> same_set A A''.
Proof. intros H1 H2 l. rewrite (H1 l). apply H2. Qed.
Lemma perm_same_set A A' : Permutation A A' -> same_set A A'.
Proof. intros HP l. split; apply Permutation_in; [exact HP|now symmetry]. Qed.

Lemma consistent_same_set A A' : same_set A A' -> consistent A -> consistent A'.
Proof. intros HS HC x y Hx Hy. apply HC; now apply HS. Qed.

Lemma nodup_abs_consistent A : NoDup (map Z.abs A) -> consistent A.
Proof. intros HN x y Hx Hy Hxy. exact (NoDup_map_inj_in Z.abs A x y HN Hx Hy Hxy). Qed.

Lemma memZ_same_set x l l' : same_set l l' -> memZ x l = memZ x l'.
Proof. intros HS. apply eq_true_iff_eq. rewrite !memZ_In. apply HS. Qed.

Lemma okA_same_set A A' c : same_set A A' -> okA A c = okA A' c.
Proof.
  intros HS. unfold okA. induction c as [|l c IH]; [reflexivity|]. cbn [forallb].
  now rewrite IH, (memZ_same_set (- l) A A' HS).
Qed.

Lemma contains_all_same_set A A' m : same_set A A' -> contains_all A m = contains_all A' m.
Proof.
  intros HS. unfold contains_all. apply eq_true_iff_eq. rewrite !forallb_forall.
  split; intros H x Hx; apply H; now apply HS.
Qed.

Lemma ModelsA_same_set C n A A' : same_set A A' -> ModelsA C n A = ModelsA C n A'.
Proof. intros HS. unfold ModelsA. apply filter_ext. intros m. now apply contains_all_same_set. Qed.

Lemma MCA_same_set C n A A' : same_set A A' -> MCA C n A = MCA C n A'.
Proof. intros HS. unfold MCA. now rewrite (ModelsA_same_set C n A A' HS). Qed.

Lemma in_range_same_set n A A' : same_set A A' -> in_range n A -> in_range n A'.
Proof. intros HS H l Hl. apply H. now apply HS. Qed.

(* Vec::dedup keeps the set, keeps sortedness, and removes nothing from a list without repeats *)
Lemma dedup_In l : forall x, In x (dedup l) <-> In x l.
Proof.
  induction l as [|a l IH]; intros x; [reflexivity|].
  destruct l as [|b l']; [reflexivity|].
  change (dedup (a :: b :: l')) with (if a =? b then dedup (b :: l') else a :: dedup (b :: l')).
  destruct (Z.eqb_spec a b) as [->|Hne].
  - rewrite IH. cbn [In]. tauto.
  - cbn [In]. rewrite IH. cbn [In]. tauto.
Qed.

Lemma dedup_sorted l : AbsSorted l -> AbsSorted (dedup l).
Proof.
  induction l as [|a l IH]; intros Hs; [constructor|].
  apply StronglySorted_inv in Hs. destruct Hs as [Hs Ha].
  destruct l as [|b l']; [repeat constructor|].
  change (dedup (a :: b :: l')) with (if a =? b then dedup (b :: l') else a :: dedup (b :: l')).
  destruct (a =? b); [now apply IH|].
  constructor; [now apply IH|]. rewrite Forall_forall in *. intros z Hz. apply Ha.
  now apply dedup_In.
Qed.

Lemma dedup_nodup_abs l : AbsSorted l -> consistent l -> NoDup (map Z.abs (dedup l)).
Proof.
  induction l as [|a l IH]; intros Hs HC; [constructor|].
  apply StronglySorted_inv in Hs. destruct Hs as [Hs Ha].
  assert (HC' : consistent l).
  { intros x y Hx Hy. apply HC; now right. }
  destruct l as [|b l']; [cbn; repeat constructor; intros []|].
  change (dedup (a :: b :: l')) with (if a =? b then dedup (b :: l') else a :: dedup (b :: l')).
  destruct (Z.eqb_spec a b) as [->|Hne]; [now apply IH|].
  cbn [map]. constructor; [|now apply IH].
  intros Hin. apply in_map_iff in Hin. destruct Hin as (z & Hz & Hzin).
  apply (proj1 (dedup_In _ _)) in Hzin.
  assert (Haz : a = z) by (apply HC; [now left|right; exact Hzin|now symmetry]).
  subst z. apply Hne.
  apply HC; [now left|right; now left|].
  apply StronglySorted_inv in Hs. destruct Hs as [_ Hb]. rewrite Forall_forall in Ha, Hb.
  assert (H1 : abs_le a b) by (apply Ha; now left).
  destruct Hzin as [->|Hin']; [reflexivity|].
  specialize (Hb a Hin'). unfold abs_le in *. lia.
Qed.

Lemma dedup_id l : NoDup l -> dedup l = l.
Proof.
  induction l as [|a l IH]; intros HN; [reflexivity|].
  apply NoDup_cons_iff in HN. destruct HN as [Ha HN].
  destruct l as [|b l']; [reflexivity|].
  change (dedup (a :: b :: l')) with (if a =? b then dedup (b :: l') else a :: dedup (b :: l')).
  destruct (Z.eqb_spec a b) as [->|Hne]; [exfalso; apply Ha; now left|].
  now rewrite IH.
Qed.

Lemma enum_key_In A : same_set (enum_key A) A.
Proof.
  intros l. unfold enum_key. rewrite dedup_In.
  split; apply Permutation_in; [apply sort_abs_perm|symmetry; apply sort_abs_perm].
Qed.

Lemma enum_key_sorted A : AbsSorted (enum_key A).
Proof. apply dedup_sorted, sort_abs_sorted. Qed.

Lemma enum_key_nodup_abs A : consistent A -> NoDup (map Z.abs (enum_key A)).
Proof.
  intros HC. apply dedup_nodup_abs; [apply sort_abs_sorted|].
  apply (consistent_same_set A); [|exact HC]. apply perm_same_set. symmetry. apply sort_abs_perm.
Qed.

(* without repeated features nothing is removed: the key is the sorted list, as before F19 *)
Lemma enum_key_nodup A : NoDup (map Z.abs A) -> enum_key A = sort_abs A.
Proof.
  intros HN. unfold enum_key. apply dedup_id. eapply NoDup_map_inv with (f := Z.abs).
  eapply Permutation_NoDup; [|exact HN]. apply Permutation_map. symmetry. apply sort_abs_perm.
Qed.

(* THE KEY IS THE SET: two consistent lists with the same literals -- in any order, any literal any
   number of times -- have the same cursor key *)
Theorem enum_key_same_set A A' : consistent A -> same_set A A' -> enum_key A = enum_key A'.
Proof.
  intros HC HS.
  assert (HC' : consistent A') by (now apply (consistent_same_set A)).
  apply abs_sorted_unique; try apply enum_key_sorted; [|now apply enum_key_nodup_abs].
  apply NoDup_Permutation.
  - eapply NoDup_map_inv. now apply enum_key_nodup_abs.
  - eapply NoDup_map_inv. now apply enum_key_nodup_abs.
  - intros x. rewrite (enum_key_In A x), (enum_key_In A' x). apply HS.
Qed.

(* the key is a fixed point: it is its own key *)
Lemma enum_key_idem A : consistent A -> enum_key (enum_key A) = enum_key A.
Proof.
  intros HC. symmetry. apply enum_key_same_set; [exact HC|]. apply same_set_sym, enum_key_In.
Qed.

(* a list that some complete configuration contains is consistent *)
Lemma all_cfgs_abs n m : In m (all_cfgs n) -> map Z.abs m = zseq 1 n.
Proof.
  unfold all_cfgs. intros H. apply in_all_cfgs_over in H.
  assert (Hpos : forall v, In v (zseq 1 n) -> 0 < v) by (intros v Hv; apply zseq_In in Hv; lia).
  induction H as [|v l vs r Hl HF IH]; [reflexivity|]. cbn [map]. f_equal.
  - assert (0 < v) by (apply Hpos; now left). destruct Hl as [->| ->]; lia.
  - apply IH. intros w Hw. apply Hpos. now right.
Qed.

Lemma sat_consistent C n A : 0 < MCA C n A -> consistent A.
Proof.
  intros Hc. unfold MCA, ModelsA in Hc.
  destruct (filter (contains_all A) (Models C n)) as [|m ms] eqn:Ef; [cbn in Hc; lia|].
  assert (Hm : In m (filter (contains_all A) (Models C n))) by (rewrite Ef; now left).
  apply filter_In in Hm. destruct Hm as [Hm Hca].
  unfold Models in Hm. apply filter_In in Hm. destruct Hm as [Hm _].
  unfold contains_all in Hca. rewrite forallb_forall in Hca.
  assert (HN : NoDup (map Z.abs m)) by (rewrite (all_cfgs_abs n m Hm); apply zseq_NoDup).
  intros x y Hx Hy Hxy.
  apply (NoDup_map_inj_in Z.abs m x y HN); [apply memZ_In, Hca, Hx|apply memZ_In, Hca, Hy|exact Hxy].
Qed.

(* ---------- a sorted complete configuration is the canonical one ---------- *)
Lemma zseq_abs_sorted (f : Z -> Z) start len :
  0 < start -> (forall v, Z.abs (f v) = Z.abs v) ->
  AbsSorted (map f (zseq start len)) /\ NoDup (map Z.abs (map f (zseq start len))).
Proof.
  intros Hs Hf. revert start Hs. induction len as [|len IH]; intros start Hs.
  - cbn. split; constructor.
  - cbn [zseq map]. destruct (IH (start + 1) ltac:(lia)) as [IH1 IH2]. split.
    + constructor; [exact IH1|]. apply Forall_forall. intros z Hz.
      apply in_map_iff in Hz. destruct Hz as (v & <- & Hv). apply zseq_In in Hv.
      unfold abs_le. rewrite !Hf. lia.
    + constructor; [|exact IH2]. intros Hin. rewrite map_map in Hin.
      apply in_map_iff in Hin. destruct Hin as (v & Hv1 & Hv). apply zseq_In in Hv.
      rewrite !Hf in Hv1. lia.
Qed.

Lemma canon_sorted n s : AbsSorted (canon n s) /\ NoDup (map Z.abs (canon n s)).
Proof.
  unfold canon. apply zseq_abs_sorted; [lia|]. intros v. destruct (s v); [reflexivity|apply Z.abs_opp].
Qed.

Lemma good_perm_canon n c V : Good c V -> range_set n V -> Permutation c (canon_cfg n c).
Proof.
  intros HG HV. destruct (good_range_lits n c V HG HV) as [Hr H0].
  destruct HG as [Hnd Hcov].
  apply NoDup_Permutation.
  - eapply NoDup_map_inv. exact Hnd.
  - eapply NoDup_map_inv. apply (canon_sorted n (asg_of c)).
  - intros x. unfold canon_cfg, canon. rewrite in_map_iff. split.
    + intros Hx. exists (Z.abs x). split; [|apply zseq_In; specialize (Hr x Hx); lia].
      assert (x <> 0) by (intros ->; contradiction).
      unfold asg_of. destruct (memZ (Z.abs x) c) eqn:Em.
      * apply memZ_In in Em.
        apply (NoDup_map_inj_in Z.abs c (Z.abs x) x Hnd Em Hx). now rewrite Z.abs_involutive.
      * apply memZ_false in Em. destruct (Z.abs_spec x) as [[? He]|[? He]]; [|lia].
        rewrite He in Em. contradiction.
    + intros (v & Hv & Hin). apply zseq_In in Hin. unfold asg_of in Hv.
      destruct (memZ v c) eqn:Em.
      * apply memZ_In in Em. now subst.
      * apply memZ_false in Em.
        assert (Hinv : In v (map Z.abs c)) by (apply Hcov, HV; lia).
        apply in_map_iff in Hinv. destruct Hinv as (y & Hy & Hyc).
        assert (y = - v) by (destruct (Z.abs_spec y) as [[? He]|[? He]]; [subst; congruence|lia]).
        rewrite <- Hv, <- H. exact Hyc.
Qed.

(* (4): every returned configuration is the truth-table row of the configuration *)
Theorem sort_abs_canon n c V : Good c V -> range_set n V -> sort_abs c = canon_cfg n c.
Proof.
  intros HG HV. pose proof (good_perm_canon n c V HG HV) as HP.
  rewrite (sort_abs_perm_eq c (canon_cfg n c) HP (proj1 HG)).
  apply sort_abs_id; apply canon_sorted.
Qed.

(* ---------- the cursor map ---------- *)
Lemma cfg_eqb_eq a : forall b, cfg_eqb a b = true <-> a = b.
Proof.
  induction a as [|x a IH]; intros [|y b]; cbn [cfg_eqb]; try (split; congruence).
  rewrite andb_true_iff, Z.eqb_eq, IH. split; [intros [-> ->]; reflexivity|intros H; now inversion H].
Qed.

Lemma cfg_eqb_refl a : cfg_eqb a a = true.
Proof. now apply cfg_eqb_eq. Qed.

Lemma cur_get_set_same cur k v : cur_get (cur_set cur k v) k = v.
Proof.
  induction cur as [|[k' v'] cur IH]; cbn [cur_set cur_get]; [now rewrite cfg_eqb_refl|].
  destruct (cfg_eqb k k') eqn:E; cbn [cur_get]; [now rewrite cfg_eqb_refl|].
  now rewrite E.
Qed.

Lemma cur_get_set_other cur k v k' : k' <> k -> cur_get (cur_set cur k v) k' = cur_get cur k'.
Proof.
  intros Hne. assert (Hf : cfg_eqb k' k = false).
  { destruct (cfg_eqb k' k) eqn:E; [apply cfg_eqb_eq in E; contradiction|reflexivity]. }
  induction cur as [|[k0 v0] cur IH]; cbn [cur_set cur_get]; [now rewrite Hf|].
  destruct (cfg_eqb k k0) eqn:E; cbn [cur_get].
  - apply cfg_eqb_eq in E. subst k0. now rewrite Hf.
  - now rewrite IH.
Qed.
