(* WF circuits: the enumeration is a bijective image of the truth-table model set.
   Main results: models_enum_perm, count_is_MC. *)
From Coq Require Import List ZArith Bool Lia Permutation.
From DD Require Import Model.Circuit Proofs.PassLemmas Proofs.Enum.
Import ListNotations.

(* ---------- semantic determinism and the WF bundle ---------- *)

Definition deterministic (C : circuit) : Prop :=
  forall (s : asg) (i : nat) (cs : list nat),
    nth_error C i = Some (Or cs) ->
    (length (filter id (map (fun c => nth c (evals s C) false) cs)) <= 1)%nat.

Record WF (C : circuit) (n : nat) : Prop := {
  wf_nonempty : C <> [];
  wf_idx : idx_ok C = true;
  wf_dec : decomposable C = true;
  wf_smooth : smooth C = true;
  wf_complete : complete C n = true;
  wf_det : deterministic C;
}.

Definition root (C : circuit) : nat := (length C - 1)%nat.

Lemma root_lt C : C <> [] -> (root C < length C)%nat.
Proof. unfold root. destruct C; [congruence|cbn; lia]. Qed.

Lemma enum_root_nth C : enum_root C = nth (root C) (enums C) [].
Proof. unfold enum_root, root. rewrite last_nth. unfold enums. now rewrite pass_length. Qed.
Lemma root_count_nth C : root_count C = nth (root C) (counts C) 0.
Proof. unfold root_count, root. rewrite last_nth. unfold counts. now rewrite pass_length. Qed.
Lemma eval_root_nth s C : eval_root s C = nth (root C) (evals s C) false.
Proof. unfold eval_root, root. rewrite last_nth. unfold evals. now rewrite pass_length. Qed.

Lemma nth_error_nth' (C : circuit) i : (i < length C)%nat -> nth_error C i = Some (nth i C FalseN).
Proof. intros H. now apply nth_error_nth'. Qed.

(* ---------- memZ & friends ---------- *)

Lemma memZ_In x l : memZ x l = true <-> In x l.
Proof.
  unfold memZ. rewrite existsb_exists. split.
  - intros [y [Hy Hxy]]. apply Z.eqb_eq in Hxy. now subst.
  - intros H. exists x. split; [exact H|apply Z.eqb_refl].
Qed.
Lemma memZ_false x l : memZ x l = false <-> ~ In x l.
Proof. rewrite <- memZ_In. destruct (memZ x l); split; congruence. Qed.

Lemma inclb_incl l1 l2 : inclb l1 l2 = true <-> (forall v, In v l1 -> In v l2).
Proof.
  unfold inclb. rewrite forallb_forall. split; intros H v Hv.
  - apply memZ_In. now apply H.
  - apply memZ_In. now apply H.
Qed.
Lemma disjointb_spec l1 l2 : disjointb l1 l2 = true <-> (forall v, In v l1 -> ~ In v l2).
Proof.
  unfold disjointb. rewrite forallb_forall. split; intros H v Hv.
  - apply memZ_false. specialize (H v Hv). now apply negb_true_iff in H.
  - apply negb_true_iff. apply memZ_false. now apply H.
Qed.

(* ---------- structure of enumerated configurations ---------- *)

Definition Good (c : cfg) (V : list Z) : Prop :=
  NoDup (map Z.abs c) /\ forall v, In v (map Z.abs c) <-> In v V.

Lemma Good_perm c c' V : Permutation c c' -> Good c V -> Good c' V.
Proof.
  intros Hp [H1 H2]. split.
  - eapply Permutation_NoDup; [|exact H1]. now apply Permutation_map.
  - intros v. rewrite <- H2. split; apply Permutation_in; [symmetry|]; now apply Permutation_map.
Qed.
Lemma Good_ext c V V' : (forall v, In v V <-> In v V') -> Good c V -> Good c V'.
Proof. intros He [H1 H2]. split; [exact H1|]. intros v. now rewrite H2. Qed.

Lemma NoDup_app_intro {A} (l1 l2 : list A) :
  NoDup l1 -> NoDup l2 -> (forall x, In x l1 -> ~ In x l2) -> NoDup (l1 ++ l2).
Proof.
  induction l1 as [|x l1 IH]; intros H1 H2 Hd; [exact H2|].
  inversion H1; subst. cbn. constructor.
  - rewrite in_app_iff. intros [Hx|Hx]; [contradiction|]. apply (Hd x); [now left|exact Hx].
  - apply IH; auto. intros y Hy. apply Hd. now right.
Qed.

Inductive PD : list (list Z) -> Prop :=
| PD_nil : PD []
| PD_cons V Vs : (forall W, In W Vs -> forall v, In v V -> ~ In v W) -> PD Vs -> PD (V :: Vs).

Lemma pairwise_PD Vs : pairwise disjointb Vs = true -> PD Vs.
Proof.
  induction Vs as [|V Vs IH]; intros H; [constructor|].
  cbn in H. apply andb_true_iff in H. destruct H as [H1 H2]. constructor; [|now apply IH].
  intros W HW. rewrite forallb_forall in H1. apply disjointb_spec. now apply H1.
Qed.

Lemma in_prod_cons c L Ls :
  In c (prod (L :: Ls)) <-> exists x r, In x L /\ In r (prod Ls) /\ c = x ++ r.
Proof.
  cbn [prod]. rewrite in_flat_map. split.
  - intros [x [Hx Hc]]. apply in_map_iff in Hc. destruct Hc as [r [Hr Hin]]. now exists x, r.
  - intros [x [r [Hx [Hr Hc]]]]. exists x. split; [exact Hx|]. apply in_map_iff. now exists r.
Qed.

Lemma good_prod (Ls : list (list cfg)) (Vs : list (list Z)) :
  Forall2 (fun L V => forall c, In c L -> Good c V) Ls Vs -> PD Vs ->
  forall c, In c (prod Ls) -> Good c (concat Vs).
Proof.
  intros HF. induction HF as [|L V Ls Vs HLV HF IH]; intros HPD c Hc.
  - cbn in Hc. destruct Hc as [<-|[]]. split; [constructor|]. intros v. cbn. tauto.
  - inversion HPD as [|V' Vs' Hdisj HPD']; subst.
    apply in_prod_cons in Hc. destruct Hc as [x [r [Hx [Hr ->]]]].
    destruct (HLV x Hx) as [Hx1 Hx2]. destruct (IH HPD' r Hr) as [Hr1 Hr2].
    split.
    + rewrite map_app. apply NoDup_app_intro; [exact Hx1|exact Hr1|].
      intros v Hvx Hvr. apply Hx2 in Hvx. apply Hr2 in Hvr.
      apply in_concat in Hvr. destruct Hvr as [W [HW HvW]]. exact (Hdisj W HW v Hvx HvW).
    + intros v. rewrite map_app, in_app_iff. cbn [concat]. rewrite in_app_iff, Hx2, Hr2. tauto.
Qed.

Lemma PD_snoc Vs V :
  PD Vs -> (forall W, In W Vs -> forall v, In v W -> ~ In v V) -> PD (Vs ++ [V]).
Proof.
  induction 1 as [|V0 Vs Hd HPD IH]; intros H.
  - cbn. constructor; [intros W []|constructor].
  - cbn. constructor.
    + intros W HW v Hv. apply in_app_iff in HW. destruct HW as [HW|[<-|[]]].
      * now apply (Hd W HW).
      * apply (H V0); [now left|exact Hv].
    + apply IH. intros W HW. apply H. now right.
Qed.

Lemma PD_rev Vs : PD Vs -> PD (rev Vs).
Proof.
  induction 1 as [|V Vs Hd HPD IH]; [constructor|].
  cbn. apply PD_snoc; [exact IH|].
  intros W HW v Hv HvV. apply in_rev in HW. exact (Hd W HW v HvV Hv).
Qed.

Lemma Forall2_map_same {A B D} (P : B -> D -> Prop) (f : A -> B) (g : A -> D) (l : list A) :
  (forall x, In x l -> P (f x) (g x)) -> Forall2 P (map f l) (map g l).
Proof.
  induction l as [|x l IH]; intros H; [constructor|].
  cbn. constructor; [apply H; now left|]. apply IH. intros y Hy. apply H. now right.
Qed.

Lemma node_in (C : circuit) i : (i < length C)%nat -> In (nth i C FalseN) C.
Proof. intros. now apply nth_In. Qed.

Lemma cfg_struct (C : circuit) :
  idx_ok C = true -> decomposable C = true -> smooth C = true ->
  forall i, (i < length C)%nat ->
  forall c, In c (nth i (enums C) []) -> Good c (nth i (varss C) []).
Proof.
  intros Hok Hdec Hsm.
  apply (idx_induction C (fun i => forall c, In c (nth i (enums C) []) -> Good c (nth i (varss C) [])) Hok).
  intros i Hi IH c Hc.
  rewrite (enums_unfold C Hok i Hi) in Hc. rewrite (varss_unfold C Hok i Hi).
  pose proof (node_in C i Hi) as Hin.
  unfold decomposable in Hdec. rewrite forallb_forall in Hdec. specialize (Hdec _ Hin).
  unfold smooth in Hsm. rewrite forallb_forall in Hsm. specialize (Hsm _ Hin).
  destruct (nth i C FalseN) as [l|cs|cs| |] eqn:E; cbn [enum_node vars_node children] in *.
  - destruct Hc as [<-|[]]. split; cbn; [repeat constructor; intros []|tauto].
  - cbn [decomposable_node] in Hdec. apply pairwise_PD in Hdec.
    rewrite <- map_rev in Hc.
    assert (HG : Good c (concat (map (fun c0 => nth c0 (varss C) []) (rev cs)))).
    { apply (good_prod (map (fun c0 => nth c0 (enums C) []) (rev cs))); [| |exact Hc].
      - apply Forall2_map_same. intros ch Hch. apply IH. now apply in_rev.
      - rewrite map_rev. now apply PD_rev. }
    eapply Good_ext; [|exact HG]. intros v. rewrite !in_concat.
    split; intros [W [HW Hv]]; exists W; (split; [|exact Hv]);
      apply in_map_iff in HW; destruct HW as [ch [<- Hch]]; apply in_map_iff; exists ch;
      (split; [reflexivity|]); [now apply in_rev|now apply in_rev in Hch].
  - apply in_concat in Hc. destruct Hc as [L [HL HcL]].
    apply in_map_iff in HL. destruct HL as [ch [<- Hch]].
    specialize (IH ch Hch c HcL). eapply Good_ext; [|exact IH]. intros v. split.
    + intros Hv. apply in_concat. exists (nth ch (varss C) []). split; [|exact Hv].
      apply in_map_iff. now exists ch.
    + cbn [smooth_node] in Hsm. rewrite forallb_forall in Hsm. specialize (Hsm ch Hch).
      rewrite inclb_incl in Hsm. apply Hsm.
  - destruct Hc as [<-|[]]. split; cbn; [constructor|tauto].
  - destruct Hc.
Qed.

(* ---------- determinism: at most one enumerated configuration is satisfied ---------- *)

Lemma nprod_le1 (l : list nat) : (forall x, In x l -> (x <= 1)%nat) -> (nprod l <= 1)%nat.
Proof.
  induction l as [|x l IH]; intros H; [cbn; lia|].
  change (nprod (x :: l)) with (x * nprod l)%nat.
  assert (x <= 1)%nat by (apply H; now left).
  assert (nprod l <= 1)%nat by (apply IH; intros y Hy; apply H; now right). nia.
Qed.

Lemma filter_nil_existsb {A} (p : A -> bool) (l : list A) :
  existsb p l = false -> filter p l = [].
Proof.
  induction l as [|x l IH]; [reflexivity|]. cbn. destruct (p x); cbn; [discriminate|exact IH].
Qed.

Lemma or_filter_bound (C : circuit) (s : asg) (cs : list nat) :
  (forall ch, In ch cs -> (length (filter (sat_cfg s) (nth ch (enums C) [])) <= 1)%nat) ->
  (nsum (map (fun ch => length (filter (sat_cfg s) (nth ch (enums C) []))) cs)
   <= length (filter id (map (fun c => nth c (evals s C) false) cs)))%nat.
Proof.
  induction cs as [|ch cs IH]; intros H; [cbn; lia|].
  cbn [map filter].
  change (nsum (?x :: ?l)) with (x + nsum l)%nat.
  assert (IH' := IH (fun c Hc => H c (or_intror Hc))).
  rewrite (eval_enum_nth s C ch).
  destruct (existsb (sat_cfg s) (nth ch (enums C) [])) eqn:Ex; unfold id at 1.
  - cbn [length]. specialize (H ch (or_introl eq_refl)). lia.
  - rewrite (filter_nil_existsb _ _ Ex). cbn [length]. lia.
Qed.

Lemma det_filter_le1 (C : circuit) (s : asg) :
  idx_ok C = true -> deterministic C ->
  forall i, (i < length C)%nat ->
  (length (filter (sat_cfg s) (nth i (enums C) [])) <= 1)%nat.
Proof.
  intros Hok Hdet.
  apply (idx_induction C (fun i => (length (filter (sat_cfg s) (nth i (enums C) [])) <= 1)%nat) Hok).
  intros i Hi IH. rewrite (enums_unfold C Hok i Hi).
  specialize (Hdet s i). rewrite (nth_error_nth' C i Hi) in Hdet.
  destruct (nth i C FalseN) as [l|cs|cs| |] eqn:E; cbn [enum_node children] in *.
  - cbn [filter]. destruct (sat_cfg s [l]); cbn; lia.
  - rewrite filter_prod; [|reflexivity|apply sat_cfg_app].
    rewrite prod_length. apply nprod_le1. intros x Hx.
    rewrite !map_map in Hx. apply in_map_iff in Hx. destruct Hx as [L [<- HL]].
    apply in_rev in HL. apply in_map_iff in HL. destruct HL as [ch [<- Hch]]. now apply IH.
  - specialize (Hdet cs eq_refl). rewrite filter_concat, concat_length, !map_map.
    pose proof (or_filter_bound C s cs IH). lia.
  - cbn. lia.
  - cbn. lia.
Qed.

(* ---------- the truth table ---------- *)

Lemma zseq_In start len v : In v (zseq start len) <-> start <= v < start + Z.of_nat len.
Proof.
  revert start. induction len as [|len IH]; intros start; cbn [zseq].
  - cbn. lia.
  - cbn [In]. rewrite IH. lia.
Qed.

Lemma zseq_NoDup start len : NoDup (zseq start len).
Proof.
  revert start. induction len as [|len IH]; intros start; cbn [zseq]; constructor; [|apply IH].
  rewrite zseq_In. lia.
Qed.

(* membership in the table: same length and pointwise +-v *)
Lemma in_all_cfgs_over vs m :
  In m (all_cfgs_over vs) <-> Forall2 (fun v l => l = v \/ l = - v) vs m.
Proof.
  revert m. induction vs as [|v vs IH]; intros m; cbn [all_cfgs_over].
  - split; [intros [<-|[]]; constructor|]. intros H. inversion H. now left.
  - rewrite in_app_iff, !in_map_iff. split.
    + intros [[r [<- Hr]]|[r [<- Hr]]]; constructor; auto; now apply IH.
    + intros H. inversion H as [|v' l vs' r Hl Hr]; subst. apply IH in Hr.
      destruct Hl as [->| ->]; [left|right]; now exists r.
Qed.

Lemma canon_in_all n s : In (canon n s) (all_cfgs n).
Proof.
  unfold all_cfgs, canon. apply in_all_cfgs_over.
  induction (zseq 1 n) as [|v vs IH]; cbn; constructor; [|exact IH].
  destruct (s v); auto.
Qed.

Lemma all_cfgs_over_NoDup vs : (forall v, In v vs -> v <> 0) -> NoDup (all_cfgs_over vs).
Proof.
  induction vs as [|v vs IH]; intros Hnz; cbn [all_cfgs_over]; [repeat constructor; intros []|].
  assert (Hv : v <> 0) by (apply Hnz; now left).
  assert (IH' : NoDup (all_cfgs_over vs)) by (apply IH; intros w Hw; apply Hnz; now right).
  apply NoDup_app_intro.
  - apply FinFun.Injective_map_NoDup; [|exact IH']. intros a b Hab. now inversion Hab.
  - apply FinFun.Injective_map_NoDup; [|exact IH']. intros a b Hab. now inversion Hab.
  - intros x Hx1 Hx2. apply in_map_iff in Hx1. apply in_map_iff in Hx2.
    destruct Hx1 as [r1 [<- _]]. destruct Hx2 as [r2 [Heq _]]. inversion Heq. lia.
Qed.

Lemma all_cfgs_NoDup n : NoDup (all_cfgs n).
Proof. apply all_cfgs_over_NoDup. intros v Hv. apply zseq_In in Hv. lia. Qed.

(* reading a complete configuration back *)
Lemma asg_of_table vs m v :
  Forall2 (fun v l => l = v \/ l = - v) vs m -> (forall w, In w vs -> 0 < w) -> NoDup vs ->
  In v vs -> (asg_of m v = true <-> In v m).
Proof. intros _ _ _ _. unfold asg_of. apply memZ_In. Qed.

Lemma table_entry vs m :
  Forall2 (fun v l => l = v \/ l = - v) vs m -> (forall w, In w vs -> 0 < w) -> NoDup vs ->
  m = map (fun v => if asg_of m v then v else - v) vs.
Proof.
  intros HF Hpos Hnd.
  assert (Hgen : forall m0, (forall v, In v vs -> (In v m0 <-> In v m)) ->
                 m = map (fun v => if asg_of m0 v then v else - v) vs).
  2:{ apply Hgen. tauto. }
  induction HF as [|v l vs m Hl HF IH]; intros m0 Hm0; [reflexivity|].
  inversion Hnd as [|? ? Hnotin Hnd']; subst.
  assert (Hposv : 0 < v) by (apply Hpos; now left).
  assert (Hneg : forall x, In x m -> x <> v).
  { intros x Hx ->. clear - HF Hx Hnotin Hpos.
    induction HF as [|w l' vs m Hl' HF IH]; [destruct Hx|].
    destruct Hx as [->|Hx].
    - destruct Hl' as [->| Hl']; [apply Hnotin; now left|].
      assert (0 < w) by (apply Hpos; right; now left).
      assert (0 < v) by (apply Hpos; now left). lia.
    - apply IH; auto.
      all: match goal with
           | |- ~ In _ _ => intros Hin; apply Hnotin; now right
           | |- forall _, _ -> 0 < _ => intros u [->|Hu]; apply Hpos; [now left|right; now right]
           end. }
  cbn [map]. f_equal.
  - unfold asg_of. destruct (memZ v m0) eqn:Hmem.
    + apply memZ_In in Hmem. apply (Hm0 v (or_introl eq_refl)) in Hmem.
      destruct Hmem as [->|Hmem]; [reflexivity|]. exfalso. exact (Hneg v Hmem eq_refl).
    + apply memZ_false in Hmem. destruct Hl as [->| ->]; [|reflexivity].
      exfalso. apply Hmem. apply (Hm0 v (or_introl eq_refl)). now left.
  - apply IH; [intros w Hw; apply Hpos; now right|exact Hnd'|].
    intros w Hw. rewrite (Hm0 w (or_intror Hw)). split; [|intros; now right].
    intros [->|Hin]; [|exact Hin]. exfalso.
    destruct Hl as [->| ->]; [contradiction|].
    assert (0 < - v) by (apply Hpos; now right). lia.
Qed.

Lemma canon_asg_of n m : In m (all_cfgs n) -> canon n (asg_of m) = m.
Proof.
  intros Hm. unfold all_cfgs in Hm. apply in_all_cfgs_over in Hm. unfold canon. symmetry.
  apply table_entry; [exact Hm| |apply zseq_NoDup]. intros w Hw. apply zseq_In in Hw. lia.
Qed.

Lemma asg_canon n s v : 1 <= v <= Z.of_nat n -> asg_of (canon n s) v = s v.
Proof.
  intros Hv. unfold asg_of, canon.
  destruct (s v) eqn:Hs.
  - apply memZ_In. apply in_map_iff. exists v. rewrite Hs. split; [reflexivity|]. apply zseq_In. lia.
  - apply memZ_false. intros Hin. apply in_map_iff in Hin. destruct Hin as [w [Hw Hin]].
    apply zseq_In in Hin. destruct (s w) eqn:Hsw; [subst; congruence|lia].
Qed.

(* ---------- the bijection ---------- *)

Lemma lit_true_ext s s' l : s (Z.abs l) = s' (Z.abs l) -> lit_true s l = lit_true s' l.
Proof.
  unfold lit_true. destruct (0 <? l) eqn:Hl.
  - apply Z.ltb_lt in Hl. rewrite Z.abs_eq by lia. auto.
  - apply Z.ltb_ge in Hl. rewrite Z.abs_neq by lia. intros ->. reflexivity.
Qed.

Lemma NoDup_map_inj_in {A B} (f : A -> B) (l : list A) x y :
  NoDup (map f l) -> In x l -> In y l -> f x = f y -> x = y.
Proof.
  induction l as [|a l IH]; intros Hnd Hx Hy Hf; [destruct Hx|].
  cbn in Hnd. inversion Hnd as [|? ? Hnotin Hnd']; subst.
  destruct Hx as [->|Hx], Hy as [->|Hy]; auto.
  - exfalso. apply Hnotin. rewrite Hf. now apply in_map.
  - exfalso. apply Hnotin. rewrite <- Hf. now apply in_map.
Qed.

Lemma sat_self c : NoDup (map Z.abs c) -> ~ In 0 c -> sat_cfg (asg_of c) c = true.
Proof.
  intros Hnd H0. unfold sat_cfg. apply forallb_forall. intros l Hl.
  unfold lit_true, asg_of. destruct (0 <? l) eqn:Hpos.
  - now apply memZ_In.
  - apply negb_true_iff. apply memZ_false. intros Hin.
    apply Z.ltb_ge in Hpos.
    assert (l = - l) by (apply (NoDup_map_inj_in Z.abs c); auto; lia).
    assert (l = 0) by lia. subst. contradiction.
Qed.

Definition range_set (n : nat) (V : list Z) : Prop :=
  forall v, In v V <-> 1 <= v <= Z.of_nat n.

Lemma complete_range C n : complete C n = true -> range_set n (last (varss C) []).
Proof.
  unfold complete. intros H. apply andb_true_iff in H. destruct H as [H1 H2].
  rewrite inclb_incl in H1, H2. intros v. split.
  - intros Hv. apply H1 in Hv. apply zseq_In in Hv. lia.
  - intros Hv. apply H2. apply zseq_In. lia.
Qed.

Lemma sat_cfg_canon n s c :
  (forall l, In l c -> 1 <= Z.abs l <= Z.of_nat n) ->
  sat_cfg (asg_of (canon n s)) c = sat_cfg s c.
Proof.
  intros H. unfold sat_cfg. induction c as [|l c IH]; [reflexivity|].
  cbn [forallb]. rewrite IH by (intros; apply H; now right). f_equal.
  apply lit_true_ext. apply asg_canon. apply H. now left.
Qed.

Lemma good_range_lits n c V : Good c V -> range_set n V ->
  (forall l, In l c -> 1 <= Z.abs l <= Z.of_nat n) /\ ~ In 0 c.
Proof.
  intros [_ H2] HV. split.
  - intros l Hl. apply HV. apply H2. now apply in_map.
  - intros H0. assert (In (Z.abs 0) (map Z.abs c)) by now apply in_map.
    apply H2 in H. apply HV in H. cbn in H. lia.
Qed.

Lemma good_sat_canon n c V : Good c V -> range_set n V ->
  sat_cfg (asg_of (canon_cfg n c)) c = true.
Proof.
  intros HG HV. destruct (good_range_lits n c V HG HV) as [Hr H0].
  unfold canon_cfg. rewrite sat_cfg_canon by exact Hr. apply sat_self; [apply HG|exact H0].
Qed.

Lemma good_sat_unique n c V m : Good c V -> range_set n V ->
  In m (all_cfgs n) -> sat_cfg (asg_of m) c = true -> canon_cfg n c = m.
Proof.
  intros HG HV Hm Hsat. transitivity (canon n (asg_of m)); [|exact (canon_asg_of n m Hm)].
  unfold canon_cfg, canon.
  apply map_ext_in. intros v Hv. apply zseq_In in Hv.
  assert (Heq : asg_of c v = asg_of m v); [|now rewrite Heq].
  unfold sat_cfg in Hsat. rewrite forallb_forall in Hsat.
  destruct (asg_of c v) eqn:Hc.
  - unfold asg_of in Hc. apply memZ_In in Hc. apply Hsat in Hc. unfold lit_true in Hc.
    replace (0 <? v) with true in Hc by (symmetry; apply Z.ltb_lt; lia). now rewrite Hc.
  - unfold asg_of in Hc. apply memZ_false in Hc.
    destruct HG as [_ H2]. assert (Hin : In v (map Z.abs c)) by (apply H2; apply HV; lia).
    apply in_map_iff in Hin. destruct Hin as [l [Habs Hl]].
    assert (l = - v) by (destruct (Z.abs_spec l) as [[? ?]|[? ?]]; [subst; congruence|lia]).
    subst l. apply Hsat in Hl. unfold lit_true in Hl.
    replace (0 <? - v) with false in Hl by (symmetry; apply Z.ltb_ge; lia).
    rewrite Z.opp_involutive in Hl. apply negb_true_iff in Hl. now rewrite Hl.
Qed.

Lemma NoDup_map_from_filter {A B} (P : B -> A -> bool) (f : A -> B) (l : list A) :
  (forall x, In x l -> P (f x) x = true) ->
  (forall y, (length (filter (P y) l) <= 1)%nat) ->
  NoDup (map f l).
Proof.
  induction l as [|x l IH]; intros Hs Hle; [constructor|].
  cbn. constructor.
  - intros Hin. apply in_map_iff in Hin. destruct Hin as [x' [Hf Hx']].
    specialize (Hle (f x)). cbn in Hle. rewrite (Hs x (or_introl eq_refl)) in Hle.
    cbn in Hle. assert (Hin : In x' (filter (P (f x)) l)).
    { apply filter_In. split; [exact Hx'|]. rewrite <- Hf. apply Hs. now right. }
    destruct (filter (P (f x)) l); [destruct Hin|cbn in Hle; lia].
  - apply IH; [intros y Hy; apply Hs; now right|].
    intros y. specialize (Hle y). cbn in Hle. destruct (P y x); cbn in Hle; lia.
Qed.

Section Main.
Variables (C : circuit) (n : nat).
Hypothesis HWF : WF C n.

Lemma root_good : forall c, In c (enum_root C) -> Good c (last (varss C) []).
Proof.
  intros c Hc. rewrite enum_root_nth in Hc.
  assert (Hl : last (varss C) [] = nth (root C) (varss C) []).
  { unfold root. rewrite last_nth. unfold varss. now rewrite pass_length. }
  rewrite Hl. apply cfg_struct; try apply HWF; [|exact Hc]. apply root_lt. apply HWF.
Qed.

Theorem models_enum_perm : Permutation (map (canon_cfg n) (enum_root C)) (Models C n).
Proof.
  pose proof (complete_range C n (wf_complete C n HWF)) as HV.
  apply NoDup_Permutation.
  - apply (NoDup_map_from_filter (fun m c => sat_cfg (asg_of m) c)).
    + intros c Hc. eapply good_sat_canon; [apply root_good; exact Hc|exact HV].
    + intros m. rewrite enum_root_nth. apply det_filter_le1; try apply HWF.
      apply root_lt. apply HWF.
  - unfold Models. apply NoDup_filter. apply all_cfgs_NoDup.
  - intros m. unfold Models. rewrite filter_In, in_map_iff. split.
    + intros [c [<- Hc]]. split; [apply canon_in_all|].
      rewrite eval_root_enum. apply existsb_exists. exists c. split; [exact Hc|].
      eapply good_sat_canon; [apply root_good; exact Hc|exact HV].
    + intros [Hm Hev]. rewrite eval_root_enum in Hev. apply existsb_exists in Hev.
      destruct Hev as [c [Hc Hsat]]. exists c. split; [|exact Hc].
      eapply good_sat_unique; [apply root_good; exact Hc|exact HV|exact Hm|exact Hsat].
Qed.

Theorem count_is_MC : root_count C = MC C n.
Proof.
  unfold MC. rewrite <- enum_root_count. f_equal.
  rewrite <- (Permutation_length models_enum_perm). now rewrite map_length.
Qed.

End Main.

Theorem same_function_same_count (C1 C2 : circuit) (n : nat) :
  WF C1 n -> WF C2 n ->
  (forall s, eval_root s C1 = eval_root s C2) -> root_count C1 = root_count C2.
Proof.
  intros H1 H2 He. rewrite (count_is_MC C1 n H1), (count_is_MC C2 n H2).
  unfold MC, Models. f_equal. f_equal. apply filter_ext. intros m. apply He.
Qed.
