(* The cached core after a unit edit (Ddnnf::rebuild recomputes it, F7; calculate_core ignores dead
   branches, F22): the core of the edited vector lists exactly the literals that every model of
   the conjunction with the unit clause contains - ALSO when the edit leaves dead (zero-count)
   nodes behind (finding K4), where the edited vector is neither smooth nor no_dead and the
   theorems about WF vectors do not apply.
   Route: the configurations of the root of the edited vector are the configurations of the root
   of C that do not contain -l (enums of the pruned vector = filtered enums; reflatten preserves
   every natural pass at the root), and the live literals are the literals of the root's
   configurations (Proofs/Live.v, needs idx_ok only). *)
From Coq Require Import List ZArith Bool Lia Permutation.
From DD Require Import Model.Circuit Model.Query Model.Edit Proofs.PassLemmas Proofs.Enum Proofs.Semantics
  Proofs.DetCert Proofs.CountsA Proofs.QueryDefs Proofs.Live Proofs.C05Proof
  Proofs.EditReduce Proofs.EditRenumber Proofs.EditUnit.
Import ListNotations.
Open Scope Z_scope.

Lemma enum_node_natural : natural enum_node [].
Proof. intros acc acc' [l|cs|cs| |] r H; cbn in *; try reflexivity; now rewrite (map_nth_rename acc acc'). Qed.

Theorem enum_root_reflatten C : C <> [] -> idx_ok C = true ->
  enum_root (reflatten C) = enum_root C.
Proof.
  intros Hne Hok. rewrite !enum_root_nth.
  apply (pass_reflatten_root enum_node [] C enum_node_natural Hne Hok).
Qed.

Lemma okA_unit_single (l x : Z) : okA [l] [x] = negb (- x =? l).
Proof. unfold okA. cbn. now rewrite orb_false_r, andb_true_r. Qed.

Lemma concat_map_filter_nil {A B} (g : A -> list B) (keep : A -> bool) (cs : list A) :
  (forall c, In c cs -> keep c = false -> g c = []) ->
  concat (map g (filter keep cs)) = concat (map g cs).
Proof.
  induction cs as [|c cs IH]; intros H; [reflexivity|]. cbn [filter map concat].
  destruct (keep c) eqn:E.
  - cbn [map concat]. f_equal. apply IH. intros c' Hc'. apply H. now right.
  - rewrite (H c (or_introl eq_refl) E). cbn [app]. apply IH. intros c' Hc'. apply H. now right.
Qed.

Section Prune.
Variables (C : circuit) (l : Z).
Hypothesis Hok : idx_ok C = true.
Notation rm := (removeds C l).
Notation P := (prune rm C).

(* every configuration of a removed node contains -l *)
Lemma enums_removed : forall i, (i < length C)%nat -> nth i rm false = true ->
  filter (okA [l]) (nth i (enums C) []) = [].
Proof.
  apply (idx_induction C (fun i => nth i rm false = true ->
                                   filter (okA [l]) (nth i (enums C) []) = []) Hok).
  intros i Hi IH Hr. rewrite (removeds_unfold C l i Hok Hi) in Hr. rewrite (enums_unfold C Hok i Hi).
  destruct (nth i C FalseN) as [x|cs|cs| |] eqn:E; cbn [removed_node enum_node children] in *; try discriminate.
  - apply Z.eqb_eq in Hr. subst x. cbn [filter]. rewrite okA_unit_single, Z.opp_involutive, Z.eqb_refl.
    reflexivity.
  - apply existsb_exists in Hr. destruct Hr as [c [Hc Hrc]].
    rewrite filter_prod; [|reflexivity|apply okA_app].
    destruct (prod (map (filter (okA [l])) (rev (map (fun c0 => nth c0 (enums C) []) cs)))) as [|y R] eqn:Ep;
      [reflexivity|exfalso].
    assert (Hne : prod (map (filter (okA [l])) (rev (map (fun c0 => nth c0 (enums C) []) cs))) <> [])
      by (rewrite Ep; discriminate).
    apply (live_prod_factors _ Hne (filter (okA [l]) (nth c (enums C) []))); [|now apply IH].
    apply in_map_iff. exists (nth c (enums C) []). split; [reflexivity|].
    apply in_rev. rewrite rev_involutive. apply in_map_iff. now exists c.
Qed.

Lemma enums_prune : forall i, (i < length C)%nat -> nth i rm false = false ->
  nth i (enums P) [] = filter (okA [l]) (nth i (enums C) []).
Proof.
  pose proof (prune_idx_ok rm C Hok) as Hok'.
  apply (idx_induction C (fun i => nth i rm false = false ->
            nth i (enums P) [] = filter (okA [l]) (nth i (enums C) [])) Hok).
  intros i Hi IH Hr.
  assert (Hi' : (i < length P)%nat) by now rewrite prune_length.
  rewrite (removeds_unfold C l i Hok Hi) in Hr.
  rewrite (enums_unfold _ Hok' i Hi' []), prune_nth, (enums_unfold C Hok i Hi []).
  assert (Hlt : forall c, In c (children (nth i C FalseN)) -> (c < length C)%nat).
  { intros c Hc. pose proof (idx_ok_nth C i FalseN Hok Hi c Hc). lia. }
  destruct (nth i C FalseN) as [x|cs|cs| |] eqn:E;
    cbn [removed_node prune_node enum_node children] in *; try reflexivity.
  - apply Z.eqb_neq in Hr. cbn [filter]. rewrite okA_unit_single.
    destruct (- x =? l) eqn:E2; [apply Z.eqb_eq in E2; lia|reflexivity].
  - rewrite filter_prod; [|reflexivity|apply okA_app]. f_equal.
    rewrite (map_rev (filter (okA [l]))). f_equal. rewrite map_map. apply map_ext_in.
    intros c Hc. apply IH; [exact Hc|].
    destruct (nth c rm false) eqn:Ec; [|reflexivity].
    assert (existsb (fun c0 => nth c0 rm false) cs = true) by (apply existsb_exists; now exists c).
    congruence.
  - rewrite filter_concat, map_map.
    rewrite <- (concat_map_filter_nil (fun c => filter (okA [l]) (nth c (enums C) []))
                                       (fun c => negb (nth c rm false)) cs).
    + f_equal. apply map_ext_in. intros c Hc. apply filter_In in Hc. destruct Hc as [Hc Hk].
      apply negb_true_iff in Hk. now apply IH.
    + intros c Hc Hk. apply negb_false_iff in Hk. apply enums_removed; auto.
Qed.

End Prune.

(* the configurations of the edited root = the configurations of the root of C without -l *)
Theorem unit_edit_enum_root (C : circuit) (n : nat) (l : Z) :
  WF C n -> 1 <= Z.abs l <= Z.of_nat n -> 0 < MCA C n [l] ->
  enum_root (unit_edit C l) = filter (okA [l]) (enum_root C).
Proof.
  intros HWF Hl Hpos. pose proof HWF as [Hne Hok _ _ _ _].
  pose proof (root_not_removed C n l Hne Hok Hl Hpos) as Hlast.
  unfold unit_edit. rewrite Hlast.
  rewrite (enum_root_reflatten _ (prune_nonempty _ C Hne) (prune_idx_ok _ C Hok)).
  rewrite !enum_root_nth, root_prune.
  rewrite (last_removeds C l Hne) in Hlast.
  exact (enums_prune C l Hok (root C) (root_lt C Hne) Hlast).
Qed.

Section UnitCore.
Variables (C : circuit) (n : nat) (l : Z).
Hypothesis HWF : WF C n.
Hypothesis Hl : 1 <= Z.abs l <= Z.of_nat n.
Hypothesis Hpos : 0 < MCA C n [l].
Notation E := (unit_edit C l).

Lemma okA_unit_spec (c : cfg) : okA [l] c = true <-> ~ In (- l) c.
Proof.
  unfold okA. rewrite forallb_forall. split.
  - intros H Hin. specialize (H _ Hin). rewrite Z.opp_involutive in H. cbn in H.
    rewrite Z.eqb_refl in H. discriminate.
  - intros H y Hy. apply negb_true_iff. cbn. rewrite orb_false_r. apply Z.eqb_neq.
    intros Heq. apply H. replace (- l) with y by lia. exact Hy.
Qed.

(* a literal occurs in a configuration of the edited root iff some model of C contains it and l *)
Lemma edited_root_lit (x : Z) :
  (exists c, In c (enum_root E) /\ In x c) <->
  (exists m, In m (Models C n) /\ In l m /\ In x m).
Proof.
  rewrite (unit_edit_enum_root C n l HWF Hl Hpos).
  pose proof (complete_range C n (wf_complete C n HWF)) as HV.
  split.
  - intros [c [Hc Hx]]. apply filter_In in Hc. destruct Hc as [Hc Hokc].
    pose proof (root_good C n HWF c Hc) as HG.
    exists (canon_cfg n c). split; [now apply repr_model|]. split.
    + apply (good_in_canon n c _ l HG HV).
      destruct (good_has_var n c _ l HG HV Hl) as [H|H]; [exact H|].
      exfalso. now apply (okA_unit_spec c).
    + exact (good_in_canon n c _ x HG HV Hx).
  - intros [m [Hm [Hlm Hxm]]].
    pose proof (Models_in_table C n m Hm) as Ht.
    destruct (model_repr C n m HWF Hm) as [c [Hc Heq]].
    pose proof (root_good C n HWF c Hc) as HG.
    exists c. split.
    + apply filter_In. split; [exact Hc|]. apply okA_unit_spec. intros Hin.
      apply (table_no_conflict n m l Ht Hlm). rewrite Heq. exact (good_in_canon n c _ (- l) HG HV Hin).
    + destruct (good_has_var n c _ x HG HV (table_In_range n m x Ht Hxm)) as [H|H]; [exact H|].
      exfalso. apply (table_no_conflict n m x Ht Hxm). rewrite Heq.
      exact (good_in_canon n c _ (- x) HG HV H).
Qed.

Lemma some_model_with_l : exists m, In m (Models C n) /\ In l m.
Proof.
  unfold MCA in Hpos. destruct (ModelsA C n [l]) as [|m ms] eqn:Em; [cbn in Hpos; lia|].
  assert (Hin : In m (ModelsA C n [l])) by (rewrite Em; now left).
  apply ModelsA_In in Hin. destruct Hin as [Hm Hc]. exists m. split; [exact Hm|]. apply Hc. now left.
Qed.

(* C11 + C05: the recomputed core after the unit edit, no hypothesis on dead nodes *)
Theorem unit_then_core_exact (x : Z) :
  In x (calculate_core E n) <-> (forall m, In m (Models C n) -> In l m -> In x m).
Proof.
  destruct (unit_edit_idx_ok C n l HWF Hl Hpos) as [HneE HokE].
  assert (HrcE : root_count E <> 0) by (rewrite (unit_root_count C n l HWF Hl Hpos); lia).
  rewrite (core_live E n x HokE HneE HrcE), !(live_lit_enum E HokE _ HneE), !edited_root_lit.
  split.
  - intros [Hr [[m1 [Hm1 [_ Hx1]]] Hneg]] m Hm Hlm.
    pose proof (Models_in_table C n m Hm) as Ht.
    assert (Hx0 : 1 <= Z.abs x <= Z.of_nat n)
      by exact (table_In_range n m1 x (Models_in_table C n m1 Hm1) Hx1).
    destruct (memZ x m) eqn:Ex; [now apply memZ_In|exfalso]. apply Hneg. exists m. split; [exact Hm|].
    split; [exact Hlm|]. apply memZ_In.
    destruct (Z_lt_le_dec 0 x) as [Hp|Hn].
    + rewrite (table_memZ_opp n m x Ht ltac:(lia)), Ex. reflexivity.
    + assert (Hv : 1 <= - x <= Z.of_nat n) by lia.
      pose proof (table_memZ_opp n m (- x) Ht Hv) as Hopp. rewrite Z.opp_involutive in Hopp.
      rewrite Hopp in Ex. apply negb_false_iff in Ex. exact Ex.
  - intros Hall. destruct some_model_with_l as [m0 [Hm0 Hl0]].
    pose proof (Models_in_table C n m0 Hm0) as Ht0.
    pose proof (table_In_range n m0 x Ht0 (Hall m0 Hm0 Hl0)) as Hr.
    split; [lia|]. split.
    + exists m0. split; [exact Hm0|]. split; [exact Hl0|now apply Hall].
    + intros [m [Hm [Hlm Hnx]]].
      exact (table_no_conflict n m x (Models_in_table C n m Hm) (Hall m Hm Hlm) Hnx).
Qed.

End UnitCore.
