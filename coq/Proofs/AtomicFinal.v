(* C08: from the final partition to the reported list (plain mode): sorting every class and then
   the classes lexicographically yields exactly classes_spec, and the theorem about get_atomic_sets. *)
From Coq Require Import List ZArith Bool Lia Permutation.
From DD Require Import Model.Circuit Model.Query Model.Enumerate Model.Atomic
  Proofs.Semantics Proofs.CountsA Proofs.QueryDefs Proofs.AtomicSort Proofs.AtomicUF Proofs.AtomicSem
  Proofs.AtomicMain.
Import ListNotations.
Open Scope Z_scope.

Lemma ssorted_impl_nodup {T} (R R' : T -> T -> Prop) (l : list T) :
  NoDup l -> (forall x y, In x l -> In y l -> x <> y -> R x y -> R' x y) ->
  ssorted R l -> ssorted R' l.
Proof.
  induction l as [|x l IH]; intros Hnd HR Hs; [exact I|].
  destruct Hs as [Hx Hs]. inversion Hnd as [|? ? Hnotin Hnd']; subst. split.
  - intros y Hy. apply HR; [now left|now right| |now apply Hx]. intros ->. contradiction.
  - apply IH; [exact Hnd'| |exact Hs]. intros a b Ha Hb. apply HR; now right.
Qed.

Lemma two_members (l : list Z) (a : Z) :
  NoDup l -> (2 <= length l)%nat -> exists b, In b l /\ b <> a.
Proof.
  intros Hnd Hlen. destruct l as [|x [|y l]]; cbn in Hlen; try lia.
  inversion Hnd as [|? ? Hnotin _]; subst.
  destruct (Z.eq_dec x a) as [->|Hne].
  2:{ exists x. split; [now left|exact Hne]. }
  exists y. split; [right; now left|]. intros ->. apply Hnotin. now left.
Qed.

Lemma Disj_map_sort_NoDup (u : uf) :
  Disj u -> (forall c, In c u -> c <> []) -> NoDup (map sortZ u).
Proof.
  induction 1 as [|c u Hd HD IH]; intros Hne; cbn [map]; constructor.
  - intros Hin. apply in_map_iff in Hin. destruct Hin as [c' [E Hc']].
    assert (Hc : c <> []) by (apply Hne; now left).
    destruct c as [|z c]; [congruence|].
    apply (Hd z c' (or_introl eq_refl) Hc').
    apply (sort_by_In Z.leb). rewrite E. apply sort_by_In. now left.
  - apply IH. intros c' Hc'. apply Hne. now right.
Qed.

Section Final.
Variables (r : Z -> Z -> bool) (Rp : Z -> Z -> Prop).
Hypothesis Hr : forall a b, r a b = true <-> Rp a b.
Hypothesis R_refl : forall a, Rp a a.
Hypothesis R_sym : forall a b, Rp a b -> Rp b a.
Hypothesis R_trans : forall a b c, Rp a b -> Rp b c -> Rp a c.

Variable cs : list Z.
Hypothesis cs_nodup : NoDup cs.
Notation s := (sortZ cs).

Definition is_min (f : Z) : bool := forallb (fun g => negb (r f g) || (f <=? g)) s.
Definition class_at (f : Z) : list Z := filter (r f) s.

Lemma classes_spec_unfold :
  classes_spec r cs = filter (fun c => Nat.leb 2 (length c)) (map class_at (filter is_min s)).
Proof. reflexivity. Qed.

Lemma s_asc : ssorted Z.lt s.
Proof. now apply sortZ_lt. Qed.

Lemma in_s (x : Z) : In x s <-> In x cs.
Proof. apply sort_by_In. Qed.

Lemma in_spec (c : list Z) :
  In c (classes_spec r cs) <->
  exists f, In f cs /\ is_min f = true /\ c = class_at f /\ (2 <= length c)%nat.
Proof.
  rewrite classes_spec_unfold, filter_In, in_map_iff. split.
  - intros [[f [<- Hf]] Hlen]. apply filter_In in Hf. destruct Hf as [Hf Hmin].
    exists f. rewrite <- in_s. apply Nat.leb_le in Hlen. auto.
  - intros [f [Hf [Hmin [-> Hlen]]]]. split; [|now apply Nat.leb_le].
    exists f. split; [reflexivity|]. apply filter_In. rewrite in_s. auto.
Qed.

Lemma class_at_ext (f f' : Z) : Rp f f' -> class_at f = class_at f'.
Proof.
  intros H. unfold class_at. apply filter_ext. intros z.
  apply eq_true_iff_eq. rewrite !Hr. split; intros H'.
  - apply (R_trans f' f z); [now apply R_sym|exact H'].
  - now apply (R_trans f f' z).
Qed.

Lemma class_at_asc (f : Z) : ssorted Z.lt (class_at f).
Proof. apply ssorted_filter, s_asc. Qed.

(* the head of the class of a minimal member is that member *)
Lemma hd_filter_min (l : list Z) (f : Z) :
  ssorted Z.lt l -> In f l -> (forall g, In g l -> negb (r f g) || (f <=? g) = true) ->
  hd 0 (filter (r f) l) = f.
Proof.
  induction l as [|x l IH]; intros Hasc Hf Hmin; [destruct Hf|]. cbn [filter].
  destruct Hasc as [Hx Hasc]. destruct Hf as [->|Hf].
  - replace (r f f) with true by (symmetry; apply Hr, R_refl). reflexivity.
  - assert (Hlt : x < f) by now apply Hx.
    pose proof (Hmin x (or_introl eq_refl)) as Hmx. apply orb_true_iff in Hmx.
    destruct (r f x); [destruct Hmx as [Hmx|Hmx]; [discriminate|apply Z.leb_le in Hmx; lia]|].
    apply IH; [exact Hasc|exact Hf|intros g Hg; apply Hmin; now right].
Qed.

Lemma hd_class_at (f : Z) : In f cs -> is_min f = true -> hd 0 (class_at f) = f.
Proof.
  intros Hf Hmin. unfold is_min in Hmin. rewrite forallb_forall in Hmin. unfold class_at.
  apply hd_filter_min; [exact s_asc|now apply in_s|exact Hmin].
Qed.

Variable u : uf.
Hypothesis HI : UFInv Rp (fun l => In l cs) u.
Hypothesis Hcomplete : forall a b, In a cs -> In b cs -> Rp a b -> same_class u a b.

(* a class of the partition, sorted, is the class_at of its smallest member *)
Lemma class_sorted (c0 : list Z) : In c0 u ->
  let f := hd 0 (sortZ c0) in
  In f c0 /\ In f cs /\ is_min f = true /\ sortZ c0 = class_at f.
Proof.
  intros Hc0 f.
  pose proof (uf_nodup _ _ _ HI c0 Hc0) as Hnd. pose proof (uf_len _ _ _ HI c0 Hc0) as Hlen.
  assert (Hasc : ssorted Z.lt (sortZ c0)) by now apply sortZ_lt.
  assert (Hf0 : In f c0).
  { apply (sort_by_In Z.leb). apply hd_In. intros E. apply (f_equal (@length Z)) in E.
    rewrite sort_by_length in E. cbn in E. lia. }
  assert (Hfcs : In f cs) by exact (uf_dom _ _ _ HI c0 f Hc0 Hf0).
  assert (Hmem : forall z, In z c0 <-> In z cs /\ Rp f z).
  { intros z. split.
    - intros Hz. split; [exact (uf_dom _ _ _ HI c0 z Hc0 Hz)|exact (uf_sound _ _ _ HI c0 f z Hc0 Hf0 Hz)].
    - intros [Hz HR]. destruct (Hcomplete f z Hfcs Hz HR) as [<-|[c [Hc [Hfc Hzc]]]]; [exact Hf0|].
      assert (c = c0) by exact (Disj_unique u c c0 f (uf_disj _ _ _ HI) Hc Hc0 Hfc Hf0). now subst c. }
  assert (Hminf : forall g, In g c0 -> f <= g).
  { intros g Hg. apply asc_hd_min; [exact Hasc|]. now apply sort_by_In. }
  split; [exact Hf0|]. split; [exact Hfcs|]. split.
  - unfold is_min. apply forallb_forall. intros g Hg. apply in_s in Hg.
    destruct (r f g) eqn:E; [|reflexivity]. cbn [negb orb]. apply Z.leb_le. apply Hminf.
    apply Hmem. split; [exact Hg|now apply Hr].
  - apply asc_unique; [exact Hasc|apply class_at_asc|].
    intros z. rewrite sort_by_In, Hmem. unfold class_at. rewrite filter_In, in_s, Hr. tauto.
Qed.

Theorem finish_plain_spec : finish false u = classes_spec r cs.
Proof.
  unfold finish, subsets.
  set (HR := fun c1 c2 : list Z => hd 0 c1 < hd 0 c2).
  assert (Hne : forall c, In c u -> c <> []).
  { intros c Hc E. pose proof (uf_len _ _ _ HI c Hc) as H. rewrite E in H. cbn in H. lia. }
  pose proof (uf_disj _ _ _ HI) as HD.
  apply (ssorted_unique HR).
  - unfold HR. intros x. lia.
  - unfold HR. intros x y z. lia.
  - (* the output is sorted by head *)
    apply (ssorted_impl_nodup (fun a b => lex_le a b = true)).
    + apply (Permutation_NoDup (Permutation_sym (sort_by_perm lex_le _))).
      now apply Disj_map_sort_NoDup.
    + intros c1 c2 H1 H2 Hne12 Hle. apply sort_by_In in H1, H2. apply in_map_iff in H1, H2.
      destruct H1 as [c1' [<- H1]]. destruct H2 as [c2' [<- H2]].
      destruct (class_sorted c1' H1) as [F1 _]. destruct (class_sorted c2' H2) as [F2 _].
      assert (N1 : sortZ c1' <> []).
      { intros E. apply (f_equal (@length Z)) in E. rewrite sort_by_length in E.
        pose proof (uf_len _ _ _ HI c1' H1). cbn in E. lia. }
      assert (N2 : sortZ c2' <> []).
      { intros E. apply (f_equal (@length Z)) in E. rewrite sort_by_length in E.
        pose proof (uf_len _ _ _ HI c2' H2). cbn in E. lia. }
      unfold HR. apply lex_le_hd; [exact N1|exact N2| |exact Hle].
      intros Eh. apply Hne12. rewrite Eh in F1.
      now rewrite (Disj_unique u c1' c2' _ HD H1 H2 F1 F2).
    + apply sort_by_sorted; [exact lex_le_total|exact lex_le_trans].
  - (* the specification is sorted by head *)
    rewrite classes_spec_unfold. apply ssorted_filter.
    apply (proj1 (ssorted_map HR class_at (filter is_min s))).
    apply (ssorted_impl_nodup Z.lt).
    + apply NoDup_filter. apply (ssorted_NoDup Z.lt); [intros x; lia|exact s_asc].
    + intros a b Ha Hb _ Hlt. apply filter_In in Ha, Hb. unfold HR.
      rewrite !hd_class_at; [exact Hlt| | | |]; try (apply in_s; tauto); tauto.
    + apply ssorted_filter, s_asc.
  - (* same members *)
    intros c. rewrite sort_by_In, in_map_iff, in_spec. split.
    + intros [c0 [<- Hc0]]. destruct (class_sorted c0 Hc0) as [_ [F2 [F3 F4]]].
      exists (hd 0 (sortZ c0)). split; [exact F2|]. split; [exact F3|]. split; [exact F4|].
      rewrite sort_by_length. exact (uf_len _ _ _ HI c0 Hc0).
    + intros [f [Hf [_ [-> Hlen]]]].
      destruct (two_members (class_at f) f) as [g [Hg Hgf]];
        [apply (ssorted_NoDup Z.lt); [intros x; lia|apply class_at_asc]|exact Hlen|].
      unfold class_at in Hg. apply filter_In in Hg. destruct Hg as [Hg Hrg]. apply in_s in Hg. apply Hr in Hrg.
      destruct (Hcomplete f g Hf Hg Hrg) as [E|[c0 [Hc0 [Hfc Hgc]]]]; [congruence|].
      exists c0. split; [|exact Hc0]. destruct (class_sorted c0 Hc0) as [F1 [_ [_ F4]]].
      rewrite F4. apply class_at_ext. exact (uf_sound _ _ _ HI c0 _ f Hc0 F1 Hfc).
Qed.
End Final.

(* ---- the property theorem, plain mode ---- *)
Definition cand_list (n : nat) (cands : option (list Z)) : list Z :=
  match cands with Some c => c | None => zseq 1 n end.
Definition cands_ok (n : nat) (cands : option (list Z)) : Prop :=
  match cands with
  | Some c => NoDup c /\ forall f, In f c -> 1 <= f <= Z.of_nat n
  | None => True
  end.

Lemma cand_list_ok (n : nat) (cands : option (list Z)) : cands_ok n cands ->
  NoDup (cand_list n cands) /\ forall f, In f (cand_list n cands) -> 1 <= f <= Z.of_nat n.
Proof.
  destruct cands as [c|]; cbn [cands_ok cand_list]; [tauto|]. intros _. split; [apply zseq_NoDup|].
  intros f Hf. apply zseq_In in Hf. lia.
Qed.

Theorem atomic_plain_correct (C : circuit) (n : nat) (A : cfg) (cands : option (list Z))
        (chs : list choice) (s : scratch) :
  WFQ C n -> in_range n A -> 0 < MCA C n A -> Z.of_nat n <= 32767 -> cands_ok n cands ->
  samples_valid C n A chs -> Clean C s ->
  exists s' ok,
    get_atomic_sets (build C n) cands A false chs s =
      (s', Some (classes_spec (eqvb C n A) (cand_list n cands)), ok) /\ Clean C s'.
Proof.
  intros HQ HA Hpos Hn Hc Hsv Hcl. destruct (cand_list_ok n cands Hc) as [Hnd Hrange].
  rewrite get_atomic_sets_unfold. cbn [nv build]. fold (cand_list n cands).
  destruct (cand_list n cands) as [|f0 fs0] eqn:Efs.
  { exists s, true. split; [reflexivity|exact Hcl]. }
  rewrite <- Efs in *.
  destruct (run_body_spec C n A false (cand_list n cands) chs s HQ HA Hpos Hn Hrange Hsv Hcl)
    as [s' [ok [u [E [Hc' [HI Hcomp]]]]]].
  exists s', ok. split; [|exact Hc']. rewrite E. do 3 f_equal. cbn [lits_of] in HI, Hcomp.
  apply (finish_plain_spec (eqvb C n A) (Eqv C n A) (eqvb_spec C n A) (Eqv_refl C n A)
           (Eqv_sym C n A) (Eqv_trans C n A) (cand_list n cands) Hnd u HI Hcomp).
Qed.

(* ---- what classes_spec lists, in words: exactly the classes of the candidates under an
   equivalence relation that have at least two members; every class ascending and complete; the
   classes in ascending order of their smallest members (= lexicographic order, as they are
   disjoint), hence each class once ---- *)
Section Meaning.
Variables (r : Z -> Z -> bool) (Rp : Z -> Z -> Prop).
Hypothesis Hr : forall a b, r a b = true <-> Rp a b.
Hypothesis R_refl : forall a, Rp a a.
Hypothesis R_sym : forall a b, Rp a b -> Rp b a.
Hypothesis R_trans : forall a b c, Rp a b -> Rp b c -> Rp a c.
Variable cs : list Z.
Hypothesis cs_nodup : NoDup cs.

Lemma class_at_In (f z : Z) : In z (class_at r cs f) <-> In z cs /\ Rp f z.
Proof. unfold class_at. now rewrite filter_In, sort_by_In, Hr. Qed.

Theorem classes_spec_meaning :
  (forall c, In c (classes_spec r cs) ->
     (2 <= length c)%nat /\ ssorted Z.lt c /\
     In (hd 0 c) c /\ forall z, In z c <-> In z cs /\ Rp (hd 0 c) z) /\
  (forall f g, In f cs -> In g cs -> f <> g -> Rp f g ->
     exists c, In c (classes_spec r cs) /\ In f c /\ In g c) /\
  ssorted (fun c1 c2 => hd 0 c1 < hd 0 c2) (classes_spec r cs).
Proof.
  split; [|split].
  - intros c Hc. apply (in_spec r cs) in Hc. destruct Hc as [f [Hf [Hmin [-> Hlen]]]].
    pose proof (hd_class_at r Rp Hr R_refl cs cs_nodup f Hf Hmin) as Hhd.
    split; [exact Hlen|]. split; [apply (class_at_asc r cs cs_nodup)|]. rewrite Hhd. split.
    + apply class_at_In. split; [exact Hf|apply R_refl].
    + intros z. apply class_at_In.
  - intros f g Hf Hg Hne HR.
    set (c := class_at r cs f). set (f0 := hd 0 c).
    assert (Hfc : In f c) by (apply class_at_In; split; [exact Hf|apply R_refl]).
    assert (Hgc : In g c) by (apply class_at_In; split; [exact Hg|exact HR]).
    assert (Hasc : ssorted Z.lt c) by apply (class_at_asc r cs cs_nodup).
    assert (Hf0 : In f0 c) by (apply hd_In; intros E; rewrite E in Hfc; destruct Hfc).
    apply class_at_In in Hf0 as Hf0'. destruct Hf0' as [Hf0cs Rf0].
    exists c. split; [|split; [exact Hfc|exact Hgc]].
    apply (in_spec r cs). exists f0. split; [exact Hf0cs|]. split; [|split].
    + unfold is_min. apply forallb_forall. intros z Hz. apply sort_by_In in Hz.
      destruct (r f0 z) eqn:E; [|reflexivity]. cbn [negb orb]. apply Z.leb_le.
      apply (asc_hd_min c 0 z Hasc). apply class_at_In. split; [exact Hz|].
      apply (R_trans f f0 z Rf0). now apply Hr.
    + apply (class_at_ext r Rp Hr R_sym R_trans cs f f0 Rf0).
    + destruct c as [|x [|y c']]; cbn [length]; [destruct Hfc| |lia].
      destruct Hfc as [<-|[]]. destruct Hgc as [<-|[]]. congruence.
  - rewrite (classes_spec_unfold r cs). apply ssorted_filter.
    apply (proj1 (ssorted_map (fun c1 c2 : list Z => hd 0 c1 < hd 0 c2) (class_at r cs) (filter (is_min r cs) (sortZ cs)))).
    apply (ssorted_impl_nodup Z.lt).
    + apply NoDup_filter. apply (ssorted_NoDup Z.lt); [intros x; lia|now apply sortZ_lt].
    + intros a b Ha Hb _ Hlt. apply filter_In in Ha, Hb. destruct Ha as [Ha Hma]. destruct Hb as [Hb Hmb].
      apply sort_by_In in Ha, Hb.
      rewrite (hd_class_at r Rp Hr R_refl cs cs_nodup a Ha Hma), (hd_class_at r Rp Hr R_refl cs cs_nodup b Hb Hmb).
      exact Hlt.
    + apply ssorted_filter. now apply sortZ_lt.
Qed.
End Meaning.
