(* C07 (5): with ideal random primitives the law of a single sample (amount = 1) is uniform.
   Part 1: the outcomes of joint1 at node i are, up to the order of literals, a rearrangement of
   filter (okA A) (enum i), and every entry has probability 1 / countsA i. *)
From Coq Require Import List ZArith QArith Bool Lia Permutation.
From DD Require Import Model.Circuit Model.Query Model.Enumerate
     Proofs.PassLemmas Proofs.Enum Proofs.Semantics Proofs.CountsA Proofs.Live Proofs.LiveCounts
     Proofs.C07Defs Proofs.C07Valid Proofs.C07Urs Proofs.C07IdealDefs.
Import ListNotations.
Open Scope Z_scope.

(* ---------- lists of configurations up to the order of literals and of the list ---------- *)

Definition PermP (L1 L2 : list cfg) : Prop :=
  exists L, Forall2 (@Permutation Z) L1 L /\ Permutation L L2.

Lemma Forall2_refl {X} (R : X -> X -> Prop) (l : list X) : (forall x, R x x) -> Forall2 R l l.
Proof. intros H. induction l; constructor; auto. Qed.

Lemma PermP_refl L : PermP L L.
Proof. exists L. split; [apply Forall2_refl; reflexivity|reflexivity]. Qed.

Lemma PermP_app a b c e : PermP a b -> PermP c e -> PermP (a ++ c) (b ++ e).
Proof.
  intros [L1 [H1 P1]] [L2 [H2 P2]]. exists (L1 ++ L2). split; [now apply Forall2_app|now apply Permutation_app].
Qed.

Lemma PermP_concat Ls Es : Forall2 PermP Ls Es -> PermP (concat Ls) (concat Es).
Proof.
  induction 1 as [|L E Ls Es H HF IH]; [apply PermP_refl|]. cbn [concat]. now apply PermP_app.
Qed.

Lemma Forall2_map2 {X X' Y Y'} (S : X -> X' -> Prop) (T : Y -> Y' -> Prop) (g : X -> Y) (g' : X' -> Y')
  l l' : Forall2 S l l' -> (forall x x', S x x' -> T (g x) (g' x')) -> Forall2 T (map g l) (map g' l').
Proof. intros H HT. induction H; cbn [map]; constructor; auto. Qed.

Lemma Forall2_flat_map2 {X X' Y Y'} (S : X -> X' -> Prop) (T : Y -> Y' -> Prop)
  (f : X -> list Y) (f' : X' -> list Y') l l' :
  Forall2 S l l' -> (forall x x', S x x' -> Forall2 T (f x) (f' x')) ->
  Forall2 T (flat_map f l) (flat_map f' l').
Proof. intros H HT. induction H; cbn [flat_map]; [constructor|]. apply Forall2_app; auto. Qed.

Lemma flat_map_cons_perm {X Y} (f : X -> Y) (h : X -> list Y) (l : list X) :
  Permutation (flat_map (fun x => f x :: h x) l) (map f l ++ flat_map h l).
Proof.
  induction l as [|x l IH]; [reflexivity|]. cbn [flat_map map app].
  constructor. rewrite IH. rewrite !app_assoc. apply Permutation_app_tail. apply Permutation_app_comm.
Qed.

Lemma flat_map_swap {X Y Z0} (g : X -> Y -> Z0) (P : list Y) (L : list X) :
  Permutation (flat_map (fun a => map (fun x => g x a) L) P)
              (flat_map (fun x => map (fun a => g x a) P) L).
Proof.
  induction P as [|a P IH].
  - cbn [flat_map]. induction L as [|x L IHL]; [reflexivity|exact IHL].
  - cbn [flat_map]. rewrite IH. cbn [map]. symmetry. apply flat_map_cons_perm.
Qed.

Lemma flat_map_perm_l {X Y} (f : X -> list Y) l l' :
  Permutation l l' -> Permutation (flat_map f l) (flat_map f l').
Proof.
  induction 1 as [|x l l' H IH|x y l|l l' l'' H1 IH1 H2 IH2]; cbn [flat_map].
  - reflexivity.
  - now apply Permutation_app_head.
  - rewrite !app_assoc. apply Permutation_app_tail. apply Permutation_app_comm.
  - now transitivity (flat_map f l').
Qed.

Lemma flat_map_perm_f {X Y} (f f' : X -> list Y) l :
  (forall x, Permutation (f x) (f' x)) -> Permutation (flat_map f l) (flat_map f' l).
Proof. intros H. induction l as [|x l IH]; [reflexivity|]. cbn [flat_map]. now apply Permutation_app. Qed.

(* in-order pairs (first factor slowest, concatenated first ++ second) *)
Definition pairs (P X : list cfg) : list cfg := flat_map (fun a => map (fun x => a ++ x) X) P.

Lemma PermP_pairs P R X Y : PermP P R -> PermP X Y ->
  PermP (pairs P X) (flat_map (fun y => map (fun r => y ++ r) R) Y).
Proof.
  intros [P' [HP PP]] [X' [HX PX]].
  exists (flat_map (fun a' => map (fun x' => x' ++ a') X') P'). split.
  - unfold pairs. apply (Forall2_flat_map2 (@Permutation Z)); [exact HP|].
    intros a a' Ha. apply (Forall2_map2 (@Permutation Z)); [exact HX|].
    intros x x' Hx. transitivity (a' ++ x'); [now apply Permutation_app|apply Permutation_app_comm].
  - rewrite (flat_map_swap (fun x' a' => x' ++ a') P' X').
    rewrite (flat_map_perm_l _ _ _ PX). apply flat_map_perm_f. intros y. now apply Permutation_map.
Qed.

(* ---------- Q ---------- *)

Lemma inject_Z_nonzero a : a <> 0 -> ~ (inject_Z a == 0)%Q.
Proof. intros H. unfold Qeq, inject_Z. cbn. lia. Qed.

Lemma q_and a b : a <> 0 -> b <> 0 ->
  (1 / inject_Z a * (1 / inject_Z b) == 1 / inject_Z (a * b))%Q.
Proof.
  intros Ha Hb. rewrite inject_Z_mult. field. split; now apply inject_Z_nonzero.
Qed.

Lemma q_or a b : a <> 0 -> b <> 0 ->
  (inject_Z a / inject_Z b * (1 / inject_Z a) == 1 / inject_Z b)%Q.
Proof. intros Ha Hb. field. split; now apply inject_Z_nonzero. Qed.

(* ---------- the fold of an And node ---------- *)

Definition outs (J : list entry) : list cfg := map e_out J.
Definition all_pr (q : Q) (J : list entry) : Prop := Forall (fun e => (e_pr e == q)%Q) J.

Lemma outs_and_pairs pm acc J : outs (and_pairs pm acc J) = pairs (outs acc) (outs J).
Proof.
  unfold outs, and_pairs, pairs. rewrite flat_map_concat_map, concat_map, map_map.
  rewrite flat_map_concat_map, map_map. f_equal. apply map_ext. intros a.
  rewrite !map_map. reflexivity.
Qed.

Lemma all_pr_and_pairs pm acc J p q : all_pr p acc -> all_pr q J -> all_pr (p * q)%Q (and_pairs pm acc J).
Proof.
  unfold all_pr, and_pairs. rewrite !Forall_forall. intros Ha HJ e He.
  apply in_flat_map in He. destruct He as [a [Hain He]]. apply in_map_iff in He.
  destruct He as [b [<- Hb]]. unfold e_pr at 1. cbn [snd].
  rewrite (Ha a Hain), (HJ b Hb). reflexivity.
Qed.

Section Uniform.
Variables (d : ddnnf) (A : cfg) (ts : list Z).
Notation C := (circ d).
Hypothesis Hok : idx_ok C = true.
Hypothesis Hts : temps_ok A C ts.
(* true nodes are hidden from Or nodes (temp 0) although they stand for one configuration:
   the law can only be uniform when no Or node has a true child *)
Hypothesis Hnt : forall i cs c, (i < length C)%nat -> nth i C FalseN = Or cs -> In c cs ->
                                nth c C FalseN <> TrueN.

Notation E c := (nth c (enums C) []).
Notation F c := (filter (okA A) (nth c (enums C) [])).
Notation cnt c := (nth c (countsA A C) 0%Z).

Definition node_uniform (f : nat) (c : nat) : Prop :=
  PermP (outs (joint1 d ts f c)) (F c) /\ all_pr (1 / inject_Z (cnt c))%Q (joint1 d ts f c).

Definition and_stepJ (f : nat) (acc : list entry) (c : nat) : list entry :=
  and_pairs (if is_true_nd (nth c C FalseN) then [] else [0%nat]) acc (joint1 d ts f c).

Lemma and_foldJ_uniform f (cs : list nat) :
  (forall c, In c cs -> cnt c <> 0 /\ node_uniform f c) ->
  forall done acc,
    zprod (map (fun c => cnt c) done) <> 0 ->
    PermP (outs acc) (prod (rev (map (fun c => F c) done))) ->
    all_pr (1 / inject_Z (zprod (map (fun c => cnt c) done)))%Q acc ->
    PermP (outs (fold_left (and_stepJ f) cs acc)) (prod (rev (map (fun c => F c) (done ++ cs)))) /\
    all_pr (1 / inject_Z (zprod (map (fun c => cnt c) (done ++ cs))))%Q (fold_left (and_stepJ f) cs acc).
Proof.
  induction cs as [|c cs IH]; intros Hcs done acc Hnz HP Hpr.
  - cbn [fold_left]. rewrite app_nil_r. auto.
  - cbn [fold_left].
    destruct (Hcs c (or_introl eq_refl)) as [Hc [HPc Hprc]].
    replace (done ++ c :: cs) with ((done ++ [c]) ++ cs) by (rewrite <- app_assoc; reflexivity).
    assert (Hz : zprod (map (fun c0 => cnt c0) (done ++ [c])) = zprod (map (fun c0 => cnt c0) done) * cnt c).
    { rewrite map_app, zprod_app. cbn [map]. rewrite zprod_cons. change (zprod []) with 1. lia. }
    apply IH.
    + intros c0 Hc0. apply Hcs. now right.
    + rewrite Hz. nia.
    + unfold and_stepJ. rewrite outs_and_pairs, map_app, rev_app_distr. cbn [map rev app prod].
      now apply PermP_pairs.
    + unfold and_stepJ. rewrite Hz.
      eapply Forall_impl; [|apply (all_pr_and_pairs _ _ _ _ _ Hpr Hprc)].
      intros e He. cbn beta in He. rewrite He. now apply q_and.
Qed.

(* ---------- the branches of an Or node ---------- *)

Lemma outs_or_branches ti J pre cs :
  outs (or_branches ts ti J pre cs) =
  concat (map (fun c => if nth c ts 0 =? 0 then [] else outs (J c)) cs).
Proof.
  revert pre. induction cs as [|c cs IH]; intros pre; [reflexivity|].
  cbn [or_branches map concat]. unfold outs at 1. rewrite map_app. fold (outs (or_branches ts ti J (S pre) cs)).
  rewrite IH. f_equal. destruct (nth c ts 0 =? 0); [reflexivity|].
  unfold outs. rewrite map_map. reflexivity.
Qed.

Lemma all_pr_or_branches ti J q cs :
  (forall c, In c cs -> nth c ts 0 <> 0 ->
             Forall (fun b => (inject_Z (nth c ts 0%Z) / inject_Z ti * e_pr b == q)%Q) (J c)) ->
  forall pre, all_pr q (or_branches ts ti J pre cs).
Proof.
  induction cs as [|c cs IH]; intros H pre; [constructor|].
  cbn [or_branches]. apply Forall_app. split.
  - destruct (nth c ts 0 =? 0) eqn:Et; [constructor|]. apply Z.eqb_neq in Et.
    apply Forall_forall. intros e He. apply in_map_iff in He. destruct He as [b [<- Hb]].
    specialize (H c (or_introl eq_refl) Et). rewrite Forall_forall in H. exact (H b Hb).
  - apply IH. intros c0 Hc0. apply H. now right.
Qed.

Lemma dead_empty c : (c < length C)%nat -> cnt c = 0 -> F c = [].
Proof.
  intros Hc H0. rewrite (countsA_filter A C Hok c Hc) in H0.
  destruct (F c); [reflexivity|cbn [length] in H0; lia].
Qed.

(* ---------- the induction ---------- *)

Lemma joint1_uniform : forall i, (i < length C)%nat ->
  forall f, (i < f)%nat -> Reach C i -> cnt i <> 0 -> node_uniform f i.
Proof.
  apply (idx_induction C (fun i => forall f, (i < f)%nat -> Reach C i -> cnt i <> 0 -> node_uniform f i) Hok).
  intros i Hi IH f Hif HR Hcnt. destruct f as [|f]; [lia|].
  assert (HRc : forall c, In c (children (nth i C FalseN)) -> Reach C c).
  { intros c Hc. apply (reach_child C i c HR Hi); [|exact Hc].
    exact (count_of_countsA_nonzero C Hok A i Hi Hcnt). }
  pose proof (idx_ok_nth C i FalseN Hok Hi) as Hch.
  pose proof (countsA_unfold A C i 0 Hok Hi) as Hcu.
  pose proof (enums_unfold C Hok i Hi []) as Heu.
  unfold node_uniform. cbn [joint1].
  destruct (nth i C FalseN) as [l|cs|cs| |] eqn:E; cbn [children countA_node enum_node] in *.
  - (* Lit *)
    rewrite Heu. cbn [filter okA forallb].
    destruct (memZ (- l) A); [congruence|]. cbn [negb andb]. rewrite Hcu.
    split; [apply PermP_refl|]. constructor; [|constructor]. unfold e_pr. cbn [snd]. reflexivity.
  - (* And *)
    destruct (and_foldJ_uniform f cs) with (done := @nil nat) (acc := [(@nil choice, @nil Z, 1%Q)])
      as [HP Hpr].
    + intros c Hc. specialize (Hch c Hc).
      assert (Hcc : cnt c <> 0).
      { rewrite Hcu in Hcnt. apply (zprod_nonzero _ Hcnt). apply in_map_iff. now exists c. }
      split; [exact Hcc|]. apply IH; [exact Hc|lia|exact (HRc c Hc)|exact Hcc].
    + cbn. lia.
    + apply PermP_refl.
    + constructor; [|constructor]. unfold e_pr. cbn. reflexivity.
    + cbn [app] in HP, Hpr. rewrite Hcu. split; [|exact Hpr].
      rewrite Heu. rewrite filter_prod; [|reflexivity|apply okA_app].
      rewrite <- map_rev, map_map, map_rev in *. exact HP.
  - (* Or *)
    assert (Hti : nth i ts 0 = cnt i) by (apply Hts; [exact Hi|congruence|exact HR]).
    split.
    + rewrite outs_or_branches, Heu, filter_concat, map_map. apply PermP_concat.
      apply Forall2_map_same. intros c Hc. specialize (Hch c Hc).
      assert (Htc : nth c ts 0 = cnt c) by (apply Hts; [lia|now apply (Hnt i cs c)|exact (HRc c Hc)]).
      destruct (nth c ts 0 =? 0) eqn:Et.
      * apply Z.eqb_eq in Et. rewrite dead_empty; [apply PermP_refl|lia|congruence].
      * apply Z.eqb_neq in Et. apply IH; [exact Hc|lia|exact (HRc c Hc)|congruence].
    + apply all_pr_or_branches. intros c Hc Et. specialize (Hch c Hc).
      assert (Htc : nth c ts 0 = cnt c) by (apply Hts; [lia|now apply (Hnt i cs c)|exact (HRc c Hc)]).
      assert (Hcc : cnt c <> 0) by congruence.
      destruct (IH c Hc f ltac:(lia) (HRc c Hc) Hcc) as [_ Hprc].
      eapply Forall_impl; [|exact Hprc]. intros b Hb. cbn beta in Hb.
      rewrite Hb, Hti, Htc. apply q_or; assumption.
  - (* True *)
    rewrite Heu, Hcu. cbn [filter okA forallb]. split; [apply PermP_refl|].
    constructor; [|constructor]. unfold e_pr. cbn [snd]. reflexivity.
  - congruence.
Qed.

End Uniform.

(* ---------- the root: the law of the abs-sorted single sample is uniform on ModelsA ---------- *)

Lemma cfg_eqb_eq a : forall b, cfg_eqb a b = true <-> a = b.
Proof.
  induction a as [|x a IH]; intros [|y b]; cbn [cfg_eqb]; try (split; [discriminate|congruence]).
  - split; reflexivity.
  - rewrite andb_true_iff, Z.eqb_eq, IH. split; [intros [-> ->]; reflexivity|intros H; inversion H; auto].
Qed.

Lemma mass_notin (D : list (cfg * Q)) m : ~ In m (map fst D) ->
  filter (fun e => cfg_eqb (fst e) m) D = [].
Proof.
  induction D as [|[x q] D IH]; intros H; [reflexivity|]. cbn [filter fst].
  destruct (cfg_eqb x m) eqn:Ex.
  - apply cfg_eqb_eq in Ex. exfalso. apply H. left. exact Ex.
  - apply IH. intros Hin. apply H. now right.
Qed.

Lemma mass_unique (D : list (cfg * Q)) (p : Q) m :
  NoDup (map fst D) -> Forall (fun e => (snd e == p)%Q) D -> In m (map fst D) -> (mass D m == p)%Q.
Proof.
  unfold mass. induction D as [|[x q] D IH]; intros Hnd Hp Hin; [destruct Hin|].
  cbn [map fst] in Hnd. inversion Hnd as [|? ? Hx Hnd']; subst.
  inversion Hp as [|? ? Hq Hp']; subst. cbn [snd] in Hq.
  cbn [filter fst]. destruct (cfg_eqb x m) eqn:Ex.
  - apply cfg_eqb_eq in Ex. subst x. rewrite (mass_notin D m Hx). cbn [map snd qsum fold_right].
    rewrite Hq. ring.
  - destruct Hin as [Hin|Hin]; [cbn [fst] in Hin; subst x|now apply IH].
    assert (cfg_eqb m m = true) by now apply cfg_eqb_eq. congruence.
Qed.

Lemma sort_abs_canon_list n V X L :
  range_set n V -> Forall2 (@Permutation Z) X L -> (forall c, In c L -> Good c V) ->
  map sort_abs X = map (canon_cfg n) L.
Proof.
  intros HV HF. induction HF as [|x c X L Hxc HF IH]; intros HG; [reflexivity|].
  cbn [map]. f_equal.
  - apply (sort_abs_canon n x c V); [apply HG; now left|exact HV|exact Hxc].
  - apply IH. intros c0 Hc0. apply HG. now right.
Qed.

Section Root.
Variables (C : circuit) (n : nat) (A : cfg) (ts : list Z).
Hypothesis HWF : WF C n.
Hypothesis HA : in_range n A.
Hypothesis Hts : temps_ok A C ts.
Hypothesis Hnt : forall i cs c, (i < length C)%nat -> nth i C FalseN = Or cs -> In c cs ->
                                nth c C FalseN <> TrueN.
Hypothesis Hsat : 0 < MCA C n A.
Notation d := (build C n).

Lemma ModelsA_NoDup : NoDup (ModelsA C n A).
Proof. unfold ModelsA, Models. apply NoDup_filter, NoDup_filter, all_cfgs_NoDup. Qed.

Theorem law1_uniform :
  Permutation (map fst (law1 d ts)) (ModelsA C n A) /\
  Forall (fun e => (snd e == 1 / inject_Z (MCA C n A))%Q) (law1 d ts).
Proof.
  pose proof (wf_idx C n HWF) as Hok. pose proof (root_lt C (wf_nonempty C n HWF)) as Hrl.
  pose proof (countsA_MCA C n A HWF HA) as Hc.
  assert (Hnz : nth (root C) (countsA A C) 0 <> 0) by (rewrite Hc; lia).
  destruct (joint1_uniform d A ts Hok Hts Hnt (root C) Hrl (length C) Hrl (reach_root C) Hnz) as [[L [HF HP]] Hpr].
  unfold law1. change (rootn d) with (root C). change (length (circ d)) with (length C).
  split.
  - rewrite map_map. cbn [fst].
    rewrite <- (map_map e_out sort_abs). fold (outs (joint1 d ts (length C) (root C))).
    pose proof (complete_range C n (wf_complete C n HWF)) as HV.
    assert (HG : forall c, In c L -> Good c (last (varss C) [])).
    { intros c Hc'. apply (Permutation_in _ HP) in Hc'. apply filter_In in Hc'. destruct Hc' as [Hc' _].
      rewrite <- enum_root_nth in Hc'. now apply (root_good C n HWF). }
    rewrite (sort_abs_canon_list n _ _ L HV HF HG).
    rewrite (Permutation_map (canon_cfg n) HP).
    unfold ModelsA. rewrite <- (Permutation_filter (contains_all A) _ _ (models_enum_perm C n HWF)).
    rewrite filter_map_comm, <- enum_root_nth.
    erewrite (filter_ext_in (fun x => contains_all A (canon_cfg n x))); [reflexivity|].
    intros c Hc'. apply (contains_all_canon n c (last (varss C) []) A); [|exact HV|exact HA].
    now apply (root_good C n HWF).
  - apply Forall_forall. intros e He. apply in_map_iff in He. destruct He as [b [<- Hb]]. cbn [snd].
    unfold all_pr in Hpr. rewrite Forall_forall in Hpr. rewrite (Hpr b Hb).
    change (circ d) with C. rewrite Hc. reflexivity.
Qed.

(* every model that contains A is drawn with probability exactly 1 / MCA, everything else with 0 *)
Theorem law1_mass m :
  (In m (ModelsA C n A) -> (mass (law1 d ts) m == 1 / inject_Z (MCA C n A))%Q) /\
  (~ In m (ModelsA C n A) -> (mass (law1 d ts) m == 0)%Q).
Proof.
  destruct law1_uniform as [HP Hpr]. split; intros Hm.
  - apply mass_unique; [|exact Hpr|].
    + apply (Permutation_NoDup (Permutation_sym HP)). apply ModelsA_NoDup.
    + apply (Permutation_in _ (Permutation_sym HP)). exact Hm.
  - unfold mass. rewrite mass_notin; [reflexivity|].
    intros Hin. apply Hm. apply (Permutation_in _ HP). exact Hin.
Qed.

End Root.
