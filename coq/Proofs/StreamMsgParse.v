(* C13: the argument parser of the stream line handler (Model/StreamMsg.v parse_args).
   Counting / range facts about get_numbers, index form = suffix form of the keyword loop,
   no panic + well-formed result for the repaired version V1, error texts carry their code for
   both versions, the debug/release profile is irrelevant in V1. *)
From Coq Require Import List ZArith Bool String Ascii Lia.
From DD Require Import Model.Circuit Model.Query Model.Enumerate Model.StreamMsg Proofs.StreamMsgDefs.
Import ListNotations. Open Scope Z_scope.

(* ------------------------------------------------------------------ generic helpers *)
Lemma rbind_ok : forall A B (r : res A) (f : A -> res B) x,
  rbind r f = ROk x -> exists a, r = ROk a /\ f a = ROk x.
Proof.
  intros A B r f x H. destruct r as [a|c t|p]; cbn [rbind] in H; try discriminate.
  exists a; split; [reflexivity|exact H].
Qed.

Lemma rbind_err : forall A B (r : res A) (f : A -> res B) c t,
  rbind r f = RErr c t -> r = RErr c t \/ exists a, r = ROk a /\ f a = RErr c t.
Proof.
  intros A B r f c t H. destruct r as [a|c0 t0|p]; cbn [rbind] in H; try discriminate.
  - right. exists a. split; [reflexivity|exact H].
  - left. inversion H; subst. reflexivity.
Qed.

Lemma skipn_skipn' : forall A (b a : nat) (l : list A), skipn a (skipn b l) = skipn (b + a) l.
Proof.
  intros A b. induction b as [|b IH]; intros a l.
  - reflexivity.
  - destruct l as [|x l].
    + cbn [Nat.add]. rewrite !skipn_nil. reflexivity.
    + cbn [Nat.add skipn]. apply IH.
Qed.

Lemma nth_error_skipn : forall A (l : list A) n z,
  nth_error l n = Some z -> skipn n l = z :: skipn (S n) l.
Proof.
  intros A l. induction l as [|x l IH]; intros n z H.
  - destruct n; discriminate.
  - destruct n as [|n].
    + cbn in H. inversion H; subst. reflexivity.
    + cbn [nth_error] in H. cbn [skipn]. rewrite (IH n z H). reflexivity.
Qed.

Lemma nth_error_lt_some : forall A (l : list A) n, (n < length l)%nat -> exists z, nth_error l n = Some z.
Proof.
  intros A l n H. destruct (nth_error l n) as [z|] eqn:E.
  - exists z; reflexivity.
  - apply nth_error_None in E. lia.
Qed.

(* ------------------------------------------------------------------ (1) counts *)
Lemma gn_loop_count : forall ver dbg b ps numbers cnt nums len,
  gn_loop ver dbg b ps numbers cnt = ROk (nums, len) -> (len <= cnt + length ps)%nat.
Proof.
  intros ver dbg b ps. induction ps as [|p ps IH]; intros numbers cnt nums len H; cbn [gn_loop] in H.
  - destruct numbers as [|z numbers]; [discriminate|].
    apply rbind_ok in H as [u [_ H]]. inversion H; subst. lia.
  - destruct (sany is_alpha p).
    + destruct ver.
      * inversion H; subst. lia.
      * apply rbind_ok in H as [u [_ H]]. inversion H; subst. lia.
    + destruct (parse_range b p) as [l|e]; [|discriminate].
      apply IH in H. cbn [length]. lia.
Qed.

Theorem get_numbers_count : forall ver dbg ps b nums len,
  get_numbers ver dbg ps b = ROk (nums, len) -> (len <= length ps)%nat.
Proof.
  intros ver dbg ps b nums len H. unfold get_numbers in H. apply gn_loop_count in H. lia.
Qed.

Lemma gf_loop_count : forall ps acc cnt fl len,
  gf_loop ps acc cnt = ROk (fl, len) -> (len <= cnt + length ps)%nat.
Proof.
  induction ps as [|p ps IH]; intros acc cnt fl len H; cbn [gf_loop] in H.
  - destruct acc; [discriminate|]. inversion H; subst. lia.
  - destruct (sany is_alpha p).
    + inversion H; subst. lia.
    + destruct (is_f64 p); [|discriminate]. apply IH in H. cbn [length]. lia.
Qed.

Theorem get_floats_count : forall ps fl len, get_floats ps = ROk (fl, len) -> (len <= length ps)%nat.
Proof.
  intros ps fl len H. unfold get_floats in H. apply gf_loop_count in H. lia.
Qed.

(* ------------------------------------------------------------------ error texts (all versions) *)
Lemma boundary_text_err : forall dbg b c t, boundary_text dbg b = RErr c t -> False.
Proof.
  intros dbg b c t H. unfold boundary_text in H.
  destruct ((as_i32 b =? i32_min) && dbg); discriminate.
Qed.

Lemma boundary_text_ok : forall dbg b t, boundary_text dbg b = ROk t -> err_ok E3 t.
Proof.
  intros dbg b t H. unfold boundary_text in H.
  destruct ((as_i32 b =? i32_min) && dbg); [discriminate|].
  inversion H; subst. reflexivity.
Qed.

Lemma any_out_v0_err : forall dbg b l c t, any_out_v0 dbg b l = RErr c t -> False.
Proof.
  intros dbg b l. induction l as [|v r IH]; intros c t H; cbn [any_out_v0] in H.
  - discriminate.
  - destruct (v =? i32_min).
    + destruct dbg; [discriminate|]. destruct (as_i32 b <? i32_min); [discriminate|]. eapply IH; eassumption.
    + destruct (as_i32 b <? Z.abs v); [discriminate|]. eapply IH; eassumption.
Qed.

Lemma check_boundary_err : forall ver dbg l b c t, check_boundary ver dbg l b = RErr c t -> err_ok c t.
Proof.
  intros ver dbg l b c t H. unfold check_boundary in H.
  apply rbind_err in H as [H | [out [_ H]]].
  - destruct ver; [exfalso; eapply any_out_v0_err; eassumption | discriminate].
  - destruct out; [|discriminate].
    apply rbind_err in H as [H | [t0 [H0 H]]].
    + exfalso; eapply boundary_text_err; eassumption.
    + inversion H; subst. eapply boundary_text_ok; eassumption.
Qed.

Lemma alt_single_err : forall tok e, alt_single tok = inr e -> err_ok E3 e.
Proof.
  intros tok e H. unfold alt_single in H.
  destruct (signed_number tok) as [a r|at_].
  - destruct (parse_i32 a); [discriminate|]. inversion H; subst. reflexivity.
  - inversion H; subst. reflexivity.
Qed.

Lemma alt_open_err : forall b a tok e, alt_open b a tok = inr e -> err_ok E3 e.
Proof.
  intros b a tok e H. unfold alt_open in H.
  destruct (parse_i32 a); [discriminate|]. eapply alt_single_err; eassumption.
Qed.

Lemma parse_range_err : forall b tok e, parse_range b tok = inr e -> err_ok E3 e.
Proof.
  intros b tok e H. unfold parse_range in H.
  destruct (signed_number tok) as [a r1|at_]; [|eapply alt_single_err; eassumption].
  destruct (strip_dotdot r1) as [r2|]; [|eapply alt_single_err; eassumption].
  destruct (signed_number r2) as [b2 r3|at2]; [|eapply alt_open_err; eassumption].
  destruct (parse_i32 a); [destruct (parse_i32 b2); [discriminate|] |]; eapply alt_open_err; eassumption.
Qed.

Lemma gn_loop_err : forall ver dbg b ps numbers cnt c t,
  gn_loop ver dbg b ps numbers cnt = RErr c t -> err_ok c t.
Proof.
  intros ver dbg b ps. induction ps as [|p ps IH]; intros numbers cnt c t H; cbn [gn_loop] in H.
  - destruct numbers as [|z numbers].
    + inversion H; subst. reflexivity.
    + apply rbind_err in H as [H | [u [_ H]]]; [|discriminate].
      eapply check_boundary_err; eassumption.
  - destruct (sany is_alpha p).
    + destruct ver; [discriminate|].
      apply rbind_err in H as [H | [u [_ H]]]; [|discriminate].
      eapply check_boundary_err; eassumption.
    + destruct (parse_range b p) as [l|e] eqn:P.
      * eapply IH; eassumption.
      * inversion H; subst. eapply parse_range_err; eassumption.
Qed.

Lemma get_numbers_err : forall ver dbg ps b c t, get_numbers ver dbg ps b = RErr c t -> err_ok c t.
Proof. intros ver dbg ps b c t H. unfold get_numbers in H. eapply gn_loop_err; eassumption. Qed.

Lemma gf_loop_err : forall ps acc cnt c t, gf_loop ps acc cnt = RErr c t -> err_ok c t.
Proof.
  induction ps as [|p ps IH]; intros acc cnt c t H; cbn [gf_loop] in H.
  - destruct acc; [|discriminate]. inversion H; subst. reflexivity.
  - destruct (sany is_alpha p); [discriminate|].
    destruct (is_f64 p).
    + eapply IH; eassumption.
    + inversion H; subst. reflexivity.
Qed.

Lemma get_floats_err : forall ps c t, get_floats ps = RErr c t -> err_ok c t.
Proof. intros ps c t H. unfold get_floats in H. eapply gf_loop_err; eassumption. Qed.

Lemma sc_finish_err : forall result sub c t, sc_finish result sub = RErr c t -> err_ok c t.
Proof.
  intros result sub c t H. unfold sc_finish in H.
  destruct (match sub with [] => result | _ :: _ => result ++ [sub] end); [|discriminate].
  inversion H; subst. reflexivity.
Qed.

Lemma sc_loop_err : forall ps result sub c t, sc_loop ps result sub = RErr c t -> err_ok c t.
Proof.
  induction ps as [|p ps IH]; intros result sub c t H; cbn [sc_loop] in H.
  - eapply sc_finish_err; eassumption.
  - destruct (negb (is_f64 p)); [eapply sc_finish_err; eassumption|].
    destruct (is_zero_tok p).
    + destruct sub as [|s sub].
      * inversion H; subst. reflexivity.
      * eapply IH; eassumption.
    + eapply IH; eassumption.
Qed.

Lemma split_clauses_err : forall ps c t, split_clauses ps = RErr c t -> err_ok c t.
Proof. intros ps c t H. unfold split_clauses in H. eapply sc_loop_err; eassumption. Qed.

(* ------------------------------------------------------------------ (2) get_numbers, V1 *)
Lemma tf_ok_i32_max : tf_ok i32_max.
Proof. unfold tf_ok, i32_max. lia. Qed.

Lemma boundary_text_tf : forall dbg b, tf_ok b ->
  boundary_text dbg b =
  ROk ("E3 error: not all parameters are within the boundary of " ++ zstr (- b) ++ " to " ++ zstr b)%string.
Proof.
  intros dbg b [Hlo Hhi]. unfold boundary_text, as_i32.
  destruct (b <=? i32_max) eqn:E; [|apply Z.leb_gt in E; lia].
  assert (N : (b =? i32_min) = false) by (apply Z.eqb_neq; unfold i32_min; lia).
  rewrite N. cbn [andb]. reflexivity.
Qed.

Lemma any_out_v1_false : forall b l, any_out_v1 b l = false -> Forall (fun x => Z.abs x <= b) l.
Proof.
  intros b l. unfold any_out_v1. induction l as [|x l IH]; intros H.
  - constructor.
  - cbn [existsb] in H. apply orb_false_iff in H as [H1 H2].
    constructor; [apply Z.ltb_ge in H1; exact H1 | apply IH; exact H2].
Qed.

Lemma check_boundary_v1_spec : forall dbg b numbers, tf_ok b ->
  Forall (fun x => x <> 0) numbers ->
  match check_boundary V1 dbg numbers b with
  | ROk _ => nums_ok b numbers
  | RErr c t => err_ok c t
  | RPanic _ => False
  end.
Proof.
  intros dbg b numbers Htf Hnz. unfold check_boundary. cbn [rbind].
  destruct (any_out_v1 b numbers) eqn:E.
  - rewrite (boundary_text_tf dbg b Htf). cbn [rbind]. reflexivity.
  - apply any_out_v1_false in E. unfold nums_ok.
    rewrite Forall_forall in *. intros x Hx. specialize (E x Hx). specialize (Hnz x Hx). cbn beta in *. lia.
Qed.

Lemma filter_nonzero : forall l, Forall (fun x => x <> 0) (filter nonzero l).
Proof.
  intros l. apply Forall_forall. intros x Hx. apply filter_In in Hx as [_ Hx].
  unfold nonzero in Hx. apply negb_true_iff in Hx. apply Z.eqb_neq in Hx. exact Hx.
Qed.

Lemma gn_loop_v1_spec : forall dbg b, tf_ok b -> forall ps numbers cnt,
  Forall (fun x => x <> 0) numbers ->
  match gn_loop V1 dbg b ps numbers cnt with
  | ROk (nums, len) => (len <= cnt + length ps)%nat /\ nums_ok b nums
  | RErr c t => err_ok c t
  | RPanic _ => False
  end.
Proof.
  intros dbg b Htf ps. induction ps as [|p ps IH]; intros numbers cnt Hnz; cbn [gn_loop].
  - destruct numbers as [|z numbers]; [reflexivity|].
    pose proof (check_boundary_v1_spec dbg b (z :: numbers) Htf Hnz) as C.
    destruct (check_boundary V1 dbg (z :: numbers) b) as [u|c t|s]; cbn [rbind]; try exact C.
    split; [cbn [length]; lia | exact C].
  - destruct (sany is_alpha p).
    + pose proof (check_boundary_v1_spec dbg b numbers Htf Hnz) as C.
      destruct (check_boundary V1 dbg numbers b) as [u|c t|s]; cbn [rbind]; try exact C.
      split; [lia | exact C].
    + destruct (parse_range b p) as [l|e] eqn:P.
      * assert (Hnz' : Forall (fun x => x <> 0) (numbers ++ filter nonzero l)).
        { apply Forall_app. split; [exact Hnz | apply filter_nonzero]. }
        specialize (IH (numbers ++ filter nonzero l) (S cnt) Hnz').
        destruct (gn_loop V1 dbg b ps (numbers ++ filter nonzero l) (S cnt)) as [[nums len]|c t|s]; try exact IH.
        destruct IH as [IH1 IH2]. split; [cbn [length]; lia | exact IH2].
      * eapply parse_range_err; eassumption.
Qed.

Theorem get_numbers_v1_spec : forall dbg ps b, tf_ok b ->
  match get_numbers V1 dbg ps b with
  | ROk (nums, len) => (len <= length ps)%nat /\ nums_ok b nums
  | RErr c t => err_ok c t
  | RPanic _ => False
  end.
Proof.
  intros dbg ps b Htf. unfold get_numbers.
  pose proof (gn_loop_v1_spec dbg b Htf ps [] 0%nat (Forall_nil _)) as G.
  destruct (gn_loop V1 dbg b ps [] 0) as [[nums len]|c t|s]; exact G.
Qed.

(* ------------------------------------------------------------------ (3) index form = suffix form *)
Definition res_rel {A B} (R : A -> B -> Prop) (x : res A) (y : res B) : Prop :=
  match x, y with
  | ROk a, ROk b => R a b
  | RErr c t, RErr c' t' => c = c' /\ t = t'
  | RPanic p, RPanic p' => p = p'
  | _, _ => False
  end.

Lemma clause_loop_rel : forall ver dbg tf args is_add split i acc,
  res_rel (fun '(i', a1) '(r', a2) => skipn i' args = r' /\ a1 = a2)
          (clause_loop ver dbg tf args is_add split i acc)
          (clause_loop_s ver dbg tf is_add split (skipn i args) acc).
Proof.
  intros ver dbg tf args is_add split. induction split as [|s more IH]; intros i acc.
  - cbn [clause_loop clause_loop_s res_rel]. split; reflexivity.
  - cbn [clause_loop clause_loop_s].
    destruct (get_numbers ver dbg s tf) as [[nums len]|c t|p]; cbn [rbind].
    + rewrite skipn_skipn'. cbv zeta.
      destruct (i + len <? length args)%nat eqn:E.
      * apply Nat.ltb_lt in E. destruct (nth_error_lt_some _ args _ E) as [z Hz].
        rewrite Hz. cbn [rbind]. rewrite (nth_error_skipn _ _ _ _ Hz).
        destruct (is_zero_tok z).
        -- apply IH.
        -- rewrite <- (nth_error_skipn _ _ _ _ Hz). apply IH.
      * apply Nat.ltb_ge in E. cbn [rbind]. specialize (IH (i + len)%nat (push_clause is_add acc (to_set nums))).
        rewrite (skipn_all2 args E) in *. exact IH.
    + cbn [res_rel]. split; reflexivity.
    + cbn [res_rel]. reflexivity.
Qed.

Lemma kw_loop_suffix_gen : forall ver dbg tf args fuel i acc,
  kw_loop ver dbg tf fuel args i acc = kw_loop_s ver dbg tf fuel (skipn i args) acc.
Proof.
  intros ver dbg tf args fuel. induction fuel as [|f IH]; intros i acc.
  - reflexivity.
  - cbn [kw_loop kw_loop_s].
    destruct (length args <=? i)%nat eqn:E.
    + apply Nat.leb_le in E. rewrite (skipn_all2 args E). reflexivity.
    + apply Nat.leb_gt in E. destruct (nth_error_lt_some _ args _ E) as [kw Hkw].
      rewrite Hkw. rewrite (nth_error_skipn _ _ _ _ Hkw). cbv zeta.
      assert (SL : slice_from args (S i) = Some (skipn (S i) args)).
      { unfold slice_from. destruct (S i <=? length args)%nat eqn:E2; [reflexivity|].
        apply Nat.leb_gt in E2. lia. }
      rewrite SL.
      destruct (kw_in kw "a" "assumptions").
      { destruct (get_numbers ver dbg (skipn (S i) args) tf) as [[nums len]|c t|p]; cbn [rbind]; try reflexivity.
        rewrite IH, skipn_skipn'. reflexivity. }
      destruct (kw_in kw "v" "variables").
      { destruct (get_numbers ver dbg (skipn (S i) args) tf) as [[nums len]|c t|p]; cbn [rbind]; try reflexivity.
        rewrite IH, skipn_skipn'. reflexivity. }
      destruct (kw_in kw "f" "fitness").
      { destruct (get_floats (skipn (S i) args)) as [[fl len]|c t|p]; cbn [rbind]; try reflexivity.
        rewrite IH, skipn_skipn'. reflexivity. }
      destruct (kw_in kw "seed" "s" || kw_in kw "limit" "l" || kw_in kw "path" "p").
      { destruct (S i <? length args)%nat eqn:E3.
        - apply Nat.ltb_lt in E3. destruct (nth_error_lt_some _ args _ E3) as [val Hval].
          rewrite Hval. rewrite (nth_error_skipn _ _ _ _ Hval).
          destruct (kw_in kw "seed" "s").
          { destruct (parse_unsigned u64_max val); [apply IH | reflexivity]. }
          destruct (kw_in kw "limit" "l").
          { destruct (parse_unsigned u64_max val); [apply IH | reflexivity]. }
          apply IH.
        - apply Nat.ltb_ge in E3. rewrite (skipn_all2 args E3). reflexivity. }
      destruct (kw_in kw "add" "rmv"); [|reflexivity].
      destruct (split_clauses (skipn (S i) args)) as [split|c t|p]; cbn [rbind]; try reflexivity.
      pose proof (clause_loop_rel ver dbg tf args (String.eqb kw "add") split (S i) acc) as R.
      destruct (clause_loop ver dbg tf args (kw =? "add")%string split (S i) acc) as [[i2 a1]|c1 t1|p1];
        destruct (clause_loop_s ver dbg tf (kw =? "add")%string split (skipn (S i) args) acc) as [[r2 a2]|c2 t2|p2];
        cbn [res_rel] in R; try contradiction; cbn [rbind].
      * destruct R as [R1 R2]. subst. apply IH.
      * destruct R as [R1 R2]. subst. reflexivity.
      * subst. reflexivity.
Qed.

Theorem kw_loop_suffix : forall ver dbg tf fuel args i acc, (i <= length args)%nat ->
  kw_loop ver dbg tf fuel args i acc = kw_loop_s ver dbg tf fuel (skipn i args) acc.
Proof. intros ver dbg tf fuel args i acc _. apply kw_loop_suffix_gen. Qed.

(* ------------------------------------------------------------------ (6) error texts, all versions *)
Lemma clause_loop_s_err : forall ver dbg tf is_add split rest acc c t,
  clause_loop_s ver dbg tf is_add split rest acc = RErr c t -> err_ok c t.
Proof.
  intros ver dbg tf is_add split. induction split as [|s more IH]; intros rest acc c t H;
    cbn [clause_loop_s] in H.
  - discriminate.
  - apply rbind_err in H as [H | [[nums len] [_ H]]].
    + eapply get_numbers_err; eassumption.
    + eapply IH; eassumption.
Qed.

Lemma kw_loop_s_err : forall ver dbg tf fuel rest acc c t,
  kw_loop_s ver dbg tf fuel rest acc = RErr c t -> err_ok c t.
Proof.
  intros ver dbg tf fuel. induction fuel as [|f IH]; intros rest acc c t H; cbn [kw_loop_s] in H.
  - discriminate.
  - destruct rest as [|kw sl]; [discriminate|].
    destruct (kw_in kw "a" "assumptions").
    { apply rbind_err in H as [H | [[nums len] [_ H]]];
        [eapply get_numbers_err; eassumption | eapply IH; eassumption]. }
    destruct (kw_in kw "v" "variables").
    { apply rbind_err in H as [H | [[nums len] [_ H]]];
        [eapply get_numbers_err; eassumption | eapply IH; eassumption]. }
    destruct (kw_in kw "f" "fitness").
    { apply rbind_err in H as [H | [[fl len] [_ H]]];
        [eapply get_floats_err; eassumption | eapply IH; eassumption]. }
    destruct (kw_in kw "seed" "s" || kw_in kw "limit" "l" || kw_in kw "path" "p").
    { destruct sl as [|val sl'].
      - inversion H; subst. reflexivity.
      - destruct (kw_in kw "seed" "s").
        { destruct (parse_unsigned u64_max val); [eapply IH; eassumption|].
          inversion H; subst. reflexivity. }
        destruct (kw_in kw "limit" "l").
        { destruct (parse_unsigned u64_max val); [eapply IH; eassumption|].
          inversion H; subst. reflexivity. }
        eapply IH; eassumption. }
    destruct (kw_in kw "add" "rmv").
    + apply rbind_err in H as [H | [split [_ H]]]; [eapply split_clauses_err; eassumption|].
      apply rbind_err in H as [H | [[rest' acc'] [_ H]]];
        [eapply clause_loop_s_err; eassumption | eapply IH; eassumption].
    + inversion H; subst. reflexivity.
Qed.

Ltac brk H :=
  repeat match type of H with
  | context [match ?x with _ => _ end] => destruct x eqn:?; try discriminate
  end.

Lemma t_prepass_err : forall ver dbg n conf args c t,
  t_prepass ver dbg n conf args = RErr c t -> err_ok c t.
Proof.
  intros ver dbg n conf args c t H. unfold t_prepass in H. cbv beta zeta in H.
  brk H; inversion H; subst; reflexivity.
Qed.

Theorem parse_args_err_ok : forall ver dbg n conf args c t,
  parse_args ver dbg n conf args = RErr c t -> err_ok c t.
Proof.
  intros ver dbg n conf args c t H. unfold parse_args in H.
  destruct args as [|a0 args0]; [inversion H; subst; reflexivity|].
  destruct (dup_scan (a0 :: args0) []) as [d|]; [inversion H; subst; reflexivity|].
  apply rbind_err in H as [H | [[args' tf] [_ H]]]; [eapply t_prepass_err; eassumption|].
  apply rbind_err in H as [H | [p [_ H]]].
  - rewrite kw_loop_suffix_gen in H. eapply kw_loop_s_err; eassumption.
  - destruct args'; discriminate.
Qed.

(* ------------------------------------------------------------------ (4) the keyword loop, V1 *)
Lemma digit_val_nonneg : forall c, 0 <= digit_val c.
Proof. intros c. unfold digit_val. lia. Qed.

Lemma pu_loop_range : forall max s acc x, 0 <= acc <= max -> pu_loop max acc s = inl x -> 0 <= x <= max.
Proof.
  intros max s. induction s as [|c r IH]; intros acc x Hacc H; cbn [pu_loop] in H.
  - inversion H; subst. exact Hacc.
  - destruct (is_digit c); [|discriminate]. cbv zeta in H.
    destruct (max <? acc * 10 + digit_val c) eqn:E; [discriminate|].
    apply Z.ltb_ge in E. pose proof (digit_val_nonneg c) as D.
    eapply IH; [|exact H]. lia.
Qed.

Lemma parse_unsigned_range : forall max s x, 0 <= max -> parse_unsigned max s = inl x -> 0 <= x <= max.
Proof.
  intros max s x Hmax H. unfold parse_unsigned in H. cbv zeta in H.
  match type of H with (if sempty ?s1 then _ else _) = _ => destruct (sempty s1); [discriminate|] end.
  eapply pu_loop_range; [|exact H]. lia.
Qed.

Lemma insert_set_Forall : forall (P : Z -> Prop) x l, P x -> Forall P l -> Forall P (insert_set x l).
Proof.
  intros P x l Hx. induction l as [|y l IH]; intros Hl; cbn [insert_set].
  - constructor; [exact Hx | constructor].
  - inversion Hl as [|y' l' Hy Hl']; subst.
    destruct (x <? y); [constructor; assumption|].
    destruct (x =? y); [assumption|].
    constructor; [exact Hy | apply IH; exact Hl'].
Qed.

Lemma to_set_Forall : forall (P : Z -> Prop) l, Forall P l -> Forall P (to_set l).
Proof.
  intros P l H. unfold to_set. induction H as [|x l Hx Hl IH]; cbn [fold_right].
  - constructor.
  - apply insert_set_Forall; assumption.
Qed.

Lemma to_set_nums_ok : forall b l, nums_ok b l -> nums_ok b (to_set l).
Proof. intros b l H. unfold nums_ok in *. apply to_set_Forall. exact H. Qed.

Lemma parsed_ok_init : forall tf, parsed_ok tf p_init.
Proof.
  intros tf. constructor; cbn; try (constructor; fail).
  - unfold u64_max. lia.
  - intros l H. discriminate.
Qed.

Lemma parsed_ok_set_params : forall tf acc x, parsed_ok tf acc -> nums_ok tf x -> parsed_ok tf (set_params acc x).
Proof. intros tf acc x [A B C D E F] Hx. constructor; cbn; assumption. Qed.
Lemma parsed_ok_set_values : forall tf acc x, parsed_ok tf acc -> nums_ok tf x -> parsed_ok tf (set_values acc x).
Proof. intros tf acc x [A B C D E F] Hx. constructor; cbn; assumption. Qed.
Lemma parsed_ok_set_fitness : forall tf acc x, parsed_ok tf acc -> parsed_ok tf (set_fitness acc x).
Proof. intros tf acc x [A B C D E F]. constructor; cbn; assumption. Qed.
Lemma parsed_ok_set_path : forall tf acc x, parsed_ok tf acc -> parsed_ok tf (set_path acc x).
Proof. intros tf acc x [A B C D E F]. constructor; cbn; assumption. Qed.
Lemma parsed_ok_set_seed : forall tf acc x, parsed_ok tf acc -> 0 <= x <= u64_max -> parsed_ok tf (set_seed acc x).
Proof. intros tf acc x [A B C D E F] Hx. constructor; cbn; assumption. Qed.
Lemma parsed_ok_set_limit : forall tf acc x, parsed_ok tf acc -> 0 <= x <= u64_max -> parsed_ok tf (set_limit acc x).
Proof.
  intros tf acc x [A B C D E F] Hx. constructor; cbn; try assumption.
  intros l H. inversion H; subst. exact Hx.
Qed.
Lemma parsed_ok_push_clause : forall tf is_add acc c, parsed_ok tf acc -> nums_ok tf c ->
  parsed_ok tf (push_clause is_add acc c).
Proof.
  intros tf is_add acc c [A B C D E F] Hc. constructor; cbn; try assumption.
  - destruct is_add; [|assumption]. apply Forall_app. split; [assumption | constructor; [assumption | constructor]].
  - destruct is_add; [assumption|]. apply Forall_app. split; [assumption | constructor; [assumption | constructor]].
Qed.

Lemma clause_loop_s_v1_spec : forall dbg tf is_add, tf_ok tf -> forall split rest acc, parsed_ok tf acc ->
  match clause_loop_s V1 dbg tf is_add split rest acc with
  | ROk (rest', acc') => (length rest' <= length rest)%nat /\ parsed_ok tf acc'
  | RErr c t => err_ok c t
  | RPanic _ => False
  end.
Proof.
  intros dbg tf is_add Htf split. induction split as [|s more IH]; intros rest acc Hacc; cbn [clause_loop_s].
  - split; [lia | exact Hacc].
  - pose proof (get_numbers_v1_spec dbg s tf Htf) as G.
    destruct (get_numbers V1 dbg s tf) as [[nums len]|c t|p]; cbn [rbind]; try exact G.
    destruct G as [_ G]. cbv zeta.
    match goal with |- context [clause_loop_s V1 dbg tf is_add more ?r2 ?a2] =>
      assert (L : (length r2 <= length rest)%nat);
      [| specialize (IH r2 a2 (parsed_ok_push_clause tf is_add acc _ Hacc (to_set_nums_ok _ _ G)));
         destruct (clause_loop_s V1 dbg tf is_add more r2 a2) as [[rest' acc']|c t|p]; try exact IH;
         destruct IH as [IH1 IH2]; split; [lia | exact IH2] ]
    end.
    pose proof (skipn_length len rest) as SL.
    destruct (skipn len rest) as [|z r]; [cbn [length] in *; lia|].
    destruct (is_zero_tok z); cbn [length] in *; lia.
Qed.

Theorem kw_loop_s_v1_spec : forall dbg tf fuel rest acc, tf_ok tf -> (length rest < fuel)%nat -> parsed_ok tf acc ->
  match kw_loop_s V1 dbg tf fuel rest acc with
  | ROk p => parsed_ok tf p
  | RErr c t => err_ok c t
  | RPanic _ => False
  end.
Proof.
  intros dbg tf fuel rest acc Htf. revert rest acc.
  assert (U : 0 <= u64_max) by (unfold u64_max; lia).
  induction fuel as [|f IH]; intros rest acc Hlen Hacc; [lia|].
  cbn [kw_loop_s]. destruct rest as [|kw sl]; [exact Hacc|]. cbn [length] in Hlen.
  destruct (kw_in kw "a" "assumptions").
  { pose proof (get_numbers_v1_spec dbg sl tf Htf) as G.
    destruct (get_numbers V1 dbg sl tf) as [[nums len]|c t|p]; cbn [rbind]; try exact G.
    destruct G as [G1 G2]. apply IH; [rewrite skipn_length; lia | apply parsed_ok_set_params; assumption]. }
  destruct (kw_in kw "v" "variables").
  { pose proof (get_numbers_v1_spec dbg sl tf Htf) as G.
    destruct (get_numbers V1 dbg sl tf) as [[nums len]|c t|p]; cbn [rbind]; try exact G.
    destruct G as [G1 G2]. apply IH; [rewrite skipn_length; lia | apply parsed_ok_set_values; assumption]. }
  destruct (kw_in kw "f" "fitness").
  { destruct (get_floats sl) as [[fl len]|c t|p] eqn:G; cbn [rbind].
    - apply IH; [rewrite skipn_length; lia | apply parsed_ok_set_fitness; assumption].
    - eapply get_floats_err; eassumption.
    - unfold get_floats in G. exfalso. clear - G. revert G. generalize (@nil string) 0%nat.
      induction sl as [|q sl IHsl]; intros a k G; cbn [gf_loop] in G.
      + destruct a; discriminate.
      + destruct (sany is_alpha q); [discriminate|]. destruct (is_f64 q); [|discriminate].
        eapply IHsl; eassumption. }
  destruct (kw_in kw "seed" "s" || kw_in kw "limit" "l" || kw_in kw "path" "p").
  { destruct sl as [|val sl']; [reflexivity|]. cbn [length] in Hlen.
    destruct (kw_in kw "seed" "s").
    { destruct (parse_unsigned u64_max val) as [x|e] eqn:P; [|reflexivity].
      apply IH; [lia | apply parsed_ok_set_seed; [assumption | eapply parse_unsigned_range; eassumption]]. }
    destruct (kw_in kw "limit" "l").
    { destruct (parse_unsigned u64_max val) as [x|e] eqn:P; [|reflexivity].
      apply IH; [lia | apply parsed_ok_set_limit; [assumption | eapply parse_unsigned_range; eassumption]]. }
    apply IH; [lia | apply parsed_ok_set_path; assumption]. }
  destruct (kw_in kw "add" "rmv"); [|reflexivity].
  destruct (split_clauses sl) as [split|c t|p] eqn:S; cbn [rbind].
  - pose proof (clause_loop_s_v1_spec dbg tf (String.eqb kw "add") Htf split sl acc Hacc) as C.
    destruct (clause_loop_s V1 dbg tf (kw =? "add")%string split sl acc) as [[rest' acc']|c t|p]; cbn [rbind];
      try exact C.
    destruct C as [C1 C2]. apply IH; [lia | exact C2].
  - eapply split_clauses_err; eassumption.
  - exfalso. unfold split_clauses in S. clear - S. revert S. generalize (@nil (list string)) (@nil string).
    induction sl as [|q sl IHsl]; intros r sub S; cbn [sc_loop] in S.
    + unfold sc_finish in S. destruct (match sub with [] => r | _ :: _ => r ++ [sub] end); discriminate.
    + destruct (negb (is_f64 q)).
      * unfold sc_finish in S. destruct (match sub with [] => r | _ :: _ => r ++ [sub] end); discriminate.
      * destruct (is_zero_tok q); [destruct sub; [discriminate|]|]; eapply IHsl; eassumption.
Qed.

(* ------------------------------------------------------------------ (5) the pre-pass and parse_args, V1 *)
Lemma position_some : forall A (p : A -> bool) l idx, position p l = Some idx ->
  exists x, nth_error l idx = Some x /\ p x = true.
Proof.
  intros A p l. induction l as [|y l IH]; intros idx H; cbn [position] in H.
  - discriminate.
  - destruct (p y) eqn:Py.
    + inversion H; subst. exists y. split; [reflexivity | exact Py].
    + destruct (position p l) as [k|]; [|discriminate]. cbn [option_map] in H. inversion H; subst.
      destruct (IH k eq_refl) as [x [Hx Px]]. exists x. split; [exact Hx | exact Px].
Qed.

Lemma remove_at_some : forall A i (l : list A), (i < length l)%nat ->
  exists l', remove_at i l = Some l' /\ S (length l') = length l.
Proof.
  intros A i. induction i as [|k IH]; intros l H.
  - destruct l as [|x r]; [cbn in H; lia|]. exists r. split; reflexivity.
  - destruct l as [|x r]; [cbn in H; lia|]. cbn [length] in H.
    destruct (IH r) as [r' [Hr Hl]]; [lia|]. exists (x :: r'). cbn [remove_at]. rewrite Hr. cbn [option_map length].
    split; [reflexivity | lia].
Qed.

Lemma remove_at_S_hd : forall A k (a : A) r l', remove_at (S k) (a :: r) = Some l' -> exists r', l' = a :: r'.
Proof.
  intros A k a r l' H. cbn [remove_at] in H. destruct (remove_at k r) as [r'|]; [|discriminate].
  cbn [option_map] in H. inversion H; subst. exists r'. reflexivity.
Qed.

Lemma nth_error_some_lt : forall A (l : list A) i x, nth_error l i = Some x -> (i < length l)%nat.
Proof. intros A l i x H. apply nth_error_Some. rewrite H. discriminate. Qed.

Lemma is_t_clause_update : is_t "clause-update" = false.
Proof. reflexivity. Qed.

Lemma t_prepass_v1_ok : forall dbg n conf args args' tf, tf_ok n ->
  t_prepass V1 dbg n conf args = ROk (args', tf) ->
  tf_ok tf /\ hd_error args' = hd_error args /\
  (hd_error args <> Some "clause-update"%string -> tf = n) /\ (conf = None -> tf = n).
Proof.
  intros dbg n conf args args' tf Hn H. unfold t_prepass in H.
  destruct (position is_t args) as [idx|] eqn:P.
  2:{ inversion H; subst. split; [exact Hn|]. split; [reflexivity|]. split; intros _; reflexivity. }
  destruct args as [|a0 r]; [discriminate|].
  destruct (nth_error (a0 :: r) idx) as [tk|] eqn:N; [|discriminate].
  destruct (negb (a0 =? "clause-update")%string) eqn:CU; [discriminate|].
  apply negb_false_iff in CU. apply String.eqb_eq in CU. subst a0.
  cbn [position] in P. rewrite is_t_clause_update in P.
  destruct (position is_t r) as [k|]; [|discriminate]. cbn [option_map] in P. inversion P; subst idx. clear P.
  cbv beta iota zeta in H.
  destruct conf as [cf|]; [|discriminate].
  destruct (slice_from ("clause-update"%string :: r) (S (S k))) as [sl|]; [|discriminate].
  pose proof (get_numbers_v1_spec dbg sl i32_max tf_ok_i32_max) as G.
  destruct (get_numbers V1 dbg sl i32_max) as [[numbers len]|c t|p]; try discriminate.
  destruct (len =? 1)%nat; [|discriminate].
  destruct numbers as [|x [|y numbers]]; try discriminate.
  destruct (0 <? x) eqn:X; [|discriminate]. apply Z.ltb_lt in X.
  destruct (cf x) as [[|]|]; try discriminate.
  destruct (remove_at (S k) ("clause-update"%string :: r)) as [a1|] eqn:R1; [|discriminate].
  destruct (remove_at (S k) a1) as [a2|] eqn:R2; [|discriminate].
  inversion H; subst. clear H.
  apply remove_at_S_hd in R1 as [r1 R1]. subst a1. apply remove_at_S_hd in R2 as [r2 R2]. subst args'.
  destruct G as [_ G]. unfold nums_ok in G. inversion G as [|x' l' Gx Gl]; subst.
  repeat split.
  - lia.
  - lia.
  - intros C. exfalso. apply C. reflexivity.
  - intros C. discriminate.
Qed.

Lemma t_prepass_v1_nopanic : forall dbg n conf args p, tf_ok n -> conf_total conf ->
  t_prepass V1 dbg n conf args = RPanic p -> False.
Proof.
  intros dbg n conf args p Hn Hct H. unfold t_prepass in H.
  destruct (position is_t args) as [idx|] eqn:P; [|discriminate].
  destruct (position_some _ _ _ _ P) as [tk [N _]]. pose proof (nth_error_some_lt _ _ _ _ N) as Lt.
  destruct args as [|a0 r]; [cbn in Lt; lia|].
  rewrite N in H.
  destruct (negb (a0 =? "clause-update")%string); [discriminate|].
  cbv beta iota zeta in H.
  destruct conf as [cf|]; [|discriminate].
  unfold slice_from in H.
  destruct (S idx <=? length (a0 :: r))%nat eqn:E; [|apply Nat.leb_gt in E; lia].
  pose proof (get_numbers_v1_spec dbg (skipn (S idx) (a0 :: r)) i32_max tf_ok_i32_max) as G.
  destruct (get_numbers V1 dbg (skipn (S idx) (a0 :: r)) i32_max) as [[numbers len]|c t|s] eqn:GE;
    try discriminate; [|exact G].
  destruct (len =? 1)%nat eqn:L; [|discriminate]. apply Nat.eqb_eq in L. subst len.
  apply get_numbers_count in GE. rewrite skipn_length in GE.
  destruct numbers as [|x [|y numbers]]; try discriminate.
  destruct (0 <? x); [|discriminate].
  destruct (Hct cf x eq_refl) as [b Hb]. rewrite Hb in H. destruct b; [discriminate|].
  destruct (remove_at_some _ idx (a0 :: r) Lt) as [a1 [R1 L1]]. rewrite R1 in H.
  destruct (remove_at_some _ idx a1) as [a2 [R2 L2]]; [lia|]. rewrite R2 in H. discriminate.
Qed.

Theorem parse_args_v1_spec : forall dbg n conf args, tf_ok n -> conf_total conf ->
  match parse_args V1 dbg n conf args with
  | ROk rq => tf_ok (r_total rq) /\ parsed_ok (r_total rq) (r_args rq)
              /\ hd_error args = Some (r_cmd rq)
              /\ (r_cmd rq <> "clause-update"%string -> r_total rq = n)
              /\ (conf = None -> r_total rq = n)
  | RErr c t => err_ok c t
  | RPanic _ => False
  end.
Proof.
  intros dbg n conf args Hn Hct. unfold parse_args.
  destruct args as [|a0 r]; [reflexivity|].
  destruct (dup_scan (a0 :: r) []) as [d|]; [reflexivity|].
  destruct (t_prepass V1 dbg n conf (a0 :: r)) as [[args' tf]|c t|p] eqn:T; cbn [rbind].
  - destruct (t_prepass_v1_ok _ _ _ _ _ _ Hn T) as (Htf & Hhd & Hcu & Hnone).
    rewrite kw_loop_suffix_gen.
    assert (L : (length (skipn 1 args') < S (length args'))%nat) by (rewrite skipn_length; lia).
    pose proof (kw_loop_s_v1_spec dbg tf (S (length args')) (skipn 1 args') p_init Htf L (parsed_ok_init tf)) as K.
    destruct (kw_loop_s V1 dbg tf (S (length args')) (skipn 1 args') p_init) as [pp|c t|s]; cbn [rbind];
      try exact K.
    destruct args' as [|cmd rest]; [cbn in Hhd; discriminate|].
    cbn [hd_error] in Hhd. inversion Hhd; subst cmd.
    cbn [r_cmd r_total r_args hd_error].
    split; [exact Htf|]. split; [exact K|]. split; [reflexivity|]. split; [|exact Hnone].
    intros C. apply Hcu. intros C2. apply C. inversion C2. reflexivity.
  - eapply t_prepass_err; eassumption.
  - eapply t_prepass_v1_nopanic; eassumption.
Qed.

(* ------------------------------------------------------------------ (7) V1: the profile is irrelevant *)
Lemma check_boundary_v1_dbg : forall l b, tf_ok b ->
  check_boundary V1 true l b = check_boundary V1 false l b.
Proof.
  intros l b Hb. unfold check_boundary. cbn [rbind].
  destruct (any_out_v1 b l); [|reflexivity].
  rewrite !boundary_text_tf by exact Hb. reflexivity.
Qed.

Lemma gn_loop_v1_dbg : forall b, tf_ok b -> forall ps numbers cnt,
  gn_loop V1 true b ps numbers cnt = gn_loop V1 false b ps numbers cnt.
Proof.
  intros b Hb ps. induction ps as [|p ps IH]; intros numbers cnt; cbn [gn_loop].
  - destruct numbers as [|z numbers]; [reflexivity|]. rewrite check_boundary_v1_dbg by exact Hb. reflexivity.
  - destruct (sany is_alpha p).
    + rewrite check_boundary_v1_dbg by exact Hb. reflexivity.
    + destruct (parse_range b p); [apply IH | reflexivity].
Qed.

Lemma get_numbers_v1_dbg : forall ps b, tf_ok b -> get_numbers V1 true ps b = get_numbers V1 false ps b.
Proof. intros ps b Hb. unfold get_numbers. apply gn_loop_v1_dbg. exact Hb. Qed.

Lemma clause_loop_s_v1_dbg : forall tf is_add, tf_ok tf -> forall split rest acc,
  clause_loop_s V1 true tf is_add split rest acc = clause_loop_s V1 false tf is_add split rest acc.
Proof.
  intros tf is_add Htf split. induction split as [|s more IH]; intros rest acc; cbn [clause_loop_s].
  - reflexivity.
  - rewrite get_numbers_v1_dbg by exact Htf.
    destruct (get_numbers V1 false s tf) as [[nums len]|c t|p]; cbn [rbind]; try reflexivity.
    apply IH.
Qed.

Lemma kw_loop_s_v1_dbg : forall tf, tf_ok tf -> forall fuel rest acc,
  kw_loop_s V1 true tf fuel rest acc = kw_loop_s V1 false tf fuel rest acc.
Proof.
  intros tf Htf fuel. induction fuel as [|f IH]; intros rest acc; cbn [kw_loop_s].
  - reflexivity.
  - destruct rest as [|kw sl]; [reflexivity|].
    rewrite (get_numbers_v1_dbg sl tf Htf).
    destruct (kw_in kw "a" "assumptions").
    { destruct (get_numbers V1 false sl tf) as [[nums len]|c t|p]; cbn [rbind]; try reflexivity. apply IH. }
    destruct (kw_in kw "v" "variables").
    { destruct (get_numbers V1 false sl tf) as [[nums len]|c t|p]; cbn [rbind]; try reflexivity. apply IH. }
    destruct (kw_in kw "f" "fitness").
    { destruct (get_floats sl) as [[fl len]|c t|p]; cbn [rbind]; try reflexivity. apply IH. }
    destruct (kw_in kw "seed" "s" || kw_in kw "limit" "l" || kw_in kw "path" "p").
    { destruct sl as [|val sl']; [reflexivity|].
      destruct (kw_in kw "seed" "s").
      { destruct (parse_unsigned u64_max val); [apply IH | reflexivity]. }
      destruct (kw_in kw "limit" "l").
      { destruct (parse_unsigned u64_max val); [apply IH | reflexivity]. }
      apply IH. }
    destruct (kw_in kw "add" "rmv"); [|reflexivity].
    destruct (split_clauses sl) as [split|c t|p]; cbn [rbind]; try reflexivity.
    rewrite clause_loop_s_v1_dbg by exact Htf.
    destruct (clause_loop_s V1 false tf (kw =? "add")%string split sl acc) as [[rest' acc']|c t|p];
      cbn [rbind]; try reflexivity.
    apply IH.
Qed.

Lemma t_prepass_v1_dbg : forall n conf args,
  t_prepass V1 true n conf args = t_prepass V1 false n conf args.
Proof.
  intros n conf args. unfold t_prepass.
  destruct (position is_t args) as [idx|]; [|reflexivity].
  destruct args as [|a0 r]; [reflexivity|].
  destruct (nth_error (a0 :: r) idx) as [tk|]; [|reflexivity].
  destruct (negb (a0 =? "clause-update")%string); [reflexivity|].
  cbv beta iota zeta.
  destruct conf as [cf|]; [|reflexivity].
  destruct (slice_from (a0 :: r) (S idx)) as [sl|]; [|reflexivity].
  rewrite (get_numbers_v1_dbg sl i32_max tf_ok_i32_max). reflexivity.
Qed.

Theorem parse_args_v1_dbg_irrelevant : forall n conf args, tf_ok n ->
  parse_args V1 true n conf args = parse_args V1 false n conf args.
Proof.
  intros n conf args Hn. unfold parse_args.
  destruct args as [|a0 r]; [reflexivity|].
  destruct (dup_scan (a0 :: r) []) as [d|]; [reflexivity|].
  rewrite t_prepass_v1_dbg.
  destruct (t_prepass V1 false n conf (a0 :: r)) as [[args' tf]|c t|p] eqn:T; cbn [rbind]; try reflexivity.
  destruct (t_prepass_v1_ok _ _ _ _ _ _ Hn T) as (Htf & _).
  rewrite !kw_loop_suffix_gen. rewrite (kw_loop_s_v1_dbg tf Htf). reflexivity.
Qed.

Print Assumptions get_numbers_count.
Print Assumptions get_floats_count.
Print Assumptions get_numbers_v1_spec.
Print Assumptions kw_loop_suffix.
Print Assumptions kw_loop_s_v1_spec.
Print Assumptions parse_args_v1_spec.
Print Assumptions parse_args_err_ok.
Print Assumptions parse_args_v1_dbg_irrelevant.
