(* C08: the run of get_atomic_sets up to the final partition.  For a WFQ circuit, in-range
   assumptions with at least one model, n <= 32767, considered literals within +-1..n, and valid
   samples, the union-find ends as a partition (UFInv) that is sound and complete for "same value in
   every model containing the assumptions". *)
From Coq Require Import List ZArith Bool Lia Permutation.
From DD Require Import Model.Circuit Model.Query Model.Enumerate Model.Atomic
  Proofs.Semantics Proofs.CountsA Proofs.QueryDefs Proofs.C02Basics Proofs.C02Proof Proofs.C05Proof
  Proofs.C05Final Proofs.PassLemmas Proofs.AtomicSort Proofs.AtomicUF Proofs.AtomicSem.
Import ListNotations.
Open Scope Z_scope.

(* every sample the internal sampling call returns is a model containing the assumptions (hence one
   literal per feature, in feature order), and there are SAMPLE_AMOUNT of them: the conclusion of the
   C07 validity theorem, for the scratch state the call happens to start from *)
Definition samples_valid (C : circuit) (n : nat) (A : cfg) (chs : list choice) : Prop :=
  forall s, Clean C s ->
  match uniform_random_sampling (build C n) A (Z.of_nat SAMPLE_AMOUNT) chs s with
  | (_, Some L, _) => length L = SAMPLE_AMOUNT /\ Forall (fun m => In m (ModelsA C n A)) L
  | _ => True
  end.

Lemma wrap16_id (z : Z) : -32768 <= z <= 32767 -> wrap16 z = z.
Proof. intros H. unfold wrap16. rewrite Z.mod_small; lia. Qed.

Lemma wrap16_range (z : Z) : -32768 <= wrap16 z <= 32767.
Proof. unfold wrap16. pose proof (Z.mod_pos_bound (z + 32768) 65536). lia. Qed.

Lemma fold_left_map {S P Q} (f : S -> Q -> S) (g : P -> Q) (l : list P) (st : S) :
  fold_left f (map g l) st = fold_left (fun st x => f st (g x)) l st.
Proof. revert st. induction l as [|x l IH]; intros st; [reflexivity|]. cbn [map fold_left]. apply IH. Qed.

Lemma all_some_map {T U} (f : T -> option U) (g : T -> U) (l : list T) :
  (forall x, In x l -> f x = Some (g x)) -> all_some (map f l) = Some (map g l).
Proof.
  induction l as [|x l IH]; intros H; [reflexivity|]. cbn [map all_some].
  rewrite (H x (or_introl eq_refl)), IH; [reflexivity|]. intros y Hy. apply H. now right.
Qed.

Lemma xor_any_map {T} (f g : T -> bool) (l : list T) :
  xor_any (map f l) (map g l) = true -> exists m, In m l /\ f m <> g m.
Proof.
  induction l as [|a l IH]; cbn [map xor_any]; [discriminate|].
  intros H. apply orb_true_iff in H. destruct H as [H|H].
  - exists a. split; [now left|]. destruct (f a), (g a); cbn in H; congruence.
  - destruct (IH H) as [m [Hm Hne]]. exists m. split; [now right|exact Hne].
Qed.

(* ---- grouping ---- *)
Lemma group_loop_in (l : list (Z * Z)) : forall key vals g v,
  In g (group_loop l key vals) -> In v (snd g) -> In (fst g, v) (map (pair key) vals ++ l).
Proof.
  induction l as [|[k w] l IH]; intros key vals g v Hg Hv; cbn [group_loop] in Hg.
  - destruct Hg as [<-|[]]. cbn [fst snd] in *. rewrite app_nil_r. now apply in_map.
  - destruct (key =? k) eqn:E.
    + apply Z.eqb_eq in E. subst k. specialize (IH key (vals ++ [w]) g v Hg Hv).
      rewrite map_app, <- app_assoc in IH. exact IH.
    + destruct Hg as [<-|Hg].
      * cbn [fst snd] in *. apply in_app_iff. left. now apply in_map.
      * specialize (IH k [w] g v Hg Hv). apply in_app_iff. right. exact IH.
Qed.

Lemma group_loop_complete (l : list (Z * Z)) : forall key vals,
  ssorted (fun a b => fst a <= fst b) l -> (forall p, In p l -> key <= fst p) ->
  forall k v1 v2, In (k, v1) (map (pair key) vals ++ l) -> In (k, v2) (map (pair key) vals ++ l) ->
  exists g, In g (group_loop l key vals) /\ In v1 (snd g) /\ In v2 (snd g).
Proof.
  induction l as [|[k' w] l IH]; intros key vals Hs Hlow k v1 v2 H1 H2; cbn [group_loop].
  - rewrite app_nil_r in H1, H2. apply in_map_iff in H1, H2.
    destruct H1 as [a [E1 Ha]]. destruct H2 as [b [E2 Hb]].
    exists (key, vals). split; [now left|]. cbn [snd].
    injection E1 as _ <-. injection E2 as _ <-. now split.
  - destruct Hs as [Hhd Hs]. destruct (key =? k') eqn:E.
    + apply Z.eqb_eq in E. subst k'.
      apply (IH key (vals ++ [w]) Hs (fun p Hp => Hlow p (or_intror Hp)) k v1 v2).
      * rewrite map_app, <- app_assoc. exact H1.
      * rewrite map_app, <- app_assoc. exact H2.
    + apply Z.eqb_neq in E.
      assert (Hlt : key < k') by (specialize (Hlow (k', w) (or_introl eq_refl)); cbn in Hlow; lia).
      assert (Hl' : forall p, In p ((k', w) :: l) -> k' <= fst p).
      { intros p [<-|Hp]; [cbn; lia|]. exact (Hhd p Hp). }
      destruct (Z.eq_dec k key) as [->|Hk].
      * (* both in vals *)
        assert (Hin : forall v, In (key, v) (map (pair key) vals ++ (k', w) :: l) -> In v vals).
        { intros v Hv. apply in_app_iff in Hv. destruct Hv as [Hv|Hv].
          - apply in_map_iff in Hv. destruct Hv as [a [Ea Ha]]. now inversion Ea; subst.
          - specialize (Hl' _ Hv). cbn in Hl'. lia. }
        exists (key, vals). split; [now left|]. split; [now apply Hin|now apply Hin].
      * assert (Hin : forall v, In (k, v) (map (pair key) vals ++ (k', w) :: l) ->
                                In (k, v) (map (pair k') [w] ++ l)).
        { intros v Hv. apply in_app_iff in Hv. destruct Hv as [Hv|Hv].
          - apply in_map_iff in Hv. destruct Hv as [a [Ea Ha]]. inversion Ea. congruence.
          - exact Hv. }
        destruct (IH k' [w] Hs (fun p Hp => Hhd p Hp) k v1 v2 (Hin v1 H1) (Hin v2 H2)) as [g [Hg Hv]].
        exists g. split; [now right|exact Hv].
Qed.

Lemma group_by_count_in (l : list (Z * Z)) (g : Z * list Z) (v : Z) :
  In g (group_by_count l) -> In v (snd g) -> In (fst g, v) l.
Proof.
  unfold group_by_count. destruct l as [|[k w] l]; [intros []|]. intros Hg Hv.
  exact (group_loop_in _ k [] g v Hg Hv).
Qed.

Lemma group_by_count_complete (l : list (Z * Z)) (k v1 v2 : Z) :
  ssorted (fun a b => fst a <= fst b) l -> In (k, v1) l -> In (k, v2) l ->
  exists g, In g (group_by_count l) /\ In v1 (snd g) /\ In v2 (snd g).
Proof.
  unfold group_by_count. destruct l as [|[k0 w] l]; [intros _ []|]. intros Hs H1 H2.
  assert (Hlow : forall p, In p ((k0, w) :: l) -> k0 <= fst p).
  { intros p [<-|Hp]; [cbn; lia|]. destruct Hs as [Hhd _]. exact (Hhd p Hp). }
  exact (group_loop_complete _ k0 [] Hs Hlow k v1 v2 H1 H2).
Qed.

(* ---- combinations(2) ---- *)
Lemma pairs_in {T} (l : list T) (a b : T) : In (a, b) (pairs l) -> In a l /\ In b l.
Proof.
  induction l as [|x l IH]; cbn [pairs]; [intros []|]. intros H. apply in_app_iff in H.
  destruct H as [H|H].
  - apply in_map_iff in H. destruct H as [y [E Hy]]. inversion E; subst. split; [now left|now right].
  - destruct (IH H). split; now right.
Qed.

Lemma pairs_complete {T} (l : list T) (a b : T) :
  In a l -> In b l -> a <> b -> In (a, b) (pairs l) \/ In (b, a) (pairs l).
Proof.
  induction l as [|x l IH]; intros Ha Hb Hne; [destruct Ha|]. cbn [pairs].
  destruct Ha as [->|Ha], Hb as [->|Hb].
  - congruence.
  - left. apply in_app_iff. left. now apply in_map.
  - right. apply in_app_iff. left. now apply in_map.
  - destruct (IH Ha Hb Hne) as [H|H]; [left|right]; apply in_app_iff; now right.
Qed.

Section Main.
Variables (C : circuit) (n : nat) (A : cfg).
Hypothesis HQ : WFQ C n.
Hypothesis HA : in_range n A.

Notation d := (build C n).
Definition cnt (l : Z) : Z := MCA C n (l :: A).
Definition litr (l : Z) : Prop := 1 <= Z.abs l <= Z.of_nat n.
Notation EqvA := (Eqv C n A).

Lemma exec (B : cfg) (s : scratch) : in_range n B -> Clean C s ->
  exists s', execute_query d B s = (s', MCA C n B) /\ Clean C s'.
Proof. apply (exec_hyp C n HQ). Qed.

Lemma in_range_cons (l : Z) (B : cfg) : litr l -> in_range n B -> in_range n (l :: B).
Proof. intros Hl HB x [<-|Hx]; [exact Hl|now apply HB]. Qed.

(* ---- the candidate loop ---- *)
Definition lits_of (cross : bool) (fs : list Z) : list Z :=
  if cross then flat_map (fun f => [f; - f]) fs else fs.

Lemma collect_counts_spec (cross : bool) (fs : list Z) : forall s,
  (forall f, In f fs -> litr f) -> Clean C s ->
  exists s', collect_counts d A cross fs s = (s', map (fun l => (cnt l, l)) (lits_of cross fs))
             /\ Clean C s'.
Proof.
  induction fs as [|f fs IH]; intros s Hfs Hcl.
  - exists s. split; [|exact Hcl]. destruct cross; reflexivity.
  - assert (Hf : litr f) by (apply Hfs; now left).
    assert (Hfs' : forall g, In g fs -> litr g) by (intros g Hg; apply Hfs; now right).
    cbn [collect_counts].
    destruct (exec (f :: A) s (in_range_cons f A Hf HA) Hcl) as [s1 [E1 Hc1]]. rewrite E1.
    destruct cross.
    + assert (Hnf : litr (- f)) by (unfold litr in *; rewrite Z.abs_opp; exact Hf).
      destruct (exec (- f :: A) s1 (in_range_cons (- f) A Hnf HA) Hc1) as [s2 [E2 Hc2]]. rewrite E2.
      destruct (IH s2 Hfs' Hc2) as [s3 [E3 Hc3]]. rewrite E3. exists s3. split; [reflexivity|exact Hc3].
    + destruct (IH s1 Hfs' Hc1) as [s3 [E3 Hc3]]. rewrite E3. exists s3. split; [reflexivity|exact Hc3].
Qed.

(* ---- the sampling call ---- *)
Lemma preprocess_clean (s : scratch) : Clean C s ->
  exists s1, preprocess d A s = Some s1 /\ Clean C s1.
Proof.
  intros Hcl. unfold preprocess.
  assert (E : existsb (fun f => Z.of_nat (nv d) <? Z.abs f) A = false).
  { apply not_true_is_false. intros H. apply existsb_exists in H. destruct H as [f [Hf Hlt]].
    apply Z.ltb_lt in Hlt. specialize (HA f Hf). cbn [nv build] in Hlt. lia. }
  rewrite E. eexists. split; [reflexivity|].
  destruct Hcl as [H1 H2 H3 H4 H5]. constructor; cbn [temps marks pds mdl]; try assumption.
  rewrite fold_upd_length.
  assert (Hgen : forall (B : cfg) (t : list Z),
             length (fold_left (fun t l => match lit_idx (circ d) (- l) with
                                           | Some x => upd x 0 t | None => t end) B t) = length t).
  { induction B as [|l B IHB]; intros t; [reflexivity|]. cbn [fold_left]. rewrite IHB.
    destruct (lit_idx (circ d) (- l)); [apply upd_length|reflexivity]. }
  rewrite Hgen. cbn [cnts build]. unfold counts. apply pass_length.
Qed.

Lemma sampling_some (chs : list choice) (k : Z) (s : scratch) : 0 < MCA C n A -> Clean C s ->
  exists s2 L ok, uniform_random_sampling d A k chs s = (s2, Some L, ok) /\ Clean C s2.
Proof.
  intros Hpos Hcl. unfold uniform_random_sampling.
  destruct (preprocess_clean s Hcl) as [s1 [E1 Hc1]]. rewrite E1.
  destruct (exec A s1 HA Hc1) as [s2 [E2 Hc2]]. rewrite E2.
  replace (0 <? MCA C n A) with true by (symmetry; now apply Z.ltb_lt).
  destruct (sample_node d (temps s2) (length (circ d)) k (rootn d) chs) as [[l rest] ok].
  exists s2, (map sort_abs l), (ok && match rest with [] => true | _ :: _ => false end).
  split; [reflexivity|exact Hc2].
Qed.

(* ---- sign vectors of valid samples ---- *)
Definition signs (L : list cfg) (x : Z) : list bool := map (fun m => memZ (Z.abs x) m) L.

Lemma excludes_spec (L : list cfg) :
  length L = SAMPLE_AMOUNT -> Forall (fun m => In m (all_cfgs n)) L ->
  exists ex, signed_excludes n (Some L) = Some ex /\
             forall x, litr x -> vec_of ex x = Some (signs L x).
Proof.
  intros Hlen HL. rewrite Forall_forall in HL. unfold signed_excludes.
  rewrite Hlen, Nat.ltb_irrefl, Nat.sub_diag. cbn [repeat_n].
  set (G := fun var : nat => map (fun smp : cfg => 0 <? nth var smp 0) L ++ []).
  assert (Hall : all_some
            (map (fun var => match all_some (map (fun smp => option_map (fun l => 0 <? l) (nth_error smp var)) L) with
                             | Some bits => Some (bits ++ [])
                             | None => None
                             end) (seq 0 n)) = Some (map G (seq 0 n))).
  { apply all_some_map. intros var Hvar. apply in_seq in Hvar.
    rewrite (all_some_map _ (fun smp : cfg => 0 <? nth var smp 0)); [reflexivity|].
    intros smp Hs. rewrite (List.nth_error_nth' smp 0); [reflexivity|].
    rewrite (table_length n smp (HL smp Hs)). lia. }
  rewrite Hall. eexists. split; [reflexivity|].
  intros x Hx. unfold litr in Hx. unfold vec_of.
  replace (x =? 0) with false by (symmetry; apply Z.eqb_neq; lia).
  rewrite nth_error_map.
  rewrite (List.nth_error_nth' (seq 0 n) 0%nat) by (rewrite seq_length; lia).
  rewrite seq_nth by lia. cbn [option_map Nat.add]. f_equal. unfold G, signs.
  rewrite app_nil_r. apply map_ext_in. intros m Hm.
  destruct (table_nth n m (Z.abs x) (HL m Hm) Hx) as [l [El Hl]].
  rewrite (nth_error_nth _ _ 0 El). exact Hl.
Qed.

Lemma abs_bit (x : Z) (m : cfg) : litr x -> In m (all_cfgs n) ->
  memZ (Z.abs x) m = if 0 <? x then memZ x m else negb (memZ x m).
Proof.
  intros Hx Hm. unfold litr in Hx. destruct (0 <? x) eqn:E.
  - apply Z.ltb_lt in E. now rewrite Z.abs_eq by lia.
  - apply Z.ltb_ge in E. rewrite Z.abs_neq by lia.
    pose proof (table_memZ_opp n m (- x) Hm) as H. rewrite Z.opp_involutive in H.
    rewrite H by lia. now rewrite negb_involutive.
Qed.

(* the sign-vector pre-filter only rejects pairs that differ on a model *)
Lemma prefilter_sound (L : list cfg) (a b : Z) :
  Forall (fun m => In m (ModelsA C n A)) L -> litr a -> litr b ->
  xor_any (if 0 <? Z.sgn a * Z.sgn b then signs L a else map negb (signs L a)) (signs L b) = true ->
  ~ EqvA a b.
Proof.
  intros HL Ha Hb Hx He. rewrite Forall_forall in HL. unfold signs in Hx.
  assert (Hbits : forall m, In m L ->
            memZ (Z.abs a) m = (if 0 <? a then memZ a m else negb (memZ a m)) /\
            memZ (Z.abs b) m = (if 0 <? b then memZ b m else negb (memZ b m)) /\
            memZ a m = memZ b m).
  { intros m Hm. pose proof (HL m Hm) as HmA. pose proof (ModelsA_table C n A m HmA) as Ht.
    split; [now apply abs_bit|split; [now apply abs_bit|now apply He]]. }
  unfold litr in Ha, Hb.
  destruct (0 <? Z.sgn a * Z.sgn b) eqn:Es.
  - apply xor_any_map in Hx. destruct Hx as [m [Hm Hne]]. destruct (Hbits m Hm) as [B1 [B2 B3]].
    rewrite B1, B2, B3 in Hne.
    destruct a as [|pa|pa], b as [|pb|pb]; cbn in Es; try discriminate; try lia; cbn in Hne; congruence.
  - rewrite map_map in Hx. apply xor_any_map in Hx. destruct Hx as [m [Hm Hne]].
    destruct (Hbits m Hm) as [B1 [B2 B3]]. rewrite B1, B2, B3 in Hne.
    destruct a as [|pa|pa], b as [|pb|pb]; cbn in Es; try discriminate; try lia; cbn in Hne;
      rewrite ?negb_involutive in Hne; congruence.
Qed.

(* ---- one pair ---- *)
Variable Ldom : Z -> Prop.
Hypothesis Ldom_range : forall l, Ldom l -> litr l.
Hypothesis Hn : Z.of_nat n <= 32767.

Lemma pair_step_spec (ex : list (list bool)) (L : list cfg) (s : scratch) (u : uf) (key a b : Z) :
  (forall x, litr x -> vec_of ex x = Some (signs L x)) ->
  Forall (fun m => In m (ModelsA C n A)) L ->
  Clean C s -> UFInv EqvA Ldom u -> Ldom a -> Ldom b -> cnt a = key -> cnt b = key ->
  exists s' u', pair_step d A ex key (s, u) (a, b) = Some (s', u') /\ Clean C s' /\
                UFInv EqvA Ldom u' /\
                (forall x y, same_class u x y -> same_class u' x y) /\
                (EqvA a b -> same_class u' a b).
Proof.
  intros Hex HL Hcl HI La Lb Ka Kb.
  pose proof (Ldom_range a La) as Ra. pose proof (Ldom_range b Lb) as Rb.
  unfold pair_step. cbn [fst snd].
  rewrite (wrap16_id a), (wrap16_id b) by (unfold litr in *; lia).
  pose proof (uf_disj _ _ _ HI) as HD.
  destruct (uf_equiv a b u) eqn:Eeq.
  - exists s, u. split; [reflexivity|]. split; [exact Hcl|]. split; [exact HI|]. split; [auto|].
    intros _. now apply uf_equiv_iff.
  - unfold prefilter. rewrite (Hex a Ra), (Hex b Rb).
    destruct (xor_any _ _) eqn:Ex.
    + exists s, u. split; [reflexivity|]. split; [exact Hcl|]. split; [exact HI|]. split; [auto|].
      intros He. exfalso. exact (prefilter_sound L a b HL Ra Rb Ex He).
    + destruct (exec (a :: b :: A) s (in_range_cons a _ Ra (in_range_cons b A Rb HA)) Hcl) as [s' [E Hc']].
      rewrite E.
      assert (Hcnt : MCA C n (a :: A) = MCA C n (b :: A)) by (unfold cnt in Ka, Kb; congruence).
      destruct (MCA C n (a :: b :: A) =? key) eqn:Ek.
      * apply Z.eqb_eq in Ek.
        assert (He : EqvA a b) by (apply (confirm_iff C n A a b Hcnt); unfold cnt in Ka; congruence).
        destruct (uf_union_inv EqvA Ldom (Eqv_refl C n A) (Eqv_sym C n A) (Eqv_trans C n A)
                    a b u HI La Lb He Eeq) as [HI' [Hmono Hab]].
        exists s', (uf_union a b u). split; [reflexivity|]. split; [exact Hc'|]. split; [exact HI'|].
        split; [exact Hmono|]. intros _. exact Hab.
      * apply Z.eqb_neq in Ek. exists s', u. split; [reflexivity|]. split; [exact Hc'|].
        split; [exact HI|]. split; [auto|]. intros He. exfalso. apply Ek.
        rewrite <- Ka. unfold cnt. now apply (confirm_iff C n A a b Hcnt).
Qed.

(* ---- all pairs of all groups ---- *)
Definition items (groups : list (Z * list Z)) : list (Z * (Z * Z)) :=
  flat_map (fun g => map (pair (fst g)) (pairs (snd g))) groups.
Definition item_step (ex : list (list bool)) (st : scratch * uf) (it : Z * (Z * Z))
  : option (scratch * uf) := pair_step d A ex (fst it) st (snd it).

Lemma groups_fold (ex : list (list bool)) (groups : list (Z * list Z)) : forall st,
  fold_left (incremental_subset_check d A ex) groups st =
  fold_left (opt_step (item_step ex)) (items groups) st.
Proof.
  induction groups as [|g groups IH]; intros st; [reflexivity|].
  cbn [fold_left items flat_map]. rewrite fold_left_app. fold (items groups). rewrite <- IH. f_equal.
  unfold incremental_subset_check. rewrite fold_left_map. reflexivity.
Qed.

Lemma items_fold (ex : list (list bool)) (L : list cfg) :
  (forall x, litr x -> vec_of ex x = Some (signs L x)) ->
  Forall (fun m => In m (ModelsA C n A)) L ->
  forall (its : list (Z * (Z * Z))) (s : scratch) (u : uf),
  (forall k a b, In (k, (a, b)) its -> Ldom a /\ Ldom b /\ cnt a = k /\ cnt b = k) ->
  Clean C s -> UFInv EqvA Ldom u ->
  exists s' u', fold_left (opt_step (item_step ex)) its (Some (s, u)) = Some (s', u') /\
                Clean C s' /\ UFInv EqvA Ldom u' /\
                (forall x y, same_class u x y -> same_class u' x y) /\
                (forall k a b, In (k, (a, b)) its -> EqvA a b -> same_class u' a b).
Proof.
  intros Hex HL. induction its as [|[k [a b]] its IH]; intros s u Hits Hcl HI.
  - exists s, u. split; [reflexivity|]. split; [exact Hcl|]. split; [exact HI|]. split; [auto|].
    intros ? ? ? [].
  - destruct (Hits k a b (or_introl eq_refl)) as [La [Lb [Ka Kb]]].
    destruct (pair_step_spec ex L s u k a b Hex HL Hcl HI La Lb Ka Kb)
      as [s1 [u1 [E1 [Hc1 [HI1 [Hm1 Hab1]]]]]].
    cbn [fold_left opt_step]. unfold item_step at 2. cbn [fst snd]. rewrite E1.
    destruct (IH s1 u1 (fun k' a' b' H => Hits k' a' b' (or_intror H)) Hc1 HI1)
      as [s2 [u2 [E2 [Hc2 [HI2 [Hm2 Hab2]]]]]].
    exists s2, u2. split; [exact E2|]. split; [exact Hc2|]. split; [exact HI2|]. split.
    + intros x y Hxy. apply Hm2, Hm1, Hxy.
    + intros k' a' b' [E|Hin] He.
      * inversion E; subst. apply Hm2, Hab1, He.
      * exact (Hab2 k' a' b' Hin He).
Qed.
End Main.

(* ---- the whole run ---- *)
Lemma same_class_sym (u : uf) (a b : Z) : same_class u a b -> same_class u b a.
Proof. intros [->|[c [Hc [Ha Hb]]]]; [now left|right; exists c; auto]. Qed.

(* get_atomic_sets after the candidate default and the early return *)
Definition run_body (d : ddnnf) (A : cfg) (cross : bool) (chs : list choice) (considered : list Z)
           (s : scratch) : scratch * option (list (list Z)) * bool :=
  let '(s1, combos) := collect_counts d A cross considered s in
  let groups := group_by_count (sort_by combo_le combos) in
  let '(s2, samples, ok) := uniform_random_sampling d A (Z.of_nat SAMPLE_AMOUNT) chs s1 in
  match signed_excludes (nv d) samples with
  | None => (s2, None, ok)
  | Some ex =>
    match fold_left (incremental_subset_check d A ex) groups (Some (s2, [])) with
    | None => (s2, None, ok)
    | Some (s3, u) => (s3, Some (finish cross u), ok)
    end
  end.

Lemma get_atomic_sets_unfold (d : ddnnf) (cands : option (list Z)) (A : cfg) (cross : bool)
      (chs : list choice) (s : scratch) :
  get_atomic_sets d cands A cross chs s =
  match (match cands with Some c => c | None => zseq 1 (nv d) end) with
  | [] => (s, Some [], true)
  | f :: fs => run_body d A cross chs (f :: fs) s
  end.
Proof. unfold get_atomic_sets, run_body. destruct (match cands with Some c => c | None => _ end); reflexivity. Qed.

Lemma in_items (groups : list (Z * list Z)) (k a b : Z) :
  In (k, (a, b)) (items groups) <-> exists g, In g groups /\ k = fst g /\ In (a, b) (pairs (snd g)).
Proof.
  unfold items. rewrite in_flat_map. split.
  - intros [g [Hg Hin]]. apply in_map_iff in Hin. destruct Hin as [p [E Hp]]. inversion E; subst.
    exists g. auto.
  - intros [g [Hg [-> Hp]]]. exists g. split; [exact Hg|]. apply in_map_iff. exists (a, b). auto.
Qed.

Theorem run_body_spec (C : circuit) (n : nat) (A : cfg) (cross : bool) (fs : list Z)
        (chs : list choice) (s : scratch) :
  WFQ C n -> in_range n A -> 0 < MCA C n A -> Z.of_nat n <= 32767 ->
  (forall f, In f fs -> 1 <= f <= Z.of_nat n) ->
  samples_valid C n A chs -> Clean C s ->
  exists s' ok u,
    run_body (build C n) A cross chs fs s = (s', Some (finish cross u), ok) /\ Clean C s' /\
    UFInv (Eqv C n A) (fun l => In l (lits_of cross fs)) u /\
    (forall a b, In a (lits_of cross fs) -> In b (lits_of cross fs) -> Eqv C n A a b -> same_class u a b).
Proof.
  intros HQ HA Hpos Hn Hfs Hsv Hcl. set (Ls := lits_of cross fs).
  assert (HLs : forall l, In l Ls -> litr n l).
  { unfold Ls, lits_of, litr. intros l Hl. destruct cross.
    - apply in_flat_map in Hl. destruct Hl as [f [Hf [<-|[<-|[]]]]]; specialize (Hfs f Hf); lia.
    - specialize (Hfs l Hl). lia. }
  unfold run_body.
  destruct (collect_counts_spec C n A HQ HA cross fs s) as [s1 [E1 Hc1]]; [|exact Hcl|].
  { intros f Hf. specialize (Hfs f Hf). unfold litr. lia. }
  rewrite E1. fold Ls.
  destruct (sampling_some C n A HQ HA chs (Z.of_nat SAMPLE_AMOUNT) s1 Hpos Hc1) as [s2 [L [ok [E2 Hc2]]]].
  pose proof (Hsv s1 Hc1) as HV. rewrite E2 in HV. destruct HV as [Hlen HL]. rewrite E2.
  destruct (excludes_spec n L Hlen) as [ex [E3 Hex]].
  { rewrite Forall_forall in *. intros m Hm. exact (ModelsA_table C n A m (HL m Hm)). }
  cbn [nv build]. rewrite E3.
  set (combos := map (fun l => (cnt C n A l, l)) Ls).
  set (sorted := sort_by combo_le combos).
  set (groups := group_by_count sorted).
  assert (Hsorted : ssorted (fun a b => fst a <= fst b) sorted).
  { apply (ssorted_impl (fun a b => combo_le a b = true)).
    - intros x y _ _ H. apply combo_le_spec in H. lia.
    - apply sort_by_sorted; [exact combo_le_total|exact combo_le_trans]. }
  assert (Hin_sorted : forall k v, In (k, v) sorted <-> k = cnt C n A v /\ In v Ls).
  { intros k v. unfold sorted. rewrite sort_by_In. unfold combos. rewrite in_map_iff. split.
    - intros [l [E Hl]]. inversion E; subst. auto.
    - intros [-> Hv]. exists v. auto. }
  assert (Hgroup : forall g v, In g groups -> In v (snd g) -> fst g = cnt C n A v /\ In v Ls).
  { intros g v Hg Hv. apply Hin_sorted. exact (group_by_count_in sorted g v Hg Hv). }
  rewrite groups_fold.
  destruct (items_fold C n A HQ HA (fun l => In l Ls) HLs Hn ex L Hex HL (items groups) s2 [])
    as [s3 [u [E4 [Hc3 [HI [_ Hcomp]]]]]].
  - intros k a b Hin. apply in_items in Hin. destruct Hin as [g [Hg [-> Hp]]].
    apply pairs_in in Hp. destruct Hp as [Ha Hb].
    destruct (Hgroup g a Hg Ha) as [Ka La]. destruct (Hgroup g b Hg Hb) as [Kb Lb]. auto.
  - exact Hc2.
  - apply UFInv_nil.
  - rewrite E4. exists s3, ok, u. split; [reflexivity|]. split; [exact Hc3|]. split; [exact HI|].
    intros a b La Lb He. destruct (Z.eq_dec a b) as [->|Hne]; [now left|].
    assert (Hk : cnt C n A a = cnt C n A b) by (unfold cnt; now apply Eqv_counts).
    destruct (group_by_count_complete sorted (cnt C n A a) a b Hsorted) as [g [Hg [Ha Hb]]].
    + apply Hin_sorted. auto.
    + apply Hin_sorted. auto.
    + fold groups in Hg. destruct (pairs_complete (snd g) a b Ha Hb Hne) as [Hp|Hp].
      * apply (Hcomp (fst g) a b); [|exact He]. apply in_items. exists g. auto.
      * apply same_class_sym. apply (Hcomp (fst g) b a); [|now apply Eqv_sym].
        apply in_items. exists g. auto.
Qed.
